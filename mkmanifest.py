#!/usr/bin/env python3
"""Regenerates MANIFEST.json from claims.json (one entry per claimed property) and
properties.jsonl (everything not claimed goes to not_applicable with its reason)."""
import json, os
root = os.path.dirname(os.path.abspath(__file__))
claims = json.load(open(os.path.join(root, "claims.json")))
props = [json.loads(l) for l in open(os.path.join(root, "properties.jsonl"))]
hooks_commits = claims.get("_hook_commits", [])
checks, na = [], []
for p in props:
    pid = p["id"]
    c = claims.get(pid)
    if c and c.get("claimed"):
        checks.append({
            "property_id": pid,
            "quick_cmd": "./check %s --tier quick" % pid,
            "thorough_cmd": "./check %s --tier thorough" % pid,
            "evidence_file": "/verif/evidence/%s.json" % pid,
            "replay_cmd_template": "./check %s --replay {path}" % pid,
            "engine": "coq-proof+correspondence",
            "level_claimed": {"category": "proof", "text": c["text"], "design_ref": "DESIGN.md section 7, %s" % pid},
            "level_note": c["note"],
            "technique": c.get("technique", "Rocq/Coq 8.16 theorems over an executable Gallina model; model tied to /repo by a differential correspondence run evaluated with vm_compute inside Coq and by source facts regenerated with go/ast"),
        })
    else:
        na.append({"property_id": pid, "reason": (c or {}).get("reason", "check not built yet in this round: no theorem and no correspondence run exists for it, so nothing is claimed (see DESIGN.md section 12)")})
m = {
    "version": 1,
    "setup_cmd": "./setup.sh",
    "hooks": {
        "guard": "verif",
        "enable": "go build -tags verif (the harness module replaces github.com/luraproject/lura/v2 by /repo)",
        "baseline_off_cmd": "cd /repo && go test -mod=mod -json -vet=off -count=1 -timeout 25m ./...",
        "source_commits": hooks_commits,
        "add_only": True,
    },
    "engines": [{
        "name": "coq-proof+correspondence", "path": "/verif/check",
        "serves_properties": [c["property_id"] for c in checks],
        "kind_free_text": "Coq 8.16.1 development under /verif/coq (Model/Spec/Proof/Properties/Corr per property), Go harness under /verif/harness driving the real code, Python driver /verif/check",
    }],
    "checks": checks,
    "notes": "All checks share one driver; see DESIGN.md. known_findings.txt lists recorded defects; replays/ holds replay files of the last violations.",
    "not_applicable": na,
}
json.dump(m, open(os.path.join(root, "MANIFEST.json"), "w"), indent=1)
print("claimed:", [c["property_id"] for c in checks])
