// C19 generator: runs the real server.RunServer (and the gin and mux routers' Run, which
// hand their context to it) on 127.0.0.1, imposes scripts of request arrivals, handler
// completions and the cancellation with gates (channels, no sleeps), stamps every event with
// one atomic counter and writes the observed traces for the monitor and the trace-inclusion
// check evaluated inside Coq.
package main

import (
	"crypto/ecdsa"
	"crypto/elliptic"
	"crypto/rand"
	"crypto/x509"
	"crypto/x509/pkix"
	"encoding/pem"
	"fmt"
	"io"
	"log"
	"math/big"
	"net"
	"os"
	"path/filepath"
	"sort"
	"strings"
	"sync"
	"time"

	"github.com/gin-gonic/gin"

	"verif/harness/internal/emit"
	"verif/harness/internal/out"
	"verif/harness/internal/rng"
)

var sizes = []int{0, 1, 100, 3000, 70000}

func scriptCoq(sc []step) string {
	xs := make([]string, len(sc))
	for i, s := range sc {
		switch s.op {
		case "start":
			xs[i] = "SStart"
		case "launch":
			xs[i] = emit.App("SLaunch", emit.Nat(s.r))
		case "release":
			xs[i] = emit.App("SRelease", emit.Nat(s.r))
		case "cancel":
			xs[i] = "SCancel"
		case "late":
			xs[i] = emit.App("SLate", emit.Nat(s.r))
		case "until_refused":
			xs[i] = "SUntilRefused"
		case "pause":
			xs[i] = "SPause"
		case "await":
			xs[i] = "SAwaitReturn"
		case "slow_open":
			xs[i] = emit.App("SSlowOpen", emit.Nat(s.r))
		case "slow_finish":
			xs[i] = emit.App("SSlowFinish", emit.Nat(s.r))
		default:
			panic("unknown step " + s.op)
		}
	}
	return emit.List(xs)
}

func scriptString(sc []step) string {
	xs := make([]string, len(sc))
	for i, s := range sc {
		switch s.op {
		case "launch", "release", "late", "slow_open", "slow_finish":
			xs[i] = fmt.Sprintf("%s %d", s.op, s.r)
		default:
			xs[i] = s.op
		}
	}
	return strings.Join(xs, "; ")
}

// enumerate every order of {launch r, release r | r < n} and one cancel with launch r before
// release r; a request launched after the cancellation is a late attempt (no release step).
func enumerate(n int) [][]step {
	var res [][]step
	seen := map[string]bool{}
	launched := make([]bool, n)
	released := make([]bool, n)
	var cur []step
	var rec func(cancelled bool)
	rec = func(cancelled bool) {
		complete := cancelled
		for r := 0; r < n; r++ {
			if !launched[r] || !released[r] {
				complete = false
			}
		}
		if complete {
			s := finish(cur)
			k := scriptString(s)
			if !seen[k] {
				seen[k] = true
				res = append(res, s)
			}
			return
		}
		if !cancelled {
			cur = append(cur, step{"cancel", 0})
			rec(true)
			cur = cur[:len(cur)-1]
		}
		for r := 0; r < n; r++ {
			if !launched[r] {
				launched[r] = true
				if cancelled {
					released[r] = true
					cur = append(cur, step{"late", 40 + r})
				} else {
					cur = append(cur, step{"launch", r})
				}
				rec(cancelled)
				cur = cur[:len(cur)-1]
				launched[r] = false
				if cancelled {
					released[r] = false
				}
			} else if !released[r] {
				released[r] = true
				cur = append(cur, step{"release", r})
				rec(cancelled)
				cur = cur[:len(cur)-1]
				released[r] = false
			}
		}
	}
	rec(false)
	return res
}

// finish wraps the body of a script: start first; wait for the return and probe afterwards.
func finish(body []step) []step {
	s := []step{{"start", 0}}
	s = append(s, body...)
	s = append(s, step{"await", 0}, step{"late", 80}, step{"late", 81})
	return s
}

// inFlightAtCancel counts the requests launched and not released before the cancel step.
func inFlightAtCancel(sc []step) int {
	open := map[int]bool{}
	for _, s := range sc {
		switch s.op {
		case "launch":
			open[s.r] = true
		case "release":
			delete(open, s.r)
		case "cancel":
			return len(open)
		}
	}
	return 0
}

// decorate inserts pause / until_refused right after the cancel step.
func decorate(sc []step, pause, until bool) []step {
	var res []step
	for _, s := range sc {
		res = append(res, s)
		if s.op == "cancel" {
			if pause {
				res = append(res, step{"pause", 0})
			}
			if until {
				res = append(res, step{"until_refused", 0})
			}
		}
	}
	return res
}

func randomScript(r *rng.R, n int) []step {
	// classes: 0 completed before cancel, 1 in flight at cancel, 2 late
	var pre, post []step
	var before []tok
	var after []tok
	for i := 0; i < n; i++ {
		switch c := r.Intn(10); {
		case c < 3:
			before = append(before, tok{"launch", i}, tok{"release", i})
		case c < 9:
			before = append(before, tok{"launch", i})
			after = append(after, tok{"release", i})
		default:
			after = append(after, tok{"late", 40 + i})
		}
	}
	// random interleaving that keeps launch i before release i
	shuffle := func(ts []tok) []step {
		var res []step
		started := map[int]bool{}
		pend := append([]tok{}, ts...)
		for len(pend) > 0 {
			var ok []int
			for k, t := range pend {
				if t.op != "release" || started[t.r] || !hasLaunch(ts, t.r) {
					ok = append(ok, k)
				}
			}
			k := ok[r.Intn(len(ok))]
			t := pend[k]
			if t.op == "launch" {
				started[t.r] = true
			}
			res = append(res, step{t.op, t.r})
			pend = append(pend[:k], pend[k+1:]...)
		}
		return res
	}
	pre = shuffle(before)
	post = shuffle(after)
	body := append(pre, step{"cancel", 0})
	body = append(body, post...)
	return finish(body)
}

const h2cSig = "use-h2c-upgraded-connection-not-drained"

// findingListed: is the signature an unrepaired finding of C19 in known_findings.txt?
func findingListed(sig string) bool {
	exe, err := os.Executable()
	if err != nil {
		return false
	}
	b, err := os.ReadFile(filepath.Join(filepath.Dir(exe), "..", "..", "known_findings.txt"))
	if err != nil {
		return false
	}
	for _, line := range strings.Split(string(b), "\n") {
		if strings.HasPrefix(line, "finding:") && strings.Contains(line, "property=C19") && strings.Contains(line, "sig="+sig) {
			return true
		}
	}
	return false
}

func midString(s *scenario) string {
	var ids []int
	for id, on := range s.mid {
		if on {
			ids = append(ids, id)
		}
	}
	sort.Ints(ids)
	if len(ids) == 0 {
		return ""
	}
	return fmt.Sprint(ids)
}

func h2cString(s *scenario) string {
	var ids []int
	for id, on := range s.h2c {
		if on && (s.transport == "http" || s.rawOverH2c) {
			ids = append(ids, id)
		}
	}
	sort.Ints(ids)
	if len(ids) == 0 {
		return ""
	}
	return fmt.Sprint(ids)
}

func hasLaunch(ts []tok, r int) bool {
	for _, t := range ts {
		if t.op == "launch" && t.r == r {
			return true
		}
	}
	return false
}

func main() {
	if spec := os.Getenv("C19_CHILD"); spec != "" {
		childMain(spec)
		return
	}
	cfg := out.ParseFlags("C19")
	gin.SetMode(gin.ReleaseMode)
	log.SetOutput(io.Discard) // net/http reports the TLS handshakes the listening probes abort
	makeCertificate(cfg.Dir)
	r := rng.New(cfg.Seed)
	w := out.NewWriter(cfg, "Verif.Corr.C19", 150)
	flavors := []string{"Plain", "Gin", "Mux"}

	var scs []*scenario
	var groups []*group
	groupOf := map[int]string{}
	mk := func(fl string, held, keep bool, sc []step, tag string) *scenario {
		s := &scenario{flavor: fl, portHeld: held, keepalive: keep, script: sc, tag: tag, sizes: map[int]int{}, split: map[int]bool{}, h2c: map[int]bool{}, mid: map[int]bool{}, ctxKind: "cancel", transport: "http"}
		switch k := r.Intn(20); {
		case k < 4:
			s.transport = "tls"
		case k < 6:
			s.transport = "tls_h2"
		case k < 8:
			s.transport = "h2c"
		}
		for _, st := range sc {
			if st.op == "launch" || st.op == "late" || st.op == "slow_open" {
				s.sizes[st.r] = sizes[r.Intn(len(sizes))]
				s.split[st.r] = r.Chance(1, 3)
			}
			if st.op == "launch" {
				s.h2c[st.r] = s.transport == "http" && r.Chance(1, 4)
				s.mid[st.r] = r.Chance(1, 3)
			}
		}
		s.ctxAware = r.Chance(2, 3)
		switch k := r.Intn(8); {
		case k < 2:
			s.ctxKind = "dl_expire"
		case k == 2:
			s.ctxKind = "dl_child"
		case k == 3:
			s.ctxKind = "dl_cancel"
		}
		hasCancel := false
		for _, st := range sc {
			hasCancel = hasCancel || st.op == "cancel"
		}
		if !hasCancel && (s.ctxKind == "dl_expire" || s.ctxKind == "dl_child") {
			s.ctxKind = "dl_cancel" // no cancel step: the deadline must not expire on its own
		}
		scs = append(scs, s)
		return s
	}
	add := func(fl string, held, keep bool, sc []step, tag string) *scenario {
		s := mk(fl, held, keep, sc, tag)
		g := &group{idx: []int{len(scs) - 1}}
		for _, st := range sc {
			g.order = append(g.order, gstep{0, st})
		}
		groups = append(groups, g)
		return s
	}
	// several servers driven by ONE runner func (server.RunServerWithLoggerFactory(nil)), each with its
	// own context, port, clients and trace; every member is one case, checked by the same monitor
	addGroup := func(fl string, held []bool, keep bool, order []gstep, tag string) {
		g := &group{order: order, shared: true}
		for i := range held {
			var sc []step
			for _, gs := range order {
				if gs.srv == i {
					sc = append(sc, gs.st)
				}
			}
			mk(fl, held[i], keep, sc, tag)
			g.idx = append(g.idx, len(scs)-1)
		}
		var desc []string
		for _, gs := range order {
			desc = append(desc, fmt.Sprintf("%c:%s", 'A'+gs.srv, scriptString([]step{gs.st})))
		}
		for i, k := range g.idx {
			groupOf[k] = fmt.Sprintf("server %c of %d driven by one runner func; global order: %s", 'A'+i, len(held), strings.Join(desc, "; "))
		}
		groups = append(groups, g)
	}
	ms := func(n int) time.Duration { return time.Duration(n) * time.Millisecond }
	// small server timeouts; write is only ever set large next to gated requests (a small write
	// timeout legitimately cuts any answer written later than that, shutdown or not)
	type tcfg struct{ idle, read, write, readHeader time.Duration }
	timeoutCfgs := []tcfg{
		{idle: ms(30)}, {idle: ms(80)}, {read: ms(60)}, {readHeader: ms(60)}, {write: 2 * time.Minute},
		{idle: ms(40), read: ms(70)}, {idle: ms(50), readHeader: ms(50)}, {read: ms(80), readHeader: ms(40)},
		{idle: ms(40), read: ms(60), readHeader: ms(50)}, {idle: ms(30), read: ms(80), write: 2 * time.Minute, readHeader: ms(60)},
	}
	withCfg := func(s *scenario, c tcfg) *scenario {
		if s.transport == "tls_h2" {
			return s // the HTTP/2 server has its own reading of these timeouts: not mixed here
		}
		s.idle, s.read, s.write, s.readHeader = c.idle, c.read, c.write, c.readHeader
		return s
	}
	L := func(i int) step { return step{"launch", i} }
	R := func(i int) step { return step{"release", i} }
	C := step{"cancel", 0}
	P := step{"pause", 0}
	U := step{"until_refused", 0}

	// ---- regression corpus: the shapes every mutation of the runner must meet ----
	for _, fl := range flavors {
		for _, keep := range []bool{false, true} {
			// one request in flight at the cancellation, the runner is given time to return early
			add(fl, false, keep, finish([]step{L(0), C, P, R(0)}), "corpus")
			// in flight + the listener must refuse while the handler is still running
			add(fl, false, keep, finish([]step{L(0), C, U, R(0)}), "corpus")
			add(fl, false, keep, finish([]step{L(0), L(1), R(0), C, P, U, R(1)}), "corpus")
			// nothing in flight
			add(fl, false, keep, finish([]step{C}), "corpus")
			add(fl, false, keep, finish([]step{L(0), R(0), C}), "corpus")
			add(fl, false, keep, finish([]step{L(0), R(0), C, U}), "corpus")
			// late attempts racing with the shutdown
			add(fl, false, keep, finish([]step{L(0), C, {"late", 41}, {"late", 42}, R(0)}), "corpus")
		}
		// many in flight, large bodies, half written before the gate
		big := []step{}
		for i := 0; i < 32; i++ {
			big = append(big, L(i))
		}
		big = append(big, C, P)
		for i := 31; i >= 0; i-- {
			big = append(big, R(i))
		}
		s := add(fl, false, false, finish(big), "corpus")
		for i := 0; i < 32; i++ {
			s.sizes[i] = sizes[3+i%2]
			s.split[i] = i%3 == 0
		}
		// context cancelled before the runner is called
		add(fl, false, false, []step{C, {"start", 0}, {"await", 0}, {"late", 80}}, "corpus")
		add(fl, false, false, []step{C, {"start", 0}, {"late", 40}, {"await", 0}, {"late", 80}}, "corpus")
		// the listener cannot be started
		add(fl, true, false, []step{{"start", 0}, {"await", 0}}, "corpus")
		add(fl, true, false, []step{{"start", 0}, {"await", 0}, C}, "corpus")
		add(fl, true, false, []step{{"start", 0}, P, C, {"await", 0}}, "corpus")
		add(fl, true, false, []step{C, {"start", 0}, {"await", 0}}, "corpus")
	}

	// ---- corpus: handlers that follow their request context; small server timeouts ----
	for _, fl := range flavors {
		for _, keep := range []bool{false, true} {
			// the request context of an in-flight request must survive the cancellation of the runner's
			add(fl, false, keep, finish([]step{L(0), C, P, R(0)}), "corpus_ctx").ctxAware = true
			add(fl, false, keep, finish([]step{L(0), L(1), R(1), C, U, R(0)}), "corpus_ctx").ctxAware = true
			for ci, c := range timeoutCfgs {
				// in flight at the cancellation, released well after every small timeout has passed
				withCfg(add(fl, false, keep, finish([]step{L(0), C, P, R(0)}), "timeouts"), c)
				if ci%2 == 0 {
					withCfg(add(fl, false, keep, finish([]step{L(0), L(1), R(0), C, P, U, R(1)}), "timeouts"), c)
				} else {
					withCfg(add(fl, false, keep, finish([]step{L(0), R(0), L(1), C, P, {"late", 41}, R(1)}), "timeouts"), c)
				}
			}
		}
		// a small write timeout alone: only where no answer is gated
		withCfg(add(fl, false, false, finish([]step{C}), "timeouts"), tcfg{write: ms(40)})
		withCfg(add(fl, true, false, []step{{"start", 0}, {"await", 0}}, "timeouts"), tcfg{idle: ms(30), read: ms(40), write: ms(40), readHeader: ms(30)})
		withCfg(add(fl, true, false, []step{{"start", 0}, {"await", 0}}, "timeouts"), tcfg{idle: ms(30)})
		withCfg(add(fl, false, false, []step{C, {"start", 0}, {"await", 0}, {"late", 80}}, "timeouts"), tcfg{idle: ms(30), read: ms(40), readHeader: ms(30)})
	}

	// ---- corpus: in-flight requests from raw-socket clients that offer the h2c upgrade ----
	for _, fl := range flavors {
		for k := 0; k < 2; k++ {
			sn := add(fl, false, false, finish([]step{L(0), C, P, R(0)}), "corpus_h2c")
			sn.h2c[0], sn.transport = true, "http"
			sn = add(fl, false, k == 1, finish([]step{L(0), L(1), R(0), C, P, U, R(1)}), "corpus_h2c")
			sn.h2c[0], sn.h2c[1], sn.transport = true, k == 0, "http"
			sn = add(fl, false, false, finish([]step{L(0), L(1), L(2), C, P, R(2), R(0), {"late", 41}, R(1)}), "corpus_h2c")
			sn.h2c[0], sn.h2c[1], sn.h2c[2], sn.transport = true, false, true, "http"
			sn.sizes[0], sn.sizes[2] = 70000, 3000
		}
	}

	// ---- corpus: requests held in a user middleware at the cancellation; slow request heads; deadlines ----
	SO := func(i int) step { return step{"slow_open", i} }
	SF := func(i int) step { return step{"slow_finish", i} }
	for _, fl := range flavors {
		for k, kind := range []string{"cancel", "dl_expire", "dl_child", "dl_cancel"} {
			sn := add(fl, false, k%2 == 1, finish([]step{L(0), C, P, R(0)}), "corpus_mid_deadline")
			sn.mid[0], sn.ctxKind = true, kind
			sn = add(fl, false, false, finish([]step{L(0), L(1), R(0), C, P, U, R(1)}), "corpus_mid_deadline")
			sn.mid[0], sn.mid[1], sn.ctxKind = k%2 == 0, true, kind
			sn = add(fl, false, k%2 == 0, finish([]step{L(0), L(1), C, P, R(1), R(0)}), "corpus_mid_deadline")
			sn.mid[0], sn.mid[1], sn.ctxKind = false, false, kind
			// the request head is still being received at the cancellation: not "already being handled";
			// it must be served in full or not at all
			sn = add(fl, false, false, finish([]step{L(0), SO(90), C, P, SF(90), R(0)}), "corpus_slow_head")
			sn.ctxKind = kind
			sn = add(fl, false, false, finish([]step{SO(90), SO(91), C, SF(91), SF(90)}), "corpus_slow_head")
			sn.ctxKind = kind
		}
	}

	// ---- corpus: the shutdown shapes over TLS, HTTP/2 over TLS and with use_h2c on ----
	for _, fl := range flavors {
		for _, tr := range []string{"tls", "tls_h2", "h2c"} {
			for k := 0; k < 2; k++ {
				for _, sc := range [][]step{
					finish([]step{L(0), C, P, R(0)}),
					finish([]step{L(0), L(1), R(0), C, P, U, R(1)}),
					finish([]step{L(0), R(0), C, U}),
					finish([]step{L(0), L(1), L(2), C, {"late", 41}, R(2), R(0), R(1)}),
				} {
					sn := add(fl, false, k == 1, sc, "corpus_transport")
					sn.transport, sn.h2c = tr, map[int]bool{}
					if tr == "tls_h2" {
						sn.idle, sn.read, sn.write, sn.readHeader = 0, 0, 0, 0
					}
				}
			}
			sn := add(fl, true, false, []step{{"start", 0}, {"await", 0}}, "corpus_transport")
			sn.transport = tr
			sn = add(fl, false, false, finish([]step{L(0), SO(90), C, P, SF(90), R(0)}), "corpus_transport")
			sn.transport, sn.h2c = tr, map[int]bool{}
			if tr == "tls_h2" {
				sn.transport = "tls"
			}
		}
		// the listening socket cannot be created: a temporary error must be returned like any other
		for k := 0; k < 2; k++ {
			sn := add(fl, true, false, []step{{"start", 0}, {"await", 0}}, "listen_fail_temporary")
			sn.listenErr, sn.transport, sn.ctxKind = "emfile", "http", "cancel"
		}
	}

	// Recorded finding (unrepaired): with use_h2c on, a connection that takes the h2c upgrade is hijacked
	// by the h2c handler and Shutdown does not wait for it. These cases carry the signature of the finding;
	// they are generated only when known_findings.txt lists it (or for a manual probe).
	h2cProbe := os.Getenv("C19_PROBE_H2C_UPGRADE") != "" || findingListed(h2cSig)
	sigOf := map[*scenario]string{}
	if h2cProbe {
		for _, fl := range flavors {
			sn := add(fl, false, false, finish([]step{L(0), C, P, R(0)}), "finding_h2c_upgrade")
			sn.transport, sn.h2c[0], sn.mid[0], sn.rawOverH2c = "h2c", true, false, true
			sigOf[sn] = h2cSig
			// an upgraded and an ordinary request side by side: the ordinary one is drained, the upgraded one is not
			sn = add(fl, false, false, finish([]step{L(1), L(0), C, P, R(1), R(0)}), "finding_h2c_upgrade")
			sn.transport, sn.h2c, sn.mid, sn.rawOverH2c = "h2c", map[int]bool{0: true}, map[int]bool{}, true
			sigOf[sn] = h2cSig
			sn = add(fl, false, false, finish([]step{L(0), L(1), L(2), R(2), C, P, R(0), R(1)}), "finding_h2c_upgrade")
			sn.transport, sn.h2c, sn.mid, sn.rawOverH2c = "h2c", map[int]bool{0: true, 2: true}, map[int]bool{1: true}, true
			sigOf[sn] = h2cSig
		}
	}

	// ---- reload: a second runner is started on the SAME address while the first instance is draining ----
	addReload := func(fl string, keep bool, order []gstep, tag string) {
		g := &group{order: order, shared: false}
		for i := 0; i < 2; i++ {
			var sc []step
			for _, gs := range order {
				if gs.srv == i {
					sc = append(sc, gs.st)
				}
			}
			sn := mk(fl, false, keep, sc, tag)
			sn.transport, sn.ctxKind, sn.h2c = "http", "cancel", map[int]bool{}
			sn.idle, sn.read, sn.write, sn.readHeader = 0, 0, 0, 0
			sn.reload = i == 1
			g.idx = append(g.idx, len(scs)-1)
		}
		var desc []string
		for _, gs := range order {
			desc = append(desc, fmt.Sprintf("%c:%s", 'A'+gs.srv, scriptString([]step{gs.st})))
		}
		for i, k := range g.idx {
			groupOf[k] = fmt.Sprintf("instance %c of a reload on one address (B is started while A drains); global order: %s", 'A'+i, strings.Join(desc, "; "))
		}
		groups = append(groups, g)
	}
	{
		G := func(srv int, st step) gstep { return gstep{srv, st} }
		S, A := step{"start", 0}, step{"await", 0}
		rreps := 1
		if cfg.Thorough() {
			rreps = 6
		}
		for rep := 0; rep < rreps; rep++ {
			for _, fl := range flavors {
				// the old listener is known to be closed before the new instance starts
				addReload(fl, rep%2 == 1, []gstep{G(0, S), G(0, L(0)), G(0, C), G(0, U), G(1, S), G(0, P), G(0, R(0)), G(0, A),
					G(1, C), G(1, A), G(0, step{"late", 80}), G(1, step{"late", 81})}, "reload_same_address")
				// the new instance starts right after the cancellation (it may find the address busy)
				addReload(fl, false, []gstep{G(0, S), G(0, L(0)), G(0, L(1)), G(0, R(1)), G(0, C), G(1, S), G(0, P), G(0, R(0)), G(0, A),
					G(1, C), G(1, A), G(0, step{"late", 80}), G(1, step{"late", 81})}, "reload_same_address")
			}
		}
	}

	// ---- one runner func, several servers ----
	G := func(srv int, st step) gstep { return gstep{srv, st} }
	S := step{"start", 0}
	A := step{"await", 0}
	greps := 2
	if cfg.Thorough() {
		greps = 12
	}
	for rep := 0; rep < greps; rep++ {
		for _, fl := range flavors {
			keep := rep%2 == 1
			// A is cancelled with a request in flight; B's runner must not return, B keeps serving; then B
			addGroup(fl, []bool{false, false}, keep, []gstep{
				G(0, S), G(1, S), G(0, L(0)), G(1, L(0)), G(0, C), G(0, P), G(1, P), G(0, R(0)), G(0, A), G(0, step{"late", 80}),
				G(1, P), G(1, L(1)), G(1, R(1)), G(1, C), G(1, P), G(1, R(0)), G(1, A), G(1, step{"late", 80}), G(1, step{"late", 81})}, "shared_runner")
			// A idle when cancelled
			addGroup(fl, []bool{false, false}, keep, []gstep{
				G(0, S), G(1, S), G(1, L(0)), G(0, C), G(0, A), G(0, step{"late", 80}), G(1, P), G(1, L(1)), G(1, C), G(1, U),
				G(1, R(1)), G(1, R(0)), G(1, A), G(1, step{"late", 80})}, "shared_runner")
			// three servers, cancelled one after the other (B first)
			addGroup(fl, []bool{false, false, false}, keep, []gstep{
				G(0, S), G(1, S), G(2, S), G(0, L(0)), G(1, L(0)), G(2, L(0)), G(1, C), G(1, P), G(1, R(0)), G(1, A), G(1, step{"late", 80}),
				G(0, P), G(2, P), G(0, L(1)), G(2, L(1)), G(0, C), G(0, R(1)), G(0, R(0)), G(0, A), G(0, step{"late", 80}),
				G(2, P), G(2, R(0)), G(2, C), G(2, P), G(2, R(1)), G(2, A), G(2, step{"late", 80})}, "shared_runner")
			// B cannot listen: B's runner returns B's error, A is not disturbed
			addGroup(fl, []bool{false, true}, keep, []gstep{
				G(0, S), G(0, L(0)), G(1, S), G(1, A), G(0, P), G(0, L(1)), G(0, C), G(0, P), G(0, R(0)), G(0, R(1)), G(0, A), G(0, step{"late", 80})}, "shared_runner")
		}
	}

	// ---- exhaustive small scope ----
	maxN := map[string]int{"Plain": 3, "Gin": 2, "Mux": 2}
	if cfg.Thorough() {
		maxN = map[string]int{"Plain": 4, "Gin": 3, "Mux": 3}
	}
	full := map[string]int{"Plain": 3, "Gin": maxN["Gin"], "Mux": maxN["Mux"]}
	exhaustiveBound := fmt.Sprintf("every order of launch/release/cancel for up to %d (plain), %d (gin), %d (mux) requests", full["Plain"], full["Gin"], full["Mux"])
	if cfg.Thorough() {
		exhaustiveBound += " and a fifth of the orders for 4 requests (plain)"
	}
	for _, fl := range flavors {
		for n := 0; n <= maxN[fl]; n++ {
			for _, sc := range enumerate(n) {
				// every scenario uses its own port and leaves it in TIME_WAIT for a minute: the whole
				// run must stay well below the size of the ephemeral range
				if n > full[fl] && !r.Chance(1, 5) {
					continue
				}
				inflight := inFlightAtCancel(sc)
				pause := inflight > 0 && r.Chance(1, 12)
				until := r.Chance(1, 10)
				sn := add(fl, false, r.Chance(1, 4), decorate(sc, pause, until), "exhaustive")
				if r.Chance(1, 8) {
					withCfg(sn, timeoutCfgs[r.Intn(len(timeoutCfgs))])
				}
			}
		}
	}
	// ---- structured random: up to 32 requests ----
	nrand := 150
	if cfg.Thorough() {
		nrand = 2000
	}
	for i := 0; i < nrand; i++ {
		n := []int{4, 5, 6, 8, 12, 16, 24, 32}[r.Intn(8)]
		if i%10 == 0 {
			n = 32
		}
		sc := randomScript(r, n)
		inflight := inFlightAtCancel(sc)
		dsc := decorate(sc, inflight > 0 && r.Chance(1, 6), r.Chance(1, 6))
		if r.Chance(1, 5) {
			var with []step
			for _, st := range dsc {
				if st.op == "cancel" {
					with = append(with, step{"slow_open", 90})
				}
				if st.op == "await" {
					with = append(with, step{"slow_finish", 90})
				}
				with = append(with, st)
			}
			dsc = with
		}
		sn := add(flavors[r.Intn(3)], false, r.Chance(1, 3), dsc, "random")
		if r.Chance(1, 4) {
			withCfg(sn, timeoutCfgs[r.Intn(len(timeoutCfgs))])
		}
	}
	// ---- listener failures and early cancellations again (the select is a race) ----
	reps := 6
	if cfg.Thorough() {
		reps = 60
	}
	for i := 0; i < reps; i++ {
		for _, fl := range flavors {
			add(fl, true, false, []step{{"start", 0}, {"await", 0}}, "listen_fail")
			add(fl, true, false, []step{C, {"start", 0}, {"await", 0}}, "listen_fail")
			add(fl, false, false, []step{C, {"start", 0}, {"late", 40}, {"await", 0}, {"late", 80}}, "early_cancel")
		}
	}

	// ---- run (in parallel, emitted in order) ----
	workers := 8
	results := make([]*result, len(scs))
	runG := func(g *group) {
		ms := make([]*scenario, len(g.idx))
		for i, k := range g.idx {
			ms[i] = scs[k]
		}
		for i, res := range runGroup(g, ms) {
			results[g.idx[i]] = res
		}
	}
	if cfg.Only >= 0 {
		for _, g := range groups {
			for _, k := range g.idx {
				if k == cfg.Only {
					runG(g)
				}
			}
		}
	} else {
		var wg sync.WaitGroup
		next := make(chan *group)
		for k := 0; k < workers; k++ {
			wg.Add(1)
			go func() {
				defer wg.Done()
				for g := range next {
					runG(g)
				}
			}()
		}
		for _, g := range groups {
			next <- g
		}
		close(next)
		wg.Wait()
	}

	retries, stallRetries := 0, 0
	for i, s := range scs {
		canon := fmt.Sprintf("%s|%v|%v|%s|%s", s.flavor, s.portHeld, s.keepalive, scriptString(s.script), s.cfgString()) + h2cString(s) + "|" + midString(s) + groupOf[i]
		inflight := inFlightAtCancel(s.script)
		nontrivial := inflight > 0 || s.portHeld || s.script[0].op == "cancel"
		res := results[i]
		if res == nil {
			w.Add("", nil, "", canon, nontrivial)
			continue
		}
		retries += res.retries
		stallRetries += res.stallRetries
		var evs []string
		var evjs []string
		for _, e := range res.trace {
			evs = append(evs, e.term)
			evjs = append(evjs, e.js)
		}
		tr := map[string]string{"http": "THttp", "tls": "TTls", "tls_h2": "TTlsH2", "h2c": "TH2c"}[s.transport]
		le := "LNone"
		if s.reload && res.rv == "VListenErr" {
			// the address was still held by the draining instance: a listener that could not start
			le = "LAddrInUse"
			evs = append([]string{"ListenFail"}, evs...)
			evjs = append([]string{"ListenFail"}, evjs...)
		}
		if s.listenErr == "emfile" {
			le = "LTemporary"
		} else if s.portHeld {
			le = "LAddrInUse"
		}
		term := emit.App("CRun", s.flavor, tr, le, scriptCoq(s.script), emit.List(evs))
		if s.rawOverH2c {
			var ups []int
			for id, on := range s.h2c {
				if on {
					ups = append(ups, id)
				}
			}
			sort.Ints(ups)
			term = emit.App("CRunUpgraded", s.flavor, emit.NatList(ups), scriptCoq(s.script), emit.List(evs))
		}
		ids := make([]int, 0, len(s.sizes))
		for id := range s.sizes {
			ids = append(ids, id)
		}
		sort.Ints(ids)
		var bodies []string
		for _, id := range ids {
			bodies = append(bodies, fmt.Sprintf("%d:%d%s", id, s.sizes[id], map[bool]string{true: "/split", false: ""}[s.split[id]]))
		}
		js := map[string]interface{}{
			"router": s.flavor, "transport": s.transport, "listen_error": s.listenErr, "port_held": s.portHeld, "keepalive": s.keepalive, "script": scriptString(s.script),
			"bodies": strings.Join(bodies, " "), "in_flight_at_cancel": inflight, "config": s.cfgString(), "h2c_upgrade_clients": h2cString(s), "held_in_middleware": midString(s), "group": groupOf[i],
			"observed": map[string]interface{}{"trace": strings.Join(evjs, " "), "runner_error": res.errText, "notes": res.notes, "clients": res.clients},
		}
		w.Count("router:" + s.flavor)
		w.Count("stream:" + s.tag)
		w.Count(fmt.Sprintf("in_flight_at_cancel:%02d", inflight))
		if s.portHeld {
			w.Count("port_held")
		}
		if s.keepalive {
			w.Count("keepalive")
		}
		if s.ctxAware {
			w.Count("handlers_follow_request_context")
		}
		if h2cString(s) != "" {
			w.Count("with_h2c_upgrade_clients")
		}
		if midString(s) != "" {
			w.Count("with_requests_held_in_middleware")
		}
		w.Count("ctx:" + s.ctxKind)
		w.Count("transport:" + s.transport)
		if s.listenErr != "" {
			w.Count("listen_error:" + s.listenErr)
		}
		if groupOf[i] != "" && !strings.HasPrefix(groupOf[i], "instance") {
			w.Count("shared_runner_func")
		}
		if s.reload {
			w.Count("reload_instance_bound:" + map[bool]string{true: "no_address_in_use", false: "yes"}[res.rv == "VListenErr"])
		}
		for name, d := range map[string]time.Duration{"idle_timeout": s.idle, "read_timeout": s.read, "write_timeout": s.write, "read_header_timeout": s.readHeader} {
			if d > 0 {
				w.Count("cfg:" + name)
			}
		}
		w.Count("runner_return:" + res.rv)
		for _, k := range res.counts {
			w.Count(k)
		}
		w.Add(term, js, sigOf[s], canon, nontrivial)
	}
	w.Meta["port_retries_address_in_use"] = retries
	w.Meta["scenarios_rerun_after_expired_wait"] = stallRetries
	w.Meta["exhaustive_bound"] = exhaustiveBound
	w.Close("real server.RunServer / gin Run (lura's engine and endpoint handler) / mux Run (lura's endpoint handler) on 127.0.0.1; transports: cleartext, TLS with a self-signed certificate made at run time (HTTP/1.1 and HTTP/2), use_h2c on; listener failures: port held, and socket creation failing with EMFILE in a child process with a full descriptor table (bounded); a quarter of the scripted cleartext requests come from raw-socket clients offering the h2c upgrade; a third are held by a gated user middleware (Config.Middlewares) before the endpoint handler; raw clients whose request head is completed only after the cancellation; the runner's context is WithCancel, a hand-cancelled WithTimeout, a WithTimeout that expires at the cancel step, or a child of one; groups of 2-3 servers driven by one runner func with independent contexts (each server one case); two thirds of the handlers / stub proxies follow their request context as lura's pipes do; ServiceConfig idle/read/read_header timeouts of 30-80 ms alone and combined (write timeout large next to gated answers) with in-flight handlers held past them; corpus (in flight at cancel with early-return window, refusal while handlers run, 32 in flight with large half-written bodies, cancel before start, port held) + "+exhaustiveBound+" + random scripts with up to 32 requests + repeated listener-failure/early-cancel races; compared: imposed order, trace inclusion in the model, graceful_b; nontrivial = a request in flight at the cancellation, port held or cancelled before start", true)
	if len(scs) == 0 {
		os.Exit(1)
	}
}

// makeCertificate writes a self-signed certificate for 127.0.0.1 into the output directory
func makeCertificate(dir string) {
	os.MkdirAll(dir, 0o755)
	key, err := ecdsa.GenerateKey(elliptic.P256(), rand.Reader)
	if err != nil {
		panic(err)
	}
	tmpl := &x509.Certificate{SerialNumber: big.NewInt(19), Subject: pkix.Name{CommonName: "c19"},
		NotBefore: time.Now().Add(-time.Hour), NotAfter: time.Now().Add(24 * time.Hour),
		KeyUsage: x509.KeyUsageDigitalSignature | x509.KeyUsageCertSign, ExtKeyUsage: []x509.ExtKeyUsage{x509.ExtKeyUsageServerAuth},
		IsCA: true, BasicConstraintsValid: true, IPAddresses: []net.IP{net.ParseIP("127.0.0.1")}, DNSNames: []string{"localhost"}}
	der, err := x509.CreateCertificate(rand.Reader, tmpl, tmpl, &key.PublicKey, key)
	if err != nil {
		panic(err)
	}
	kb, err := x509.MarshalECPrivateKey(key)
	if err != nil {
		panic(err)
	}
	certFile, keyFile = filepath.Join(dir, "c19-cert.pem"), filepath.Join(dir, "c19-key.pem")
	os.WriteFile(certFile, pem.EncodeToMemory(&pem.Block{Type: "CERTIFICATE", Bytes: der}), 0o600)
	os.WriteFile(keyFile, pem.EncodeToMemory(&pem.Block{Type: "EC PRIVATE KEY", Bytes: kb}), 0o600)
}
