package main

import (
	"bufio"
	"bytes"
	"context"
	"crypto/tls"
	"encoding/json"
	"errors"
	"fmt"
	"io"
	"net"
	"net/http"
	"os"
	"os/exec"
	"strconv"
	"strings"
	"sync"
	"sync/atomic"
	"syscall"
	"time"

	"github.com/gin-gonic/gin"
	"github.com/luraproject/lura/v2/config"
	"github.com/luraproject/lura/v2/proxy"
	krakendgin "github.com/luraproject/lura/v2/router/gin"
	"github.com/luraproject/lura/v2/router/mux"
	"github.com/luraproject/lura/v2/transport/http/server"
	"golang.org/x/net/http2"
	"golang.org/x/net/http2/hpack"

	"verif/harness/internal/emit"
)

type step struct {
	op string
	r  int
}

type tok struct {
	op string
	r  int
}

type scenario struct {
	flavor    string
	portHeld  bool
	keepalive bool
	script    []step
	tag       string
	sizes     map[int]int
	split     map[int]bool
	// handlers / stub proxies honour the request context the way lura's own pipes do: they wait
	// for the gate OR the end of the context (then: 500 "context canceled" / an error to the
	// endpoint handler)
	ctxAware bool
	// requests sent by a raw-socket client that offers the h2c upgrade (what curl --http2 sends)
	h2c map[int]bool
	// requests that are held by a user middleware (Config.Middlewares; a wrapper for the plain handler)
	// BEFORE the router's endpoint handler runs: "accepted" is stamped in the middleware
	mid map[int]bool
	// kind of context handed to the runner: cancel (WithCancel) | dl_cancel (WithTimeout, cancelled by hand)
	// | dl_expire (WithTimeout that expires at the cancel step) | dl_child (WithCancel child of such a context)
	ctxKind string
	// http | tls (HTTP/1.1 over TLS, self-signed certificate made at run time) | tls_h2 (HTTP/2 over TLS)
	// | h2c (use_h2c on, HTTP/1.1 clients through the h2c handler)
	transport string
	// "" | emfile: the listening socket cannot be created (descriptor table full, in a child process)
	listenErr string
	// finding probe only: the raw upgrade client is used although use_h2c is on
	rawOverH2c bool
	// a reload: this server is started on the SAME address as the first member of its group while that one
	// is draining; it may bind (the first listener is closed) or fail with address in use - both are fine
	reload bool
	// ServiceConfig timeouts handed to the runner (0 = unset)
	idle, read, write, readHeader time.Duration
}

func (s *scenario) cfgString() string {
	return fmt.Sprintf("ctx_aware=%v idle=%v read=%v write=%v read_header=%v ctx=%s", s.ctxAware, s.idle, s.read, s.write, s.readHeader, s.ctxKind) + " transport=" + s.transport + map[bool]string{true: " listen_error=" + s.listenErr, false: ""}[s.listenErr != ""]
}

// the longest of the small timeouts (write excluded: it is only set small when no request is gated)
func (s *scenario) maxSmall() time.Duration {
	m := s.idle
	for _, d := range []time.Duration{s.read, s.readHeader} {
		if d > m {
			m = d
		}
	}
	return m
}

type event struct {
	stamp int64
	term  string
	js    string
}

type result struct {
	trace        []event
	rv           string
	errText      string
	notes        []string
	clients      map[string]string
	counts       []string
	retries      int
	stallRetries int
}

// bounded waits: none of them is ever reached by the unchanged code; they keep the generator
// from hanging on a broken runner (the missing event then fails the checks).
const (
	waitStep      = 30 * time.Second
	waitReturn    = 30 * time.Second
	pauseWindow   = 15 * time.Millisecond
	clientTimeout = 60 * time.Second
	stillOpenWait = 10 * time.Second
)

// A bounded wait that expires leaves a note. A scenario with notes is run again (twice at
// most): a stalled machine does not reproduce, a broken runner does. After maxStalls such
// scenarios the generator stops retrying and shortens the bounds (the violation is established;
// the remaining scenarios must not take hours).
const maxStalls = 6

// at most this many attempts in one until_refused step (keeps traces short)
const maxPolls = 60

var stallCount atomic.Int64

func bound(d time.Duration) time.Duration {
	if stallCount.Load() >= maxStalls && d > 3*time.Second {
		return 3 * time.Second
	}
	return d
}

var tokenCounter atomic.Int64

type reqSpec struct {
	mid                          bool
	id                           int
	size                         int
	split                        bool
	gate                         chan struct{}
	entered                      chan struct{}
	finished                     chan struct{}
	enterOnce, finOnce, gateOnce sync.Once
}

type world struct {
	scheme   string
	ctxAware bool
	clock    atomic.Int64
	mu       sync.Mutex
	evs      []event
	frozen   bool
	token    string
	specs    map[int]*reqSpec
	notes    []string
	clients  map[string]string
	logged   []string
}

func (w *world) rec(term, js string) {
	w.mu.Lock()
	defer w.mu.Unlock()
	if w.frozen {
		return
	}
	// the stamp is taken under the same lock that orders the slice: one total order
	w.evs = append(w.evs, event{w.clock.Add(1), term, js})
}

func (w *world) note(s string) {
	w.mu.Lock()
	w.notes = append(w.notes, s)
	w.mu.Unlock()
}

func (w *world) spec(id int) *reqSpec {
	w.mu.Lock()
	defer w.mu.Unlock()
	sp, ok := w.specs[id]
	if !ok {
		// an attempt nobody scripted a gate for: never blocks
		sp = &reqSpec{id: id, size: 10, gate: make(chan struct{}), entered: make(chan struct{}), finished: make(chan struct{})}
		close(sp.gate)
		sp.gateOnce.Do(func() {})
		w.specs[id] = sp
	}
	return sp
}

func expectedBody(id, size int) []byte {
	b := make([]byte, size)
	for i := range b {
		b[i] = byte('a' + (id+i)%26)
	}
	return b
}

// enter / leave bracket the handler of request id
func (w *world) enter(id int) *reqSpec {
	sp := w.spec(id)
	w.rec(emit.App("Accept", emit.Nat(id)), fmt.Sprintf("Accept(%d)", id))
	sp.enterOnce.Do(func() { close(sp.entered) })
	return sp
}

func (w *world) leave(sp *reqSpec) {
	w.rec(emit.App("HandlerDone", emit.Nat(sp.id)), fmt.Sprintf("HandlerDone(%d)", sp.id))
	sp.finOnce.Do(func() { close(sp.finished) })
}

func (w *world) plainHandler() http.Handler {
	return http.HandlerFunc(func(rw http.ResponseWriter, req *http.Request) {
		if req.URL.Path != "/t"+w.token+"/r" {
			http.NotFound(rw, req)
			return
		}
		id, err := strconv.Atoi(req.URL.Query().Get("id"))
		if err != nil {
			http.NotFound(rw, req)
			return
		}
		sp := w.spec(id)
		if !sp.mid {
			w.enter(id)
		}
		body := expectedBody(id, sp.size)
		k := 0
		if sp.split && len(body) > 1 {
			k = len(body) / 2
			rw.Write(body[:k])
			if f, ok := rw.(http.Flusher); ok {
				f.Flush()
			}
		}
		if w.ctxAware {
			select {
			case <-sp.gate:
			case <-req.Context().Done():
				// what a lura pipe does when its context ends: no answer from the backend
				if k == 0 {
					http.Error(rw, req.Context().Err().Error(), http.StatusInternalServerError)
				}
				w.leave(sp)
				return
			}
		} else {
			<-sp.gate
		}
		rw.Write(body[k:])
		// no Content-Length, no final flush: the response is terminated by the server after
		// the handler returned, so the client cannot have the full body before this stamp
		w.leave(sp)
	})
}

func (w *world) proxyFactory() proxy.Factory {
	return proxy.FactoryFunc(func(_ *config.EndpointConfig) (proxy.Proxy, error) {
		return func(ctx context.Context, req *proxy.Request) (*proxy.Response, error) {
			id, err := strconv.Atoi(req.Query.Get("id"))
			if err != nil {
				return nil, errors.New("bad id")
			}
			sp := w.spec(id)
			if !sp.mid {
				w.enter(id)
			}
			if w.ctxAware {
				select {
				case <-sp.gate:
				case <-ctx.Done():
					w.leave(sp)
					return nil, ctx.Err()
				}
			} else {
				<-sp.gate
			}
			resp := &proxy.Response{Data: map[string]interface{}{"id": id, "pad": string(expectedBody(id, sp.size))}, IsComplete: true}
			w.leave(sp)
			return resp, nil
		}, nil
	})
}

// lura's own gin engine (ContextWithFallback: the endpoint handler's context follows the request's)
func (w *world) ginEngine(sc config.ServiceConfig) *gin.Engine {
	h := make(chan string)
	close(h)
	return krakendgin.NewEngine(sc, krakendgin.EngineOptions{Logger: capLogger{w}, Writer: io.Discard, Health: h})
}

// the user middleware: a request flagged mid is accepted here and held on its gate before next
func (w *world) holdInMiddleware(req *http.Request) {
	id, err := strconv.Atoi(req.URL.Query().Get("id"))
	if err != nil || !strings.HasPrefix(req.URL.Path, "/t"+w.token+"/") {
		return
	}
	if sp := w.spec(id); sp.mid {
		w.enter(id)
		<-sp.gate
	}
}

type muxMid struct{ w *world }

func (m muxMid) Handler(h http.Handler) http.Handler {
	return http.HandlerFunc(func(rw http.ResponseWriter, req *http.Request) {
		m.w.holdInMiddleware(req)
		h.ServeHTTP(rw, req)
	})
}

type capLogger struct{ w *world }

func (l capLogger) Debug(_ ...interface{})    {}
func (l capLogger) Info(_ ...interface{})     {}
func (l capLogger) Warning(_ ...interface{})  {}
func (l capLogger) Critical(_ ...interface{}) {}
func (l capLogger) Fatal(_ ...interface{})    {}
func (l capLogger) Error(v ...interface{}) {
	l.w.mu.Lock()
	l.w.logged = append(l.w.logged, fmt.Sprint(v...))
	l.w.mu.Unlock()
}

func classify(err error) (string, string) {
	if err == nil {
		return "VNil", ""
	}
	var oe *net.OpError
	if errors.As(err, &oe) && oe.Op == "listen" {
		return "VListenErr", err.Error()
	}
	return "VOther", err.Error()
}

// runRunner calls the entry point under test and blocks until it returns
func (w *world) runRunner(ctx context.Context, s *scenario, port int, run runFunc) (string, string) {
	flavor := s.flavor
	if run == nil {
		run = server.RunServer
	}
	ep := &config.EndpointConfig{Endpoint: "/t" + w.token + "/r", Method: "GET", QueryString: []string{"id"},
		Timeout: 10 * time.Minute, Backend: []*config.Backend{{URLPattern: "/b"}}}
	sc := config.ServiceConfig{Version: config.ConfigVersion, Address: "127.0.0.1", Port: port, Timeout: 10 * time.Minute,
		Host: []string{"http://127.0.0.1:8081"}, Endpoints: []*config.EndpointConfig{ep}}
	if err := sc.Init(); err != nil {
		return "VOther", "config: " + err.Error()
	}
	sc.Address = "127.0.0.1"
	sc.Port = port
	sc.IdleTimeout, sc.ReadTimeout, sc.WriteTimeout, sc.ReadHeaderTimeout = s.idle, s.read, s.write, s.readHeader
	switch s.transport {
	case "tls", "tls_h2":
		sc.TLS = &config.TLS{PublicKey: certFile, PrivateKey: keyFile}
	case "h2c":
		sc.UseH2C = true
	}
	switch flavor {
	case "Plain":
		return classify(run(ctx, sc, muxMid{w}.Handler(w.plainHandler())))
	case "Gin":
		krakendgin.NewFactory(krakendgin.Config{Engine: w.ginEngine(sc), Middlewares: []gin.HandlerFunc{func(c *gin.Context) { w.holdInMiddleware(c.Request); c.Next() }}, HandlerFactory: krakendgin.EndpointHandler,
			ProxyFactory: w.proxyFactory(), Logger: capLogger{w}, RunServer: run}).NewWithContext(ctx).Run(sc)
	case "Mux":
		mux.NewFactory(mux.Config{Engine: mux.DefaultEngine(), Middlewares: []mux.HandlerMiddleware{muxMid{w}}, HandlerFactory: mux.EndpointHandler,
			ProxyFactory: w.proxyFactory(), Logger: capLogger{w}, RunServer: run}).NewWithContext(ctx).Run(sc)
	}
	// the routers swallow the runner's value and log it
	w.mu.Lock()
	defer w.mu.Unlock()
	for _, l := range w.logged {
		if strings.Contains(l, "listen tcp") {
			return "VListenErr", l
		}
	}
	if len(w.logged) > 0 {
		return "VOther", strings.Join(w.logged, " | ")
	}
	return "VNil", ""
}

// one request attempt. -> "full" | "refused" | "fail: ..."
func (w *world) attempt(cl *http.Client, flavor string, port, id int) string {
	sp := w.spec(id)
	url := fmt.Sprintf("%s://127.0.0.1:%d/t%s/r?id=%d", w.scheme, port, w.token, id)
	resp, err := cl.Get(url)
	if err != nil {
		if errors.Is(err, syscall.ECONNREFUSED) {
			return "refused"
		}
		return "fail: " + err.Error()
	}
	body, err := io.ReadAll(resp.Body)
	resp.Body.Close()
	if err != nil {
		return fmt.Sprintf("fail: status %d, %d bytes, then %v", resp.StatusCode, len(body), err)
	}
	return judge(flavor, id, sp.size, resp.StatusCode, body)
}

// finishSlow sends the rest of the request head on a connection opened by slow_open and reads the answer
func (w *world) finishSlow(c net.Conn, flavor string, id int) string {
	sp := w.spec(id)
	if _, err := io.WriteString(c, "X-Rest: two\r\nConnection: close\r\n\r\n"); err != nil {
		return "fail: " + err.Error()
	}
	resp, err := http.ReadResponse(bufio.NewReader(c), &http.Request{Method: "GET"})
	if err != nil {
		return "fail: " + err.Error()
	}
	body, err := io.ReadAll(resp.Body)
	if err != nil {
		return fmt.Sprintf("fail: status %d, %d bytes, then %v", resp.StatusCode, len(body), err)
	}
	return judge(flavor, id, sp.size, resp.StatusCode, body)
}

func judge(flavor string, id, size, status int, body []byte) string {
	if status != 200 {
		return fmt.Sprintf("fail: status %d", status)
	}
	want := expectedBody(id, size)
	if flavor == "Plain" {
		if string(body) != string(want) {
			return fmt.Sprintf("fail: body %d bytes, want %d", len(body), len(want))
		}
		return "full"
	}
	var got struct {
		ID  int    `json:"id"`
		Pad string `json:"pad"`
	}
	if err := json.Unmarshal(body, &got); err != nil || got.ID != id || got.Pad != string(want) {
		return fmt.Sprintf("fail: json body %d bytes (%v)", len(body), err)
	}
	return "full"
}

// attemptRaw sends the request by hand over a new connection with the h2c upgrade offer, exactly
// the bytes curl --http2 sends, and understands both answers: HTTP/1.1 (use_h2c is off: the offer
// is ignored) or 101 + HTTP/2 stream 1.
func (w *world) attemptRaw(flavor string, port, id int) string {
	sp := w.spec(id)
	addr := fmt.Sprintf("127.0.0.1:%d", port)
	c, err := net.DialTimeout("tcp", addr, 10*time.Second)
	if err != nil {
		if errors.Is(err, syscall.ECONNREFUSED) {
			return "refused"
		}
		return "fail: " + err.Error()
	}
	defer c.Close()
	c.SetDeadline(time.Now().Add(clientTimeout))
	if _, err := fmt.Fprintf(c, "GET /t%s/r?id=%d HTTP/1.1\r\nHost: %s\r\nUser-Agent: curl/8.5.0\r\nAccept: */*\r\nConnection: Upgrade, HTTP2-Settings\r\nUpgrade: h2c\r\nHTTP2-Settings: AAMAAABkAAQCAAAAAAIAAAAA\r\n\r\n", w.token, id, addr); err != nil {
		return "fail: " + err.Error()
	}
	br := bufio.NewReader(c)
	resp, err := http.ReadResponse(br, &http.Request{Method: "GET"})
	if err != nil {
		return "fail: " + err.Error()
	}
	if resp.StatusCode != http.StatusSwitchingProtocols {
		body, err := io.ReadAll(resp.Body)
		if err != nil {
			return fmt.Sprintf("fail: status %d, %d bytes, then %v", resp.StatusCode, len(body), err)
		}
		return judge(flavor, id, sp.size, resp.StatusCode, body)
	}
	// upgraded: the answer comes as HTTP/2 stream 1
	if _, err := io.WriteString(c, http2.ClientPreface); err != nil {
		return "fail: h2 " + err.Error()
	}
	fr := http2.NewFramer(c, br)
	fr.ReadMetaHeaders = hpack.NewDecoder(4096, nil)
	fr.WriteSettings()
	fr.WriteWindowUpdate(0, 1<<24)
	status := 0
	var body []byte
	for {
		f, err := fr.ReadFrame()
		if err != nil {
			return fmt.Sprintf("fail: h2 status %d, %d bytes, then %v", status, len(body), err)
		}
		end := false
		switch f := f.(type) {
		case *http2.SettingsFrame:
			if !f.IsAck() {
				fr.WriteSettingsAck()
			}
		case *http2.MetaHeadersFrame:
			if f.StreamID == 1 {
				status, _ = strconv.Atoi(f.PseudoValue("status"))
				end = f.StreamEnded()
			}
		case *http2.DataFrame:
			if f.StreamID == 1 {
				body = append(body, f.Data()...)
				end = f.StreamEnded()
			}
		case *http2.RSTStreamFrame, *http2.GoAwayFrame:
			return fmt.Sprintf("fail: h2 stream ended early (status %d, %d bytes)", status, len(body))
		}
		if end {
			return judge(flavor, id, sp.size, status, body)
		}
	}
}

func (w *world) recOutcome(id int, outcome string, refusedAsEvent bool) {
	w.mu.Lock()
	w.clients[strconv.Itoa(id)] = outcome
	w.mu.Unlock()
	if strings.Contains(outcome, "Client.Timeout") || strings.Contains(outcome, "deadline exceeded") {
		w.note(fmt.Sprintf("client %d timed out", id))
	}
	switch {
	case outcome == "full":
		w.rec(emit.App("ClientGot", emit.Nat(id), "true"), fmt.Sprintf("ClientGot(%d,full)", id))
	case outcome == "refused" && refusedAsEvent:
		w.rec("Refused", "Refused")
	default:
		w.rec(emit.App("ClientGot", emit.Nat(id), "false"), fmt.Sprintf("ClientGot(%d,FAILED)", id))
	}
}

// the self-signed certificate of the TLS scenarios (made by main in the output directory)
var certFile, keyFile string

func clientTLS() *tls.Config {
	return &tls.Config{InsecureSkipVerify: true, NextProtos: nil}
}

func schemeOf(s *scenario) string {
	if s.transport == "tls" || s.transport == "tls_h2" {
		return "https"
	}
	return "http"
}

type runFunc = func(context.Context, config.ServiceConfig, http.Handler) error

// a group: one or several servers run side by side; with shared set, ONE runner func obtained
// from server.RunServerWithLoggerFactory drives all of them (independent contexts and ports).
// order is the global order of the members' script steps.
type gstep struct {
	srv int
	st  step
}

type group struct {
	idx    []int // case indices of the members
	order  []gstep
	shared bool
}

func runGroup(g *group, members []*scenario) []*result {
	if members[0].listenErr == "emfile" {
		return []*result{runEmfile(members[0])}
	}
	ports, stalls, longer := 0, 0, 0
	for ports < 50 {
		res, retry, early := runGroupOnce(g, members, (80*time.Millisecond)<<longer)
		if early && longer < 8 {
			longer++
			if os.Getenv("C19_DEBUG") != "" {
				fmt.Fprintf(os.Stderr, "expired early (%d): %s %s | %s\n", longer, members[0].flavor, members[0].cfgString(), scriptString(members[0].script))
			}
			continue
		}
		if retry {
			ports++
			continue
		}
		noted := false
		for _, r := range res {
			noted = noted || len(r.notes) > 0
		}
		if noted && stalls < 2 && stallCount.Load() < maxStalls {
			stalls++
			stallCount.Add(1)
			continue
		}
		res[0].retries, res[0].stallRetries = ports, stalls
		return res
	}
	fmt.Fprintln(os.Stderr, "C19: could not get a free port in 50 attempts")
	os.Exit(3)
	return nil
}

func runGroupOnce(g *group, members []*scenario, expiry time.Duration) ([]*result, bool, bool) {
	var run runFunc
	if g.shared {
		run = server.RunServerWithLoggerFactory(nil)
	}
	// a member that is cancelled later must have a later deadline: the waits for the earlier expiries
	// are part of its own prefix
	rank := map[int]int{}
	for _, gs := range g.order {
		if _, seen := rank[gs.srv]; gs.st.op == "cancel" && !seen {
			rank[gs.srv] = len(rank)
		}
	}
	insts := make([]*inst, len(members))
	for i, s := range members {
		same := 0
		if s.reload && i > 0 {
			same = insts[0].port
		}
		insts[i] = newInst(s, run, expiry<<(2*rank[i]), same)
	}
	cleanupAll := func() {
		for _, in := range insts {
			in.cleanup()
		}
	}
	for _, gs := range g.order {
		if insts[gs.srv].do(gs.st) {
			cleanupAll()
			return nil, true, insts[gs.srv].expiredEarly
		}
	}
	retry := false
	for _, in := range insts {
		in.collect()
		retry = retry || in.addrInUse()
	}
	cleanupAll()
	if retry {
		return nil, true, false
	}
	res := make([]*result, len(insts))
	for i, in := range insts {
		res[i] = in.result()
	}
	return res, false, false
}

// one server under test with its clients
type inst struct {
	s               *scenario
	w               *world
	run             runFunc
	port            int
	addr            string
	hl              net.Listener
	tr, trFresh     *http.Transport
	cl, clFresh     *http.Client
	ctx             context.Context
	cancel          context.CancelFunc
	cancelled       bool
	awaited         bool
	returned        chan struct{}
	rvKind, errText string
	clients         sync.WaitGroup
	counts          []string
	nextPoll        int
	fins            map[int]chan struct{}
	slow            map[int]net.Conn
	expiredEarly    bool
	cleaned         bool
}

type ctxKey struct{}

func newInst(s *scenario, run runFunc, expiry time.Duration, samePort int) *inst {
	w := &world{scheme: schemeOf(s), ctxAware: s.ctxAware, token: fmt.Sprintf("%d-%d", os.Getpid(), tokenCounter.Add(1)), specs: map[int]*reqSpec{}, clients: map[string]string{}}
	for id, size := range s.sizes {
		sp := &reqSpec{mid: s.mid[id], id: id, size: size, split: s.split[id], gate: make(chan struct{}), entered: make(chan struct{}), finished: make(chan struct{})}
		if id >= 40 {
			close(sp.gate) // late attempts never block
			sp.gateOnce.Do(func() {})
		}
		w.specs[id] = sp
	}
	// a free port: bind :0, read it, (close it | keep it)
	hl, err := net.Listen("tcp", "127.0.0.1:0")
	for k := 0; err != nil && k < 1200; k++ {
		// no free ephemeral port right now (ports of earlier scenarios are in TIME_WAIT): wait for one
		time.Sleep(100 * time.Millisecond)
		hl, err = net.Listen("tcp", "127.0.0.1:0")
	}
	if err != nil {
		fmt.Fprintln(os.Stderr, "C19: cannot bind:", err)
		os.Exit(3)
	}
	if samePort > 0 {
		hl.Close()
	}
	in := &inst{s: s, w: w, run: run, port: hl.Addr().(*net.TCPAddr).Port, returned: make(chan struct{}), nextPoll: 100, fins: map[int]chan struct{}{}, slow: map[int]net.Conn{}}
	if samePort > 0 {
		in.port = samePort
	} else if !s.portHeld {
		hl.Close()
	} else {
		in.hl = hl
		w.rec("ListenFail", "ListenFail")
	}
	in.addr = fmt.Sprintf("127.0.0.1:%d", in.port)
	in.tr = &http.Transport{DisableKeepAlives: !s.keepalive, MaxIdleConns: 100, MaxIdleConnsPerHost: 100, TLSClientConfig: clientTLS(), ForceAttemptHTTP2: s.transport == "tls_h2"}
	in.cl = &http.Client{Transport: in.tr, Timeout: clientTimeout}
	// attempts between the cancellation and the return always use a new connection: a request sent
	// on an idle keep-alive connection while Shutdown closes idle connections is outside C19 (net/http
	// may run its handler and drop the answer; Go clients retry such requests)
	in.trFresh = &http.Transport{DisableKeepAlives: true, TLSClientConfig: clientTLS(), ForceAttemptHTTP2: s.transport == "tls_h2"}
	in.clFresh = &http.Client{Transport: in.trFresh, Timeout: clientTimeout}
	kind := s.ctxKind
	hasCancel := false
	for _, st := range s.script {
		hasCancel = hasCancel || st.op == "cancel"
	}
	if !hasCancel && (kind == "dl_expire" || kind == "dl_child") {
		// no cancel step: an expiry would be a cancellation nobody stamped; the deadline stays far away
		kind = "dl_cancel"
	}
	switch kind {
	case "dl_cancel":
		in.ctx, in.cancel = context.WithTimeout(context.Background(), 10*time.Minute)
	case "dl_expire":
		in.ctx, in.cancel = context.WithTimeout(context.Background(), expiry)
	case "dl_child":
		parent, pc := context.WithTimeout(context.Background(), expiry)
		child, cc := context.WithCancel(context.WithValue(parent, ctxKey{}, "c19"))
		in.ctx, in.cancel = child, func() { cc(); pc() }
	default:
		in.ctx, in.cancel = context.WithCancel(context.Background())
	}
	return in
}

func (in *inst) addrInUse() bool {
	select {
	case <-in.returned:
		// only this server's own address counts: somebody took the port between our close and its listen
		return !in.s.portHeld && !in.s.reload && strings.Contains(in.errText, "address already in use") && strings.Contains(in.errText, in.addr)
	default:
		return false
	}
}

func (in *inst) cleanup() {
	if in.cleaned {
		return
	}
	in.cleaned = true
	w := in.w
	w.mu.Lock()
	w.frozen = true
	specs := make([]*reqSpec, 0, len(w.specs))
	for _, sp := range w.specs {
		specs = append(specs, sp)
	}
	w.mu.Unlock()
	in.cancel()
	for _, sp := range specs {
		sp := sp
		sp.gateOnce.Do(func() { close(sp.gate) })
	}
	if in.hl != nil {
		in.hl.Close()
	}
	for _, c := range in.slow {
		c.Close()
	}
	in.tr.CloseIdleConnections()
	in.trFresh.CloseIdleConnections()
}

// do executes one script step; true: the port was taken by somebody else, run the group again
func (in *inst) do(st step) bool {
	s, w := in.s, in.w
	switch st.op {
	case "start":
		go func() {
			k, e := w.runRunner(in.ctx, s, in.port, in.run)
			in.rvKind, in.errText = k, e
			w.rec(emit.App("RunnerReturn", k), "RunnerReturn("+k+")")
			close(in.returned)
		}()
		if !s.portHeld && !in.cancelled {
			// wait until it listens (polling connects; a connect that succeeds is closed at once)
			deadline := time.Now().Add(bound(waitStep))
			for {
				c, err := net.DialTimeout("tcp", in.addr, time.Second)
				if err == nil {
					c.Close()
					break
				}
				if in.addrInUse() {
					return true
				}
				stop := false
				select {
				case <-in.returned:
					stop = true
				default:
				}
				if stop && s.reload {
					break // the address was still busy: the reloaded instance returned its listen error
				}
				if stop || time.Now().After(deadline) {
					w.note("server never listened")
					break
				}
				time.Sleep(200 * time.Microsecond)
			}
		}
	case "launch":
		id := st.r
		sp := w.spec(id)
		in.clients.Add(1)
		fin := make(chan struct{})
		in.fins[id] = fin
		try := func() string {
			if s.h2c[id] && (s.transport == "http" || s.rawOverH2c) {
				return w.attemptRaw(s.flavor, in.port, id)
			}
			return w.attempt(in.cl, s.flavor, in.port, id)
		}
		go func() {
			defer in.clients.Done()
			o := try()
			for k := 0; k < 30 && o != "full" && (s.read > 0 || s.readHeader > 0 || s.idle > 0); k++ {
				// a small read / header / idle timeout may close a connection before the request was
				// read (nothing to do with the shutdown): a request that never reached its handler is
				// sent again, as any client would
				select {
				case <-sp.entered:
					k = 1000
				default:
					o = try()
				}
			}
			w.recOutcome(id, o, false)
			close(fin)
		}()
		select {
		case <-sp.entered:
		case <-fin:
			w.note(fmt.Sprintf("launch %d: client finished before its handler ran", id))
		case <-time.After(bound(waitStep)):
			w.note(fmt.Sprintf("launch %d: handler did not start", id))
		}
	case "release":
		sp := w.spec(st.r)
		sp.gateOnce.Do(func() { close(sp.gate) })
		select {
		case <-sp.entered:
			fin := in.fins[st.r]
			if fin == nil {
				fin = make(chan struct{})
			}
			select {
			case <-sp.finished:
			case <-fin:
				select {
				case <-sp.finished:
				default:
					w.note(fmt.Sprintf("release %d: the client has its outcome but the handler never finished", st.r))
				}
			case <-time.After(bound(waitStep)):
				w.note(fmt.Sprintf("release %d: handler did not finish", st.r))
			}
			if s.keepalive && in.fins[st.r] != nil {
				// keep-alive clients: wait until the connection is back in the client's idle pool,
				// otherwise the transport dials a spare connection it never uses and the server
				// (correctly) waits 5 s for that new connection's first byte during Shutdown
				select {
				case <-in.fins[st.r]:
				case <-time.After(bound(waitStep)):
					w.note(fmt.Sprintf("release %d: client did not finish", st.r))
				}
			}
		default:
			w.note(fmt.Sprintf("release %d: handler never started", st.r))
		}
	case "cancel":
		w.rec("Cancel", "Cancel")
		if s.ctxKind == "dl_expire" || s.ctxKind == "dl_child" {
			// the cancellation is the expiry of the deadline: it must come after the stamp
			if in.ctx.Err() != nil {
				in.expiredEarly = true
				return true // the script took longer than the deadline: run again with a longer one
			}
			select {
			case <-in.ctx.Done():
			case <-time.After(bound(waitStep)):
				w.note("deadline did not expire")
			}
		} else {
			in.cancel()
		}
		in.cancelled = true
	case "slow_open":
		// raw client: request line and part of the headers only
		c, err := net.DialTimeout("tcp", in.addr, 10*time.Second)
		if err == nil {
			c.SetDeadline(time.Now().Add(clientTimeout))
			if w.scheme == "https" {
				tc := tls.Client(c, clientTLS())
				err = tc.Handshake()
				c = tc
			}
		}
		if err == nil {
			_, err = fmt.Fprintf(c, "GET /t%s/r?id=%d HTTP/1.1\r\nHost: %s\r\nX-Part: one\r\n", w.token, st.r, in.addr)
		}
		if err != nil {
			w.note(fmt.Sprintf("slow_open %d: %v", st.r, err))
		} else {
			in.slow[st.r] = c
		}
	case "slow_finish":
		c := in.slow[st.r]
		o := "fail: never opened"
		if c != nil {
			o = w.finishSlow(c, s.flavor, st.r)
			c.Close()
		}
		w.recOutcome(st.r, o, false)
	case "late":
		c := in.clFresh
		if in.awaited {
			c = in.cl // after the return: also through the keep-alive pool (its connections must be dead)
		}
		w.recOutcome(st.r, w.attempt(c, s.flavor, in.port, st.r), true)
	case "until_refused":
		deadline := time.Now().Add(bound(stillOpenWait))
		n := 0
		for {
			o := w.attempt(in.clFresh, s.flavor, in.port, in.nextPoll)
			w.recOutcome(in.nextPoll, o, true)
			in.nextPoll++
			n++
			if o == "refused" {
				break
			}
			if time.Now().After(deadline) || n >= maxPolls {
				w.rec("StillAccepting", "StillAccepting")
				w.note("connections still accepted at the end of the bounded wait")
				break
			}
			if n > 10 {
				// polling, not synchronisation: up to maxPolls attempts spread over about 8 s
				d := time.Duration(n-10) * 10 * time.Millisecond
				if d > 200*time.Millisecond {
					d = 200 * time.Millisecond
				}
				if stallCount.Load() >= maxStalls {
					d /= 10
				}
				time.Sleep(d)
			}
		}
		in.counts = append(in.counts, fmt.Sprintf("until_refused_attempts:%s", bucket(n)))
	case "pause":
		select {
		case <-in.returned:
		case <-time.After(pauseWindow + 2*s.maxSmall()):
			// expired: the runner did not return (requests in flight / context not cancelled): an observation
		}
	case "await":
		in.awaited = true
		select {
		case <-in.returned:
		case <-time.After(bound(waitReturn)):
			w.note("runner did not return")
		}
	}
	return false
}

// every client has its outcome before the trace is closed
func (in *inst) collect() {
	cdone := make(chan struct{})
	go func() { in.clients.Wait(); close(cdone) }()
	select {
	case <-cdone:
	case <-time.After(bound(clientTimeout + time.Second)):
		in.w.note("clients still waiting")
	}
}

func (in *inst) result() *result {
	w := in.w
	res := &result{counts: in.counts, clients: map[string]string{}}
	w.mu.Lock()
	res.trace = append(res.trace, w.evs...)
	res.notes = append(res.notes, w.notes...)
	for k, v := range w.clients {
		res.clients[k] = v
	}
	w.mu.Unlock()
	select {
	case <-in.returned:
		res.rv, res.errText = in.rvKind, in.errText
	default:
		res.rv = "none"
	}
	return res
}

func bucket(n int) string {
	switch {
	case n <= 1:
		return "1"
	case n <= 3:
		return "2-3"
	case n <= 10:
		return "4-10"
	}
	return ">10"
}

// ---- a listener that cannot be started because the socket cannot be created (EMFILE) ----
// The runner is called in a child process (this binary again) whose descriptor table is full.
// The child reports what the runner returned, or that it was still blocked after the bound;
// the parent kills it after a longer bound, so the generator never hangs.

const emfileBound = 8 * time.Second

func runEmfile(s *scenario) *result {
	stalls := 0
	for {
		res := runEmfileOnce(s)
		if len(res.notes) > 0 && stalls < 2 && stallCount.Load() < maxStalls {
			stalls++
			stallCount.Add(1)
			continue
		}
		res.stallRetries = stalls
		return res
	}
}

func runEmfileOnce(s *scenario) *result {
	res := &result{clients: map[string]string{}, rv: "none"}
	res.trace = append(res.trace, event{1, "ListenFail", "ListenFail"})
	b := bound(emfileBound)
	cmd := exec.Command(os.Args[0])
	cmd.Env = append(os.Environ(), fmt.Sprintf("C19_CHILD=emfile|%s|%d", s.flavor, b.Milliseconds()))
	var outb bytes.Buffer
	cmd.Stdout = &outb
	if err := cmd.Start(); err != nil {
		res.notes = append(res.notes, "child: "+err.Error())
		return res
	}
	done := make(chan error, 1)
	go func() { done <- cmd.Wait() }()
	select {
	case <-done:
	case <-time.After(b + 10*time.Second):
		cmd.Process.Kill()
		<-done
		res.notes = append(res.notes, "child killed")
	}
	for _, line := range strings.Split(outb.String(), "\n") {
		f := strings.SplitN(line, "\t", 3)
		switch {
		case f[0] == "RETURN" && len(f) == 3:
			res.rv, res.errText = f[1], f[2]
			res.trace = append(res.trace, event{2, emit.App("RunnerReturn", f[1]), "RunnerReturn(" + f[1] + ")"})
		case f[0] == "BLOCKED":
			res.notes = append(res.notes, "runner did not return (descriptor table full)")
		case f[0] == "SETUP" && len(f) >= 2:
			res.notes = append(res.notes, "child setup: "+f[1])
		}
	}
	if res.rv == "none" && len(res.notes) == 0 {
		res.notes = append(res.notes, "child said nothing: "+outb.String())
	}
	return res
}

// childMain runs in the child process (C19_CHILD=emfile|flavor|bound_ms)
func childMain(spec string) {
	f := strings.Split(spec, "|")
	if len(f) != 3 || f[0] != "emfile" {
		fmt.Println("SETUP\tbad spec")
		os.Exit(0)
	}
	ms, _ := strconv.Atoi(f[2])
	gin.SetMode(gin.ReleaseMode)
	// a port, and the network poller initialised while descriptors are still available
	ln, err := net.Listen("tcp", "127.0.0.1:0")
	if err != nil {
		fmt.Println("SETUP\t" + err.Error())
		os.Exit(0)
	}
	port := ln.Addr().(*net.TCPAddr).Port
	ln.Close()
	var lim syscall.Rlimit
	syscall.Getrlimit(syscall.RLIMIT_NOFILE, &lim)
	lim.Cur = 64
	if err := syscall.Setrlimit(syscall.RLIMIT_NOFILE, &lim); err != nil {
		fmt.Println("SETUP\t" + err.Error())
		os.Exit(0)
	}
	var held []*os.File
	for {
		fd, err := os.Open("/dev/null")
		if err != nil {
			break
		}
		held = append(held, fd)
		if len(held) > 100000 {
			fmt.Println("SETUP\tdescriptor limit not effective")
			os.Exit(0)
		}
	}
	s := &scenario{flavor: f[1], transport: "http", ctxKind: "cancel", sizes: map[int]int{}, split: map[int]bool{}, h2c: map[int]bool{}, mid: map[int]bool{}}
	w := &world{scheme: "http", token: "child", specs: map[int]*reqSpec{}, clients: map[string]string{}}
	type ret struct{ k, e string }
	done := make(chan ret, 1)
	go func() {
		k, e := w.runRunner(context.Background(), s, port, nil)
		done <- ret{k, e}
	}()
	select {
	case r := <-done:
		fmt.Printf("RETURN\t%s\t%s\n", r.k, strings.ReplaceAll(r.e, "\n", " "))
	case <-time.After(time.Duration(ms) * time.Millisecond):
		fmt.Println("BLOCKED")
	}
	_ = held
	os.Exit(0)
}
