// C05 generator: drives the real concurrent-calls middleware (proxy.NewConcurrentMiddlewareWithLogger)
// with stub backend calls whose outcomes and arrival order are imposed, and records what the
// middleware returned and which request every attempt was handed.
//
// Imposing the order: attempts are anonymous in the code, so every stub takes a slot number
// from a channel when it starts, reads the whole request, and then waits on the gate of its
// slot.  The harness opens one gate at a time and waits for the verif hook after the select of
// the collection loop (proxy.SetVerifOnDequeue, site "concurrent") - or for the return of the
// middleware - before it opens the next one.  No sleeps anywhere.  "Silent" attempts wait for
// their context; when no attempt completes they answer only when the budget (75% of the
// backend timeout) expires, so such runs use a short timeout and are VALIDATED afterwards:
// a run whose release phase did not finish before the budget's deadline is discarded and
// repeated with a four times longer timeout (never reported).
package main

import (
	"bytes"
	"context"
	"crypto/sha256"
	"encoding/hex"
	"errors"
	"fmt"
	"io"
	"net/url"
	"os"
	"sort"
	"strings"
	"sync"
	"sync/atomic"
	"time"

	"github.com/luraproject/lura/v2/config"
	"github.com/luraproject/lura/v2/logging"
	"github.com/luraproject/lura/v2/proxy"

	"verif/harness/internal/emit"
	"verif/harness/internal/out"
	"verif/harness/internal/rng"
)

const (
	kComplete = iota
	kIncomplete
	kError
	kEmpty
	kSilent
	kIncompleteErr // an incomplete response together with an error
	kCompleteErr   // a complete response together with an error
)

var kindNames = []string{"KComplete", "KIncomplete", "KError", "KEmpty", "KSilent", "KIncompleteErr", "KCompleteErr"}

// returnsError: the kinds whose backend call returns a non-nil error value
func returnsError(k int) bool { return k == kError || k == kIncompleteErr || k == kCompleteErr }

type tagErr struct {
	slot  int
	nonce string
}

func (t tagErr) Error() string { return fmt.Sprintf("attempt %d failed (%s)", t.slot, t.nonce) }

// The error VALUE a failing attempt returns (kind KError).  On the unchanged code every one of
// them is an ordinary failure of that attempt; the budget and the parent context are alive.
const (
	fPlain            = iota // harness-tagged plain error
	fCanceled                // context.Canceled itself
	fDeadline                // context.DeadlineExceeded itself
	fWrappedCanceled         // fmt.Errorf("...: %w", context.Canceled)
	fWrappedDeadline         // fmt.Errorf("...: %w", context.DeadlineExceeded)
	fURLTimeout              // *url.Error around a timeout error, as net/http returns for Client.Timeout
	fTimeoutInterface        // custom error with Timeout() bool = true
	nFlavors
)

var flavorNames = []string{"plain", "context.Canceled", "context.DeadlineExceeded", "wrapped context.Canceled",
	"wrapped context.DeadlineExceeded", "*url.Error(Client.Timeout)", "Timeout()=true"}

// what net/http puts inside the *url.Error when http.Client.Timeout fires
type httpTimeoutErr struct{ msg string }

func (e *httpTimeoutErr) Error() string   { return e.msg }
func (e *httpTimeoutErr) Timeout() bool   { return true }
func (e *httpTimeoutErr) Temporary() bool { return true }
func (e *httpTimeoutErr) Is(t error) bool { return t == context.DeadlineExceeded }

type timeoutIfaceErr struct{ slot int }

func (e *timeoutIfaceErr) Error() string { return fmt.Sprintf("attempt %d: i/o timeout", e.slot) }
func (e *timeoutIfaceErr) Timeout() bool { return true }

func makeErr(flavor, slot int, nonce string) error {
	switch flavor {
	case fCanceled:
		return context.Canceled
	case fDeadline:
		return context.DeadlineExceeded
	case fWrappedCanceled:
		return fmt.Errorf("attempt %d (%s) sub-request: %w", slot, nonce, context.Canceled)
	case fWrappedDeadline:
		return fmt.Errorf("attempt %d (%s) backend client: %w", slot, nonce, context.DeadlineExceeded)
	case fURLTimeout:
		return &url.Error{Op: "Get", URL: fmt.Sprintf("http://backend-%d/x", slot),
			Err: &httpTimeoutErr{"context deadline exceeded (Client.Timeout exceeded while awaiting headers)"}}
	case fTimeoutInterface:
		return &timeoutIfaceErr{slot}
	}
	return tagErr{slot, nonce}
}

// errValues: per slot, the error value a KError attempt returns (nil for the other kinds)
func errValues(kinds []int, flavors []int, nonce string) []error {
	vs := make([]error, len(kinds))
	for i, k := range kinds {
		if returnsError(k) {
			vs[i] = makeErr(flavors[i], i, nonce)
		}
	}
	return vs
}

// whoseError: the slot whose own error value err is (identity), -1 if none
func whoseError(err error, vals []error) int {
	for i, v := range vals {
		if v != nil && err == v {
			return i
		}
	}
	return -1
}

// ---------------------------------------------------------------------------------------
// requests

type reqSpec struct {
	name    string
	method  string
	url     string // "" = nil URL
	path    string
	query   url.Values
	params  map[string]string
	headers map[string][]string
	body    []byte
	nilBody bool
	reader  int // 0 bytes.Reader, 1 one byte per Read, 2 data together with io.EOF, 3 refuses reads after Close (as net/http bodies do)
}

type reqObs struct {
	method  string
	url     *string
	path    string
	query   map[string][]string
	params  map[string]string
	headers map[string][]string
	body    []byte
	nilBody bool
}

type oneByteReader struct{ r io.Reader }

func (o oneByteReader) Read(p []byte) (int, error) {
	if len(p) == 0 {
		return 0, nil
	}
	return o.r.Read(p[:1])
}

// returns the last chunk together with io.EOF
type eofReader struct {
	b []byte
}

func (e *eofReader) Read(p []byte) (int, error) {
	n := copy(p, e.b)
	e.b = e.b[n:]
	if len(e.b) == 0 {
		return n, io.EOF
	}
	return n, nil
}

// strictBody behaves like a net/http request body: once closed, every Read fails
type strictBody struct {
	mu     sync.Mutex
	r      io.Reader
	closed bool
}

func (b *strictBody) Read(p []byte) (int, error) {
	b.mu.Lock()
	defer b.mu.Unlock()
	if b.closed {
		return 0, errors.New("http: invalid Read on closed Body")
	}
	return b.r.Read(p)
}

func (b *strictBody) Close() error {
	b.mu.Lock()
	b.closed = true
	b.mu.Unlock()
	return nil
}

type lockedReader struct {
	mu sync.Mutex
	r  io.Reader
}

func (l *lockedReader) Read(p []byte) (int, error) {
	l.mu.Lock()
	defer l.mu.Unlock()
	return l.r.Read(p)
}

func (s reqSpec) build() *proxy.Request {
	r := &proxy.Request{Method: s.method, Path: s.path}
	if s.url != "" {
		u, err := url.Parse(s.url)
		if err != nil {
			panic(err)
		}
		r.URL = u
	}
	if s.query != nil {
		r.Query = url.Values{}
		for k, v := range s.query {
			r.Query[k] = append([]string{}, v...)
		}
	}
	if s.params != nil {
		r.Params = map[string]string{}
		for k, v := range s.params {
			r.Params[k] = v
		}
	}
	if s.headers != nil {
		r.Headers = map[string][]string{}
		for k, v := range s.headers {
			r.Headers[k] = append([]string{}, v...)
		}
	}
	if !s.nilBody {
		b := append([]byte{}, s.body...)
		// the reader is made safe for concurrent use: an implementation that lets several
		// attempts share one body must show up as short reads, not crash the harness
		switch s.reader {
		case 1:
			r.Body = io.NopCloser(&lockedReader{r: oneByteReader{bytes.NewReader(b)}})
		case 2:
			r.Body = io.NopCloser(&lockedReader{r: &eofReader{b}})
		case 3:
			r.Body = &strictBody{r: bytes.NewReader(b)}
		default:
			r.Body = io.NopCloser(&lockedReader{r: bytes.NewReader(b)})
		}
	}
	return r
}

func (s reqSpec) obs() reqObs {
	o := reqObs{method: s.method, path: s.path, query: s.query, params: s.params, headers: s.headers, body: s.body, nilBody: s.nilBody}
	if s.url != "" {
		u, _ := url.Parse(s.url)
		t := u.String()
		o.url = &t
	}
	return o
}

// scribbleReq writes to the maps of the request an attempt was handed (never to a nil map)
func scribbleReq(r *proxy.Request, slot int) {
	junk := fmt.Sprintf("junk-%d", slot)
	if r.Headers != nil {
		for k, vs := range r.Headers {
			if len(vs) > 0 {
				vs[0] = junk // in place: the value slices must be private too
			}
			r.Headers[k] = append(vs, junk)
		}
		r.Headers["X-Verif-Junk"] = []string{junk}
	}
	if r.Params != nil {
		for k, v := range r.Params {
			r.Params[k] = v + "-" + junk
		}
		r.Params["VerifJunk"] = junk
	}
}

// observeMaps: everything but the body (which is left alone)
func observeMaps(r *proxy.Request) reqObs {
	b := r.Body
	r.Body = nil
	o := observe(r)
	r.Body = b
	o.nilBody = b == nil
	return o
}

func observe(r *proxy.Request) reqObs {
	o := reqObs{method: r.Method, path: r.Path, query: map[string][]string{}, params: map[string]string{}, headers: map[string][]string{}}
	if r.URL != nil {
		t := r.URL.String()
		o.url = &t
	}
	for k, v := range r.Query {
		o.query[k] = append([]string{}, v...)
	}
	for k, v := range r.Params {
		o.params[k] = v
	}
	for k, v := range r.Headers {
		o.headers[k] = append([]string{}, v...)
	}
	if r.Body == nil {
		o.nilBody = true
	} else {
		b, err := io.ReadAll(r.Body)
		if err != nil {
			b = append(b, []byte("<<read error: "+err.Error()+">>")...)
		}
		o.body = b
	}
	return o
}

// bodies up to this size are emitted as bytes, longer ones as length + SHA-256 (the same
// function is applied to the input body and to what every attempt read)
const rawLimit = 300

func bodyRepr(b []byte) string {
	if len(b) <= rawLimit {
		return string(b)
	}
	h := sha256.Sum256(b)
	return fmt.Sprintf("sha256:%s:len=%d", hex.EncodeToString(h[:]), len(b))
}

func (o reqObs) coq() string {
	u := "None"
	if o.url != nil {
		u = emit.Some(emit.Str(*o.url))
	}
	body := "None"
	if !o.nilBody {
		body = emit.Some(emit.Str(bodyRepr(o.body)))
	}
	q := o.query
	if q == nil {
		q = map[string][]string{}
	}
	h := o.headers
	if h == nil {
		h = map[string][]string{}
	}
	p := o.params
	if p == nil {
		p = map[string]string{}
	}
	return emit.App("mkReq", emit.Str(o.method), u, emit.Str(o.path), emit.MultiMap(q), emit.StrMap(p), emit.MultiMap(h), body)
}

func (o reqObs) js() map[string]interface{} {
	m := map[string]interface{}{"method": o.method, "path": o.path, "query": o.query, "params": o.params, "headers": o.headers}
	if o.url != nil {
		m["url"] = *o.url
	}
	if o.nilBody {
		m["body"] = nil
	} else {
		h := sha256.Sum256(o.body)
		m["body_len"] = len(o.body)
		m["body_sha256"] = hex.EncodeToString(h[:])
		if len(o.body) <= 64 {
			m["body_hex"] = hex.EncodeToString(o.body)
		}
	}
	return m
}

func requestCatalogue(r *rng.R) []reqSpec {
	all256 := make([]byte, 256)
	for i := range all256 {
		all256[i] = byte(i)
	}
	big := make([]byte, 64*1024)
	for i := range big {
		big[i] = byte(i*31 + 7 + i/251)
	}
	odd := make([]byte, 200*1024+13)
	for i := range odd {
		odd[i] = byte(r.U64())
	}
	mid := make([]byte, 4097)
	for i := range mid {
		mid[i] = byte(r.U64())
	}
	bodies := []struct {
		name string
		b    []byte
		nilB bool
	}{
		{"nil", nil, true},
		{"empty", []byte{}, false},
		{"1B", []byte("x"), false},
		{"text", []byte("hello-body-0123456789"), false},
		{"json", []byte(`{"a":1,"b":[true,null,"é"],"c":{"d":"e"}}`), false},
		{"all256", all256, false},
		{"nul", []byte{0, 0, 255, 0, 10, 13, 34, 39}, false},
		{"4097B", mid, false},
		{"64KiB", big, false},
		{"200KiB+13", odd, false},
	}
	shapes := []reqSpec{
		{name: "get", method: "GET", url: "http://h/a", path: "/a"},
		{name: "post", method: "POST", url: "http://example.com:8080/b/42?q=1&q=2#frag", path: "/b/{{.Id}}",
			query:   url.Values{"q": {"1", "2"}, "e": {""}},
			params:  map[string]string{"Id": "42", "X": "y z", "Empty": ""},
			headers: map[string][]string{"Content-Type": {"application/json"}, "X-Multi": {"a", "b", ""}, "X-None": {}}},
		{name: "put-bare", method: "PUT", url: "", path: "/p/é\x00\xff\"q"},
		{name: "patch", method: "PATCH", url: "https://u:p@host/x%2Fy?z=%20", path: "/x%2Fy",
			query:   url.Values{},
			params:  map[string]string{},
			headers: map[string][]string{"Cookie": {"a=b; c=d"}, "x-lower": {"\x00\xfe"}}},
	}
	var res []reqSpec
	for bi, b := range bodies {
		for si, s := range shapes {
			for rd := 0; rd < 4; rd++ {
				if b.nilB && rd > 0 {
					continue
				}
				// keep the catalogue moderate: every body with every reader once, shapes rotated
				if (bi+si+rd)%2 == 1 && !(si == 1 && rd == 0) && !(rd == 3 && len(b.b) == 0) {
					continue
				}
				x := s
				x.name = s.name + "/" + b.name + fmt.Sprintf("/r%d", rd)
				x.body = b.b
				x.nilBody = b.nilB
				x.reader = rd
				res = append(res, x)
			}
		}
	}
	return res
}

// ---------------------------------------------------------------------------------------
// one run

var curDeq atomic.Value // of chan struct{}

type observation struct {
	resp    *proxy.Response
	err     error
	seen    []reqObs // per slot, in slot order, only the slots that started
	started int
	hang    string // non-empty: a watchdog fired (what did not happen)
	skipped bool
	caller  *reqObs // scribble runs: the caller's own request after the call (maps only)
}

// respReg makes the responses of the stub backend calls of one case and recognises them
// again.  The response of at most one slot carries EMPTY data (nil or an empty map): a
// complete answer is complete whatever it contains.
type respReg struct {
	mu        sync.Mutex
	nonce     string
	emptySlot int // -1: none
	nilData   bool
	made      map[*proxy.Response]int
}

func newRespReg(nonce string, emptySlot int, nilData bool) *respReg {
	return &respReg{nonce: nonce, emptySlot: emptySlot, nilData: nilData, made: map[*proxy.Response]int{}}
}

func (g *respReg) mk(i int, complete bool) *proxy.Response {
	data := map[string]interface{}{"who": i, "nonce": g.nonce}
	if i == g.emptySlot {
		data = map[string]interface{}{}
		if g.nilData {
			data = nil
		}
	}
	r := &proxy.Response{Data: data, IsComplete: complete}
	g.mu.Lock()
	g.made[r] = i
	g.mu.Unlock()
	return r
}

// identify: the slot whose response r is (the very object, or a copy with the same content);
// 9999 when it is none of this case's
func (g *respReg) identify(r *proxy.Response) int {
	g.mu.Lock()
	i, ok := g.made[r]
	g.mu.Unlock()
	if ok {
		return i
	}
	if who, ok := r.Data["who"].(int); ok && r.Data["nonce"] == g.nonce && len(r.Data) == 2 {
		return who
	}
	if len(r.Data) == 0 && g.emptySlot >= 0 {
		return g.emptySlot
	}
	return 9999
}

type runCfg struct {
	watchdog time.Duration
	timeout  time.Duration
	inst     *instance // nil: a fresh middleware instance for this run
	scribble bool      // attempts record one after the other, each then writes junk into ITS request
	errVals  []error   // per slot: the error value of a KError attempt
	reg      *respReg  // makes and recognises the responses of this case
}

// instance: ONE middleware instance serving many calls (instance-reuse streams).  The
// backend stub of a call is found through the parameter runParam of the request, which the
// harness adds to the request of every call made through a shared instance.
const runParam = "verif-run"

type instance struct {
	n     int
	p     proxy.Proxy
	stubs sync.Map // run id -> proxy.Proxy
}

func newInstance(n int, timeout time.Duration) *instance {
	in := &instance{n: n}
	in.p = proxy.NewConcurrentMiddlewareWithLogger(logging.NoOp, &config.Backend{ConcurrentCalls: n, Timeout: timeout})(
		func(ctx context.Context, r *proxy.Request) (*proxy.Response, error) {
			if f, ok := in.stubs.Load(r.Params[runParam]); ok {
				return f.(proxy.Proxy)(ctx, r)
			}
			return nil, errors.New("attempt carries a request of no known call")
		})
	return in
}

func withRun(rs reqSpec, id string) reqSpec {
	ps := map[string]string{runParam: id}
	for k, v := range rs.params {
		ps[k] = v
	}
	rs.params = ps
	return rs
}

// runOnce drives the middleware once. tainted: the budget's deadline passed before the
// release phase was over (the observation is then not the scheduled one).
func runOnce(n int, kinds []int, order []int, parentAfter int, rs reqSpec, nonce string, rc runCfg) (obs observation, tainted bool) {
	gates := make([]chan struct{}, len(kinds))
	opened := make([]bool, len(kinds))
	for i := range gates {
		gates[i] = make(chan struct{})
	}
	maxSlots := len(kinds) + 8
	slot := make(chan int, maxSlots)
	for i := 0; i < maxSlots; i++ {
		slot <- i
	}
	started := make(chan int, maxSlots)
	var mu sync.Mutex
	seen := map[int]reqObs{}
	var deadline atomic.Value // time.Time
	var wg sync.WaitGroup
	baton := make(chan struct{}, 1)
	baton <- struct{}{}
	callerReq := rs.build()
	next := func(ctx context.Context, r *proxy.Request) (*proxy.Response, error) {
		wg.Add(1)
		defer wg.Done()
		i := <-slot
		var o reqObs
		if rc.scribble {
			// one attempt at a time: record what was handed over (consuming the body), then
			// write to the request's own maps, as a request modifier below the middleware may
			<-baton
			o = observe(r)
			scribbleReq(r, i)
			baton <- struct{}{}
		} else {
			o = observe(r)
		}
		if d, ok := ctx.Deadline(); ok {
			deadline.Store(d)
		}
		mu.Lock()
		seen[i] = o
		mu.Unlock()
		started <- i
		k := kSilent // an attempt beyond the configured number behaves as silent
		if i < len(kinds) {
			k = kinds[i]
		}
		if k == kSilent {
			<-ctx.Done()
			return nil, ctx.Err()
		}
		<-gates[i]
		switch k {
		case kComplete:
			return rc.reg.mk(i, true), nil
		case kIncomplete:
			return rc.reg.mk(i, false), nil
		case kError:
			return nil, rc.errVals[i]
		case kIncompleteErr:
			return rc.reg.mk(i, false), rc.errVals[i]
		case kCompleteErr:
			return rc.reg.mk(i, true), rc.errVals[i]
		}
		return nil, nil
	}
	deq := make(chan struct{}, 4*maxSlots)
	curDeq.Store(deq)
	var p proxy.Proxy
	if rc.inst != nil {
		rc.inst.stubs.Store(nonce, proxy.Proxy(next))
		defer rc.inst.stubs.Delete(nonce)
		p = rc.inst.p
	} else {
		p = proxy.NewConcurrentMiddlewareWithLogger(logging.NoOp, &config.Backend{ConcurrentCalls: n, Timeout: rc.timeout})(next)
	}
	parent, cancelParent := context.WithCancel(context.Background())
	defer cancelParent()
	type res struct {
		r *proxy.Response
		e error
	}
	done := make(chan res, 1)
	go func() {
		r, e := p(parent, callerReq)
		done <- res{r, e}
	}()
	wd := time.NewTimer(rc.watchdog)
	defer wd.Stop()

	// every attempt starts at once and reads its request before anything is released
	for obs.started < n && obs.hang == "" {
		select {
		case <-started:
			obs.started++
		case <-wd.C:
			obs.hang = fmt.Sprintf("only %d of %d attempts started", obs.started, n)
		}
	}
	var o res
	finished := false
	if obs.hang == "" {
		for idx, b := range order {
			if parentAfter >= 0 && idx >= parentAfter {
				break
			}
			close(gates[b])
			opened[b] = true
			select {
			case <-deq:
			case o = <-done:
				finished = true
			case <-wd.C:
				obs.hang = fmt.Sprintf("no dequeue and no return after releasing slot %d", b)
			}
			if finished || obs.hang != "" {
				break
			}
		}
	}
	if !finished && parentAfter >= 0 {
		cancelParent()
	}
	if d, ok := deadline.Load().(time.Time); ok && !time.Now().Before(d) {
		tainted = true
	}
	gotResult := finished
	if !gotResult && obs.hang == "" {
		select {
		case o = <-done:
			gotResult = true
		case <-wd.C:
			obs.hang = "the middleware did not return"
		}
	}
	for i := range gates {
		if !opened[i] {
			close(gates[i])
		}
	}
	if !gotResult {
		// a watchdog fired: unblock the collector through its parent context and let everything end
		cancelParent()
		select {
		case o = <-done:
		case <-time.After(90 * time.Second):
			fmt.Fprintln(os.Stderr, "C05: middleware does not return even with its parent context cancelled:", obs.hang)
			os.Exit(4)
		}
	}
	wg.Wait()
	// late starters (more attempts than configured) are part of the observation
	for more := true; more; {
		select {
		case <-started:
			obs.started++
		default:
			more = false
		}
	}
	obs.resp, obs.err = o.r, o.e
	if rc.scribble {
		// every attempt has returned: the caller's request must be what it was
		c := observeMaps(callerReq)
		obs.caller = &c
	}
	ids := make([]int, 0, len(seen))
	for i := range seen {
		ids = append(ids, i)
	}
	sort.Ints(ids)
	for _, i := range ids {
		obs.seen = append(obs.seen, seen[i])
	}
	return obs, tainted
}

// runFree: one call through a shared instance whose attempts answer at once (no gates, the
// arrival order is whatever the scheduler makes it); used by the concurrent-reuse stream.
func runFree(inst *instance, kinds []int, errVals []error, reg *respReg, rs reqSpec, nonce string) (obs observation) {
	n := len(kinds)
	slot := make(chan int, n+8)
	for i := 0; i < n+8; i++ {
		slot <- i
	}
	started := make(chan int, n+8)
	var mu sync.Mutex
	seen := map[int]reqObs{}
	var wg sync.WaitGroup
	stub := func(ctx context.Context, r *proxy.Request) (*proxy.Response, error) {
		wg.Add(1)
		defer wg.Done()
		i := <-slot
		o := observe(r)
		mu.Lock()
		seen[i] = o
		mu.Unlock()
		started <- i
		if i >= n {
			return nil, errors.New("attempt beyond the configured number")
		}
		switch kinds[i] {
		case kComplete:
			return reg.mk(i, true), nil
		case kIncomplete:
			return reg.mk(i, false), nil
		case kError:
			return nil, errVals[i]
		case kIncompleteErr:
			return reg.mk(i, false), errVals[i]
		case kCompleteErr:
			return reg.mk(i, true), errVals[i]
		}
		return nil, nil
	}
	inst.stubs.Store(nonce, proxy.Proxy(stub))
	defer inst.stubs.Delete(nonce)
	type res struct {
		r *proxy.Response
		e error
	}
	done := make(chan res, 1)
	parent, cancelParent := context.WithCancel(context.Background())
	defer cancelParent()
	go func() {
		r, e := inst.p(parent, rs.build())
		done <- res{r, e}
	}()
	wd := time.NewTimer(90 * time.Second)
	defer wd.Stop()
	select {
	case o := <-done:
		obs.resp, obs.err = o.r, o.e
	case <-wd.C:
		obs.hang = "the middleware did not return"
		cancelParent()
		o := <-done
		obs.resp, obs.err = o.r, o.e
	}
	for obs.started < n && obs.hang == "" {
		select {
		case <-started:
			obs.started++
		case <-wd.C:
			obs.hang = fmt.Sprintf("only %d of %d attempts started", obs.started, n)
		}
	}
	wg.Wait()
	for more := true; more; {
		select {
		case <-started:
			obs.started++
		default:
			more = false
		}
	}
	ids := make([]int, 0, len(seen))
	for i := range seen {
		ids = append(ids, i)
	}
	sort.Ints(ids)
	for _, i := range ids {
		obs.seen = append(obs.seen, seen[i])
	}
	return obs
}

// run with validation: repeat tainted runs with longer budgets; confirm watchdog hits once
func runScenario(inst *instance, scribble bool, n int, kinds []int, errVals []error, reg *respReg, order []int, parentAfter int, rs reqSpec, nonce string, stats map[string]int) observation {
	hasSilent := false
	for _, k := range kinds {
		if k == kSilent {
			hasSilent = true
		}
	}
	timeout := 30 * time.Second
	if hasSilent {
		timeout = 12 * time.Millisecond
	}
	watchdog := 10 * time.Second
	hangs, taints := 0, 0
	for {
		wdog := watchdog
		if hasSilent {
			wdog += timeout // such runs legitimately last as long as the budget
		}
		obs, tainted := runOnce(n, kinds, order, parentAfter, rs, nonce, runCfg{watchdog: wdog, timeout: timeout, inst: inst, scribble: scribble, errVals: errVals, reg: reg})
		if obs.hang != "" {
			// a watchdog is only believed when it fires twice, the second time after a minute
			hangs++
			if hangs == 1 {
				stats["watchdog_first_try"]++
				watchdog = 60 * time.Second
				continue
			}
			stats["watchdog_confirmed"]++
			return obs
		}
		if tainted && hasSilent {
			taints++
			stats["tainted_retries"]++
			if taints >= 6 {
				// the machine is too slow for this schedule right now: the case is skipped
				// (emitted as CSkipped so that case indices stay stable), never reported
				stats["skipped_tainted"]++
				obs.skipped = true
				return obs
			}
			timeout *= 4
			continue
		}
		return obs
	}
}

// ---------------------------------------------------------------------------------------

func perms(xs []int) [][]int {
	if len(xs) == 0 {
		return [][]int{{}}
	}
	var res [][]int
	for i := range xs {
		rest := append(append([]int{}, xs[:i]...), xs[i+1:]...)
		for _, p := range perms(rest) {
			res = append(res, append([]int{xs[i]}, p...))
		}
	}
	return res
}

func nonSilent(kinds []int) []int {
	var r []int
	for i, k := range kinds {
		if k != kSilent {
			r = append(r, i)
		}
	}
	return r
}

func vectors(n, base int) [][]int {
	total := 1
	for i := 0; i < n; i++ {
		total *= base
	}
	res := make([][]int, 0, total)
	for v := 0; v < total; v++ {
		ks := make([]int, n)
		x := v
		for i := range ks {
			ks[i] = x % base
			x /= base
		}
		res = append(res, ks)
	}
	return res
}

func main() {
	cfg := out.ParseFlags("C05")
	r := rng.New(cfg.Seed)
	w := out.NewWriter(cfg, "Verif.Corr.C05", 150)
	proxy.SetVerifOnDequeue(func(site string) {
		if site != "concurrent" {
			return
		}
		if ch, ok := curDeq.Load().(chan struct{}); ok {
			select {
			case ch <- struct{}{}:
			default:
			}
		}
	})
	cat := requestCatalogue(r.Sub())
	stats := map[string]int{}
	reqCounter := 0
	aborted := false

	// render: the Gallina term and the human form of one observed run; proj: the part of the
	// observation that is the same for every run of the same input without interference
	render := func(stream string, free bool, n int, kinds []int, flavors []int, errVals []error, reg *respReg, order []int, parentAfter int, rs reqSpec, nonce string, obs observation) (term string, js map[string]interface{}, proj string) {
		respCoq, respJS := "None", interface{}(nil)
		if obs.resp != nil {
			id := reg.identify(obs.resp)
			respCoq = emit.Some(emit.App("mkResp", emit.N(uint64(id)), emit.Bool(obs.resp.IsComplete)))
			respJS = map[string]interface{}{"id": id, "complete": obs.resp.IsComplete}
			proj = fmt.Sprintf("resp(%d,%v)", id, obs.resp.IsComplete)
		}
		errCoq, errJS := "None", interface{}(nil)
		if obs.hang != "" {
			errCoq = emit.Some(emit.App("EOther", emit.Str("harness watchdog: "+obs.hang)))
			errJS = "harness watchdog: " + obs.hang
			proj += "|hang"
		} else if obs.err != nil {
			var te tagErr
			switch {
			case whoseError(obs.err, errVals) >= 0:
				// the very error value an attempt of this call returned, whatever it wraps
				errCoq = emit.Some(emit.App("EAttempt", emit.N(uint64(whoseError(obs.err, errVals)))))
				proj += "|EAttempt"
			case errors.As(obs.err, &te) && te.nonce == nonce:
				errCoq = emit.Some(emit.App("EAttempt", emit.N(uint64(te.slot))))
				proj += "|EAttempt"
			case obs.err == proxy.VerifErrNullResult:
				errCoq = emit.Some("ENull")
				proj += "|ENull"
			case errors.Is(obs.err, context.DeadlineExceeded):
				errCoq = emit.Some("EDeadline")
				proj += "|EDeadline"
			case errors.Is(obs.err, context.Canceled):
				errCoq = emit.Some("ECanceled")
				proj += "|ECanceled"
			default:
				errCoq = emit.Some(emit.App("EOther", emit.Str(obs.err.Error())))
				proj += "|other:" + obs.err.Error()
			}
			errJS = obs.err.Error()
		}
		ks := make([]string, len(kinds))
		fl := make([]interface{}, len(kinds))
		for i, k := range kinds {
			ks[i] = kindNames[k]
			if returnsError(k) {
				fl[i] = flavorNames[flavors[i]]
			}
		}
		parentCoq := "None"
		if parentAfter >= 0 {
			parentCoq = emit.Some(emit.Nat(parentAfter))
		}
		// the input request is bound once; an attempt's request whose emitted term is textually
		// the same is written as a reference to it (pure compression of the case file)
		in := rs.obs()
		inCoq := in.coq()
		seenCoq := make([]string, len(obs.seen))
		seenJS := make([]interface{}, len(obs.seen))
		same := 0
		for i, s := range obs.seen {
			seenCoq[i] = s.coq()
			if seenCoq[i] == inCoq {
				seenCoq[i] = "rq"
				same++
			}
			seenJS[i] = s.js()
		}
		proj += fmt.Sprintf("|seen=%d/%d", same, len(obs.seen))
		if free {
			term = "(let rq := " + inCoq + " in " + emit.App("CFree", emit.Nat(n), emit.List(ks), "rq", emit.List(seenCoq), emit.Pair(respCoq, errCoq)) + ")"
		} else {
			term = "(let rq := " + inCoq + " in " + emit.App("CRun", emit.Nat(n), emit.List(ks), emit.NatList(order), parentCoq, "rq", emit.List(seenCoq), emit.Pair(respCoq, errCoq)) + ")"
		}
		js = map[string]interface{}{
			"stream": stream, "n": n, "kinds": ks, "order": order, "parent_cancelled_after": parentAfter,
			"request": in.js(), "request_variant": rs.name, "order_imposed": !free, "error_values": fl, "empty_data_slot": reg.emptySlot,
			"observed": map[string]interface{}{"response": respJS, "error": errJS, "attempts_started": obs.started, "seen": seenJS},
		}
		return term, js, proj
	}
	count := func(stream string, n int, kinds []int, rs reqSpec, obs observation) bool {
		nontrivial := false
		for _, k := range kinds {
			w.Count("kind:" + kindNames[k])
			if k != kComplete {
				nontrivial = true
			}
		}
		w.Count("stream:" + stream)
		w.Count(fmt.Sprintf("n:%d", n))
		switch {
		case obs.resp != nil && obs.resp.IsComplete:
			w.Count("result:complete")
		case obs.resp != nil && obs.err != nil:
			w.Count("result:incomplete+error")
		case obs.resp != nil:
			w.Count("result:incomplete")
		case obs.err != nil:
			w.Count("result:error")
		default:
			w.Count("result:nil,nil")
		}
		w.Count("request:" + rs.name[:strings.Index(rs.name, "/")])
		return nontrivial
	}

	scribble := false
	forceFlavor := -1
	forceEmpty := -1
	emitOn := func(inst *instance, stream string, n int, kinds []int, order []int, parentAfter int, ri int) {
		if aborted {
			return
		}
		rs := cat[ri%len(cat)]
		nonce := fmt.Sprintf("c%d", w.N())
		if inst != nil {
			rs = withRun(rs, nonce)
		}
		// error values of the failing attempts: forced (corpus) or rotated over the case index
		flavors := make([]int, len(kinds))
		for i, k := range kinds {
			if returnsError(k) {
				if forceFlavor >= 0 {
					flavors[i] = forceFlavor
				} else {
					flavors[i] = (w.N() + 2*i) % nFlavors
				}
				w.Count("error_value:" + flavorNames[flavors[i]])
			}
		}
		errVals := errValues(kinds, flavors, nonce)
		// the response of one slot carries empty data (two cases in three; nil and {} alternate)
		emptySlot := -1
		if forceEmpty >= 0 {
			emptySlot = forceEmpty
		} else if w.N()%3 != 0 {
			emptySlot = (w.N() / 3) % len(kinds)
		}
		if emptySlot >= 0 && (kinds[emptySlot] == kError || kinds[emptySlot] == kEmpty || kinds[emptySlot] == kSilent) {
			emptySlot = -1
		}
		if emptySlot >= 0 {
			w.Count("response_with_empty_data:" + kindNames[kinds[emptySlot]])
		}
		reg := newRespReg(nonce, emptySlot, w.N()%2 == 0)
		obs := runScenario(inst, scribble, n, kinds, errVals, reg, order, parentAfter, rs, nonce, stats)
		if stats["watchdog_confirmed"] >= 2 {
			aborted = true
		}
		if obs.skipped {
			w.Count("skipped:budget-too-short-for-this-machine")
			w.Add(emit.App("CSkipped", emit.Str("release phase not finished within the budget after 6 attempts")),
				map[string]interface{}{"stream": stream, "n": n, "kinds": kinds, "order": order, "skipped": true},
				"", fmt.Sprintf("skipped|%d|%v|%v|%d|%s", n, kinds, order, parentAfter, rs.name), false)
			return
		}
		term, js, _ := render(stream, false, n, kinds, flavors, errVals, reg, order, parentAfter, rs, nonce, obs)
		nontrivial := count(stream, n, kinds, rs, obs)
		canon := fmt.Sprintf("%s|%d|%v|%v|%d|%s", stream, n, kinds, order, parentAfter, rs.name)
		w.Add(term, js, "", canon, nontrivial)
		if obs.caller != nil {
			in := rs.obs()
			w.Count("stream:" + stream + "-caller")
			w.Add(emit.App("CCaller", emit.Nat(n), in.coq(), obs.caller.coq()),
				map[string]interface{}{"stream": stream + "-caller", "n": n, "request": in.js(), "request_variant": rs.name,
					"observed": map[string]interface{}{"caller_request_after_call": obs.caller.js()}},
				"", "caller|"+canon, true)
		}
	}
	emitCase := func(stream string, n int, kinds []int, order []int, parentAfter int, ri int) {
		emitOn(nil, stream, n, kinds, order, parentAfter, ri)
	}
	nextReq := func() int { reqCounter++; return reqCounter - 1 }

	// ---- regression corpus: inputs that separate plausible wrong implementations ----
	corpus := []struct {
		kinds  []int
		order  []int
		parent int
	}{
		{[]int{kComplete, kIncomplete}, []int{0, 1}, -1},                 // complete first, incomplete never dequeued
		{[]int{kComplete, kIncomplete}, []int{1, 0}, -1},                 // last-response-wins would still be right here
		{[]int{kComplete, kIncomplete, kIncomplete}, []int{1, 0, 2}, -1}, // complete in the middle
		{[]int{kError, kComplete, kError}, []int{0, 2, 1}, -1},           // errors before the complete one: no error returned
		{[]int{kIncomplete, kError}, []int{0, 1}, -1},                    // incomplete + error mixed: both returned
		{[]int{kError, kIncomplete}, []int{0, 1}, -1},                    // same, other order
		{[]int{kEmpty, kEmpty}, []int{0, 1}, -1},                         // only (nil, nil) results
		{[]int{kSilent, kSilent}, []int{}, -1},                           // nobody answers: budget expires
		{[]int{kSilent, kComplete}, []int{1}, -1},                        // one silent, one complete
		{[]int{kIncomplete, kSilent, kError}, []int{2, 0}, -1},           // incomplete, then the budget expires
		{[]int{kComplete, kComplete, kComplete, kComplete}, []int{3, 2, 1, 0}, -1},
		{[]int{kIncomplete, kComplete}, []int{0, 1}, 0}, // parent done before anything: (nil, nil)
		{[]int{kIncomplete, kComplete}, []int{0, 1}, 1}, // parent done after an incomplete answer
		{[]int{kError, kIncomplete, kComplete}, []int{0, 1, 2}, 2},
	}
	for _, c := range corpus {
		emitCase("corpus", len(c.kinds), c.kinds, c.order, c.parent, nextReq())
	}
	// a failing attempt whose error VALUE is (or wraps, or looks like) a context/timeout error
	// while the budget and the parent are alive, dequeued BEFORE a sibling's complete answer:
	// an ordinary failure - the complete answer must still be awaited and returned
	for f := 1; f < nFlavors; f++ {
		forceFlavor = f
		emitCase("corpus-error-values", 2, []int{kError, kComplete}, []int{0, 1}, -1, nextReq())
		emitCase("corpus-error-values", 3, []int{kIncomplete, kError, kComplete}, []int{0, 1, 2}, -1, nextReq())
		emitCase("corpus-error-values", 3, []int{kError, kError, kIncomplete}, []int{0, 1, 2}, -1, nextReq())
	}
	forceFlavor = -1
	// a complete answer whose data is EMPTY (a {} body, everything filtered, no-op) is a complete
	// answer: it ends collection whatever the siblings do afterwards
	for _, c := range []struct {
		kinds []int
		order []int
		empty int
	}{
		{[]int{kComplete, kError}, []int{0, 1}, 0},
		{[]int{kComplete, kIncomplete}, []int{0, 1}, 0},
		{[]int{kError, kComplete, kIncomplete}, []int{0, 1, 2}, 1},
		{[]int{kComplete, kSilent}, []int{0}, 0},
		{[]int{kComplete, kComplete}, []int{0, 1}, 0},
		{[]int{kIncomplete, kError}, []int{0, 1}, 0},
		{[]int{kComplete, kEmpty, kIncompleteErr}, []int{0, 1, 2}, 0},
	} {
		forceEmpty = c.empty
		emitCase("corpus-empty-data", len(c.kinds), c.kinds, c.order, -1, nextReq())
	}
	forceEmpty = -1
	// attempts that return a response AND an error together: one failure message each (the
	// response is dropped); arriving before a sibling's complete answer, in numbers that would
	// fill the N receives if such an attempt sent two messages
	for _, c := range []struct {
		kinds []int
		order []int
	}{
		{[]int{kIncompleteErr, kComplete}, []int{0, 1}},
		{[]int{kCompleteErr, kComplete}, []int{0, 1}},
		{[]int{kIncompleteErr, kIncompleteErr, kComplete}, []int{0, 1, 2}},
		{[]int{kIncompleteErr, kError, kComplete}, []int{1, 0, 2}},
		{[]int{kCompleteErr, kIncompleteErr, kComplete}, []int{1, 0, 2}},
		{[]int{kIncompleteErr, kEmpty, kIncompleteErr, kComplete}, []int{0, 1, 2, 3}},
		{[]int{kIncompleteErr, kIncompleteErr, kError, kComplete}, []int{0, 1, 2, 3}},
		{[]int{kIncompleteErr, kIncomplete}, []int{0, 1}},
		{[]int{kCompleteErr, kError}, []int{0, 1}},
		{[]int{kCompleteErr, kCompleteErr}, []int{1, 0}},
		{[]int{kIncompleteErr, kSilent}, []int{0}},
	} {
		emitCase("corpus-response-with-error", len(c.kinds), c.kinds, c.order, -1, nextReq())
	}

	// ---- instance reuse, sequential: ONE middleware instance serves a sequence of calls that
	// differ in outcomes, arrival order and request (state kept from one call to the next -
	// a response, an error, a message left in a channel, a body - shows in the next step) ----
	type step struct {
		kinds  []int
		order  []int
		parent int
	}
	runSequence := func(stream string, n int, steps []step) {
		inst := newInstance(n, 30*time.Second)
		for _, st := range steps {
			emitOn(inst, stream, n, st.kinds, st.order, st.parent, nextReq())
		}
	}
	runSequence("reuse-seq-corpus", 2, []step{
		{[]int{kComplete, kIncomplete}, []int{0, 1}, -1},   // returns early: the incomplete answer stays behind
		{[]int{kEmpty, kEmpty}, []int{0, 1}, -1},           // must be (nil, invalid response): no response of the call before
		{[]int{kIncomplete, kError}, []int{0, 1}, -1},      // incomplete + error
		{[]int{kComplete, kError}, []int{1, 0}, -1},        // complete: no error of this or the earlier call
		{[]int{kIncomplete, kIncomplete}, []int{1, 0}, -1}, // no error must survive from step 3
		{[]int{kError, kError}, []int{0, 1}, -1},           // no response must survive from step 5
	})
	forceFlavor = fWrappedDeadline
	runSequence("reuse-seq-corpus", 2, []step{
		{[]int{kError, kComplete}, []int{0, 1}, -1}, // context-looking failure first, complete second
		{[]int{kComplete, kError}, []int{0, 1}, -1},
		{[]int{kError, kIncomplete}, []int{0, 1}, -1},
		{[]int{kError, kComplete}, []int{0, 1}, -1},
	})
	forceFlavor = -1
	runSequence("reuse-seq-corpus", 3, []step{
		{[]int{kIncomplete, kError, kComplete}, []int{0, 1, 2}, -1},
		{[]int{kError, kEmpty, kError}, []int{0, 1, 2}, -1},
		{[]int{kComplete, kComplete, kComplete}, []int{2, 1, 0}, -1}, // two complete answers stay behind
		{[]int{kIncomplete, kIncomplete, kIncomplete}, []int{1, 2, 0}, -1},
		{[]int{kEmpty, kIncomplete, kError}, []int{0, 1, 2}, 1}, // parent done after one message
		{[]int{kError, kIncomplete, kEmpty}, []int{1, 0, 2}, -1},
	})

	// ---- exhaustive small scope: every outcome vector x every arrival order ----
	maxN := 3
	if cfg.Thorough() {
		maxN = 4
	}
	for n := 2; n <= maxN; n++ {
		for _, ks := range vectors(n, 5) {
			for _, ord := range perms(nonSilent(ks)) {
				emitCase("exhaustive", n, ks, ord, -1, nextReq())
			}
		}
	}

	// ---- the same with the two (response, error) kinds: every vector that contains one ----
	for n := 2; n <= 3; n++ {
		for _, ks := range vectors(n, 7) {
			has, silent := false, false
			for _, k := range ks {
				has = has || k == kIncompleteErr || k == kCompleteErr
				silent = silent || k == kSilent
			}
			if !has || (!cfg.Thorough() && n == 3 && silent) {
				continue
			}
			for _, ord := range perms(nonSilent(ks)) {
				if !cfg.Thorough() && n == 3 && r.Intn(2) != 0 {
					continue
				}
				emitCase("exhaustive-response-with-error", n, ks, ord, -1, nextReq())
			}
		}
	}

	// ---- parent context cancelled after k dequeued messages (outside the quantifier) ----
	for n := 2; n <= 3; n++ {
		for _, ks := range vectors(n, 4) {
			for _, ord := range perms(nonSilent(ks)) {
				for k := 0; k < n; k++ {
					if !cfg.Thorough() && n == 3 && r.Intn(3) != 0 {
						continue
					}
					emitCase("parent-done", n, ks, ord, k, nextReq())
				}
			}
		}
	}

	// ---- structured random: larger N ----
	randomScenario := func(n int, base int) ([]int, []int) {
		ks := make([]int, n)
		// bias: few complete ones, so that "otherwise" branches are frequent
		for i := range ks {
			if r.Chance(1, 5) {
				ks[i] = kComplete
			} else {
				ks[i] = 1 + r.Intn(base-1)
				if r.Chance(1, 6) {
					ks[i] = kIncompleteErr + r.Intn(2) // a response together with an error
				}
			}
		}
		ns := nonSilent(ks)
		p := r.Perm(len(ns))
		ord := make([]int, len(ns))
		for i, j := range p {
			ord[i] = ns[j]
		}
		return ks, ord
	}
	n4, big := 700, 150
	if cfg.Thorough() {
		n4, big = 0, 3000
	}
	for i := 0; i < n4; i++ {
		ks, ord := randomScenario(4, 5)
		emitCase("random-n4", 4, ks, ord, -1, nextReq())
	}
	for i := 0; i < big; i++ {
		n := 5 + r.Intn(5)
		base := 5
		if i%3 != 0 {
			base = 4 // without silent attempts: no waiting for the budget
		}
		ks, ord := randomScenario(n, base)
		emitCase("random-large", n, ks, ord, -1, nextReq())
	}
	pd := 100
	if cfg.Thorough() {
		pd = 2500
	}
	for i := 0; i < pd; i++ {
		n := 4 + r.Intn(3)
		ks, ord := randomScenario(n, 4)
		emitCase("parent-done-random", n, ks, ord, r.Intn(n), nextReq())
	}

	// ---- instance reuse, sequential, random sequences ----
	nseq := 60
	if cfg.Thorough() {
		nseq = 400
	}
	for i := 0; i < nseq; i++ {
		n := 2 + r.Intn(3)
		var steps []step
		for j, m := 0, 3+r.Intn(4); j < m; j++ {
			ks, ord := randomScenario(n, 4)
			par := -1
			if r.Chance(1, 6) {
				par = r.Intn(n)
			}
			steps = append(steps, step{ks, ord, par})
		}
		runSequence("reuse-seq-random", n, steps)
	}

	// ---- instance reuse, concurrent: ONE instance called from 12 goroutines at the same time;
	// the attempts answer at once (order not imposed), the inputs are chosen so that the
	// compared part of the result does not depend on the order; every distinct
	// (input, observation) pair is emitted once ----
	if !aborted {
		curDeq.Store(make(chan struct{})) // the dequeue hook cannot be attributed here: ignored
		inputs := []struct {
			kinds []int
			ri    int
		}{
			{[]int{kComplete, kError, kError}, 3},
			{[]int{kIncomplete, kError, kError}, 11},
			{[]int{kEmpty, kEmpty, kEmpty}, 20},
			{[]int{kError, kError, kError}, 34},
			{[]int{kIncomplete, kEmpty, kEmpty}, 47},
			{[]int{kComplete, kIncomplete, kEmpty}, 58},
		}
		iters := 40
		if cfg.Thorough() {
			iters = 150
		}
		inst := newInstance(3, 30*time.Second)
		type found struct {
			term string
			js   map[string]interface{}
			obs  observation
			rs   reqSpec
		}
		var fmu sync.Mutex
		distinct := map[string]found{}
		startGate := make(chan struct{})
		var wg sync.WaitGroup
		for g := 0; g < 12; g++ {
			wg.Add(1)
			go func(g int) {
				defer wg.Done()
				<-startGate
				for it := 0; it < iters; it++ {
					ii := (g + it) % len(inputs)
					in := inputs[ii]
					nonce := fmt.Sprintf("f%d-%d-%d", ii, g, it)
					rs := withRun(cat[in.ri%len(cat)], nonce)
					flavors := make([]int, len(in.kinds))
					for i := range flavors {
						flavors[i] = (ii + g + it + 2*i) % nFlavors
					}
					errVals := errValues(in.kinds, flavors, nonce)
					reg := newRespReg(nonce, (g+it)%4-1, it%2 == 0) // slot 0 (the only response of an input) often has empty data
					if reg.emptySlot > 0 {
						reg.emptySlot = -1
					}
					obs := runFree(inst, in.kinds, errVals, reg, rs, nonce)
					term, js, proj := render("reuse-concurrent", true, 3, in.kinds, flavors, errVals, reg, []int{0, 1, 2}, -1, rs, nonce, obs)
					key := fmt.Sprintf("%02d|%s", ii, proj)
					fmu.Lock()
					if _, ok := distinct[key]; !ok {
						distinct[key] = found{term, js, obs, rs}
					}
					fmu.Unlock()
				}
			}(g)
		}
		close(startGate)
		wg.Wait()
		keys := make([]string, 0, len(distinct))
		for k := range distinct {
			keys = append(keys, k)
		}
		sort.Strings(keys)
		for _, k := range keys {
			f := distinct[k]
			var ii int
			fmt.Sscanf(k, "%02d|", &ii)
			nontrivial := count("reuse-concurrent", 3, inputs[ii].kinds, f.rs, f.obs)
			w.Add(f.term, f.js, "", "reuse-concurrent|"+k, nontrivial)
		}
		w.Meta["reuse_concurrent_calls"] = 12 * iters
		w.Meta["reuse_concurrent_distinct"] = len(keys)
	}

	// ---- scribbling attempts: every attempt records the request it was handed (one attempt at
	// a time), then writes junk into the Headers and Params maps of ITS request; the later
	// attempts must still be handed the original request and the caller's request must be
	// untouched afterwards.  Body-less and with-body variants with non-empty maps ----
	{
		big := make([]byte, 64*1024)
		for i := range big {
			big[i] = byte(i*7 + 3)
		}
		var vars []int
		for _, shape := range []reqSpec{
			{name: "post", method: "POST", url: "http://example.com:8080/b/42?q=1", path: "/b/{{.Id}}",
				query:   url.Values{"q": {"1"}},
				params:  map[string]string{"Id": "42", "Tenant": "acme"},
				headers: map[string][]string{"Accept": {"application/json"}, "X-Multi": {"a", "b"}, "X-None": {}}},
			{name: "patch", method: "DELETE", url: "http://h/x", path: "/x",
				params:  map[string]string{"K": ""},
				headers: map[string][]string{"Cookie": {"a=b; c=d"}}},
		} {
			for _, b := range []struct {
				name string
				b    []byte
				nilB bool
			}{{"nil", nil, true}, {"empty", []byte{}, false}, {"text", []byte(`{"a":1}`), false}, {"64KiB", big, false}} {
				x := shape
				x.name = shape.name + "/" + b.name + "/scribble"
				x.body, x.nilBody = b.b, b.nilB
				cat = append(cat, x)
				vars = append(vars, len(cat)-1)
			}
		}
		scribble = true
		for _, ri := range vars {
			for n := 2; n <= 4; n++ {
				reps := 1
				if cfg.Thorough() {
					reps = 6
				}
				for k := 0; k < reps; k++ {
					ks, ord := randomScenario(n, 4)
					emitCase("scribble", n, ks, ord, -1, ri)
				}
			}
		}
		scribble = false
	}

	// ---- every request variant of the catalogue, N = 2..4 ----
	for ri := range cat {
		for n := 2; n <= 4; n++ {
			if !cfg.Thorough() && (ri+n)%3 != 0 {
				continue
			}
			ks, ord := randomScenario(n, 4)
			emitCase("requests", n, ks, ord, -1, ri)
		}
	}

	for k, v := range stats {
		w.Meta["run_"+k] = v
	}
	w.Meta["request_catalogue"] = len(cat)
	w.Meta["aborted_after_confirmed_watchdogs"] = aborted
	w.Close(fmt.Sprintf("corpus; every outcome vector over {complete, incomplete, error, empty, silent}^N x every arrival order of the non-silent attempts for N=2..%d (silent attempts answer when the budget expires); parent context cancelled after k dequeues for N=2..3 (quick: a third of N=3); random N=4 (quick) and N=5..9; responses with EMPTY data (nil or {}) in one slot of two cases in three; request bodies that refuse reads after Close (net/http-like); attempts returning a response AND an error together (kinds KIncompleteErr/KCompleteErr: corpus, every vector containing one for N=2..3 (quick: N=3 without silent, half), 1/6 of the random non-complete outcomes); failing attempts return rotating error VALUES (plain, context.Canceled/DeadlineExceeded bare and wrapped, *url.Error around a Client.Timeout error, Timeout()=true) while budget and parent are alive; scribbling attempts (each writes junk into the maps of its own request after recording it; 8 request variants incl. body-less, caller's request compared afterwards); instance reuse: one middleware instance serving sequences of 3-6 calls with different outcomes/orders/requests (2 corpus sequences + random ones) and 12 goroutines calling one instance at the same time (distinct (input, observation) pairs); %d request variants (method/url/path/query/params/headers x 10 bodies incl. nil, empty, binary, 64 KiB, 200 KiB x 3 reader behaviours) assigned round-robin to all scenarios; nontrivial = not all attempts complete", maxN, len(cat)), true)
}
