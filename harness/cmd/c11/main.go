// C11 generator: drives the REAL gin and mux endpoint handler factories (the mux one also
// behind the BasicEngine / HTTPErrorInterceptor) with scripted (response, error) pairs and
// records status, the three headers the property speaks of, and the body.
package main

import (
	"context"
	"encoding/json"
	"errors"
	"fmt"
	"io"
	"net/http"
	"net/http/httptest"
	"net/textproto"
	"net/url"
	"os"
	"os/exec"
	"reflect"
	"sort"
	"strconv"
	"strings"
	"sync"
	"time"

	"github.com/gin-gonic/gin"
	"github.com/luraproject/lura/v2/config"
	"github.com/luraproject/lura/v2/core"
	"github.com/luraproject/lura/v2/logging"
	"github.com/luraproject/lura/v2/proxy"
	luragin "github.com/luraproject/lura/v2/router/gin"
	"github.com/luraproject/lura/v2/router/mux"
	"github.com/luraproject/lura/v2/transport/http/client"
	"github.com/luraproject/lura/v2/transport/http/server"

	"verif/harness/internal/emit"
	"verif/harness/internal/out"
	"verif/harness/internal/rng"
)

const sigCollision = "noop-metadata-header-collision"

// ---- error values ----------------------------------------------------------------------

type stErr struct {
	code int
	msg  string
}

func (s stErr) Error() string   { return s.msg }
func (s stErr) StatusCode() int { return s.code }

type multiErr struct{ es []error }

func (m multiErr) Error() string {
	p := make([]string, len(m.es))
	for i, e := range m.es {
		p[i] = e.Error()
	}
	return strings.Join(p, "\n")
}
func (m multiErr) Errors() []error { return m.es }

type multiStatusErr struct {
	multiErr
	code int
}

func (m multiStatusErr) StatusCode() int { return m.code }

// kind: plain | status | httpresp (client.HTTPResponseError) | multi | merge (lura's own
// mergeError, obtained from the real accumulator) | multistatus
type errSpec struct {
	kind string
	code int
	msg  string
}

func (e *errSpec) build() error {
	switch e.kind {
	case "plain":
		return errors.New(e.msg)
	case "status":
		return stErr{e.code, e.msg}
	case "httpresp":
		return client.HTTPResponseError{Code: e.code, Msg: e.msg, Enc: "text/plain"}
	case "multi":
		return multiErr{[]error{errors.New(e.msg), stErr{418, "inner"}}}
	case "merge":
		acc := proxy.VerifNewAccumulator(2)
		acc.Merge(nil, errors.New(e.msg))
		acc.Merge(nil, stErr{404, "inner"})
		_, err := acc.Result()
		return err
	case "multistatus":
		return multiStatusErr{multiErr{[]error{errors.New(e.msg)}}, e.code}
	// errors WITHOUT a status of their own that wrap one that has
	case "wrap1":
		return fmt.Errorf("%s: %w", e.msg, stErr{e.code, "buried status error"})
	case "wrap2":
		return fmt.Errorf("outer %s: %w", e.msg, fmt.Errorf("inner: %w", client.HTTPResponseError{Code: e.code, Msg: "buried"}))
	case "join":
		return errors.Join(errors.New(e.msg), stErr{e.code, "joined status error"})
	case "unwrapmulti":
		return unwrapMultiErr{multiErr{[]error{errors.New(e.msg), stErr{e.code, "entry with status"}}}}
	case "isas":
		return isAsErr{msg: e.msg, inner: stErr{e.code, "reachable through As"}}
	// errors that are (or wrap) a timeout: Timeout() is true, no status of their own
	case "deadline":
		return context.DeadlineExceeded
	case "wrapdeadline":
		return fmt.Errorf("%s: %w", e.msg, context.DeadlineExceeded)
	case "urltimeout":
		return &url.Error{Op: "Get", URL: "http://backend/x", Err: timeoutErr{e.msg}}
	case "nettimeout":
		return timeoutErr{e.msg}
	case "mergestatus":
		acc := proxy.VerifNewAccumulator(2)
		acc.Merge(nil, client.HTTPResponseError{Code: e.code, Msg: e.msg})
		acc.Merge(nil, errors.New("second backend"))
		_, err := acc.Result()
		return err
	}
	panic("unknown error kind " + e.kind)
}

// a multi-error that also exposes its entries to errors.Is/As
type unwrapMultiErr struct{ multiErr }

func (m unwrapMultiErr) Unwrap() []error { return m.es }

// an error with Is/As methods of its own: As hands out the status error it holds to any
// target that can take it
type isAsErr struct {
	msg   string
	inner stErr
}

func (e isAsErr) Error() string        { return e.msg }
func (e isAsErr) Is(target error) bool { return target == error(e.inner) }
func (e isAsErr) As(target interface{}) bool {
	v := reflect.ValueOf(target)
	if v.Kind() != reflect.Ptr || v.IsNil() {
		return false
	}
	if reflect.TypeOf(e.inner).AssignableTo(v.Elem().Type()) {
		v.Elem().Set(reflect.ValueOf(e.inner))
		return true
	}
	return false
}

// a net.Error-like timeout (dial / read timeout of the http client)
type timeoutErr struct{ msg string }

func (e timeoutErr) Error() string   { return "i/o timeout: " + e.msg }
func (e timeoutErr) Timeout() bool   { return true }
func (e timeoutErr) Temporary() bool { return true }

var timeoutKinds = []string{"deadline", "wrapdeadline", "urltimeout", "nettimeout"}

func (e *errSpec) isTimeout() bool {
	for _, k := range timeoutKinds {
		if e.kind == k {
			return true
		}
	}
	return false
}

var wrappedKinds = []string{"wrap1", "wrap2", "join", "unwrapmulti", "isas", "mergestatus"}

func (e *errSpec) hasStatus() bool {
	return e.kind == "status" || e.kind == "httpresp" || e.kind == "multistatus"
}
func (e *errSpec) isMulti() bool {
	return e.kind == "multi" || e.kind == "merge" || e.kind == "multistatus" || e.kind == "unwrapmulti" || e.kind == "mergestatus"
}

// buried: a status code carried by something the error wraps, not by the error itself
func (e *errSpec) buried() (int, bool) {
	switch e.kind {
	case "wrap1", "wrap2", "join", "unwrapmulti", "isas", "mergestatus":
		return e.code, true
	case "multi":
		return 418, true
	case "merge":
		return 404, true
	}
	return 0, false
}

// ---- response values -------------------------------------------------------------------

type respSpec struct {
	dataNil  bool
	dataJS   string // JSON text of the data object (ignored when dataNil)
	complete bool
	meta     map[string][]string
	status   int
	io       *string
}

func decodeObj(s string) map[string]interface{} {
	d := json.NewDecoder(strings.NewReader(s))
	d.UseNumber()
	var m map[string]interface{}
	if err := d.Decode(&m); err != nil {
		panic(err)
	}
	return m
}

func (r *respSpec) data() map[string]interface{} {
	if r.dataNil {
		return nil
	}
	return decodeObj(r.dataJS)
}

func (r *respSpec) build() *proxy.Response {
	res := &proxy.Response{Data: r.data(), IsComplete: r.complete}
	if r.meta != nil {
		m := map[string][]string{}
		for k, v := range r.meta {
			m[k] = append([]string(nil), v...)
		}
		res.Metadata.Headers = m
	}
	res.Metadata.StatusCode = r.status
	if r.io != nil {
		res.Io = strings.NewReader(*r.io)
	}
	return res
}

// ---- one cell --------------------------------------------------------------------------

type renderVariant struct {
	coq       string // RJson | RNoop | RString | RCollection
	outputEnc string
	backEnc   string
	nBackends int
}

type cell struct {
	impl    string // Gin | Mux | MuxEngine
	rv      renderVariant
	resp    *respSpec
	err     *errSpec
	ttl     time.Duration
	ctxDone int // 0 no; 1 endpoint timeout <= 0; 2 (mux only) client request context cancelled
	errf    int // what the ToHTTPError translator answers; 500 + defaultF: the stock translator
	defF    bool
	ver     string
	verCase *verCase // observed in a child process whose identification value is not set by the harness
	accept  string   // Accept header of the request (matters for gin's negotiated render)
	ctxErrs []ctxErr // gin only: what an earlier middleware attaches with c.Error before c.Next()
}

// the process started with core.KrakendHeaderValue = build; hide: a gin engine was made by
// NewEngine with hide_version_header before the request
type verCase struct {
	build string
	hide  bool
}

func versionValue(build string, hide bool) string {
	if hide {
		return "Version undefined"
	}
	return build
}

// gin engines of the instances: plain gin.New, or (child process) router/gin.NewEngine
var ginEngineFactory = func() *gin.Engine { return gin.New() }

// kind: plain | status (the error has a StatusCode() of its own) | meta (a *gin.Error with meta)
type ctxErr struct {
	kind string
	code int
}

func (e ctxErr) coq() string {
	switch e.kind {
	case "status":
		return emit.App("CEStatus", emit.Z(int64(e.code)))
	case "meta":
		return "CEMeta"
	}
	return "CEPlain"
}

func (e ctxErr) attach(c *gin.Context) {
	switch e.kind {
	case "status":
		c.Error(stErr{e.code, "context error with a status of its own"})
	case "meta":
		c.Error(&gin.Error{Err: errors.New("public context error"), Type: gin.ErrorTypePublic, Meta: map[string]interface{}{"m": 1}})
	default:
		c.Error(errors.New("context error of an earlier middleware"))
	}
}

// render names the render the handler is expected to use (the Coq side recomputes it from
// output_encoding / backend encodings / Accept with its model of getRender and compares)
func (c cell) render() string {
	reg := func(name string) string {
		switch name {
		case "string":
			return "RString"
		case "json":
			return "RJson"
		case "no-op":
			return "RNoop"
		case "json-collection":
			return "RCollection"
		}
		if c.impl == "Gin" {
			switch name {
			case "xml":
				return "RXml"
			case "yaml":
				return "RYaml"
			case "negotiate":
				switch c.accept {
				case "application/xml":
					return "RXml"
				case "text/plain", "application/x-yaml":
					return "RYaml"
				}
				return "RJson"
			}
		}
		return ""
	}
	fb := "RJson"
	if c.rv.nBackends == 1 {
		if r := reg(c.rv.backEnc); r != "" {
			fb = r
		}
	}
	if c.rv.outputEnc == "" {
		return fb
	}
	if r := reg(c.rv.outputEnc); r != "" {
		return r
	}
	return fb
}

func acceptCoq(a string) string {
	switch a {
	case "":
		return "AcNone"
	case "application/json":
		return "AcJson"
	case "text/plain":
		return "AcPlain"
	case "application/xml":
		return "AcXml"
	case "application/x-yaml":
		return "AcYaml"
	}
	return "AcOther"
}

func validCode(c int) bool { return c >= 100 && c <= 999 }

func metaVals(m map[string][]string, name string) []string {
	ks := make([]string, 0, len(m))
	for k := range m {
		ks = append(ks, k)
	}
	sort.Strings(ks)
	var res []string
	for _, k := range ks {
		if textproto.CanonicalMIMEHeaderKey(k) == name {
			res = append(res, m[k]...)
		}
	}
	return res
}

// the input signature of the recorded finding: a metadata header of the response is
// appended next to (one of) the two headers the gateway writes itself
func (c cell) inFinding() bool {
	if c.resp == nil {
		return false
	}
	r := c.resp
	mC := metaVals(r.meta, "X-Krakend-Completed")
	mCC := metaVals(r.meta, "Cache-Control")
	if len(mC) == 0 && len(mCC) == 0 {
		return false
	}
	nonempty := !r.dataNil && len(r.data()) > 0
	effErr := c.err != nil || c.ctxDone != 0
	reached := c.impl == "Gin" || nonempty || !effErr
	noopAdds := c.render() == "RNoop" && reached
	if noopAdds {
		// no reply at all for a status net/http refuses
		if c.impl == "Gin" {
			if r.status > 0 && !validCode(r.status) {
				return false
			}
		} else if r.status != 0 && !validCode(r.status) {
			return false
		}
	}
	collC := false
	switch c.impl {
	case "Gin":
		collC = noopAdds && len(mC) > 0
	case "Mux":
		collC = (nonempty || noopAdds) && len(mC) > 0
	case "MuxEngine":
		collC = (nonempty || noopAdds) && len(mC) > 0
		if noopAdds && r.status != 0 && r.status != 200 {
			collC = false // the interceptor resets the header
		}
	}
	collCC := (nonempty || noopAdds) && len(mCC) > 0
	return collC || collCC
}

type observation struct {
	panicked  bool
	panicMsg  string
	status    int
	completed []string
	cache     []string
	version   []string
	ctype     string
	body      string
}

// instance: ONE handler built for one endpoint configuration (implementation, render,
// cache ttl, endpoint timeout, translator); the stubbed proxy answers each request with the
// (response, error) pair of the spec the request names in its X-Case header, so that several
// different requests can go through the same handler, one after the other or concurrently.
type instance struct {
	cfg   cell
	specs []cell
	h     http.Handler
}

func newInstance(cfg cell, specs []cell) *instance {
	ep := &config.EndpointConfig{Endpoint: "/a", Method: "GET", Timeout: time.Hour, CacheTTL: cfg.ttl,
		OutputEncoding: cfg.rv.outputEnc, HeadersToPass: []string{"X-Case"}}
	for i := 0; i < cfg.rv.nBackends; i++ {
		ep.Backend = append(ep.Backend, &config.Backend{Encoding: cfg.rv.backEnc})
	}
	if cfg.ctxDone == 1 {
		ep.Timeout = 0
	}
	p := func(_ context.Context, r *proxy.Request) (*proxy.Response, error) {
		k := 0
		if v := r.Headers["X-Case"]; len(v) > 0 {
			k, _ = strconv.Atoi(v[0])
		}
		sp := specs[k]
		var resp *proxy.Response
		if sp.resp != nil {
			resp = sp.resp.build()
		}
		var perr error
		if sp.err != nil {
			perr = sp.err.build()
		}
		return resp, perr
	}
	var errF server.ToHTTPError = server.DefaultToHTTPError
	if !cfg.defF {
		code := cfg.errf
		errF = func(error) int { return code }
	}
	in := &instance{cfg: cfg, specs: specs}
	switch cfg.impl {
	case "Gin":
		e := ginEngineFactory()
		// front middleware: attaches the context errors of the spec the request names, does
		// not abort, and hands over to the endpoint handler
		e.Use(func(c *gin.Context) {
			k, _ := strconv.Atoi(c.Request.Header.Get("X-Case"))
			for _, ce := range specs[k].ctxErrs {
				ce.attach(c)
			}
			c.Next()
		})
		e.GET("/a", luragin.CustomErrorEndpointHandler(logging.NoOp, errF)(ep, p))
		in.h = e
	case "Mux":
		in.h = mux.CustomEndpointHandlerWithHTTPError(mux.NewRequest, errF)(ep, p)
	case "MuxEngine":
		e := mux.DefaultEngine()
		e.Handle("/a", "GET", mux.CustomEndpointHandlerWithHTTPError(mux.NewRequest, errF)(ep, p))
		in.h = e
	default:
		panic("impl")
	}
	return in
}

// cellOf is the complete input of request k on this instance: configuration of the
// instance, (response, error, request context) of the spec
func (in *instance) cellOf(k int) cell {
	c := in.cfg
	sp := in.specs[k]
	c.resp, c.err, c.ver, c.accept = sp.resp, sp.err, sp.ver, sp.accept
	c.ctxErrs = nil
	if in.cfg.impl == "Gin" {
		c.ctxErrs = sp.ctxErrs
	}
	if in.cfg.ctxDone != 1 {
		c.ctxDone = sp.ctxDone
	}
	return c
}

// serve sends request k through the instance (core.KrakendHeaderValue is set by the caller)
func (in *instance) serve(k int) (obs observation) {
	rec := httptest.NewRecorder()
	req := httptest.NewRequest("GET", "/a", nil)
	req.Header.Set("X-Case", strconv.Itoa(k))
	if a := in.specs[k].accept; a != "" {
		req.Header.Set("Accept", a)
	}
	if in.cfg.ctxDone != 1 && in.specs[k].ctxDone == 2 {
		ctx, cancel := context.WithCancel(req.Context())
		cancel()
		req = req.WithContext(ctx)
	}
	func() {
		defer func() {
			if r := recover(); r != nil {
				obs.panicked = true
				obs.panicMsg = fmt.Sprint(r)
			}
		}()
		in.h.ServeHTTP(rec, req)
	}()
	if obs.panicked {
		return
	}
	res := rec.Result()
	obs.status = res.StatusCode
	obs.completed = res.Header["X-Krakend-Completed"]
	obs.cache = res.Header["Cache-Control"]
	obs.version = res.Header["X-Krakend"]
	obs.ctype = res.Header.Get("Content-Type")
	b, _ := io.ReadAll(res.Body)
	obs.body = string(b)
	return
}

func withVersion(ver string, f func()) {
	saved := core.KrakendHeaderValue
	core.KrakendHeaderValue = ver
	defer func() { core.KrakendHeaderValue = saved }()
	f()
}

// run: a fresh instance for this one cell
func (c cell) run() (obs observation) {
	if c.impl != "Gin" && len(c.ctxErrs) > 0 {
		panic("context errors exist in the gin chain only")
	}
	in := newInstance(c, []cell{c})
	withVersion(c.ver, func() { obs = in.serve(0) })
	return
}

// ---- emission --------------------------------------------------------------------------

func optZ(ok bool, v int) string {
	if !ok {
		return "None"
	}
	return emit.Some(emit.Z(int64(v)))
}

func (c cell) coqInput() string {
	resp := "None"
	if c.resp != nil {
		r := c.resp
		data := "None"
		if !r.dataNil {
			data = emit.Some(emit.Obj(r.data()))
		}
		resp = emit.Some(fmt.Sprintf("(mk_resp %s %s %s %s %s)",
			data, emit.Bool(r.complete), emit.MultiMap(r.meta), emit.Z(int64(r.status)), emit.OptStr(r.io)))
	}
	perr := "None"
	if c.err != nil {
		bc, bok := c.err.buried()
		perr = emit.Some(fmt.Sprintf("(mk_perr %s %s %s %s %s)",
			optZ(c.err.hasStatus(), c.err.code), emit.Bool(c.err.isMulti()), emit.Str(c.err.build().Error()), optZ(bok, bc), emit.Bool(c.err.isTimeout())))
	}
	ces := make([]string, len(c.ctxErrs))
	for i, e := range c.ctxErrs {
		ces[i] = e.coq()
	}
	return fmt.Sprintf("(mk_input %s %s %s %s %s %s %s %s %s)",
		c.impl, c.render(), resp, perr, emit.Z(int64(c.ttl)), emit.Bool(c.ctxDone != 0), emit.Z(int64(c.errf)), emit.Str(c.ver), emit.List(ces))
}

func (o observation) coq() string {
	if o.panicked {
		return "Panic"
	}
	body := emit.App("BRaw", emit.Str(o.body))
	if strings.HasPrefix(o.ctype, "application/json") {
		d := json.NewDecoder(strings.NewReader(o.body))
		d.UseNumber()
		var v interface{}
		if err := d.Decode(&v); err == nil && !d.More() {
			body = emit.App("BJson", emit.Json(v))
		}
	}
	return emit.App("Reply", fmt.Sprintf("(mk_reply %s %s %s %s %s)",
		emit.Z(int64(o.status)), emit.StrList(o.completed), emit.StrList(o.cache), emit.StrList(o.version), body))
}

func (c cell) js() map[string]interface{} {
	m := map[string]interface{}{
		"impl": c.impl, "render": c.render(), "accept": c.accept, "output_encoding": c.rv.outputEnc, "backend_encoding": c.rv.backEnc,
		"backends": c.rv.nBackends, "cache_ttl_ns": int64(c.ttl), "ctx_done": c.ctxDone, "errf": c.errf,
		"default_to_http_error": c.defF, "version_header_value": c.ver,
	}
	ce := []string{}
	for _, e := range c.ctxErrs {
		ce = append(ce, fmt.Sprintf("%s:%d", e.kind, e.code))
	}
	m["gin_context_errors"] = ce
	if c.resp != nil {
		r := map[string]interface{}{"complete": c.resp.complete, "meta_headers": c.resp.meta, "meta_status": c.resp.status}
		if c.resp.dataNil {
			r["data"] = nil
		} else {
			r["data"] = json.RawMessage(c.resp.dataJS)
		}
		if c.resp.io != nil {
			r["io"] = *c.resp.io
		}
		m["response"] = r
	} else {
		m["response"] = nil
	}
	if c.err != nil {
		m["error"] = map[string]interface{}{"kind": c.err.kind, "code": c.err.code, "msg": c.err.msg}
	} else {
		m["error"] = nil
	}
	return m
}

func (o observation) js() map[string]interface{} {
	if o.panicked {
		return map[string]interface{}{"panic": o.panicMsg}
	}
	return map[string]interface{}{"status": o.status, "X-Krakend-Completed": o.completed, "Cache-Control": o.cache,
		"X-Krakend": o.version, "Content-Type": o.ctype, "body": o.body}
}

func (c cell) nontrivial() bool {
	if c.err != nil || c.ctxDone != 0 || c.resp == nil || c.ttl != 0 || c.render() != "RJson" {
		return true
	}
	r := c.resp
	return r.dataNil || len(r.data()) == 0 || !r.complete || len(r.meta) > 0
}

// ---- pools -----------------------------------------------------------------------------

var impls = []string{"Gin", "Mux", "MuxEngine"}

var renders = map[string][]renderVariant{
	"RJson": {{"RJson", "json", "", 1}, {"RJson", "", "", 1}, {"RJson", "", "json", 1}, {"RJson", "bogus-encoding", "", 1},
		{"RJson", "", "no-op", 2}, {"RJson", "json", "no-op", 1}},
	"RNoop":       {{"RNoop", "no-op", "", 1}, {"RNoop", "", "no-op", 1}, {"RNoop", "no-op", "json", 3}},
	"RString":     {{"RString", "string", "", 1}, {"RString", "", "string", 1}},
	"RCollection": {{"RCollection", "json-collection", "", 1}, {"RCollection", "", "json-collection", 1}},
}
var renderNames = []string{"RJson", "RNoop", "RString", "RCollection"}

var dataEmpty = `{}`
var dataPool = []string{
	`{"k":"v"}`,
	`{"a":1,"b":{"c":[1,"two",null,true,2.50],"d":{}},"n":12345678901234567890}`,
	`{"content":"hello <world> & \"q\" é"}`,
	`{"collection":[{"x":1},2,"three"]}`,
	`{"content":5,"collection":{"not":"a list"}}`,
	`{"":null}`,
	`{"content":"","collection":[]}`,
}

var metaPool = []map[string][]string{
	nil,
	{"X-Meta": {"m"}},
	{"X-Krakend-Completed": {"true"}},
	{"Cache-Control": {"public, max-age=3600"}},
	{"x-krakend-completed": {"true"}, "X-Other": {"a", "b"}},
	{"X-Krakend-Completed": {"false"}},
	{"cache-control": {"no-store"}},
	{"X-KRAKEND-COMPLETED": {"true"}, "CACHE-CONTROL": {"public, max-age=1", "private"}, "X-Meta": {"z"}},
	{"X-Krakend": {"Version spoofed"}},
	{"x-krakend-completed ": {"true"}, "Cache Control": {"public, max-age=5"}}, // not canonicalised (space): no collision
	{"X-Krakend-Completed": {}, "Cache-Control": nil},                          // no values: nothing added
	{"X-Krakend-Completedé": {"true"}, "cache-control:": {"public, max-age=7"}},
	{},
}

var statusPool = []int{0, 200, 201, 404, 503, 204, 100, 999}
var badStatusPool = []int{-1, 99, 1000, 1}

var ttlPool = []time.Duration{0, time.Hour, time.Second, 500 * time.Millisecond, 1, 999999999, 1500 * time.Millisecond,
	-time.Second, -500 * time.Millisecond, (1<<22)*time.Second - 1, 86400 * time.Second}

var errCodes = []int{100, 101, 199, 200, 201, 204, 299, 300, 301, 304, 399, 400, 401, 403, 404, 418, 429, 499, 500, 501, 502, 503, 504, 599, 600, 999}
var badErrCodes = []int{0, -1, 99, 1000, 1}

var verPool = []string{"Version undefined", "Version 2.7.0", "v"}

func strp(s string) *string { return &s }

var ioPool = []*string{nil, strp(""), strp("raw backend body \x00\xff bytes"), strp(`{"looks":"like json"}`)}

// ---- the identification value of a process (hide_version_header) -------------------------

const buildValue = "Version 2.7.0"

func versionCells() []cell {
	var cs []cell
	for _, impl := range impls {
		base := cell{impl: impl, rv: renders["RJson"][0], errf: 500, defF: true}
		c := base
		c.ttl = time.Hour
		c.resp = &respSpec{dataJS: dataPool[1], complete: true}
		cs = append(cs, c)
		c.resp = &respSpec{dataJS: dataPool[0], complete: false}
		cs = append(cs, c)
		c = base
		c.resp = &respSpec{dataJS: dataEmpty, complete: true}
		cs = append(cs, c)
		c = base
		c.err = &errSpec{kind: "status", code: 404, msg: "nf"}
		cs = append(cs, c)
		c.err = &errSpec{kind: "plain", msg: "plain"}
		cs = append(cs, c)
		cs = append(cs, base)
		c = base
		c.rv = renders["RNoop"][0]
		c.resp = &respSpec{dataJS: dataEmpty, complete: true, status: 200, io: strp("passthrough")}
		cs = append(cs, c)
	}
	return cs
}

type obsDTO struct {
	Phase     string
	Idx       int
	Panicked  bool
	PanicMsg  string
	Status    int
	Completed []string
	Cache     []string
	Version   []string
	Ctype     string
	Body      string
}

// child process: the identification value is whatever the lura code makes of it. Phase
// "before": handlers made and used before any NewEngine; then a gin engine is made by NewEngine
// (with or without hide_version_header); phase "after-old": the earlier handlers again, phase
// "after-new": handlers made afterwards (gin ones on NewEngine engines).
func runVersionChild(hide bool) {
	gin.SetMode(gin.ReleaseMode)
	core.KrakendHeaderValue = buildValue
	cells := versionCells()
	var res []obsDTO
	serveAll := func(phase string, ins []*instance) {
		for i, in := range ins {
			o := in.serve(0)
			res = append(res, obsDTO{phase, i, o.panicked, o.panicMsg, o.status, o.completed, o.cache, o.version, o.ctype, o.body})
		}
	}
	mk := func() []*instance {
		ins := make([]*instance, len(cells))
		for i, c := range cells {
			ins[i] = newInstance(c, []cell{c})
		}
		return ins
	}
	old := mk()
	serveAll("before", old)
	sc := config.ServiceConfig{Version: config.ConfigVersion}
	if hide {
		sc.ExtraConfig = config.ExtraConfig{luragin.Namespace: map[string]interface{}{"hide_version_header": true}}
	}
	newEngine := func() *gin.Engine {
		return luragin.NewEngine(sc, luragin.EngineOptions{Logger: logging.NoOp, Writer: io.Discard})
	}
	newEngine()
	ginEngineFactory = newEngine
	serveAll("after-old", old)
	serveAll("after-new", mk())
	b, _ := json.Marshal(res)
	os.Stdout.Write(b)
}

func versionChild(cfg out.Config, hide bool) []obsDTO {
	exe, err := os.Executable()
	if err != nil {
		panic(err)
	}
	ctx, cancel := context.WithTimeout(context.Background(), 2*time.Minute)
	defer cancel()
	cmd := exec.CommandContext(ctx, exe, "--tier", cfg.Tier, "--seed", strconv.FormatUint(cfg.Seed, 10), "--out", cfg.Dir,
		"--extra", fmt.Sprintf("version-child:%v", hide))
	cmd.Stderr = os.Stderr
	b, err := cmd.Output()
	if err != nil {
		panic(fmt.Sprintf("version child process failed: %v", err))
	}
	var res []obsDTO
	if err := json.Unmarshal(b, &res); err != nil {
		panic(fmt.Sprintf("version child process: %v: %q", err, string(b)))
	}
	return res
}

func main() {
	cfg := out.ParseFlags("C11")
	if strings.HasPrefix(cfg.Extra, "version-child:") {
		runVersionChild(strings.HasSuffix(cfg.Extra, ":true"))
		return
	}
	gin.SetMode(gin.ReleaseMode)
	r := rng.New(cfg.Seed)
	w := out.NewWriter(cfg, "Verif.Corr.C11", 300)
	if cfg.Only >= 0 {
		// replay of one case: the sample list of meta.json would be null, which the driver
		// does not expect
		w.Meta["samples"] = []interface{}{}
	}

	var addObs func(c cell, o observation, stream string)
	add := func(c cell, stream string) { addObs(c, c.run(), stream) }
	addObs = func(c cell, o observation, stream string) {
		flagged := c.inFinding()
		backs := make([]string, c.rv.nBackends)
		for i := range backs {
			backs[i] = c.rv.backEnc
		}
		term := emit.App("CCase", emit.Bool(flagged), emit.Str(c.rv.outputEnc), emit.StrList(backs), acceptCoq(c.accept), c.coqInput(), o.coq())
		js := map[string]interface{}{"stream": stream, "input": c.js(), "observed": o.js()}
		if c.verCase != nil {
			term = emit.App("CVersion", emit.Str(c.verCase.build), emit.Bool(c.verCase.hide), emit.Bool(flagged), emit.Str(c.rv.outputEnc),
				emit.StrList(backs), acceptCoq(c.accept), c.coqInput(), o.coq())
			js["process"] = map[string]interface{}{"build_value": c.verCase.build, "hide_version_header_engine_built": c.verCase.hide}
		}
		sig := ""
		if flagged {
			sig = sigCollision
			w.Count("sig:" + sigCollision)
		}
		w.Count("stream:" + stream)
		w.Count("impl:" + c.impl)
		w.Count("render:" + c.render())
		switch {
		case c.resp == nil:
			w.Count("resp:nil")
		case c.resp.dataNil || len(c.resp.data()) == 0:
			w.Count("resp:empty")
		default:
			w.Count("resp:non-empty")
		}
		if c.err == nil {
			w.Count("err:none")
		} else {
			w.Count("err:" + c.err.kind)
		}
		if c.impl == "Gin" {
			w.Count(fmt.Sprintf("gin-context-errors:%d", len(c.ctxErrs)))
		}
		if o.panicked {
			w.Count("observed:panic")
		} else {
			w.Count(fmt.Sprintf("observed:status-%dxx", o.status/100))
		}
		cj, _ := json.Marshal(c.js())
		w.Add(term, js, sig, string(cj), c.nontrivial())
	}

	std := func(impl, render string) cell {
		return cell{impl: impl, rv: renders[render][0], ttl: 0, errf: 500, defF: true, ver: "Version undefined"}
	}

	// ---- 1. regression corpus ----
	for _, impl := range impls {
		// F-C11: no-op passthrough, backend supplies the completeness header
		c := std(impl, "RNoop")
		c.resp = &respSpec{dataJS: dataEmpty, complete: true, meta: map[string][]string{"X-Krakend-Completed": {"true"}}, status: 200, io: strp("body")}
		add(c, "corpus")
		c.resp = &respSpec{dataJS: dataEmpty, complete: true, meta: map[string][]string{"Cache-Control": {"public, max-age=3600"}}, status: 200, io: strp("body")}
		add(c, "corpus")
		// handler-level pass with a rendered JSON body
		c = std(impl, "RJson")
		c.resp = &respSpec{dataJS: dataPool[0], complete: false, meta: map[string][]string{"X-Krakend-Completed": {"true"}, "Cache-Control": {"public, max-age=60"}}}
		add(c, "corpus")
		// interceptor: explicit non-200 status under the engine
		c = std(impl, "RNoop")
		c.ttl = time.Hour
		c.resp = &respSpec{dataJS: dataPool[0], complete: true, status: 201, io: strp("x")}
		add(c, "corpus")
		// (nil, nil)
		add(std(impl, "RJson"), "corpus")
		add(std(impl, "RNoop"), "corpus")
		// empty response with an error: gin renders, mux answers with the error
		c = std(impl, "RJson")
		c.resp = &respSpec{dataJS: dataEmpty, complete: true}
		c.err = &errSpec{kind: "httpresp", code: 418, msg: "tea"}
		add(c, "corpus")
		// nil data map
		c = std(impl, "RJson")
		c.resp = &respSpec{dataNil: true, complete: true}
		add(c, "corpus")
		// lura's own merge error, no response
		c = std(impl, "RJson")
		c.err = &errSpec{kind: "merge", msg: "boom"}
		add(c, "corpus")
		// expired context, no error from the pipeline
		c = std(impl, "RJson")
		c.ctxDone = 1
		c.ttl = time.Hour
		c.resp = &respSpec{dataJS: dataPool[1], complete: true}
		add(c, "corpus")
		c.resp = nil
		add(c, "corpus")
	}

	// errors that are or wrap a timeout: no status of their own - 500 from the stock translator
	for _, impl := range impls {
		for _, k := range timeoutKinds {
			c := std(impl, "RJson")
			c.err = &errSpec{kind: k, msg: "backend timed out"}
			add(c, "corpus")
			c.resp = &respSpec{dataJS: dataEmpty, complete: true}
			add(c, "corpus")
			c.resp = nil
			c.defF, c.errf = false, 502
			add(c, "corpus")
		}
	}
	// the identification value of a process that made (or did not make) a gin engine with
	// hide_version_header: observed in child processes, the value is a process global
	for _, hide := range []bool{true, false} {
		cells := versionCells()
		for _, d := range versionChild(cfg, hide) {
			c := cells[d.Idx]
			vc := &verCase{build: buildValue, hide: hide && d.Phase != "before"}
			c.verCase = vc
			c.ver = versionValue(vc.build, vc.hide)
			o := observation{d.Panicked, d.PanicMsg, d.Status, d.Completed, d.Cache, d.Version, d.Ctype, d.Body}
			addObs(c, o, "version-process")
		}
	}

	// errors that only WRAP a status error: no status of their own, so the translator decides
	for _, impl := range impls {
		for ki, k := range wrappedKinds {
			c := std(impl, "RJson")
			c.err = &errSpec{kind: k, code: []int{204, 404, 418}[ki%3], msg: "wrapping"}
			add(c, "corpus")
			c.defF, c.errf = false, 502
			add(c, "corpus")
			c.resp = &respSpec{dataJS: dataEmpty, complete: true}
			add(c, "corpus")
		}
	}

	// gin: an earlier middleware left errors in c.Errors (no abort): the reply must be that of
	// THIS pipeline's pair - 418 stays 418, (nil, nil) stays 200 {}
	ctxPool := [][]ctxErr{{{kind: "plain"}}, {{kind: "status", code: 503}}, {{kind: "meta"}},
		{{kind: "plain"}, {kind: "status", code: 401}}, {{kind: "meta"}, {kind: "plain"}}}
	for _, ces := range ctxPool {
		for _, rn := range []string{"RJson", "RNoop"} {
			c := std("Gin", rn)
			c.ctxErrs = ces
			c.err = &errSpec{kind: "httpresp", code: 418, msg: "tea"}
			add(c, "corpus")
			c.err = nil
			add(c, "corpus")
			c.err = &errSpec{kind: "plain", msg: "plain"}
			add(c, "corpus")
			c.resp = &respSpec{dataJS: dataPool[0], complete: true, status: 200}
			c.ttl = time.Hour
			add(c, "corpus")
			c.err = nil
			c.ctxDone = 1
			add(c, "corpus")
		}
	}

	// instance reuse, most telling order first: ONE handler per implementation and render serves
	// partial, failed, complete, partial, empty, failed, complete+metadata, (nil, nil) in a row;
	// every step is an ordinary case (the property is about THIS request's pair)
	tellingSpecs := func() []cell {
		partial := &respSpec{dataJS: dataPool[0], complete: false, status: 200, io: strp("p")}
		complete := &respSpec{dataJS: dataPool[1], complete: true, status: 200, io: strp("c")}
		empty := &respSpec{dataJS: dataEmpty, complete: true, status: 200, io: strp("e")}
		withMeta := &respSpec{dataJS: dataPool[0], complete: true, meta: map[string][]string{"X-Meta": {"m"}}, status: 200, io: strp("m")}
		v := "Version undefined"
		return []cell{
			{resp: partial, ver: v},
			{err: &errSpec{kind: "plain", msg: "failed #1"}, ver: v},
			{resp: complete, ver: v},
			{resp: partial, ver: v},
			{resp: empty, ver: v},
			{err: &errSpec{kind: "status", code: 404, msg: "failed #2"}, ver: v, ctxErrs: []ctxErr{{kind: "plain"}}},
			{resp: withMeta, ver: v},
			{ver: v, ctxErrs: []ctxErr{{kind: "status", code: 503}, {kind: "meta"}}},
			{resp: partial, err: &errSpec{kind: "merge", msg: "partial and failed"}, ver: v},
			{resp: complete, ver: v},
			{resp: &respSpec{dataNil: true, complete: true}, ver: v},
			{err: &errSpec{kind: "wrap1", code: 204, msg: "wrapped"}, ver: v},
			{err: &errSpec{kind: "urltimeout", msg: "dial"}, ver: v},
			{resp: empty, err: &errSpec{kind: "join", code: 404, msg: "joined"}, ver: v},
		}
	}
	sequence := func(cfgc cell, specs []cell, order []int, stream string) {
		in := newInstance(cfgc, specs)
		for _, k := range order {
			c := in.cellOf(k)
			var o observation
			withVersion(c.ver, func() { o = in.serve(k) })
			addObs(c, o, stream)
		}
	}
	for _, impl := range impls {
		for _, rn := range []string{"RJson", "RNoop"} {
			c := std(impl, rn)
			c.ttl = time.Hour
			sp := tellingSpecs()
			order := make([]int, len(sp))
			for i := range order {
				order[i] = i
			}
			sequence(c, sp, order, "corpus-reuse")
		}
	}

	// ---- 2. exhaustive core product ----
	coreMeta := []map[string][]string{nil, {"X-Meta": {"m"}}, {"X-Krakend-Completed": {"true"}, "cache-control": {"public, max-age=9"}}}
	coreErrs := []*errSpec{nil, {kind: "plain", msg: "plain failure"}, {kind: "status", code: 404, msg: "not here"}, {kind: "multi", msg: "first"},
		{kind: "wrap1", code: 204, msg: "wrapped"}, {kind: "join", code: 404, msg: "joined"}, {kind: "wrapdeadline", msg: "timed out"}}
	coreRenders := []string{"RJson", "RNoop"}
	coreTTL := []time.Duration{0, time.Hour}
	if cfg.Thorough() {
		coreMeta = metaPool
		coreErrs = append(coreErrs, &errSpec{kind: "merge", msg: "m1"}, &errSpec{kind: "multistatus", code: 429, msg: "ms"},
			&errSpec{kind: "wrap2", code: 418, msg: "w2"}, &errSpec{kind: "unwrapmulti", code: 401, msg: "um"}, &errSpec{kind: "isas", code: 409, msg: "ia"})
		coreRenders = renderNames
		coreTTL = []time.Duration{0, time.Hour}
	}
	type rshape struct {
		nilResp  bool
		data     string
		complete bool
		meta     map[string][]string
	}
	var shapes []rshape
	shapes = append(shapes, rshape{nilResp: true})
	for _, d := range []string{dataEmpty, dataPool[0]} {
		for _, cpl := range []bool{false, true} {
			for _, m := range coreMeta {
				shapes = append(shapes, rshape{data: d, complete: cpl, meta: m})
			}
		}
	}
	for _, impl := range impls {
		for _, rn := range coreRenders {
			for _, sh := range shapes {
				for _, e := range coreErrs {
					for _, ttl := range coreTTL {
						for done := 0; done < 2; done++ {
							c := std(impl, rn)
							c.ttl = ttl
							c.ctxDone = done
							c.err = e
							if !sh.nilResp {
								c.resp = &respSpec{dataJS: sh.data, complete: sh.complete, meta: sh.meta}
								if rn == "RNoop" {
									c.resp.status = 200
									c.resp.io = strp("io-body")
								}
							}
							add(c, "core")
							if impl == "Gin" && ttl == 0 {
								c.ctxErrs = ctxPool[(len(sh.data)+done+len(rn))%len(ctxPool)]
								add(c, "core-gin-context-errors")
							}
						}
					}
				}
			}
		}
	}

	// ---- 3. error status sweep (no response): every code 100..599 (quick: a third per
	//         implementation + boundaries), codes up to 999, invalid codes ----
	for ii, impl := range impls {
		for code := 100; code <= 999; code++ {
			boundary := code%100 == 0 || code%100 == 99 || code == 200 || code == 201 || code == 204 || code == 304 || code == 404
			if code >= 600 && !boundary && !cfg.Thorough() {
				continue
			}
			if !cfg.Thorough() && !boundary && code%3 != ii {
				continue
			}
			c := std(impl, renderNames[code%2]) // json / no-op
			kinds := []string{"status", "httpresp", "multistatus"}
			c.err = &errSpec{kind: kinds[code%3], code: code, msg: fmt.Sprintf("e%d", code)}
			if code%4 == 1 {
				// the swept code is only buried: the reply must not show it
				c.err.kind = wrappedKinds[(code/4)%len(wrappedKinds)]
			}
			if code%7 == 0 {
				c.ctxDone = 1
			}
			if code%5 == 0 {
				c.defF, c.errf = false, 503
			}
			if impl == "Gin" && code%4 == 0 {
				c.ctxErrs = []ctxErr{{kind: "status", code: 100 + (code*7)%500}}
			}
			add(c, "status-sweep")
		}
		for _, code := range badErrCodes {
			for _, rn := range coreRenders {
				c := std(impl, rn)
				c.err = &errSpec{kind: "status", code: code, msg: "bad"}
				add(c, "invalid-status")
			}
		}
		// translator answers (no status in the error)
		for _, f := range []int{500, 400, 418, 503, 200, 599} {
			for _, k := range []string{"plain", "multi", "merge"} {
				c := std(impl, "RJson")
				c.defF, c.errf = false, f
				c.err = &errSpec{kind: k, msg: "translated"}
				add(c, "translator")
				c.err = nil
				c.ctxDone = 1
				add(c, "translator")
			}
		}
		// no-op render: metadata status
		for _, st := range append(append([]int{}, statusPool...), badStatusPool...) {
			for _, d := range []string{dataEmpty, dataPool[0]} {
				for _, cpl := range []bool{false, true} {
					c := std(impl, "RNoop")
					c.ttl = time.Second
					c.resp = &respSpec{dataJS: d, complete: cpl, status: st, io: ioPool[(st+len(d))%len(ioPool)]}
					if validCode(st) || st == 0 {
						c.resp.meta = metaPool[(st/7+len(d))%len(metaPool)]
					}
					add(c, "noop-status")
				}
			}
		}
	}

	// ---- 3b. every output encoding: what getRender selects (output_encoding, encoding of the
	//          only backend, unknown names, gin's xml / yaml / negotiate with Accept headers) ----
	encVariants := []renderVariant{}
	for _, oe := range []string{"", "json", "string", "no-op", "json-collection", "xml", "yaml", "negotiate", "bogus", "JSON"} {
		for _, be := range []string{"", "json", "string", "no-op", "json-collection", "xml", "yaml", "negotiate", "safejson"} {
			for _, nb := range []int{1, 2} {
				if nb == 2 && !(oe == "" || oe == "bogus" || oe == "xml") {
					continue
				}
				encVariants = append(encVariants, renderVariant{"", oe, be, nb})
			}
		}
	}
	accepts := []string{"", "application/json", "text/plain", "application/xml", "application/x-yaml", "image/png", "*/*"}
	encShapes := []*respSpec{nil,
		{dataJS: dataEmpty, complete: true, status: 200, io: strp("e")},
		{dataJS: dataPool[2], complete: true, status: 200, io: strp("c")},
		{dataJS: dataPool[3], complete: false, status: 201, io: strp("p"), meta: map[string][]string{"X-Meta": {"m"}}}}
	for vi, v := range encVariants {
		for ii, impl := range impls {
			usesAccept := impl == "Gin" && (v.outputEnc == "negotiate" || (v.backEnc == "negotiate" && v.nBackends == 1))
			for ai, a := range accepts {
				if !usesAccept && ai != (vi+ii)%len(accepts) {
					continue
				}
				for si, sh := range encShapes {
					if !cfg.Thorough() && si != (vi+ii+ai)%len(encShapes) && si != 2 {
						continue
					}
					c := cell{impl: impl, rv: v, errf: 500, defF: true, ver: "Version undefined", accept: a, resp: sh}
					if (vi+si)%2 == 0 {
						c.ttl = time.Hour
					}
					if si == 0 && vi%2 == 0 {
						c.err = &errSpec{kind: "status", code: 404, msg: "nf"}
					}
					add(c, "encodings")
				}
			}
		}
	}

	// ---- 4. structured random stream over the full product ----
	n := 2200
	if cfg.Thorough() {
		n = 20000
	}
	randMeta := func() map[string][]string {
		if r.Chance(3, 4) {
			return metaPool[r.Intn(len(metaPool))]
		}
		names := []string{"X-Krakend-Completed", "x-krakend-completed", "Cache-Control", "cache-control", "X-Meta", "x-b3-traceid", "X-Krakend", "Etag", "X Bad", "X-Krakend-Complete", "Cache-Controls"}
		vals := []string{"true", "false", "public, max-age=10", "no-cache", "m", "", "public, max-age", "TRUE"}
		m := map[string][]string{}
		canon := map[string]bool{}
		for i, k := 0, 1+r.Intn(3); i < k; i++ {
			name := names[r.Intn(len(names))]
			cn := textproto.CanonicalMIMEHeaderKey(name)
			if canon[cn] {
				continue // two spellings of one header would be appended in map order
			}
			canon[cn] = true
			var vs []string
			for j, l := 0, r.Intn(3); j < l; j++ {
				vs = append(vs, vals[r.Intn(len(vals))])
			}
			m[name] = vs
		}
		return m
	}
	for i := 0; i < n; i++ {
		c := cell{impl: impls[r.Intn(3)]}
		rn := renderNames[[]int{0, 0, 0, 1, 1, 2, 3}[r.Intn(7)]]
		c.rv = renders[rn][r.Intn(len(renders[rn]))]
		if r.Chance(1, 8) {
			c.rv = encVariants[r.Intn(len(encVariants))]
		}
		if r.Chance(1, 4) {
			c.accept = accepts[r.Intn(len(accepts))]
		}
		c.ttl = ttlPool[r.Intn(len(ttlPool))]
		if r.Chance(1, 3) {
			c.ttl = 0
		}
		c.ver = verPool[r.Intn(len(verPool))]
		c.errf, c.defF = 500, true
		if r.Chance(1, 4) {
			c.defF = false
			c.errf = []int{500, 400, 418, 503, 200, 302}[r.Intn(6)]
		}
		if r.Chance(1, 5) {
			c.ctxDone = 1
			if c.impl != "Gin" && r.Bool() {
				c.ctxDone = 2
			}
		}
		if !r.Chance(1, 6) {
			rs := &respSpec{complete: r.Bool(), meta: randMeta()}
			switch r.Intn(8) {
			case 0:
				rs.dataNil = true
			case 1, 2:
				rs.dataJS = dataEmpty
			default:
				rs.dataJS = dataPool[r.Intn(len(dataPool))]
			}
			rs.status = statusPool[r.Intn(len(statusPool))]
			if r.Chance(1, 25) {
				rs.status = badStatusPool[r.Intn(len(badStatusPool))]
			}
			rs.io = ioPool[r.Intn(len(ioPool))]
			c.resp = rs
		}
		if r.Chance(1, 2) {
			kinds := append([]string{"plain", "status", "httpresp", "multi", "merge", "multistatus"}, append(append([]string{}, wrappedKinds...), timeoutKinds...)...)
			e := &errSpec{kind: kinds[r.Intn(len(kinds))], msg: []string{"failure", "", "multi\nline <msg>", "érr"}[r.Intn(4)]}
			e.code = errCodes[r.Intn(len(errCodes))]
			if r.Chance(1, 20) {
				e.code = badErrCodes[r.Intn(len(badErrCodes))]
			}
			c.err = e
		}
		if c.impl == "Gin" && r.Chance(2, 5) {
			c.ctxErrs = ctxPool[r.Intn(len(ctxPool))]
		}
		add(c, "random")
	}

	// ---- 5. instance reuse ----
	// (a) sequential: one handler, 3-6 different requests in random order
	nseq := 60
	if cfg.Thorough() {
		nseq = 600
	}
	for q := 0; q < nseq; q++ {
		c := cell{impl: impls[q%3], errf: 500, defF: true}
		rn := renderNames[[]int{0, 0, 1, 0, 2, 3}[r.Intn(6)]]
		c.rv = renders[rn][r.Intn(len(renders[rn]))]
		c.ttl = []time.Duration{time.Hour, 0, time.Second}[r.Intn(3)]
		if r.Chance(1, 4) {
			c.defF, c.errf = false, 503
		}
		sp := tellingSpecs()
		if r.Chance(1, 3) {
			for i := range sp {
				sp[i].ver = verPool[r.Intn(len(verPool))]
			}
		}
		if c.impl != "Gin" && r.Chance(1, 3) {
			sp[r.Intn(len(sp))].ctxDone = 2
		}
		steps := 3 + r.Intn(4)
		order := make([]int, steps)
		for i := range order {
			order[i] = r.Intn(len(sp))
		}
		if r.Bool() {
			order[0] = 2 // a complete response first: whatever follows must not inherit it
		}
		sequence(c, sp, order, "reuse-seq")
	}
	// (b) concurrent: one handler hit from 12 goroutines released together; every distinct
	// (input, observation) pair is emitted once - without interference one case per input
	for _, impl := range impls {
		for _, rn := range []string{"RJson", "RNoop"} {
			c := std(impl, rn)
			c.ttl = time.Hour
			sp := tellingSpecs()
			in := newInstance(c, sp)
			const goroutines, iterations = 12, 40
			type seenT struct {
				k int
				o observation
			}
			res := make([]map[string]seenT, goroutines)
			start := make(chan struct{})
			var wg sync.WaitGroup
			withVersion(c.ver, func() {
				for g := 0; g < goroutines; g++ {
					res[g] = map[string]seenT{}
					wg.Add(1)
					go func(g int) {
						defer wg.Done()
						<-start
						for it := 0; it < iterations; it++ {
							k := (g*5 + it) % len(sp)
							o := in.serve(k)
							res[g][fmt.Sprintf("%03d|%s", k, o.coq())] = seenT{k, o}
						}
					}(g)
				}
				close(start)
				wg.Wait()
			})
			all := map[string]seenT{}
			for _, m := range res {
				for key, v := range m {
					all[key] = v
				}
			}
			keys := make([]string, 0, len(all))
			for key := range all {
				keys = append(keys, key)
			}
			sort.Strings(keys)
			for _, key := range keys {
				addObs(in.cellOf(all[key].k), all[key].o, "reuse-concurrent")
			}
		}
	}

	w.Close("real gin CustomErrorEndpointHandler, mux CustomEndpointHandlerWithHTTPError and the same behind mux.DefaultEngine (HTTPErrorInterceptor), proxy stubbed by a scripted (response, error) pair; corpus; exhaustive core product impl(3) x render x response shape (nil | {empty,non-empty} x complete x metadata headers {none,unrelated,colliding,...}) x error kinds x ttl x context expired; error status sweep 100..999 (+ invalid codes), translator answers, no-op metadata statuses; timeout-typed errors (context.DeadlineExceeded plain and wrapped, *url.Error, net.Error) under the stock translator; child processes in which router/gin.NewEngine was called with / without hide_version_header (handlers made before and after, gin and mux); every output encoding: 10 output_encoding x 9 backend encodings x 1-2 backends (registered, unknown, gin-only xml/yaml/negotiate with 7 Accept headers) with the selected render recomputed by the Coq model of getRender; error values incl. errors that only WRAP a status error (fmt %w one and two levels, errors.Join, Unwrap() []error, Is/As methods, lura's merge error) on all implementations; gin also behind a front middleware that leaves 0-2 errors in c.Errors without aborting (corpus, half of the gin core product, every 4th swept status, 2/5 of the random gin cells, reuse sequences); instance reuse: one handler serving a sequence of different (response, error) pairs (telling order in the corpus, 60 random sequences of 3-6 steps; thorough 600) and the same handler hit from 12 goroutines (distinct (input, observation) pairs); structured random over the full product (renders json/no-op/string/json-collection reached through output_encoding or the backend encoding, nil data map, ttl incl. sub-second/negative, version header value); compared: status, values of X-Krakend-Completed / Cache-Control / X-Krakend, body (JSON tree or raw bytes); nontrivial = anything but (no error, live context, non-empty complete response without metadata, ttl 0, json render)", true)
}
