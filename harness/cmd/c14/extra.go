package main

// Streams added after the first mutation rounds:
//   - every exported load-balancing middleware constructor of proxy/balancing.go, by name;
//   - a host slice shared between a round robin balancer and sd.NewRandomFixedSubscriber;
//   - instance reuse: one balancer / middleware instance serving sequences and concurrent callers.

import (
	"fmt"
	"runtime"

	"github.com/luraproject/lura/v2/config"
	"github.com/luraproject/lura/v2/logging"
	"github.com/luraproject/lura/v2/proxy"
	"github.com/luraproject/lura/v2/sd"
	"github.com/valyala/fastrand"

	"verif/harness/internal/emit"
)

type mwCtor struct {
	name  string
	kind  string // "rr" | "random" | "generic"
	bySub bool   // takes a subscriber (otherwise a *config.Backend, resolved through the sd register)
	build func(hs []string, sub sd.Subscriber) proxy.Middleware
}

func remote(hs []string) *config.Backend { return &config.Backend{Host: hs} }

var mwCtors = []mwCtor{
	{"NewLoadBalancedMiddleware", "generic", false, func(hs []string, _ sd.Subscriber) proxy.Middleware {
		return proxy.NewLoadBalancedMiddleware(remote(hs))
	}},
	{"NewLoadBalancedMiddlewareWithSubscriber", "generic", true, func(_ []string, s sd.Subscriber) proxy.Middleware {
		return proxy.NewLoadBalancedMiddlewareWithSubscriber(s)
	}},
	{"NewLoadBalancedMiddlewareWithLogger", "generic", false, func(hs []string, _ sd.Subscriber) proxy.Middleware {
		return proxy.NewLoadBalancedMiddlewareWithLogger(logging.NoOp, remote(hs))
	}},
	{"NewLoadBalancedMiddlewareWithSubscriberAndLogger", "generic", true, func(_ []string, s sd.Subscriber) proxy.Middleware {
		return proxy.NewLoadBalancedMiddlewareWithSubscriberAndLogger(logging.NoOp, s)
	}},
	{"NewRoundRobinLoadBalancedMiddleware", "rr", false, func(hs []string, _ sd.Subscriber) proxy.Middleware {
		return proxy.NewRoundRobinLoadBalancedMiddleware(remote(hs))
	}},
	{"NewRoundRobinLoadBalancedMiddlewareWithSubscriber", "rr", true, func(_ []string, s sd.Subscriber) proxy.Middleware {
		return proxy.NewRoundRobinLoadBalancedMiddlewareWithSubscriber(s)
	}},
	{"NewRoundRobinLoadBalancedMiddlewareWithLogger", "rr", false, func(hs []string, _ sd.Subscriber) proxy.Middleware {
		return proxy.NewRoundRobinLoadBalancedMiddlewareWithLogger(logging.NoOp, remote(hs))
	}},
	{"NewRoundRobinLoadBalancedMiddlewareWithSubscriberAndLogger", "rr", true, func(_ []string, s sd.Subscriber) proxy.Middleware {
		return proxy.NewRoundRobinLoadBalancedMiddlewareWithSubscriberAndLogger(logging.NoOp, s)
	}},
	{"NewRandomLoadBalancedMiddleware", "random", false, func(hs []string, _ sd.Subscriber) proxy.Middleware {
		return proxy.NewRandomLoadBalancedMiddleware(remote(hs))
	}},
	{"NewRandomLoadBalancedMiddlewareWithSubscriber", "random", true, func(_ []string, s sd.Subscriber) proxy.Middleware {
		return proxy.NewRandomLoadBalancedMiddlewareWithSubscriber(s)
	}},
	{"NewRandomLoadBalancedMiddlewareWithLogger", "random", false, func(hs []string, _ sd.Subscriber) proxy.Middleware {
		return proxy.NewRandomLoadBalancedMiddlewareWithLogger(logging.NoOp, remote(hs))
	}},
	{"NewRandomLoadBalancedMiddlewareWithSubscriberAndLogger", "random", true, func(_ []string, s sd.Subscriber) proxy.Middleware {
		return proxy.NewRandomLoadBalancedMiddlewareWithSubscriberAndLogger(logging.NoOp, s)
	}},
}

func viaOf(kind string) int {
	switch kind {
	case "rr":
		return 1
	case "random":
		return 2
	}
	return 3
}

// withProcs runs f with GOMAXPROCS set to procs (sd.NewBalancer looks at it when a balancer is built)
func withProcs(procs int, f func()) {
	old := runtime.GOMAXPROCS(procs)
	defer runtime.GOMAXPROCS(old)
	f()
}

// one middleware instance built by the named constructor (with GOMAXPROCS = procs) over a
// fixed list, M requests through it (every request with its own path and query).  The Coq
// side looks the constructor up in the model's table and applies the oracle of the balancer
// the model says it builds (round robin: every window fair; random: membership and share)
func (g *gen) mwByName(c mwCtor, hs []string, M int, subKind string, procs int) {
	var sub sd.Subscriber = sd.FixedSubscriber(hs)
	if subKind == "func" {
		sub = sd.SubscriberFunc(func() ([]string, error) { return hs, nil })
	}
	var p proxy.Proxy
	withProcs(procs, func() { p = c.build(hs, sub)(nextRecorder) })
	obs := make([]res, M)
	for i := range obs {
		obs[i] = callMW(p, i)
	}
	t := newTbl()
	term := t.wrap(emit.App("CMwNamed", emit.Str(c.name), emit.Z(int64(procs)), boolCoq(subKind != "func"), t.hosts(hs), t.obs(obs)))
	cnt := map[string]int{}
	for _, o := range obs {
		cnt[o.Kind+":"+o.Host]++
	}
	js := map[string]interface{}{"kind": "middleware-constructor", "constructor": c.name, "balancer_kind": c.kind, "subscriber": subKind,
		"gomaxprocs": procs, "hosts": hs, "calls": M, "observed_counts": cnt}
	if M <= 400 {
		js["observed"] = resJS(obs)
	}
	g.w.Count("mw-constructor:" + c.name)
	g.w.Add(term, js, "", fmt.Sprintf("MC|%s|%s|%d|%d|%d", c.name, subKind, len(hs), M, procs), len(hs) > 1)
}

// the sd constructors themselves: which balancer was built (seen through the hooks) and
// where a round robin one starts
func (g *gen) ctorCase(which int, procs int, fixed bool, hs []string) {
	var sub sd.Subscriber = sd.FixedSubscriber(hs)
	if !fixed {
		sub = sd.SubscriberFunc(func() ([]string, error) { return hs, nil })
	}
	var b sd.Balancer
	withProcs(procs, func() {
		switch which {
		case 0:
			b = sd.NewBalancer(sub)
		case 1:
			b = sd.NewRoundRobinLB(sub)
		default:
			b = sd.NewRandomLB(sub)
		}
	})
	kind, start := 0, uint64(0)
	if c, ok := sd.VerifC14Counter(b); ok {
		kind, start = 1, c
	} else if sd.VerifC14SetRand(b, fastrand.Uint32n) {
		kind = 2
	}
	t := newTbl()
	term := t.wrap(emit.App("CCtor", emit.Nat(which), emit.Z(int64(procs)), boolCoq(fixed), t.hosts(hs), emit.Nat(kind), u64(start)))
	name := []string{"NewBalancer", "NewRoundRobinLB", "NewRandomLB"}[which]
	js := map[string]interface{}{"kind": "sd-constructor", "constructor": name, "gomaxprocs": procs, "fixed_subscriber": fixed, "hosts": len(hs),
		"observed_balancer": []string{"single-host", "round-robin", "random"}[kind], "initial_counter": fmt.Sprint(start)}
	g.w.Count("sd-constructor:" + name)
	g.w.Add(term, js, "", fmt.Sprintf("CT|%d|%d|%v|%d", which, procs, fixed, len(hs)), true)
}

func (g *gen) sdConstructors() {
	for which := 0; which < 3; which++ {
		for _, procs := range []int{1, 2, 16} {
			for _, n := range []int{0, 1, 2, 3, 64} {
				g.ctorCase(which, procs, true, hostList(n))
				g.ctorCase(which, procs, false, hostList(n))
			}
		}
	}
}

// the named constructor over a scripted dynamic subscriber
func (g *gen) mwByNameDyn(c mwCtor, reps []report) {
	sc := &script{reports: reps}
	p := c.build(nil, sc)(nextRecorder)
	obs := make([]res, len(reps))
	for i := range reps {
		sc.cur = i
		obs[i] = callMW(p, i)
	}
	t := newTbl()
	term := t.wrap(emit.App("CSeqDyn", emit.Nat(viaOf(c.kind)), "false", "0%Z", stepsCoq(t, reps, obs), "0%Z"))
	js := map[string]interface{}{"kind": "middleware-constructor-dynamic", "constructor": c.name, "reports": repsJS(reps), "observed": resJS(obs)}
	g.w.Count("mw-constructor:" + c.name)
	g.w.Add(term, js, "", fmt.Sprintf("MD|%s|%v", c.name, reps), true)
}

func (g *gen) allMiddlewareConstructors() {
	th := g.cfg.Thorough()
	many := runtime.GOMAXPROCS(0)
	rrSizes := []int{0, 1, 2, 3, 5, 7, 16, 64}
	rndSizes := []int{1, 2, 8, 33}
	if th {
		rrSizes = []int{0, 1, 2, 3, 4, 5, 6, 7, 8, 11, 16, 23, 32, 47, 64}
		rndSizes = []int{1, 2, 3, 5, 8, 16, 33, 64}
	}
	rrRuns := func(c mwCtor, procs int, sizes []int) {
		for _, n := range sizes {
			M := 3*n + 1
			if M < 3 {
				M = 3
			}
			g.mwByName(c, hostList(n), M, "fixed", procs)
			if c.bySub && n > 0 {
				g.mwByName(c, hostList(n), 2*n+3, "func", procs)
			}
		}
	}
	rndRuns := func(c mwCtor, procs int, sizes []int) {
		for _, n := range sizes {
			g.mwByName(c, hostList(n), 64*n, "fixed", procs)
		}
		g.mwByName(c, hostList(0), 3, "fixed", procs)
		if c.bySub {
			g.mwByName(c, hostList(5), 320, "func", procs)
		}
	}
	for _, c := range mwCtors {
		switch c.kind {
		case "rr":
			rrRuns(c, many, rrSizes)
			rrRuns(c, 1, []int{2, 5})
		case "random":
			rndRuns(c, many, rndSizes)
			rndRuns(c, 1, []int{3})
		default:
			// NewBalancer: round robin when GOMAXPROCS = 1, random otherwise
			rrRuns(c, 1, []int{0, 1, 2, 3, 5, 16})
			rndRuns(c, many, []int{1, 2, 8})
			rndRuns(c, 2, []int{5})
		}
		if c.bySub {
			nd := 4
			if th {
				nd = 40
			}
			for i := 0; i < nd; i++ {
				g.mwByNameDyn(c, g.randomReports(6+g.r.Intn(20), []int{3, 8, 64}[i%3]))
			}
		}
	}
	g.sdConstructors()
}

// ---------------------------------------------------------------------------------------
// a host slice shared by two consumers

type sharedObs struct {
	Before []string `json:"slice_before"`
	After  []string `json:"slice_after"`
	Sub    []string `json:"returned_subscriber"`
}

// consumer: "fixed" round robin over FixedSubscriber(s); "func" round robin over a
// SubscriberFunc returning s; "mw" the round robin middleware over FixedSubscriber(s).
// k picks, then `times` calls of sd.NewRandomFixedSubscriber(s), then the remaining picks.
func (g *gen) shared(n, k, M int, consumer string, times int) {
	s := hostList(n)
	before := append([]string{}, s...)
	var pickOne func(i int) res
	var counter func() (uint64, bool)
	switch consumer {
	case "mw":
		p := proxy.NewRoundRobinLoadBalancedMiddlewareWithSubscriber(sd.FixedSubscriber(s))(nextRecorder)
		pickOne = func(i int) res { return callMW(p, i) }
		counter = func() (uint64, bool) { return 0, false }
	default:
		var sub sd.Subscriber = sd.FixedSubscriber(s)
		if consumer == "func" {
			sub = sd.SubscriberFunc(func() ([]string, error) { return s, nil })
		}
		b := sd.NewRoundRobinLB(sub)
		pickOne = func(int) res { return callHost(b) }
		counter = func() (uint64, bool) { return sd.VerifC14Counter(b) }
	}
	start, known := counter()
	obs := make([]res, 0, M)
	for i := 0; i < k && i < M; i++ {
		obs = append(obs, pickOne(i))
	}
	var sub sd.FixedSubscriber
	for t := 0; t < times; t++ {
		sub = sd.NewRandomFixedSubscriber(s)
	}
	for i := len(obs); i < M; i++ {
		obs = append(obs, pickOne(i))
	}
	end, _ := counter()
	after := append([]string{}, s...)
	g.addShared(sharedObs{before, after, []string(sub)}, known, start, obs, end,
		map[string]interface{}{"consumer": consumer, "picks_before_shuffle": k, "calls_of_NewRandomFixedSubscriber": times, "calls": M},
		fmt.Sprintf("SS|%s|%d|%d|%d|%d", consumer, n, k, M, times))
}

func (g *gen) addShared(so sharedObs, known bool, start uint64, obs []res, end uint64, info map[string]interface{}, canon string) {
	t := newTbl()
	hsT := t.hosts(so.Before)
	obsT := t.obs(obs)
	term := t.wrap(emit.App("CShared", hsT, boolCoq(known), u64(start), obsT, u64(end), t.hosts(so.After), t.hosts(so.Sub)))
	js := map[string]interface{}{"kind": "shared-host-slice", "slice_before": so.Before, "slice_after": so.After,
		"returned_subscriber": so.Sub, "counter_known": known, "counter_before": fmt.Sprint(start), "counter_after": fmt.Sprint(end), "observed": resJS(obs)}
	for k, v := range info {
		js[k] = v
	}
	g.w.Count("shared-slice")
	g.w.Add(term, js, "", canon, len(so.Before) > 1)
}

func (g *gen) sharedSlices() {
	sizes := []int{2, 3, 5, 8, 13, 64, 101, 150}
	if g.cfg.Thorough() {
		sizes = []int{1, 2, 3, 4, 5, 6, 7, 8, 13, 21, 32, 64, 100, 101, 128, 150, 257}
	}
	for _, n := range sizes {
		for _, consumer := range []string{"fixed", "func", "mw"} {
			g.shared(n, n/2+1, 2*n+1, consumer, 1)
			g.shared(n, 1, 3*n, consumer, 3)
		}
	}
}

// ---------------------------------------------------------------------------------------
// instance reuse

// ONE round robin balancer: a sequence, then a burst of concurrent callers, then a sequence
// again; all selections together must be fair and the counter must have advanced by their number
func (g *gen) reuseRR(n, k, calls int, c0 uint64) {
	hs := hostList(n)
	b := sd.NewRoundRobinLB(sd.SubscriberFunc(func() ([]string, error) { return hs, nil }))
	sd.VerifC14SetCounter(b, c0)
	start, known := sd.VerifC14Counter(b)
	seq := func(m int) []res {
		out := make([]res, m)
		for i := range out {
			out[i] = callHost(b)
		}
		return out
	}
	first := seq(n/2 + 1)
	per := runConcurrent(k, calls, nil, func(int) res { return callHost(b) })
	last := seq(n + 2)
	end, _ := sd.VerifC14Counter(b)
	all := append([][]res{first}, per...)
	all = append(all, last)
	g.addConc(concObs{Known: known, Hosts: hs, K: k, Calls: calls, Before: start, After: end, Per: all}, "reuse-seq-conc-seq")
}

// ONE round robin middleware instance hit by k concurrent callers (every request different)
func (g *gen) reuseMW(n, k, calls int) {
	hs := hostList(n)
	p := proxy.NewRoundRobinLoadBalancedMiddlewareWithSubscriber(sd.FixedSubscriber(hs))(nextRecorder)
	first := make([]res, n+1)
	for i := range first {
		first[i] = callMW(p, 900000+i)
	}
	nreq := make([]int, k)
	per := runConcurrent(k, calls, nil, func(i int) res { nreq[i]++; return callMW(p, i*10000+nreq[i]) })
	all := append([][]res{first}, per...)
	g.addConc(concObs{Known: false, Hosts: hs, K: k, Calls: calls, Per: all}, "reuse-middleware")
}

// builtOnOneProc: a balancer built by sd.NewBalancer (directly, or inside a generic middleware
// constructor) while GOMAXPROCS is 1 is the round robin one; the processor count is raised
// afterwards and k callers use it in parallel
func concBuiltOnOneProc(hs []string, k, calls int, viaMW int) concObs {
	var b sd.Balancer
	var p proxy.Proxy
	withProcs(1, func() {
		sub := sd.SubscriberFunc(func() ([]string, error) { return hs, nil })
		switch viaMW {
		case 0:
			b = sd.NewBalancer(sub)
		case 1:
			p = proxy.NewLoadBalancedMiddlewareWithSubscriber(sub)(nextRecorder)
		default:
			p = proxy.NewLoadBalancedMiddlewareWithSubscriberAndLogger(logging.NoOp, sd.FixedSubscriber(hs))(nextRecorder)
		}
	})
	if runtime.GOMAXPROCS(0) < 4 {
		runtime.GOMAXPROCS(4)
	}
	if b != nil {
		start, known := sd.VerifC14Counter(b)
		per := runConcurrent(k, calls, nil, func(int) res { return callHost(b) })
		end, _ := sd.VerifC14Counter(b)
		return concObs{Known: known, Hosts: hs, K: k, Calls: calls, Before: start, After: end, Per: per}
	}
	nreq := make([]int, k)
	per := runConcurrent(k, calls, nil, func(i int) res { nreq[i]++; return callMW(p, i*100000+nreq[i]) })
	return concObs{Known: false, Hosts: hs, K: k, Calls: calls, Per: per}
}

func (g *gen) builtOnOneProc() {
	// long runs with M a multiple of n: one lost counter update makes some host's count differ from M/n
	for i, c := range [][3]int{{2, 8, 750}, {3, 8, 750}, {5, 10, 500}, {3, 16, 375}, {4, 8, 500}, {7, 14, 250}} {
		g.addConc(concBuiltOnOneProc(hostList(c[0]), c[1], c[2], i%3), "built-with-one-processor")
	}
}

func (g *gen) instanceReuse() {
	ns := []int{2, 3, 5, 7, 16, 64}
	for i, n := range ns {
		g.reuseRR(n, 8+2*i, 3*n, g.r.U64()>>1)
		g.reuseRR(n, 16, n+1, g.r.U64()>>1)
		g.reuseMW(n, 8+i, 2*n)
		g.reuseMW(n, 16, n)
	}
	if g.cfg.Thorough() {
		for n := 2; n <= 64; n += 3 {
			g.reuseRR(n, 1+n%16, 2*n+1, g.r.U64()>>1)
			g.reuseMW(n, 1+n%16, n+3)
		}
	}
}
