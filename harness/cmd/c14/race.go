package main

import (
	"bytes"
	"encoding/json"
	"fmt"
	"os"
	"os/exec"
	"path/filepath"
	"runtime"
	"strconv"
	"strings"
	"sync"
	"sync/atomic"

	"github.com/luraproject/lura/v2/proxy"
	"github.com/luraproject/lura/v2/sd"

	"verif/harness/internal/emit"
	"verif/harness/internal/out"
)

var scenarios = []string{"rr-built-on-one-proc", "rr-stable-failing", "rr-shared-shuffle", "rr-fixed", "rr-dynamic", "random-fixed", "random-dynamic", "mw-rr", "mw-random"}

type dynStep struct {
	Idx int `json:"report"` // index into the pool; -1: the subscriber was not asked
	R   res `json:"result"`
}

type dynObs struct {
	Via  int         `json:"via"`
	Pool []report    `json:"pool"`
	Per  [][]dynStep `json:"per_caller"`
}

type shareObs struct {
	Hosts []string `json:"hosts"`
	Per   [][]res  `json:"per_caller"`
}

type stableObs struct {
	Hosts []string `json:"hosts"`
	Dyn   dynObs   `json:"dyn"`
}

type childOut struct {
	Stable   []stableObs `json:"stable,omitempty"`
	Scenario string      `json:"scenario"`
	Conc     []concObs   `json:"conc,omitempty"`
	Dyn      []dynObs    `json:"dyn,omitempty"`
	Share    []shareObs  `json:"share,omitempty"`
}

// goid: the id of the calling goroutine (so that the shared subscriber can tell the caller
// which report it handed to it, without any lock)
func goid() uint64 {
	var buf [64]byte
	s := string(buf[:runtime.Stack(buf[:], false)])
	s = strings.TrimPrefix(s, "goroutine ")
	if i := strings.IndexByte(s, ' '); i > 0 {
		s = s[:i]
	}
	n, _ := strconv.ParseUint(s, 10, 64)
	return n
}

// dynSub is shared by all callers: the list it reports changes every few calls
type dynSub struct {
	pool  []report
	every uint64 // the report changes after this many lookups
	n     uint64
	slots sync.Map // goroutine id -> *int (owned by that goroutine)
}

func (d *dynSub) Hosts() ([]string, error) {
	c := atomic.AddUint64(&d.n, 1)
	idx := int((c / d.every) % uint64(len(d.pool)))
	if p, ok := d.slots.Load(goid()); ok {
		*(p.(*int)) = idx
	}
	r := d.pool[idx]
	return r.Hosts, r.goErr()
}

func dynPool() []report {
	mk := func(tag string, n int) []string {
		hs := make([]string, n)
		for i := range hs {
			hs[i] = fmt.Sprintf("http://%s%d.t:8080", tag, i)
		}
		return hs
	}
	return []report{{Hosts: mk("a", 1)}, {Hosts: mk("b", 2)}, {Hosts: mk("c", 3)}, {Hosts: []string{}}, {Hosts: mk("d", 5)},
		{Err: "a"}, {Hosts: mk("e", 8)}, {Hosts: mk("f", 2), Err: "b"}, {Hosts: mk("g", 7)}}
}

func runDyn(via, k, calls int, mk func(s sd.Subscriber) func(k int) res) dynObs {
	return runDynPool(via, k, calls, dynPool(), 3, mk)
}

func runDynPool(via, k, calls int, pool []report, every uint64, mk func(s sd.Subscriber) func(k int) res) dynObs {
	d := &dynSub{pool: pool, every: every}
	call := mk(d)
	last := make([]int, k)
	idxs := make([][]int, k)
	per := runConcurrent(k, calls, func(i int) { d.slots.Store(goid(), &last[i]) }, func(i int) res {
		last[i] = -1
		o := call(i*100000 + len(idxs[i]))
		idxs[i] = append(idxs[i], last[i])
		return o
	})
	o := dynObs{Via: via, Pool: d.pool, Per: make([][]dynStep, k)}
	for i := range per {
		for j := range per[i] {
			o.Per[i] = append(o.Per[i], dynStep{idxs[i][j], per[i][j]})
		}
	}
	return o
}

func childMain(cfg out.Config, scenario string) {
	o := childOut{Scenario: scenario}
	seed := cfg.Seed * 1000003
	switch scenario {
	case "rr-fixed":
		for i, c := range [][3]int{{2, 8, 50}, {3, 16, 40}, {7, 32, 20}, {64, 16, 64}, {1, 8, 20}, {0, 4, 5}, {5, 2, 100}} {
			ctor := "func"
			if i%3 == 1 {
				ctor = "fixed"
			}
			o.Conc = append(o.Conc, concRR(hostList(c[0]), c[1], c[2], seed+uint64(i)*977, ctor))
		}
	case "rr-built-on-one-proc":
		for i, c := range [][3]int{{2, 8, 50}, {3, 16, 30}, {5, 8, 40}} {
			o.Conc = append(o.Conc, concBuiltOnOneProc(hostList(c[0]), c[1], c[2], i))
		}
	case "rr-stable-failing":
		for i, c := range [][3]int{{2, 8, 50}, {3, 16, 30}, {7, 8, 35}} {
			hs := hostList(c[0])
			o.Stable = append(o.Stable, stableObs{hs, concStable(hs, []string{"Sa", "Se", "SaeS"}[i], c[1], c[2])})
		}
	case "rr-shared-shuffle":
		// callers use a round robin balancer over FixedSubscriber(s) while another goroutine
		// builds shuffled subscribers from the same slice
		for _, c := range [][3]int{{7, 8, 70}, {101, 8, 101}, {2, 4, 50}} {
			s := hostList(c[0])
			before := append([]string{}, s...)
			b := sd.NewRoundRobinLB(sd.FixedSubscriber(s))
			start, known := sd.VerifC14Counter(b)
			var sub sd.FixedSubscriber
			per := runConcurrent(c[1], c[2], nil, func(int) res { return callHost(b) }, func() {
				for i := 0; i < 200; i++ {
					sub = sd.NewRandomFixedSubscriber(s)
				}
			})
			end, _ := sd.VerifC14Counter(b)
			o.Conc = append(o.Conc, concObs{Known: known, Hosts: before, K: c[1], Calls: c[2], Before: start, After: end, Per: per,
				Shared: &sharedObs{before, append([]string{}, s...), []string(sub)}})
		}
	case "rr-dynamic":
		o.Dyn = append(o.Dyn, runDyn(0, 16, 40, func(s sd.Subscriber) func(int) res {
			b := sd.NewRoundRobinLB(s)
			return func(int) res { return callHost(b) }
		}))
	case "random-fixed":
		for _, n := range []int{2, 8} {
			hs := hostList(n)
			b := sd.NewRandomLB(sd.FixedSubscriber(hs))
			o.Share = append(o.Share, shareObs{hs, runConcurrent(16, 4*n, nil, func(int) res { return callHost(b) })})
		}
	case "random-dynamic":
		o.Dyn = append(o.Dyn, runDyn(0, 16, 40, func(s sd.Subscriber) func(int) res {
			b := sd.NewRandomLB(s)
			return func(int) res { return callHost(b) }
		}))
	case "mw-rr":
		hs := hostList(5)
		p := proxy.NewRoundRobinLoadBalancedMiddlewareWithSubscriber(sd.FixedSubscriber(hs))(nextRecorder)
		nreq := make([]int, 16)
		per := runConcurrent(16, 25, nil, func(i int) res { nreq[i]++; return callMW(p, i*100000+nreq[i]) })
		o.Conc = append(o.Conc, concObs{Known: false, Hosts: hs, K: 16, Calls: 25, Per: per})
		o.Dyn = append(o.Dyn, runDyn(1, 8, 30, func(s sd.Subscriber) func(int) res {
			p := proxy.NewRoundRobinLoadBalancedMiddlewareWithSubscriber(s)(nextRecorder)
			return func(k int) res { return callMW(p, k) }
		}))
	case "mw-random":
		o.Dyn = append(o.Dyn, runDyn(2, 8, 30, func(s sd.Subscriber) func(int) res {
			p := proxy.NewRandomLoadBalancedMiddlewareWithSubscriber(s)(nextRecorder)
			return func(k int) res { return callMW(p, k) }
		}))
		o.Dyn = append(o.Dyn, runDyn(3, 8, 30, func(s sd.Subscriber) func(int) res {
			p := proxy.NewLoadBalancedMiddlewareWithSubscriber(s)(nextRecorder)
			return func(k int) res { return callMW(p, k) }
		}))
	default:
		fmt.Fprintln(os.Stderr, "unknown scenario", scenario)
		os.Exit(2)
	}
	b, err := json.Marshal(o)
	if err != nil {
		panic(err)
	}
	if err := os.WriteFile(filepath.Join(cfg.Dir, "child-"+scenario+".json"), b, 0o644); err != nil {
		panic(err)
	}
}

// luraRaces counts the race detector's reports that have a frame inside lura
func luraRaces(text string) (total, lura int, first string) {
	for _, blk := range strings.Split(text, "==================") {
		if !strings.Contains(blk, "WARNING: DATA RACE") {
			continue
		}
		total++
		if strings.Contains(blk, "github.com/luraproject/lura/v2/") {
			lura++
			if first == "" {
				first = strings.TrimSpace(blk)
				if len(first) > 3000 {
					first = first[:3000]
				}
			}
		}
	}
	return
}

func (g *gen) racePass() {
	cfg := g.cfg
	logPath := ""
	for _, f := range strings.Fields(os.Getenv("GORACE")) {
		if strings.HasPrefix(f, "log_path=") {
			logPath = strings.TrimPrefix(f, "log_path=")
		}
	}
	type run struct {
		sc    string
		procs int // GOMAXPROCS of the child; 0: inherited
	}
	var runs []run
	for _, sc := range scenarios {
		runs = append(runs, run{sc, 0})
	}
	if cfg.Thorough() {
		for _, p := range []int{1, 4} {
			for _, sc := range scenarios {
				runs = append(runs, run{sc, p})
			}
		}
	}
	for _, rn := range runs {
		sc := rn.sc
		cmd := exec.Command(os.Args[0], "--tier", cfg.Tier, "--seed", fmt.Sprint(cfg.Seed), "--out", cfg.Dir, "--extra", "race-child:"+sc)
		var stderr bytes.Buffer
		cmd.Stderr = &stderr
		cmd.Stdout = &stderr
		cmd.Env = os.Environ() // GORACE (log_path, halt_on_error=0) is inherited
		if rn.procs > 0 {
			cmd.Env = append(cmd.Env, fmt.Sprintf("GOMAXPROCS=%d", rn.procs))
		}
		err := cmd.Run()
		code := 0
		if ee, ok := err.(*exec.ExitError); ok {
			code = ee.ExitCode()
		} else if err != nil {
			fmt.Fprintln(os.Stderr, "cannot run child:", err)
			os.Exit(3)
		}
		raw, rerr := os.ReadFile(filepath.Join(cfg.Dir, "child-"+sc+".json"))
		if rerr != nil || (code != 0 && code != 66) { // 66: the race detector's exit code after reports
			fmt.Fprintf(os.Stderr, "child %s failed (exit %d): %v\n%s\n", sc, code, rerr, stderr.String())
			os.Exit(3)
		}
		var co childOut
		if err := json.Unmarshal(raw, &co); err != nil {
			fmt.Fprintln(os.Stderr, "child output:", err)
			os.Exit(3)
		}
		os.Remove(filepath.Join(cfg.Dir, "child-"+sc+".json"))
		// what the race detector of the child left behind (written when the child exited)
		text := stderr.String()
		if logPath != "" {
			if b, err := os.ReadFile(fmt.Sprintf("%s.%d", logPath, cmd.Process.Pid)); err == nil {
				text += "\n" + string(b)
			}
		}
		total, lura, first := luraRaces(text)
		if rn.procs > 0 {
			sc = fmt.Sprintf("%s@procs%d", sc, rn.procs)
		}

		for i, c := range co.Conc {
			g.addConc(c, "race:"+sc)
			if c.Shared != nil {
				g.addShared(*c.Shared, false, 0, nil, 0, map[string]interface{}{"scenario": sc, "consumer": "fixed, concurrent with NewRandomFixedSubscriber"},
					fmt.Sprintf("SSC|%s|%d", sc, i))
			}
		}
		for _, st := range co.Stable {
			g.addConcStable(st.Hosts, st.Dyn, "race:"+sc)
		}
		for _, d := range co.Dyn {
			for i, steps := range d.Per {
				var reps []report
				var obs []res
				for _, s := range steps {
					if s.Idx < 0 {
						// the subscriber was not consulted for this call: nothing was reported, any host is wrong
						reps = append(reps, report{Hosts: nil, Err: "not-asked"})
					} else {
						reps = append(reps, d.Pool[s.Idx])
					}
					obs = append(obs, s.R)
				}
				t := newTbl()
				term := t.wrap(emit.App("CSeqDyn", emit.Nat(d.Via+10), "false", "0%Z", stepsCoq(t, reps, obs), "0%Z")) // +10: one caller of many
				js := map[string]interface{}{"kind": "dynamic-subscriber-concurrent", "scenario": sc, "via": d.Via, "caller": i,
					"reports": repsJS(reps), "observed": resJS(obs)}
				g.w.Count("dynamic-concurrent:" + sc)
				g.w.Add(term, js, "", fmt.Sprintf("DC|%s|%d|%d", sc, d.Via, i), true)
			}
		}
		for _, s := range co.Share {
			var all []res
			for _, p := range s.Per {
				all = append(all, p...)
			}
			t := newTbl()
			term := t.wrap(emit.App("CShare", "true", t.hosts(s.Hosts), t.obs(all)))
			js := map[string]interface{}{"kind": "random-share-concurrent", "scenario": sc, "hosts": s.Hosts, "calls": len(all)}
			g.w.Count("random:share-concurrent")
			g.w.Add(term, js, "", fmt.Sprintf("SC|%s|%d", sc, len(s.Hosts)), true)
		}
		term := emit.App("CRace", emit.Str(sc), boolCoq(raceEnabled), boolCoq(lura > 0))
		js := map[string]interface{}{"kind": "race-detector", "scenario": sc, "detector_on": raceEnabled, "observed_race": lura > 0,
			"reports_total": total, "reports_with_lura_frame": lura, "first_report": first}
		g.w.Count("race-scenarios")
		g.w.Add(term, js, "", "R|"+sc, true)
	}
	g.w.Meta["race_detector_on"] = raceEnabled
	g.w.Close("each concurrent scenario (round robin fixed / dynamic, random fixed / dynamic, round robin and random middlewares; 8-32 goroutines released by one gate) runs in a child process of the -race build; observed_race = the child's race log has a report with a github.com/luraproject/lura/v2/ frame; the picks the children made are checked like those of the main pass", true)
}
