// C14 generator: drives the real balancers of lura's sd package (round robin, random) and
// the load-balancing middlewares of the proxy package with fixed and scripted subscribers,
// one caller and many concurrent callers, and records what they did.
//
//	(no --extra)        main pass
//	--extra race        race pass (binary built with -race): every concurrent scenario runs in a
//	                    child process (this binary re-executed with --extra race-child:<name>);
//	                    the parent reads the race detector's log of the child afterwards
package main

import (
	"context"
	"errors"
	"fmt"
	"net/url"
	"runtime"
	"strings"
	"sync"

	"github.com/luraproject/lura/v2/proxy"
	"github.com/luraproject/lura/v2/sd"
	"github.com/valyala/fastrand"

	"verif/harness/internal/emit"
	"verif/harness/internal/out"
	"verif/harness/internal/rng"
)

// ---------------------------------------------------------------------------------------
// observations

var (
	errA = errors.New("subscriber failure a")
	errB = errors.New("subscriber failure b")
)

type report struct {
	Hosts []string `json:"hosts"`
	Err   string   `json:"err,omitempty"` // "", "a", "b"
}

func (r report) goErr() error {
	switch r.Err {
	case "a":
		return errA
	case "b":
		return errB
	}
	return nil
}

// res is one observed result: Kind "ok" (Host), "nohosts", "sub" (Host = label), "other"
// (Host = text), "panic"
type res struct {
	Kind string `json:"k"`
	Host string `json:"h,omitempty"`
}

// tbl is the name table of one case: every distinct string of the case is written once
// (let t := [...] in ...) and referred to by position (the Coq side decodes with nth), which
// keeps the generated files small enough to be read quickly by coqc.
type tbl struct {
	idx   map[string]int
	names []string
}

func newTbl() *tbl { return &tbl{idx: map[string]int{}} }

func (t *tbl) id(s string) int {
	if i, ok := t.idx[s]; ok {
		return i
	}
	t.idx[s] = len(t.names)
	t.names = append(t.names, s)
	return len(t.names) - 1
}

func (t *tbl) hosts(hs []string) string {
	ys := make([]string, len(hs))
	for i, h := range hs {
		ys[i] = fmt.Sprint(t.id(h))
	}
	return "(sel t [" + strings.Join(ys, ";") + "]%nat)"
}

func (t *tbl) code(o res) string {
	switch o.Kind {
	case "ok":
		return fmt.Sprint(t.id(o.Host))
	case "nohosts":
		return "-1"
	case "sub":
		switch o.Host {
		case "a":
			return "-2"
		case "b":
			return "-3"
		case "not-asked":
			return "-4"
		}
		return "-10"
	case "panic":
		return "-9"
	}
	return "-10"
}

func (t *tbl) obs(os []res) string {
	ys := make([]string, len(os))
	for i, o := range os {
		ys[i] = t.code(o)
	}
	return "(dec t [" + strings.Join(ys, ";") + "]%Z)"
}

func (t *tbl) report(r report) string {
	e := "None"
	if r.Err != "" {
		e = emit.Some(emit.Str(r.Err))
	}
	return fmt.Sprintf("{| rp_hosts := %s; rp_err := %s |}", t.hosts(r.Hosts), e)
}

func (t *tbl) wrap(body string) string {
	return "(let t := " + emit.StrList(t.names) + " in " + body + ")"
}

func classify(host string, err error) res {
	switch {
	case err == nil:
		return res{"ok", host}
	case err == sd.ErrNoHosts:
		return res{"nohosts", ""}
	case err == errA:
		return res{"sub", "a"}
	case err == errB:
		return res{"sub", "b"}
	}
	return res{"other", err.Error()}
}

func callHost(b sd.Balancer) (o res) {
	defer func() {
		if r := recover(); r != nil {
			o = res{"panic", fmt.Sprint(r)}
		}
	}()
	return classify(b.Host())
}

// callMW makes request number k through a load-balancing middleware (every request has its
// own path and query, so that anything kept from an earlier request shows); "ok" carries the
// URL seen by the next proxy (handed back inside the response, so that no state is shared
// between concurrent callers) with the request path and query removed.
func callMW(p proxy.Proxy, k int) (o res) {
	defer func() {
		if r := recover(); r != nil {
			o = res{"panic", fmt.Sprint(r)}
		}
	}()
	path := fmt.Sprintf("/p/%d", k)
	resp, err := p(context.Background(), &proxy.Request{Method: "GET", Path: path, Query: url.Values{"q": []string{fmt.Sprint(k)}}})
	switch {
	case err == nil && resp != nil:
		u, _ := resp.Data["url"].(string)
		suffix := fmt.Sprintf("%s?q=%d", path, k)
		if strings.HasSuffix(u, suffix) {
			return res{"ok", strings.TrimSuffix(u, suffix)}
		}
		return res{"ok", u}
	case err != nil && resp == nil:
		return classify("", err)
	case err == nil:
		return res{"other", "neither response nor error"}
	}
	return res{"other", "next proxy called and error returned: " + err.Error()}
}

func nextRecorder(_ context.Context, r *proxy.Request) (*proxy.Response, error) {
	s := "<nil URL>"
	if r.URL != nil {
		s = r.URL.String()
	}
	return &proxy.Response{Data: map[string]interface{}{"url": s}, IsComplete: true}, nil
}

func hostList(n int) []string {
	hs := make([]string, n)
	for i := range hs {
		hs[i] = fmt.Sprintf("http://h%d.t:8080", i)
	}
	return hs
}

// scripted subscriber: the report of the current call (cur is set by the caller before
// every call, so a balancer that asks twice within one call gets the same answer)
type script struct {
	reports []report
	cur     int
}

func (s *script) Hosts() ([]string, error) {
	r := s.reports[s.cur]
	return r.Hosts, r.goErr()
}

func u64(z uint64) string { return fmt.Sprintf("%d%%Z", z) }

func boolCoq(b bool) string { return emit.Bool(b) }

func resJS(os []res) []interface{} {
	ys := make([]interface{}, len(os))
	for i, o := range os {
		if o.Kind == "ok" {
			ys[i] = o.Host
		} else {
			ys[i] = map[string]interface{}{"kind": o.Kind, "detail": o.Host}
		}
	}
	return ys
}

// ---------------------------------------------------------------------------------------

type gen struct {
	cfg out.Config
	w   *out.Writer
	r   *rng.R
}

// sequential round robin over a fixed list. ctor: "fixed" (sd.FixedSubscriber through the
// public constructor, start position chosen by lura), "func" (SubscriberFunc, counter set
// through the hook to c0)
func (g *gen) seqFixed(n int, ctor string, c0 uint64, M int, hs []string) {
	var sub sd.Subscriber
	if ctor == "fixed" {
		sub = sd.FixedSubscriber(hs)
	} else {
		sub = sd.SubscriberFunc(func() ([]string, error) { return hs, nil })
	}
	b := sd.NewRoundRobinLB(sub)
	if ctor != "fixed" {
		sd.VerifC14SetCounter(b, c0)
	}
	start, known := sd.VerifC14Counter(b)
	obs := make([]res, M)
	for i := range obs {
		obs[i] = callHost(b)
	}
	end, _ := sd.VerifC14Counter(b)
	t := newTbl()
	term := t.wrap(emit.App("CSeqFixed", "0%nat", t.hosts(hs), boolCoq(known), u64(start), t.obs(obs), u64(end)))
	js := map[string]interface{}{"kind": "rr-sequential-fixed", "hosts": hs, "constructor": ctor, "counter_known": known,
		"counter_before": fmt.Sprint(start), "calls": M, "observed": resJS(obs), "counter_after": fmt.Sprint(end)}
	g.w.Count("rr-seq-fixed:" + ctor)
	g.w.Count(fmt.Sprintf("size:%02d", len(hs)))
	c0s := fmt.Sprint(c0)
	if ctor == "fixed" {
		c0s = "lura"
	}
	g.w.Add(term, js, "", fmt.Sprintf("SF|%s|%v|%s|%d", ctor, hs, c0s, M), len(hs) > 1 && M > 1)
}

func (g *gen) randomReports(steps, maxN int) []report {
	r := g.r
	var reps []report
	pool := hostList(maxN + 8)
	var prev []string
	for i := 0; i < steps; i++ {
		switch k := r.Intn(16); {
		case k == 0:
			reps = append(reps, report{Err: "a"})
		case k == 1:
			// an error together with a host list: the error wins
			reps = append(reps, report{Hosts: hostList(1 + r.Intn(4)), Err: "b"})
		case k == 2:
			reps = append(reps, report{Hosts: []string{}})
		case k == 3:
			reps = append(reps, report{Hosts: nil})
		case k < 8 && prev != nil:
			reps = append(reps, report{Hosts: prev})
		default:
			n := 1 + r.Intn(maxN)
			if r.Chance(1, 3) {
				n = 1 + r.Intn(4)
			}
			off := r.Intn(8)
			hs := append([]string{}, pool[off:off+n]...)
			if r.Chance(1, 4) {
				p := r.Perm(n)
				sh := make([]string, n)
				for a, b := range p {
					sh[a] = hs[b]
				}
				hs = sh
			}
			if r.Chance(1, 10) && n > 1 {
				hs[r.Intn(n)] = hs[r.Intn(n)] // a duplicate entry
			}
			prev = hs
			reps = append(reps, report{Hosts: hs})
		}
	}
	return reps
}

func stepsCoq(t *tbl, reps []report, obs []res) string {
	ys := make([]string, len(reps))
	for i := range reps {
		ys[i] = emit.Pair(t.report(reps[i]), "dec1 t ("+t.code(obs[i])+")%Z")
	}
	return emit.List(ys)
}

func repsJS(reps []report) []interface{} {
	ys := make([]interface{}, len(reps))
	for i, r := range reps {
		if r.Err != "" {
			ys[i] = map[string]interface{}{"error": r.Err, "hosts": r.Hosts}
		} else {
			ys[i] = r.Hosts
		}
	}
	return ys
}

// via: 0 round robin Host(); 1 round robin middleware; 2 random middleware; 3 NewBalancer middleware
func (g *gen) seqDyn(via int, reps []report, c0 uint64) {
	sc := &script{reports: reps}
	obs := make([]res, len(reps))
	var start, end uint64
	known := false
	switch via {
	case 0:
		b := sd.NewRoundRobinLB(sc)
		sd.VerifC14SetCounter(b, c0)
		start, known = sd.VerifC14Counter(b)
		for i := range reps {
			sc.cur = i
			obs[i] = callHost(b)
		}
		end, _ = sd.VerifC14Counter(b)
	default:
		var mw proxy.Middleware
		switch via {
		case 1:
			mw = proxy.NewRoundRobinLoadBalancedMiddlewareWithSubscriber(sc)
		case 2:
			mw = proxy.NewRandomLoadBalancedMiddlewareWithSubscriber(sc)
		default:
			mw = proxy.NewLoadBalancedMiddlewareWithSubscriber(sc)
		}
		p := mw(nextRecorder)
		for i := range reps {
			sc.cur = i
			obs[i] = callMW(p, i)
		}
	}
	t := newTbl()
	term := t.wrap(emit.App("CSeqDyn", emit.Nat(via), boolCoq(known), u64(start), stepsCoq(t, reps, obs), u64(end)))
	js := map[string]interface{}{"kind": "dynamic-subscriber", "via": []string{"roundrobin.Host", "roundrobin-middleware", "random-middleware", "default-middleware"}[via],
		"counter_before": fmt.Sprint(start), "reports": repsJS(reps), "observed": resJS(obs)}
	g.w.Count(fmt.Sprintf("dynamic:via%d", via))
	g.w.Add(term, js, "", fmt.Sprintf("SD|%d|%v|%d", via, reps, c0), true)
}

// round robin through the middleware, fixed list
func (g *gen) mwFixed(hs []string, M int) {
	p := proxy.NewRoundRobinLoadBalancedMiddlewareWithSubscriber(sd.FixedSubscriber(hs))(nextRecorder)
	obs := make([]res, M)
	for i := range obs {
		obs[i] = callMW(p, i)
	}
	t := newTbl()
	term := t.wrap(emit.App("CSeqFixed", "1%nat", t.hosts(hs), "false", "0%Z", t.obs(obs), "0%Z"))
	js := map[string]interface{}{"kind": "rr-middleware-fixed", "hosts": hs, "calls": M, "observed": resJS(obs)}
	g.w.Count("rr-middleware-fixed")
	g.w.Add(term, js, "", fmt.Sprintf("MF|%v|%d", hs, M), len(hs) > 1)
}

// random balancer with an injected seeded fastrand.RNG; a twin generator with the same seed
// tells which 32-bit value was drawn
type injected struct {
	gen, twin fastrand.RNG
	args      []int64
	xs        []uint32
}

func newInjected(seed uint32) *injected {
	if seed == 0 {
		seed = 1
	}
	i := &injected{}
	i.gen.Seed(seed)
	i.twin.Seed(seed)
	return i
}

func (i *injected) rand(n uint32) uint32 {
	i.args = append(i.args, int64(n))
	i.xs = append(i.xs, i.twin.Uint32())
	return i.gen.Uint32n(n)
}

func (g *gen) rndDyn(reps []report) {
	sc := &script{reports: reps}
	b := sd.NewRandomLB(sc)
	inj := newInjected(uint32(g.r.U64()))
	sd.VerifC14SetRand(b, inj.rand)
	obs := make([]res, len(reps))
	ys := make([]string, len(reps))
	t := newTbl()
	var draws []interface{}
	for i := range reps {
		sc.cur = i
		before := len(inj.args)
		obs[i] = callHost(b)
		arg, x := int64(-1), uint32(0)
		if len(inj.args) > before {
			arg, x = inj.args[before], inj.xs[before]
		}
		if len(inj.args) > before+1 {
			arg = -2 // consulted more than once
		}
		ys[i] = emit.Tuple(t.report(reps[i]), emit.Z(arg), emit.Z(int64(x)), "dec1 t ("+t.code(obs[i])+")%Z")
		draws = append(draws, []int64{arg, int64(x)})
	}
	term := t.wrap(emit.App("CRndDyn", "0%nat", emit.List(ys)))
	js := map[string]interface{}{"kind": "random-dynamic", "reports": repsJS(reps), "generator_arg_and_draw": draws, "observed": resJS(obs)}
	g.w.Count("random:dynamic")
	g.w.Add(term, js, "", fmt.Sprintf("RD|%v", reps), true)
}

func (g *gen) share(hs []string, wild bool, ctor string) {
	var sub sd.Subscriber
	if ctor == "fixed" {
		sub = sd.FixedSubscriber(hs)
	} else {
		sub = sd.SubscriberFunc(func() ([]string, error) { return hs, nil })
	}
	b := sd.NewRandomLB(sub)
	if !wild {
		sd.VerifC14SetRand(b, newInjected(uint32(g.r.U64())).rand)
	}
	M := 64 * len(hs)
	obs := make([]res, M)
	for i := range obs {
		obs[i] = callHost(b)
	}
	t := newTbl()
	term := t.wrap(emit.App("CShare", boolCoq(wild), t.hosts(hs), t.obs(obs)))
	cnt := map[string]int{}
	for _, o := range obs {
		cnt[o.Kind+":"+o.Host]++
	}
	js := map[string]interface{}{"kind": "random-share", "hosts": hs, "own_generator": wild, "constructor": ctor, "calls": M, "observed_counts": cnt}
	g.w.Count(fmt.Sprintf("random:share:wild=%v", wild))
	g.w.Add(term, js, "", fmt.Sprintf("SH|%v|%v|%s", hs, wild, ctor), len(hs) > 1)
}

func (g *gen) u32batch(size int) {
	seed := uint32(g.r.U64()) | 1
	var a, b fastrand.RNG
	a.Seed(seed)
	b.Seed(seed)
	ys := make([]string, size)
	var sample []interface{}
	for i := 0; i < size; i++ {
		var n uint32
		switch g.r.Intn(4) {
		case 0:
			n = uint32(1 + g.r.Intn(64))
		case 1:
			n = uint32(1 + g.r.Intn(1<<16))
		case 2:
			n = uint32(g.r.U64())
			if n == 0 {
				n = 1
			}
		default:
			n = []uint32{1, 2, 3, 64, 65, 1 << 31, 1<<32 - 1, 1<<31 + 1}[g.r.Intn(8)]
		}
		x := a.Uint32()
		v := b.Uint32n(n)
		ys[i] = emit.Tuple(emit.Z(int64(x)), emit.Z(int64(n)), emit.Z(int64(v)))
		if i < 4 {
			sample = append(sample, []uint32{x, n, v})
		}
	}
	term := emit.App("CU32", emit.List(ys))
	js := map[string]interface{}{"kind": "fastrand-uint32n", "seed": seed, "triples": size, "first_x_n_result": sample}
	g.w.Count("fastrand:uint32n-batches")
	g.w.Add(term, js, "", fmt.Sprintf("U|%d|%d", seed, size), true)
}

// ---------------------------------------------------------------------------------------
// concurrent callers (real goroutines released together by closing a gate)

func runConcurrent(k, calls int, setup func(i int), call func(i int) res, extra ...func()) [][]res {
	per := make([][]res, k)
	gate := make(chan struct{})
	var ready, done sync.WaitGroup
	ready.Add(k)
	done.Add(k)
	for i := 0; i < k; i++ {
		go func(i int) {
			defer done.Done()
			mine := make([]res, 0, calls)
			if setup != nil {
				setup(i)
			}
			ready.Done()
			<-gate
			for j := 0; j < calls; j++ {
				mine = append(mine, call(i))
			}
			per[i] = mine
		}(i)
	}
	for _, f := range extra {
		ready.Add(1)
		done.Add(1)
		go func(f func()) {
			defer done.Done()
			ready.Done()
			<-gate
			f()
		}(f)
	}
	ready.Wait()
	close(gate)
	done.Wait()
	return per
}

type concObs struct {
	Shared *sharedObs `json:"shared,omitempty"`
	Known  bool       `json:"counter_known"`
	Hosts  []string   `json:"hosts"`
	K      int        `json:"callers"`
	Calls  int        `json:"calls_per_caller"`
	Before uint64     `json:"counter_before"`
	After  uint64     `json:"counter_after"`
	Per    [][]res    `json:"per_caller"`
}

func concRR(hs []string, k, calls int, c0 uint64, ctor string) concObs {
	var sub sd.Subscriber
	if ctor == "fixed" {
		sub = sd.FixedSubscriber(hs)
	} else {
		sub = sd.SubscriberFunc(func() ([]string, error) { return hs, nil })
	}
	b := sd.NewRoundRobinLB(sub)
	if ctor != "fixed" {
		sd.VerifC14SetCounter(b, c0)
	}
	start, known := sd.VerifC14Counter(b)
	per := runConcurrent(k, calls, nil, func(int) res { return callHost(b) })
	end, _ := sd.VerifC14Counter(b)
	return concObs{Known: known, Hosts: hs, K: k, Calls: calls, Before: start, After: end, Per: per}
}

func (g *gen) addConc(o concObs, tag string) {
	ys := make([]string, len(o.Per))
	perJS := make([]interface{}, len(o.Per))
	t := newTbl()
	hsT := t.hosts(o.Hosts)
	for i, p := range o.Per {
		ys[i] = t.obs(p)
		perJS[i] = resJS(p)
	}
	term := t.wrap(emit.App("CConc", boolCoq(o.Known), hsT, u64(o.Before), emit.List(ys), u64(o.After)))
	js := map[string]interface{}{"kind": "rr-concurrent-fixed", "hosts": o.Hosts, "callers": o.K, "calls_per_caller": o.Calls,
		"counter_before": fmt.Sprint(o.Before), "counter_after": fmt.Sprint(o.After), "pass": tag}
	total := 0
	cnt := map[string]int{}
	for _, p := range o.Per {
		total += len(p)
		for _, x := range p {
			cnt[x.Kind+":"+x.Host]++
		}
	}
	js["observed_counts"] = cnt
	if total <= 2000 {
		js["observed_per_caller"] = perJS
	}
	g.w.Count("rr-concurrent:" + tag)
	g.w.Count(fmt.Sprintf("callers:%02d", o.K))
	g.w.Add(term, js, "", fmt.Sprintf("CC|%s|%d|%d|%d", tag, len(o.Hosts), o.K, o.Calls), len(o.Hosts) > 1 && o.K > 1)
}

// ---------------------------------------------------------------------------------------

func main() {
	cfg := out.ParseFlags("C14")
	if strings.HasPrefix(cfg.Extra, "race-child:") {
		childMain(cfg, strings.TrimPrefix(cfg.Extra, "race-child:"))
		return
	}
	g := &gen{cfg: cfg, r: rng.New(cfg.Seed)}
	g.w = out.NewWriter(cfg, "Verif.Corr.C14", 60)
	if cfg.Extra == "race" {
		g.racePass()
		return
	}
	g.mainPass()
}

const top = ^uint64(0) // 2^64 - 1

func (g *gen) mainPass() {
	cfg, r := g.cfg, g.r
	th := cfg.Thorough()

	// sd.NewBalancer picks the random balancer when GOMAXPROCS > 1: the round robin
	// constructors must not depend on it
	if runtime.GOMAXPROCS(0) < 2 {
		runtime.GOMAXPROCS(4)
	}
	g.w.Meta["gomaxprocs"] = runtime.GOMAXPROCS(0)

	// ---- regression corpus ----
	g.shared(5, 3, 11, "fixed", 1)                                                  // a shared host slice is shuffled elsewhere in the middle of a cycle
	g.seqStable(hostList(2), patternReports(hostList(2), "Sa", 12), 0, nil, "Sa")   // two hosts, every other lookup fails
	g.seqStable(hostList(3), patternReports(hostList(3), "Sea", 18), 4, nil, "Sea") // three hosts, two of three lookups fail
	g.mwReuse(mwCtors[5], []report{{Hosts: hostList(3)}, {Hosts: []string{"http://x0.t:8080"}}, {Hosts: []string{}}, {Err: "a"}},
		[]string{"fresh", "same", "same", "same"}, "retry-same-object") // one request object sent again after the list changed
	for _, c := range mwCtors {
		if c.kind == "rr" {
			g.mwByName(c, hostList(5), 16, "fixed", runtime.GOMAXPROCS(0))
		}
	}
	g.seqFixed(1, "func", 0, 5, hostList(1))            // one host through a SubscriberFunc: ticket % 1
	g.seqFixed(1, "fixed", 0, 5, hostList(1))           // one fixed host: the single-host balancer
	g.seqFixed(0, "fixed", 0, 3, hostList(0))           // no hosts
	g.seqFixed(0, "func", 7, 3, nil)                    // nil list
	g.seqFixed(3, "func", top-(1<<33), 10, hostList(3)) // high counter, 2^33 below the wrap
	g.seqFixed(3, "func", top-3, 10, hostList(3))       // crosses the wrap, 3 does not divide 2^64 (outside the balance hypothesis)
	g.seqFixed(3, "func", top-11, 10, hostList(3))      // ends just below the wrap (membership and counter only)
	g.seqFixed(4, "func", top-5, 13, hostList(4))       // crosses the wrap, 4 divides 2^64: still fair
	g.seqFixed(64, "func", top-70, 200, hostList(64))   // same with 64 hosts
	// counters just below a power of two (a counter kept or reduced in fewer than 64 bits)
	for _, b := range []uint{8, 16, 31, 32, 33, 48, 63} {
		for _, n := range []int{3, 5, 7} {
			g.seqFixed(n, "func", (uint64(1)<<b)-3, 3*n+1, hostList(n))
		}
	}
	g.seqFixed(2, "func", 1<<63, 7, hostList(2))                              // counter above the int64 range
	g.seqFixed(3, "func", 5, 9, []string{"http://a", "http://b", "http://a"}) // duplicate entry: membership only
	g.seqDyn(0, []report{{Hosts: hostList(2)}, {Err: "a"}, {Hosts: hostList(2)}, {Hosts: []string{}}, {Hosts: hostList(3)}, {Hosts: hostList(1), Err: "b"}, {Hosts: hostList(1)}}, 0)

	// ---- exhaustive small scope: every list size 0..64 ----
	for n := 0; n <= 64; n++ {
		hs := hostList(n)
		ms := []int{2*n + 1, n, 3*n + 2}
		if th {
			ms = []int{1, n - 1, n, n + 1, 2 * n, 2*n + 1, 3*n + 2, 5*n + 3}
		}
		seenM := map[int]bool{}
		for _, M := range ms {
			if M < 1 || seenM[M] {
				continue
			}
			seenM[M] = true
			g.seqFixed(n, "fixed", 0, M, hs)
			g.seqFixed(n, "func", r.U64()>>1, M, hs)
			if th {
				g.seqFixed(n, "func", uint64(r.Intn(3*n+1)), M, hs)
				g.seqFixed(n, "func", top-(1<<33)-uint64(M), M, hs) // high counter, 2^33 below the wrap
				if n > 0 && n&(n-1) == 0 {
					g.seqFixed(n, "func", top-uint64(M/2), M, hs) // crosses the wrap, n divides 2^64
				}
			}
		}
		g.mwFixed(hs, 2*n+1)
	}

	// ---- every exported middleware constructor by name; shared host slices; instance reuse ----
	g.allMiddlewareConstructors()
	g.sharedSlices()
	g.instanceReuse()
	g.builtOnOneProc()
	g.stableHistories()
	g.requestReuse()

	// ---- scripted dynamic subscribers ----
	nd := 120
	if th {
		nd = 2500
	}
	for i := 0; i < nd; i++ {
		steps := 6 + r.Intn(30)
		maxN := []int{3, 8, 64}[i%3]
		g.seqDyn(0, g.randomReports(steps, maxN), r.U64())
		g.rndDyn(g.randomReports(steps, maxN))
		if i%2 == 0 {
			g.seqDyn(1+(i/2)%3, g.randomReports(steps, maxN), 0)
		}
	}

	// ---- concurrent callers on one round robin balancer ----
	type cc struct{ n, k, calls int }
	var ccs []cc
	if th {
		for n := 0; n <= 64; n++ {
			for k := 1; k <= 32; k++ {
				ccs = append(ccs, cc{n, k, []int{1, 2, 5}[(n+k)%3]})
			}
		}
		for k := 1; k <= 32; k++ {
			for _, n := range []int{2, 3, 7, 64} {
				ccs = append(ccs, cc{n, k, 4 * n})
			}
		}
	} else {
		for n := 0; n <= 64; n++ {
			ccs = append(ccs, cc{n, 1 + (n*7)%32, 1 + n%5}, cc{n, 32 - (n*5)%32, []int{1, n, 3}[n%3]})
		}
		for k := 1; k <= 32; k++ {
			ccs = append(ccs, cc{1 + (k*11)%64, k, 6}, cc{3, k, 30})
		}
	}
	for i, c := range ccs {
		if c.calls < 1 {
			c.calls = 1
		}
		ctor := "func"
		if i%4 == 3 {
			ctor = "fixed"
		}
		g.addConc(concRR(hostList(c.n), c.k, c.calls, r.U64()>>1, ctor), "main")
	}

	// ---- random balancer: share ----
	sizes := []int{1, 2, 3, 5, 8, 16, 33, 64}
	if th {
		sizes = nil
		for n := 1; n <= 64; n++ {
			sizes = append(sizes, n)
		}
	}
	for _, n := range sizes {
		g.share(hostList(n), false, "func")
	}
	for _, n := range []int{2, 10, 64} {
		g.share(hostList(n), true, "fixed")
	}
	g.share(hostList(1), true, "func")

	// ---- fastrand's range reduction against the model ----
	nb := 50
	if th {
		nb = 1000
	}
	for i := 0; i < nb; i++ {
		g.u32batch(100)
	}
	g.w.Meta["uint32n_triples"] = nb * 100
	g.w.Close("regression corpus (single host, empty/nil list, counter at and across the uint64 wrap, duplicate entries); the sd constructors (which balancer is built for GOMAXPROCS 1/2/16 x fixed/other subscriber x sizes, start of the counter); every exported middleware constructor of proxy/balancing.go by name, the balancer looked up in the model's table (generic ones with GOMAXPROCS = 1 and > 1; round robin: fairness of the hosts the next proxy sees, GOMAXPROCS > 1; random: membership + share; generic: membership; subscriber variants also over scripted dynamic subscribers); a stable list with failing lookups in between (patterns Sa, Se, aS, Saa, SaeSnbS, SSSSa, SbS, single failure, random; Host() and the round robin middlewares; concurrent callers with every other lookup failing); request reuse through every subscriber-taking middleware constructor (same request object / CloneRequest / Clone() sent again after the list changed to other hosts, empty, an error; a fixed list with one request re-sent M times); a host slice shared between a round robin balancer (mid cycle) and sd.NewRandomFixedSubscriber, sizes up to 150 (thorough 257), slice compared before/after; balancers built by NewBalancer / the generic middleware constructors while GOMAXPROCS = 1 and used by 8-16 parallel callers after it was raised (long runs, M a multiple of n); instance reuse (one balancer: sequence, concurrent burst, sequence; one middleware instance under concurrent callers with distinct requests); every list size 0..64 x constructors (FixedSubscriber with lura's own start position / SubscriberFunc with the counter set through the hook) x call counts {n, 2n+1, 3n+2} (thorough: 8 call counts, 4 counter positions) sequentially, and through the round robin middleware; scripted dynamic subscribers (errors, empty, nil, shrinking/growing/permuted lists, duplicates) for round robin, random (injected seeded fastrand.RNG) and the three middlewares; concurrent callers: every size 0..64 and every caller count 1..32 (thorough: the full 65 x 32 grid) with real goroutines; random share over 64 n draws; fastrand.RNG.Uint32n against the multiply-shift model. nontrivial = more than one host (and more than one call / caller)", true)
}
