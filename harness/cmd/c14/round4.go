package main

// Streams added in round 4:
//   - a stable host list whose lookups fail in between (subscriber error, empty answer): the
//     selections that are made must stay fair (round robin, one caller and concurrent callers);
//   - request reuse through the balancing middleware: the same *proxy.Request (or a clone taken
//     after a first pass) goes through the middleware again while the subscriber's answer has
//     changed (other list, empty, error).

import (
	"context"
	"fmt"
	"net/url"
	"strings"

	"github.com/luraproject/lura/v2/proxy"
	"github.com/luraproject/lura/v2/sd"

	"verif/harness/internal/emit"
)

// failure patterns: which report the i-th lookup gets. "S" the stable list, "a"/"b" an error
// (b together with a list), "e" an empty list, "n" a nil list
func patternReports(hs []string, pat string, lookups int) []report {
	reps := make([]report, lookups)
	for i := range reps {
		switch pat[i%len(pat)] {
		case 'S':
			reps[i] = report{Hosts: hs}
		case 'a':
			reps[i] = report{Err: "a"}
		case 'b':
			reps[i] = report{Hosts: hs, Err: "b"}
		case 'e':
			reps[i] = report{Hosts: []string{}}
		default:
			reps[i] = report{Hosts: nil}
		}
	}
	return reps
}

func stepsJS(reps []report, obs []res) []interface{} {
	ys := make([]interface{}, len(reps))
	for i := range reps {
		var rp interface{} = "stable-list"
		switch {
		case reps[i].Err != "":
			rp = "error:" + reps[i].Err
		case len(reps[i].Hosts) == 0:
			rp = "empty"
		}
		var o interface{} = obs[i].Host
		if obs[i].Kind != "ok" {
			o = obs[i].Kind + ":" + obs[i].Host
		}
		ys[i] = []interface{}{rp, o}
	}
	return ys
}

// via: 0 the balancer's Host(); 1 a round robin middleware built by the named constructor
func (g *gen) seqStable(hs []string, reps []report, c0 uint64, ctor *mwCtor, tag string) {
	sc := &script{reports: reps}
	obs := make([]res, len(reps))
	var start, end uint64
	known := false
	via := 0
	name := "NewRoundRobinLB"
	if ctor == nil {
		b := sd.NewRoundRobinLB(sc)
		sd.VerifC14SetCounter(b, c0)
		start, known = sd.VerifC14Counter(b)
		for i := range reps {
			sc.cur = i
			obs[i] = callHost(b)
		}
		end, _ = sd.VerifC14Counter(b)
	} else {
		via, name = 1, ctor.name
		p := ctor.build(nil, sc)(nextRecorder)
		for i := range reps {
			sc.cur = i
			obs[i] = callMW(p, i)
		}
	}
	t := newTbl()
	term := t.wrap(emit.App("CSeqStable", emit.Nat(via), t.hosts(hs), boolCoq(known), u64(start), stepsCoq(t, reps, obs), u64(end)))
	js := map[string]interface{}{"kind": "stable-list-with-failing-lookups", "constructor": name, "hosts": hs, "pattern": tag,
		"counter_before": fmt.Sprint(start), "counter_after": fmt.Sprint(end), "report_and_result_per_call": stepsJS(reps, obs)}
	g.w.Count("stable-failing:" + name)
	g.w.Add(term, js, "", fmt.Sprintf("ST|%s|%d|%s|%d|%d", name, len(hs), tag, len(reps), c0), len(hs) > 1)
}

func (g *gen) addConcStable(hs []string, d dynObs, tag string) {
	t := newTbl()
	hsT := t.hosts(hs)
	ys := make([]string, len(d.Per))
	okc := map[string]int{}
	for i, steps := range d.Per {
		var reps []report
		var obs []res
		for _, s := range steps {
			if s.Idx < 0 {
				reps = append(reps, report{Err: "not-asked"})
			} else {
				reps = append(reps, d.Pool[s.Idx])
			}
			obs = append(obs, s.R)
			okc[s.R.Kind+":"+s.R.Host]++
		}
		ys[i] = stepsCoq(t, reps, obs)
	}
	term := t.wrap(emit.App("CConcStable", hsT, emit.List(ys)))
	js := map[string]interface{}{"kind": "stable-list-with-failing-lookups-concurrent", "hosts": hs, "callers": len(d.Per),
		"observed_counts": okc, "pass": tag}
	g.w.Count("stable-failing-concurrent:" + tag)
	g.w.Add(term, js, "", fmt.Sprintf("STC|%s|%d|%d", tag, len(hs), len(d.Per)), true)
}

func stablePool(hs []string, pat string) []report { return patternReports(hs, pat, len(pat)) }

func concStable(hs []string, pat string, k, calls int) dynObs {
	return runDynPool(0, k, calls, stablePool(hs, pat), 1, func(s sd.Subscriber) func(int) res {
		b := sd.NewRoundRobinLB(s)
		return func(int) res { return callHost(b) }
	})
}

func (g *gen) stableHistories() {
	th := g.cfg.Thorough()
	pats := []string{"Sa", "Se", "aS", "Saa", "SaeSnbS", "SSSSa", "SbS"}
	sizes := []int{1, 2, 3, 5, 7, 16, 64}
	if th {
		sizes = []int{1, 2, 3, 4, 5, 6, 7, 8, 11, 16, 23, 32, 47, 64}
	}
	rrSub := []*mwCtor{}
	for i := range mwCtors {
		if mwCtors[i].kind == "rr" && mwCtors[i].bySub {
			rrSub = append(rrSub, &mwCtors[i])
		}
	}
	for si, n := range sizes {
		hs := hostList(n)
		for pi, pat := range pats {
			if !th && (si+pi)%2 == 1 && n > 3 {
				continue
			}
			succ := strings.Count(pat, "S")
			// enough lookups for 2n+1 selections (rounded up to whole patterns)
			lookups := ((2*n+1)/succ + 1) * len(pat)
			g.seqStable(hs, patternReports(hs, pat, lookups), g.r.U64()>>1, nil, pat)
			if (si+pi)%3 == 0 || th {
				g.seqStable(hs, patternReports(hs, pat, lookups), 0, rrSub[(si+pi)%len(rrSub)], pat)
			}
		}
		// one failed lookup in the middle of an otherwise healthy history, 3n selections
		reps := patternReports(hs, "S", 3*n+1)
		reps[n+n/2] = report{Err: "a"}
		g.seqStable(hs, reps, uint64(g.r.Intn(5*n+1)), nil, "single-failure")
		// random failures
		rr := make([]report, 4*n+3)
		for i := range rr {
			rr[i] = patternReports(hs, "SSaeSbn", 7)[g.r.Intn(7)]
		}
		g.seqStable(hs, rr, g.r.U64()>>1, nil, "random")
	}
	// concurrent callers, every other lookup failing
	cc := [][3]int{{2, 8, 50}, {3, 16, 30}, {5, 4, 45}, {7, 12, 28}}
	if th {
		for n := 2; n <= 64; n += 5 {
			cc = append(cc, [3]int{n, 1 + n%16, 2 * n})
		}
	}
	for i, c := range cc {
		pat := []string{"Sa", "Se", "SaS", "Saeb"}[i%4]
		hs := hostList(c[0])
		g.addConcStable(hs, concStable(hs, pat, c[1], c[2]), "main")
	}
}

// ---------------------------------------------------------------------------------------
// request reuse through the middleware

// sendReq passes req through p and reports what the next proxy saw
func sendReq(p proxy.Proxy, req *proxy.Request, k int) (o res) {
	defer func() {
		if r := recover(); r != nil {
			o = res{"panic", fmt.Sprint(r)}
		}
	}()
	resp, err := p(context.Background(), req)
	switch {
	case err == nil && resp != nil:
		u, _ := resp.Data["url"].(string)
		suffix := fmt.Sprintf("/p/%d?q=%d", k, k)
		if strings.HasSuffix(u, suffix) {
			return res{"ok", strings.TrimSuffix(u, suffix)}
		}
		return res{"ok", u}
	case err != nil && resp == nil:
		return classify("", err)
	case err == nil:
		return res{"other", "neither response nor error"}
	}
	return res{"other", "next proxy called and error returned: " + err.Error()}
}

func newReq(k int) *proxy.Request {
	return &proxy.Request{Method: "GET", Path: fmt.Sprintf("/p/%d", k), Query: url.Values{"q": []string{fmt.Sprint(k)}},
		Headers: map[string][]string{}, Params: map[string]string{}}
}

// modes per step: "fresh" a new request; "same" the request object of the previous step again;
// "clone" proxy.CloneRequest of it (taken after its pass); "copy" its Clone() value
func (g *gen) mwReuse(c mwCtor, reps []report, modes []string, tag string) {
	sc := &script{reports: reps}
	p := c.build(nil, sc)(nextRecorder)
	obs := make([]res, len(reps))
	var req *proxy.Request
	k := 0
	for i := range reps {
		switch {
		case req == nil || modes[i] == "fresh":
			k = i
			req = newReq(k)
		case modes[i] == "clone":
			req = proxy.CloneRequest(req)
		case modes[i] == "copy":
			cp := req.Clone()
			req = &cp
		}
		sc.cur = i
		obs[i] = sendReq(p, req, k)
	}
	t := newTbl()
	var term string
	fixedList := true
	for _, r := range reps {
		if r.Err != "" || len(r.Hosts) == 0 || len(r.Hosts) != len(reps[0].Hosts) || r.Hosts[0] != reps[0].Hosts[0] {
			fixedList = false
		}
	}
	if c.kind == "rr" && fixedList {
		// a fixed list and one re-sent request: the hosts the next proxy sees must still rotate
		term = t.wrap(emit.App("CSeqFixed", "1%nat", t.hosts(reps[0].Hosts), "false", "0%Z", t.obs(obs), "0%Z"))
	} else {
		term = t.wrap(emit.App("CSeqDyn", emit.Nat(viaOf(c.kind)), "false", "0%Z", stepsCoq(t, reps, obs), "0%Z"))
	}
	js := map[string]interface{}{"kind": "middleware-request-reuse", "constructor": c.name, "request_per_call": modes,
		"reports": repsJS(reps), "observed": resJS(obs), "scenario": tag}
	g.w.Count("request-reuse:" + c.name)
	g.w.Add(term, js, "", fmt.Sprintf("RU|%s|%v|%v", c.name, reps, modes), true)
}

func (g *gen) requestReuse() {
	th := g.cfg.Thorough()
	a3 := hostList(3)
	other := []string{"http://x0.t:8080", "http://x1.t:8080"}
	for _, c := range mwCtors {
		if !c.bySub {
			continue
		}
		// the list changes between two passes of one request: to other hosts, to empty, to an error, back
		g.mwReuse(c, []report{{Hosts: a3}, {Hosts: other}, {Hosts: []string{}}, {Err: "a"}, {Hosts: a3}, {Hosts: other[:1]}},
			[]string{"fresh", "same", "same", "same", "same", "same"}, "retry-same-object")
		g.mwReuse(c, []report{{Hosts: a3}, {Hosts: other}, {Err: "b", Hosts: a3}, {Hosts: nil}, {Hosts: other}},
			[]string{"fresh", "clone", "clone", "copy", "clone"}, "retry-clone")
		// a fixed list, one request re-sent M times
		for _, n := range []int{2, 3, 5} {
			reps := patternReports(hostList(n), "S", 4*n+1)
			modes := make([]string, len(reps))
			for i := range modes {
				modes[i] = []string{"same", "clone", "copy"}[(i+n)%3]
			}
			g.mwReuse(c, reps, modes, "fixed-list-resend")
		}
		nd := 6
		if th {
			nd = 60
		}
		for i := 0; i < nd; i++ {
			reps := g.randomReports(5+g.r.Intn(12), []int{3, 8, 20}[i%3])
			modes := make([]string, len(reps))
			for j := range modes {
				modes[j] = []string{"fresh", "same", "same", "clone", "copy"}[g.r.Intn(5)]
			}
			g.mwReuse(c, reps, modes, "random")
		}
	}
}
