// C04 generator: every backend call is bounded by the endpoint timeout; nothing outlives it.
//
// Drives the real pipelines (proxy.NewDefaultFactory(...).New(endpoint), alone or behind the
// gin / mux endpoint handlers) with stub backends that answer, fail, never answer (block on
// ctx.Done()), answer late (return a response once ctx is done) or answer slowly, and records
//   - ctx.Deadline() of the context every stub is invoked with and when it was invoked,
//   - ctx.Err() of each of those contexts right after the pipeline returned,
//   - when the pipeline returned, which backends' data is in the response,
//   - after each batch of cases: goroutines with lura frames still alive (runtime.Stack) and
//     backend bodies never closed.
//
// All times are monotonic-clock nanoseconds after the arrival; comparisons (in Coq) are
// intervals.  No sleeps for synchronisation: never-answering stubs block on ctx.Done() (and on
// a watchdog channel so that a context that is never cancelled shows up as an observation
// instead of a hang).
package main

import (
	"bytes"
	"context"
	"encoding/json"
	"errors"
	"fmt"
	"io"
	"net"
	"net/http"
	"net/http/httptest"
	"os"
	"os/exec"
	"path/filepath"
	"reflect"
	"regexp"
	"runtime"
	"sort"
	"strconv"
	"strings"
	"sync"
	"sync/atomic"
	"time"
	"unsafe"

	"github.com/gin-gonic/gin"
	"github.com/luraproject/lura/v2/config"
	"github.com/luraproject/lura/v2/encoding"
	"github.com/luraproject/lura/v2/logging"
	"github.com/luraproject/lura/v2/proxy"
	krakendgin "github.com/luraproject/lura/v2/router/gin"
	"github.com/luraproject/lura/v2/router/mux"
	"github.com/luraproject/lura/v2/sd"
	"github.com/luraproject/lura/v2/sd/dnssrv"
	"github.com/luraproject/lura/v2/transport/http/client"
	clientplugin "github.com/luraproject/lura/v2/transport/http/client/plugin"
	"github.com/luraproject/lura/v2/transport/http/server"

	"verif/harness/internal/emit"
	"verif/harness/internal/out"
	"verif/harness/internal/rng"
)

type beh int

const (
	bAnswer beh = iota
	bIncomplete
	bFail
	bNil
	bHang
	bLate
	bSlow
	bMid // answers at 80% of the endpoint timeout
)

var behNames = []string{"Answer", "Incomplete", "Fail", "NilResp", "Hang", "Late", "Slow", "Mid"}

func (b beh) waits() bool { return b == bHang || b == bLate || b == bSlow || b == bMid }

type spec struct {
	level    string // LProxy | LGin | LMux
	seq      bool
	T        time.Duration
	parent   time.Duration // 0: the context handed in has no deadline
	http     bool
	noop     bool // http only, single backend: no-op encoding (body handed through, closed on cancellation)
	backends [][]beh
	// != 0: the pipeline is built by proxy.NewShadowFactory around the default factory and the
	// endpoint has one more backend, a shadow one (it answers at once and is not observed: shadow
	// traffic is C16's); > 0: its explicit shadow_timeout, -1: none configured (it defaults to the
	// backend timeout)
	shadow time.Duration
	// mux only: the handler is given a RequestBuilder that takes this long (the endpoint clock must
	// already be running while it works)
	slowRB time.Duration
	// http stubs only: the backends are reached through the client-executor plugin adapter
	// (transport/http/client/plugin) with a plugin registered in this process that serves the
	// request under the context it is handed
	plugin bool
	// the backends' hosts come from DNS SRV service discovery (sd/dnssrv) and the request arrives
	// while a cache refresh is waiting for the resolver (which answers only after the request is
	// over, or when the watchdog gives up)
	dns   bool
	group string
	// how the case is run (not part of the input the model sees)
	stress time.Duration // > 0: hammer one instance with this request for that long first (child process)
	seqID  int           // > 0: step of an instance-reuse sequence (one instance, consecutive requests)
	step   int
	concID int // > 0: request of a concurrent instance-reuse group (one instance, many goroutines)
	concG  int // the goroutine that sends it
}

func (s spec) canon() string {
	var b strings.Builder
	fmt.Fprintf(&b, "%s|%v|%d|%d|%v|%v|", s.level, s.seq, s.T, s.parent, s.http, s.noop)
	for _, a := range s.backends {
		for _, x := range a {
			b.WriteByte(byte('0' + x))
		}
		b.WriteByte('/')
	}
	// the same request after a different history / among concurrent ones is another test
	if s.shadow != 0 {
		fmt.Fprintf(&b, "|shadow%d", s.shadow)
	}
	if s.slowRB > 0 {
		fmt.Fprintf(&b, "|rb%d", s.slowRB)
	}
	if s.plugin {
		b.WriteString("|plugin")
	}
	if s.dns {
		b.WriteString("|dns")
	}
	if s.seqID > 0 {
		fmt.Fprintf(&b, "|seq%d.%d", s.seqID, s.step)
	}
	if s.concID > 0 {
		fmt.Fprintf(&b, "|conc%d", s.concID)
	}
	if s.stress > 0 {
		b.WriteString("|stress")
	}
	return b.String()
}

func (s spec) coq() string {
	bl := make([]string, len(s.backends))
	for i, a := range s.backends {
		xs := make([]string, len(a))
		for j, x := range a {
			xs[j] = behNames[x]
		}
		bl[i] = emit.List(xs)
	}
	parent := "None"
	if s.parent != 0 {
		parent = emit.Some(emit.Z(int64(s.parent)))
	}
	shadow := "None"
	if s.shadow > 0 {
		shadow = emit.Some(emit.Z(int64(s.shadow)))
	} else if s.shadow < 0 {
		shadow = emit.Some(emit.Z(int64(s.T)))
	}
	return fmt.Sprintf("{| c_level := %s; c_seq := %s; c_T := %s; c_parent := %s; c_http := %s; c_backends := %s; c_shadow := %s |}",
		s.level, emit.Bool(s.seq), emit.Z(int64(s.T)), parent, emit.Bool(s.http), emit.List(bl), shadow)
}

func (s spec) js() map[string]interface{} {
	bl := make([][]string, len(s.backends))
	for i, a := range s.backends {
		for _, x := range a {
			bl[i] = append(bl[i], behNames[x])
		}
	}
	m := map[string]interface{}{"level": s.level, "sequential": s.seq, "timeout_ns": int64(s.T), "parent_deadline_ns": int64(s.parent),
		"http_executor_stubs": s.http, "no_op": s.noop, "backends": bl, "group": s.group}
	if s.slowRB > 0 {
		m["request_builder_takes_ns"] = int64(s.slowRB)
	}
	if s.plugin {
		m["client_executor_plugin"] = true
	}
	if s.dns {
		m["dns_srv_refresh_in_flight"] = true
	}
	if s.shadow != 0 {
		m["built_by_shadow_factory_with_shadow_timeout_ns"] = int64(s.shadow) // -1: not configured
	}
	if s.stress > 0 {
		m["stressed_first_ms"] = int64(s.stress / time.Millisecond)
	}
	if s.seqID > 0 {
		m["reuse_sequence"] = s.seqID
		m["reuse_step"] = s.step
	}
	if s.concID > 0 {
		m["reuse_concurrent_group"] = s.concID
		m["reuse_goroutine"] = s.concG
	}
	return m
}

func (s spec) multi() bool { return len(s.backends) > 1 }

// sequential merge + concurrent_calls > 1 over real http proxies: the shape whose defect (fixed:
// f5f9a56, the last attempt shared the caller's *Request) kills the process with a panic in a
// goroutine lura started, which nothing here can recover.  These cases run in a child process
// and the death of the child is the observation.
func (s spec) dangerous() bool {
	if !(s.http && s.seq && s.multi()) {
		return false
	}
	for _, a := range s.backends {
		if len(a) > 1 {
			return true
		}
	}
	return false
}

// what one pipeline instance is built from; steps of a reuse sequence must agree on it
func (s spec) shapeKey() string {
	k := fmt.Sprintf("%s|%v|%d|%v|%v|%d|%v", s.level, s.seq, s.T, s.http, s.noop, s.shadow, s.plugin) + fmt.Sprint(s.dns)
	for _, a := range s.backends {
		k += fmt.Sprintf("|%d", len(a))
	}
	return k
}

// earliest deadline any call of this request can have, relative to the arrival
func (s spec) minDeadline() time.Duration {
	d := time.Duration(1 << 62)
	if s.level != "LProxy" {
		d = s.T
	}
	if s.multi() && 85*s.T/100 < d {
		d = 85 * s.T / 100
	}
	for _, a := range s.backends {
		if len(a) > 1 && 75*s.T/100 < d {
			d = 75 * s.T / 100
		}
	}
	if s.parent != 0 && s.level != "LGin" && s.parent < d {
		d = s.parent
	}
	return d
}

// ---- recording ------------------------------------------------------------------------

type callRec struct {
	be        int
	inv       time.Duration
	hasDl     bool
	dl        time.Duration
	ctx       context.Context
	doneAfter bool
	depth     int  // contexts between this one (included) and the one handed in (excluded); -1 unknown
	chainDone bool // all of them report Err() != nil (sampled together with doneAfter)
}

// parentOf follows the parent link of the standard library's cancelCtx / timerCtx (the embedded
// Context field; read-only access through reflection, the field never changes after creation)
func parentOf(c context.Context) (context.Context, bool) {
	v := reflect.ValueOf(c)
	if v.Kind() != reflect.Ptr || v.IsNil() {
		return nil, false
	}
	e := v.Elem()
	if e.Kind() != reflect.Struct || e.Type().PkgPath() != "context" {
		return nil, false
	}
	if f := e.FieldByName("cancelCtx"); f.IsValid() && f.Kind() == reflect.Struct {
		e = f
	}
	f := e.FieldByName("Context")
	if !f.IsValid() || !f.CanAddr() || f.Kind() != reflect.Interface {
		return nil, false
	}
	p, ok := reflect.NewAt(f.Type(), unsafe.Pointer(f.UnsafeAddr())).Elem().Interface().(context.Context)
	return p, ok && p != nil
}

// walkChain: how many contexts lie between ctx (included) and stop (excluded; under gin the
// *gin.Context), and whether all of them are done
func walkChain(ctx, stop context.Context) (int, bool) {
	depth, all := 0, true
	for cur := ctx; ; {
		if cur == stop {
			return depth, all
		}
		if _, isGin := cur.(*gin.Context); isGin {
			return depth, all
		}
		if depth > 32 {
			return -1, all
		}
		depth++
		if cur.Err() == nil {
			all = false
		}
		p, ok := parentOf(cur)
		if !ok {
			return -1, all
		}
		cur = p
	}
}

// a backend body; one that lura started to read (so it got past the "context done?" test of
// proxy/http.go, which drops a reply unread) must be closed in the end
type body struct {
	r      *strings.Reader
	read   atomic.Bool
	closed atomic.Bool
}

func (b *body) Read(p []byte) (int, error) { b.read.Store(true); return b.r.Read(p) }
func (b *body) Close() error               { b.closed.Store(true); return nil }

type recorder struct {
	s         spec
	t0        time.Time
	mu        sync.Mutex
	calls     []*callRec
	returned  bool
	next      []int32
	release   chan struct{}
	released  atomic.Bool
	immMax    atomic.Int64 // latest moment an "at once" behaviour that the model relies on finished
	bodies    []*body
	firstSlow int             // index of the first backend without an Answer attempt (sequential: later ones are not called "at once")
	stop      context.Context // the context handed to the pipeline / request
	rbIn      atomic.Int64    // when the handler's request builder was entered (ns after t0; 0: not seen)
	quiet     bool            // stress loop: behave, record nothing
	midTaint  atomic.Bool     // a Mid attempt did not answer where the model places it (slow machine)
}

func newRecorder(s spec) *recorder {
	r := &recorder{s: s, next: make([]int32, len(s.backends)), release: make(chan struct{}), firstSlow: len(s.backends)}
	// sequential mode: backends after the first one that does not certainly complete at once
	// are called late or not at all
	for i, a := range s.backends {
		has := false
		for _, x := range a {
			if x == bAnswer {
				has = true
			}
		}
		if !has {
			r.firstSlow = i
			break
		}
	}
	return r
}

// enter records the invocation and returns the behaviour of this attempt
func (r *recorder) enter(ctx context.Context, be int) beh {
	if r.quiet {
		return r.s.backends[be][0]
	}
	inv := time.Since(r.t0)
	c := &callRec{be: be, inv: inv, ctx: ctx}
	if d, ok := ctx.Deadline(); ok {
		c.hasDl = true
		c.dl = d.Sub(r.t0)
	}
	r.mu.Lock()
	if r.returned {
		c.doneAfter = ctx.Err() != nil
		c.depth, c.chainDone = walkChain(ctx, r.stop)
	}
	r.calls = append(r.calls, c)
	r.mu.Unlock()
	slot := int(atomic.AddInt32(&r.next[be], 1)) - 1
	if slot >= len(r.s.backends[be]) {
		return bAnswer // more attempts than configured: shows up in the call counts
	}
	return r.s.backends[be][slot]
}

func (r *recorder) immediateDone(be int) {
	if r.quiet {
		return
	}
	if r.s.multi() && r.s.seq && be > r.firstSlow {
		return
	}
	t := int64(time.Since(r.t0))
	for {
		old := r.immMax.Load()
		if t <= old || r.immMax.CompareAndSwap(old, t) {
			return
		}
	}
}

// wait blocks until ctx is done (true) or the watchdog released the stub (false)
func (r *recorder) wait(ctx context.Context) bool {
	select {
	case <-ctx.Done():
		return true
	case <-r.release:
		r.released.Store(true)
		return false
	}
}

var errBackend = errors.New("backend failed")
var errReleased = errors.New("released by the watchdog")

// outcome of a behaviour: kind 0 response complete, 1 response incomplete, 2 error, 3 nil
func (r *recorder) play(ctx context.Context, be int, b beh) (int, error) {
	switch b {
	case bAnswer:
		r.immediateDone(be)
		return 0, nil
	case bIncomplete:
		r.immediateDone(be)
		return 1, nil
	case bFail:
		r.immediateDone(be)
		return 2, errBackend
	case bNil:
		r.immediateDone(be)
		return 3, nil
	case bHang:
		if r.wait(ctx) {
			return 2, ctx.Err()
		}
		return 2, errReleased
	case bLate:
		r.wait(ctx)
		return 0, nil
	case bSlow:
		t := time.NewTimer(r.s.T / 4)
		defer t.Stop()
		select {
		case <-t.C:
			return 0, nil
		case <-ctx.Done():
			return 2, ctx.Err()
		case <-r.release:
			r.released.Store(true)
			return 2, errReleased
		}
	case bMid:
		// answers at 80% of T after its invocation.  The model relies on that answer lying
		// inside the window (75% of T, 85% of T): when it demonstrably did not (the timer fired
		// late, or the context ended at a moment the timer should already have fired) the
		// case says nothing about what is certain and is marked tainted.
		start := time.Since(r.t0)
		planned := start + 80*r.s.T/100
		margin := r.s.T / 40
		t := time.NewTimer(80 * r.s.T / 100)
		defer t.Stop()
		select {
		case <-t.C:
			now := time.Since(r.t0)
			if now > planned+margin || start > margin {
				r.midTaint.Store(true)
			}
			if d, ok := ctx.Deadline(); ok && now+margin > d.Sub(r.t0) && 85*r.s.T/100 <= d.Sub(r.t0) {
				r.midTaint.Store(true) // too close to a deadline that should be 5% of T away
			}
			return 0, nil
		case <-ctx.Done():
			if time.Since(r.t0)+margin >= planned {
				r.midTaint.Store(true)
			}
			return 2, ctx.Err()
		case <-r.release:
			r.released.Store(true)
			return 2, errReleased
		}
	}
	return 2, errBackend
}

const shadowPattern = "/shadow"

func beIndex(b *config.Backend) int {
	i, err := strconv.Atoi(strings.TrimPrefix(b.URLPattern, "/b"))
	if err != nil {
		panic("unknown backend " + b.URLPattern)
	}
	return i
}

// ---- one pipeline instance ---------------------------------------------------------------
// The stubs find the recorder of the request they serve through a request header that the
// routers are configured to pass (input_headers), so that one instance can serve many requests.

const caseHeader = "X-C04-Case"

var caseSeq atomic.Int64

type instance struct {
	shape   string
	ep      *config.EndpointConfig
	p       proxy.Proxy
	handler http.Handler
	recs    sync.Map // case id -> *recorder
	orphans atomic.Int64
	// DNS SRV discovery: the resolver answers the constructor's query at once, the first refresh
	// only when dnsRelease is closed, later ones at once again
	dnsQueries  atomic.Int64
	dnsInflight chan struct{} // closed when the first refresh is waiting for the resolver
	dnsRelease  chan struct{}
	dnsOnce     sync.Once
}

func (in *instance) lookupSRV(service, proto, name string) (string, []*net.SRV, error) {
	addrs := []*net.SRV{{Target: "127.0.0.1.", Port: 8081, Weight: 1}}
	if name == "first" {
		return name, addrs, nil
	}
	if in.dnsQueries.Add(1) == 1 {
		close(in.dnsInflight)
	}
	<-in.dnsRelease
	return name, addrs, nil
}

// one subscriber per backend; the constructor's own query is told apart by the name it asks for
func (in *instance) dnsSubscriber(*config.Backend) sd.Subscriber {
	first := true
	return dnssrv.NewDetailed("svc", func(service, proto, name string) (string, []*net.SRV, error) {
		if first {
			first = false
			return in.lookupSRV(service, proto, "first")
		}
		return in.lookupSRV(service, proto, name)
	}, 20*time.Millisecond)
}

func (in *instance) lookup(ids []string) *recorder {
	if len(ids) > 0 {
		if v, ok := in.recs.Load(ids[0]); ok {
			return v.(*recorder)
		}
	}
	in.orphans.Add(1)
	return nil
}

// every recorder by case id (the client plugin is registered once per process and has no
// instance to ask)
var allRecs sync.Map

const pluginName = "c04-forward"

// the in-process client plugin: serves the request under the context the adapter attached to it
func pluginHandler(w http.ResponseWriter, req *http.Request) {
	v, ok := allRecs.Load(req.Header.Get(caseHeader))
	be, err := strconv.Atoi(strings.TrimPrefix(req.URL.Path, "/b"))
	if !ok || err != nil {
		w.WriteHeader(http.StatusBadGateway)
		return
	}
	r := v.(*recorder)
	ctx := req.Context()
	kind, _ := r.play(ctx, be, r.enter(ctx, be))
	if kind != 0 {
		w.WriteHeader(http.StatusInternalServerError)
		return
	}
	w.Header().Set("Content-Type", "application/json")
	fmt.Fprintf(w, `{"k%d":%d}`, be, be)
}

func init() {
	clientplugin.RegisterClient(pluginName, func(context.Context, map[string]interface{}) (http.Handler, error) {
		return http.HandlerFunc(pluginHandler), nil
	})
}

func (in *instance) backendFactory(httpStubs bool) proxy.BackendFactory {
	return func(b *config.Backend) proxy.Proxy {
		if _, viaPlugin := b.ExtraConfig[clientplugin.Namespace]; viaPlugin && b.URLPattern != shadowPattern {
			exec := clientplugin.HTTPRequestExecutor(logging.NoOp, func(*config.Backend) client.HTTPRequestExecutor {
				return func(context.Context, *http.Request) (*http.Response, error) {
					return nil, errors.New("client plugin not injected")
				}
			})(b)
			return proxy.NewHTTPProxyWithHTTPExecutor(b, exec, b.Decoder)
		}
		if b.URLPattern == shadowPattern {
			// the shadow backend: answers at once, is not observed
			return func(context.Context, *proxy.Request) (*proxy.Response, error) {
				return &proxy.Response{Data: map[string]interface{}{"shadow": true}, IsComplete: true}, nil
			}
		}
		be := beIndex(b)
		if httpStubs {
			exec := func(ctx context.Context, hr *http.Request) (*http.Response, error) {
				r := in.lookup(hr.Header[caseHeader])
				if r == nil {
					return nil, errBackend
				}
				kind, err := r.play(ctx, be, r.enter(ctx, be))
				if kind != 0 {
					if err == nil {
						err = errBackend
					}
					return nil, err
				}
				bd := &body{r: strings.NewReader(fmt.Sprintf(`{"k%d":%d}`, be, be))}
				if !r.quiet {
					r.mu.Lock()
					r.bodies = append(r.bodies, bd)
					r.mu.Unlock()
				}
				return &http.Response{StatusCode: 200, Header: http.Header{"Content-Type": []string{"application/json"}}, Body: bd}, nil
			}
			return proxy.NewHTTPProxyWithHTTPExecutor(b, exec, b.Decoder)
		}
		return func(ctx context.Context, req *proxy.Request) (*proxy.Response, error) {
			r := in.lookup(req.Headers[caseHeader])
			if r == nil {
				return nil, errBackend
			}
			kind, err := r.play(ctx, be, r.enter(ctx, be))
			switch kind {
			case 0, 1:
				return &proxy.Response{Data: map[string]interface{}{fmt.Sprintf("k%d", be): be}, IsComplete: kind == 0}, nil
			case 3:
				return nil, nil
			}
			return nil, err
		}
	}
}

// markReturned samples ctx.Err() of every context recorded so far
func (r *recorder) markReturned() {
	r.mu.Lock()
	r.returned = true
	for _, c := range r.calls {
		c.doneAfter = c.ctx.Err() != nil
		c.depth, c.chainDone = walkChain(c.ctx, r.stop)
	}
	r.mu.Unlock()
}

// ---- one case -------------------------------------------------------------------------

type result struct {
	s          spec
	rec        *recorder
	returned   bool
	ret        time.Duration
	keys       []int
	tainted    bool
	leaked     int
	panicked   string
	batchLevel bool
}

var keyRe = regexp.MustCompile(`"k(\d+)"`)

func keysOfData(m map[string]interface{}) []int {
	var ks []int
	for k := range m {
		if strings.HasPrefix(k, "k") {
			if i, err := strconv.Atoi(k[1:]); err == nil {
				ks = append(ks, i)
			}
		}
	}
	return ks
}

func keysOfText(s string) []int {
	var ks []int
	for _, m := range keyRe.FindAllStringSubmatch(s, -1) {
		i, _ := strconv.Atoi(m[1])
		ks = append(ks, i)
	}
	return ks
}

func newInstance(s spec) *instance {
	in := &instance{shape: s.shapeKey()}
	sc := config.ServiceConfig{Version: config.ConfigVersion, Timeout: s.T, Host: []string{"http://127.0.0.1:8081"}}
	ep := &config.EndpointConfig{Endpoint: "/x", Method: "GET", Timeout: s.T, HeadersToPass: []string{caseHeader}}
	if s.noop {
		ep.OutputEncoding = encoding.NOOP
	}
	if s.seq {
		ep.ExtraConfig = config.ExtraConfig{proxy.Namespace: map[string]interface{}{"sequential": true}}
	}
	for i, a := range s.backends {
		b := &config.Backend{URLPattern: fmt.Sprintf("/b%d", i), ConcurrentCalls: len(a)}
		if s.noop {
			b.Encoding = encoding.NOOP
		}
		if s.plugin {
			b.ExtraConfig = config.ExtraConfig{clientplugin.Namespace: map[string]interface{}{"name": pluginName}}
		}
		ep.Backend = append(ep.Backend, b)
	}
	if s.shadow != 0 {
		extra := map[string]interface{}{"shadow": true}
		if s.shadow > 0 {
			extra["shadow_timeout"] = s.shadow.String()
		}
		ep.Backend = append(ep.Backend, &config.Backend{URLPattern: shadowPattern, ExtraConfig: config.ExtraConfig{proxy.Namespace: extra}})
	}
	sc.Endpoints = []*config.EndpointConfig{ep}
	if err := sc.Init(); err != nil {
		panic(err)
	}
	// concurrent_calls is an endpoint setting that Init copies to the backends; the harness also
	// covers mixed values (backends configured directly)
	for i, a := range s.backends {
		ep.Backend[i].ConcurrentCalls = len(a)
	}
	var factory proxy.Factory = proxy.NewDefaultFactory(in.backendFactory(s.http), logging.NoOp)
	if s.dns {
		in.dnsInflight, in.dnsRelease = make(chan struct{}), make(chan struct{})
		factory = proxy.NewDefaultFactoryWithSubscriber(in.backendFactory(s.http), logging.NoOp, in.dnsSubscriber)
	}
	if s.shadow != 0 {
		factory = proxy.NewShadowFactory(factory)
	}
	p, err := factory.New(ep)
	if err != nil {
		panic(err)
	}
	in.ep, in.p = ep, p
	switch s.level {
	case "LGin":
		e := gin.New()
		e.GET("/x", krakendgin.EndpointHandler(ep, p))
		in.handler = e
	case "LMux":
		// the default request builder, observed (and slowed down when the case says so)
		rb := func(r *http.Request, queryString, headersToSend []string) *proxy.Request {
			if rec := in.lookup(r.Header[caseHeader]); rec != nil {
				rec.rbIn.CompareAndSwap(0, int64(time.Since(rec.t0))+1)
				if d := rec.s.slowRB; d > 0 {
					t := time.NewTimer(d)
					select {
					case <-t.C:
					case <-rec.release:
						t.Stop()
					}
				}
			}
			return mux.NewRequest(r, queryString, headersToSend)
		}
		in.handler = mux.CustomEndpointHandlerWithHTTPError(rb, server.DefaultToHTTPError)(ep, p)
	}
	return in
}

const watchdogAfter = 1500 * time.Millisecond // after the endpoint timeout
const giveUpAfter = 3 * time.Second           // after the watchdog

func runCase(s spec) *result { return runOn(newInstance(s), s) }

// hammer one instance with the request for the given time (no recording), see spec.dangerous
// It returns the number of goroutines the loop left behind (0 when they all went away): the
// loop stops as soon as more than a few hundred have piled up - a leak that does not go away
// is an observation, not something to wait out - and waits at most 2 s for stragglers.
func runStress(s spec) int {
	in := newInstance(s)
	rec := newRecorder(s)
	rec.quiet = true
	in.recs.Store("stress", rec)
	base := runtime.NumGoroutine()
	end := time.Now().Add(s.stress)
	for time.Now().Before(end) && runtime.NumGoroutine()-base < 400 {
		for k := 0; k < 50; k++ {
			in.p(context.Background(), &proxy.Request{Method: "GET", Path: "/x", Params: map[string]string{},
				Headers: map[string][]string{caseHeader: {"stress"}}, Query: map[string][]string{}})
		}
	}
	settle := time.Now().Add(2 * time.Second)
	for runtime.NumGoroutine() > base && time.Now().Before(settle) {
		time.Sleep(2 * time.Millisecond) // polling
	}
	if n := runtime.NumGoroutine() - base; n > 0 {
		return n
	}
	return 0
}

// runOn sends one request through the instance
func runOn(in *instance, s spec) *result {
	if in.shape != s.shapeKey() {
		panic("request does not fit the instance: " + in.shape + " vs " + s.shapeKey())
	}
	rec := newRecorder(s)
	res := &result{s: s, rec: rec}
	id := strconv.FormatInt(caseSeq.Add(1), 10)
	in.recs.Store(id, rec)
	allRecs.Store(id, rec) // kept: an attempt may start after the pipeline has returned
	p, handler := in.p, in.handler
	base, cancelBase := context.WithCancel(context.Background())
	defer cancelBase()
	finished := make(chan struct{})
	var keys []int
	var ret time.Duration
	var panicked string

	if s.dns {
		// the request is to arrive while a refresh is waiting for the resolver (bounded wait)
		t := time.NewTimer(3 * time.Second)
		select {
		case <-in.dnsInflight:
		case <-t.C:
			res.tainted = true
		}
		t.Stop()
		defer in.dnsOnce.Do(func() { close(in.dnsRelease) })
	}
	rec.t0 = time.Now()
	pctx := base
	if s.parent != 0 {
		var c2 context.CancelFunc
		pctx, c2 = context.WithDeadline(base, rec.t0.Add(s.parent))
		defer c2()
	}
	rec.stop = pctx
	limit := s.T
	if s.parent > limit {
		limit = s.parent
	}
	stop := make(chan struct{})
	defer close(stop)
	go func() {
		if patiently(limit+watchdogAfter, stop) {
			close(rec.release)
			if s.dns {
				// the request is still not over: whatever waits for the resolver is let go
				in.dnsOnce.Do(func() { rec.released.Store(true); close(in.dnsRelease) })
			}
		}
	}()
	gaveUp := make(chan struct{})
	go func() {
		if patiently(limit+watchdogAfter+giveUpAfter, stop) {
			close(gaveUp)
		}
	}()
	go func() {
		defer close(finished)
		defer func() {
			if e := recover(); e != nil {
				panicked = fmt.Sprint(e)
			}
		}()
		if handler == nil {
			resp, _ := p(pctx, &proxy.Request{Method: "GET", Path: "/x", Params: map[string]string{}, Headers: map[string][]string{caseHeader: {id}}, Query: map[string][]string{}})
			ret = time.Since(rec.t0)
			rec.markReturned()
			if resp != nil {
				keys = keysOfData(resp.Data)
				if resp.Io != nil {
					b, _ := io.ReadAll(resp.Io)
					keys = append(keys, keysOfText(string(b))...)
				}
			}
		} else {
			w := httptest.NewRecorder()
			req := httptest.NewRequest("GET", "/x", nil).WithContext(pctx)
			req.Header.Set(caseHeader, id)
			handler.ServeHTTP(w, req)
			ret = time.Since(rec.t0)
			rec.markReturned()
			keys = keysOfText(w.Body.String())
		}
	}()
	select {
	case <-finished:
		res.returned = true
		res.ret = ret
		res.keys = keys
		res.panicked = panicked
		if panicked != "" {
			res.returned = false
		}
	case <-gaveUp:
		res.returned = false
		res.ret = time.Since(rec.t0)
		rec.markReturned()
	}
	if s.dns {
		in.dnsOnce.Do(func() { close(in.dnsRelease) })
	}
	// "at once" must mean "well before every deadline" for the parts of the model that
	// say what certainly happens
	half := int64(s.minDeadline() / 2)
	if rec.immMax.Load() > half {
		res.tainted = true
	}
	anyWait := false
	for _, a := range s.backends {
		for _, x := range a {
			if x.waits() {
				anyWait = true
			}
		}
	}
	if !anyWait && int64(res.ret) > half {
		res.tainted = true
	}
	return res
}

// ---- goroutines with lura frames -------------------------------------------------------

var goroutineRe = regexp.MustCompile(`^goroutine (\d+) \[`)

func luraGoroutines(ignore map[string]bool) []string {
	buf := make([]byte, 1<<20)
	for {
		n := runtime.Stack(buf, true)
		if n < len(buf) || len(buf) >= 64<<20 {
			buf = buf[:n] // (a dump cut off at 64 MB still shows more than enough leftovers)
			break
		}
		buf = make([]byte, 4*len(buf))
	}
	var ids []string
	for _, blk := range strings.Split(string(buf), "\n\n") {
		if !strings.Contains(blk, "github.com/luraproject/lura/v2/") {
			continue
		}
		if strings.Contains(blk, "sd/dnssrv.NewDetailedWithScheme.func1") {
			continue // the refresh loop of a DNS SRV subscriber: started with the endpoint, not for a request
		}
		m := goroutineRe.FindStringSubmatch(blk)
		if m == nil || ignore[m[1]] {
			continue
		}
		ids = append(ids, m[1])
	}
	return ids
}

// quiesce polls until no goroutine with lura frames is left (or the bound is reached) and
// returns the ones that stayed
func quiesce(ignore map[string]bool, bound time.Duration) []string {
	deadline := time.Now().Add(bound)
	wait := 200 * time.Microsecond
	for {
		ids := luraGoroutines(ignore)
		if len(ids) == 0 || (time.Now().After(deadline) && responsiveFor(time.Second)) || time.Now().After(deadline.Add(10*time.Second)) {
			return ids
		}
		time.Sleep(wait) // polling, not synchronisation
		if wait < 20*time.Millisecond {
			wait *= 2
		}
	}
}

func unclosedBodies(r *recorder) int {
	r.mu.Lock()
	defer r.mu.Unlock()
	n := 0
	for _, b := range r.bodies {
		if b.read.Load() && !b.closed.Load() {
			n++
		}
	}
	return n
}

// ---- how slow is the machine right now --------------------------------------------------
// A goroutine that asks to be woken every millisecond records the longest time it was kept
// waiting: a direct measurement of "at once" (scheduling latency), not a synchronisation.
var hbMax atomic.Int64
var hbTicks atomic.Int64
var procStart = time.Now()
var lastStall atomic.Int64 // ns after procStart at which the last stall ended

// responsiveFor reports whether no stall was seen during the last d
func responsiveFor(d time.Duration) bool {
	return int64(time.Since(procStart))-lastStall.Load() >= int64(d)
}

// patiently waits for the nominal duration d and then until the machine has been responsive
// for a second (so that every timer that was due has had its effect), at most 15 s more;
// returns false when stop was closed first
func patiently(d time.Duration, stop <-chan struct{}) bool {
	t := time.NewTimer(d)
	defer t.Stop()
	select {
	case <-stop:
		return false
	case <-t.C:
	}
	for k := 0; k < 150; k++ {
		if responsiveFor(time.Second) {
			return true
		}
		w := time.NewTimer(100 * time.Millisecond)
		select {
		case <-stop:
			w.Stop()
			return false
		case <-w.C:
		}
	}
	return true
}

func heartbeat() {
	last := time.Now()
	for {
		time.Sleep(time.Millisecond)
		now := time.Now()
		gap := int64(now.Sub(last))
		last = now
		hbTicks.Add(1)
		if gap > int64(stallLimit) {
			lastStall.Store(int64(now.Sub(procStart)))
		}
		for {
			old := hbMax.Load()
			if gap <= old || hbMax.CompareAndSwap(old, gap) {
				break
			}
		}
	}
}

const stallLimit = 25 * time.Millisecond

// ---- running many cases ---------------------------------------------------------------

type runner struct {
	ignore         map[string]bool
	serialLeft     int
	batchLeaks     int
	retries        int
	taintedLeft    int
	stalledBatches int
	rerunLeft      int
	attributed     int
	unattributed   int
	rerunBudget    time.Duration
	orphans        int64
	pendingLeak    bool // goroutines were left behind while several reused instances were at work
}

// an observation that a stalled process could also produce: run the case again (a real
// violation shows again)
func suspicious(r *result) bool {
	if r.tainted || r.rec.midTaint.Load() || !r.returned || r.rec.released.Load() {
		return true
	}
	r.rec.mu.Lock()
	defer r.rec.mu.Unlock()
	var maxDl time.Duration
	for _, c := range r.rec.calls {
		if !c.hasDl {
			return false
		}
		if c.dl > maxDl {
			maxDl = c.dl
		}
	}
	return len(r.rec.calls) > 0 && r.ret > maxDl+slack/2
}

// how long to wait for lura's goroutines to go away: generous until a leak has been pinned on
// a case, short afterwards (the violation is on record; later waits only cost time)
func (rn *runner) leakBound() time.Duration {
	if rn.attributed > 0 {
		return 600 * time.Millisecond
	}
	return 4500 * time.Millisecond
}

// a request to run: through a fresh instance (in == nil) or through a given one
type job struct {
	in *instance
	s  spec
}

func (rn *runner) runBatch(specs []spec) []*result {
	jobs := make([]job, len(specs))
	for i, s := range specs {
		jobs[i] = job{s: s}
	}
	return rn.runJobs(jobs)
}

func (rn *runner) runJobs(jobs []job) []*result {
	res := make([]*result, len(jobs))
	specs := make([]spec, len(jobs))
	fresh := true
	for i, j := range jobs {
		specs[i] = j.s
		if j.in != nil {
			fresh = false
		}
	}
	var wg sync.WaitGroup
	hbMax.Store(0)
	for i := range jobs {
		wg.Add(1)
		go func(i int) {
			defer wg.Done()
			if jobs[i].in != nil {
				res[i] = runOn(jobs[i].in, jobs[i].s)
			} else {
				res[i] = runCase(jobs[i].s)
			}
		}(i)
	}
	wg.Wait()
	// let the heartbeat report a stall that ended just now
	for t := hbTicks.Load(); hbTicks.Load() < t+2; {
		time.Sleep(200 * time.Microsecond)
	}
	if stall := hbMax.Load(); stall > int64(stallLimit) {
		// the process was not scheduled for that long while the cases ran
		rn.stalledBatches++
		for _, r := range res {
			r.tainted = true
		}
	}
	left := quiesce(rn.ignore, rn.leakBound())
	for _, r := range res {
		r.leaked = unclosedBodies(r.rec)
	}
	if len(left) > 0 {
		rn.batchLeaks++
		for _, id := range left {
			rn.ignore[id] = true
		}
		// attribute: one case at a time (fresh instances only: a reused instance has a history)
		before := rn.attributed
		for i := range specs {
			if rn.serialLeft <= 0 || !fresh {
				break
			}
			rn.serialLeft--
			r := runCase(specs[i])
			l := quiesce(rn.ignore, rn.leakBound()/3)
			for _, id := range l {
				rn.ignore[id] = true
			}
			r.leaked = len(l) + unclosedBodies(r.rec)
			if len(l) > 0 {
				rn.attributed++
			}
			res[i] = r
		}
		if !fresh {
			// reused instances: exact when the request ran alone, otherwise the caller runs the
			// sequences again one at a time
			if len(jobs) == 1 {
				res[0].leaked += len(left)
				rn.attributed++
			} else {
				rn.pendingLeak = true
			}
		} else if rn.attributed == before {
			rn.unattributed++
			if rn.attributed == 0 {
				// seen only with the batch running concurrently (or the budget for running cases
				// one at a time is used up and nothing was pinned down): keep the observation
				res[0].leaked += len(left)
				res[0].batchLevel = true
			}
		}
	}
	return res
}

func (rn *runner) runAll(specs []spec, batch int) []*result {
	all := make([]*result, len(specs))
	for lo := 0; lo < len(specs); lo += batch {
		hi := lo + batch
		if hi > len(specs) {
			hi = len(specs)
		}
		copy(all[lo:hi], rn.runBatch(specs[lo:hi]))
	}
	// cases in which the machine was too slow: again, a few at a time
	rerunStart := time.Now()
	for round := 0; round < 4 && time.Since(rerunStart) < rn.rerunBudget; round++ {
		var idx []int
		for i, r := range all {
			if suspicious(r) && r.leaked == 0 && rn.rerunLeft > 0 {
				idx = append(idx, i)
				rn.rerunLeft--
			}
		}
		if len(idx) == 0 {
			break
		}
		for lo := 0; lo < len(idx) && time.Since(rerunStart) < rn.rerunBudget; lo += 8 {
			hi := lo + 8
			if hi > len(idx) {
				hi = len(idx)
			}
			var sub []spec
			for _, i := range idx[lo:hi] {
				sub = append(sub, specs[i])
			}
			rs := rn.runBatch(sub)
			for k, i := range idx[lo:hi] {
				all[i] = rs[k]
				rn.retries++
			}
		}
	}
	for _, r := range all {
		if r.tainted {
			rn.taintedLeft++
		}
	}
	return all
}

// ---- instance reuse ---------------------------------------------------------------------

// runSequences drives each sequence (specs sharing seqID, in step order) through ONE instance,
// one request after the other; the k-th requests of all sequences run side by side, and the
// harness waits for lura's goroutines to be gone before the next round, so that every
// request meets an instance that is idle but used.
func (rn *runner) runSequences(specs []spec, idxs []int) map[int]*result {
	out := map[int]*result{}
	bySeq := map[int][]int{}
	var order []int
	for _, i := range idxs {
		id := specs[i].seqID
		if _, ok := bySeq[id]; !ok {
			order = append(order, id)
		}
		bySeq[id] = append(bySeq[id], i)
	}
	run := func(ids []int) {
		insts := map[int]*instance{}
		for _, id := range ids {
			insts[id] = newInstance(specs[bySeq[id][0]])
		}
		for round := 0; ; round++ {
			var jobs []job
			var at []int
			for _, id := range ids {
				if round < len(bySeq[id]) {
					i := bySeq[id][round]
					jobs = append(jobs, job{in: insts[id], s: specs[i]})
					at = append(at, i)
				}
			}
			if len(jobs) == 0 {
				break
			}
			rs := rn.runJobs(jobs)
			for k, i := range at {
				out[i] = rs[k]
			}
		}
		for _, id := range ids {
			rn.orphans += insts[id].orphans.Load()
		}
	}
	rn.pendingLeak = false
	run(order)
	start := time.Now()
	if rn.pendingLeak {
		// goroutines stayed behind: every sequence again, alone, so that what stays behind is
		// pinned on the request that left it
		for _, id := range order {
			if time.Since(start) > rn.rerunBudget*2/3 {
				break
			}
			run([]int{id})
		}
	}
	// a sequence with a step the machine was too slow for: the whole sequence again, alone
	start = time.Now()
	for attempt := 0; attempt < 2; attempt++ {
		for _, id := range order {
			bad := false
			for _, i := range bySeq[id] {
				if suspicious(out[i]) && out[i].leaked == 0 {
					bad = true
				}
			}
			if bad && time.Since(start) < rn.rerunBudget/2 {
				rn.retries += len(bySeq[id])
				run([]int{id})
			}
		}
	}
	return out
}

// runConcurrent: ONE instance, the requests of the group sent by their goroutines (each in its
// order) after a common start gate
func (rn *runner) runConcurrent(specs []spec, idxs []int) map[int]*result {
	out := map[int]*result{}
	for attempt := 0; attempt < 3; attempt++ {
		in := newInstance(specs[idxs[0]])
		byG := map[int][]int{}
		for _, i := range idxs {
			byG[specs[i].concG] = append(byG[specs[i].concG], i)
		}
		res := make(map[int]*result, len(idxs))
		var mu sync.Mutex
		gate := make(chan struct{})
		var wg sync.WaitGroup
		hbMax.Store(0)
		for _, list := range byG {
			wg.Add(1)
			go func(list []int) {
				defer wg.Done()
				<-gate
				for _, i := range list {
					r := runOn(in, specs[i])
					mu.Lock()
					res[i] = r
					mu.Unlock()
				}
			}(list)
		}
		close(gate)
		wg.Wait()
		for t := hbTicks.Load(); hbTicks.Load() < t+2; {
			time.Sleep(200 * time.Microsecond)
		}
		stalled := hbMax.Load() > int64(stallLimit)
		left := quiesce(rn.ignore, rn.leakBound())
		for _, id := range left {
			rn.ignore[id] = true
		}
		rn.orphans += in.orphans.Load()
		for k, i := range idxs {
			r := res[i]
			r.leaked = unclosedBodies(r.rec)
			if stalled {
				r.tainted = true
			}
			if k == 0 && len(left) > 0 {
				r.leaked += len(left)
				r.batchLevel = true
				rn.batchLeaks++
			}
			out[i] = r
		}
		if !stalled {
			break
		}
		rn.stalledBatches++
		rn.retries += len(idxs)
	}
	return out
}

// ---- cases run in a child process -------------------------------------------------------

type childLine struct {
	Start []int    `json:"start,omitempty"`
	Idx   *int     `json:"idx,omitempty"`
	Obs   *obsData `json:"obs,omitempty"`
}

// childMain: run the dangerous specs with index >= from, a few at a time, and report through
// <out>/child.jsonl; every batch is announced before it starts
func childMain(cfg out.Config, specs []spec, from int, rn *runner) {
	f, err := os.Create(filepath.Join(cfg.Dir, "child.jsonl"))
	if err != nil {
		panic(err)
	}
	put := func(l childLine) {
		b, _ := json.Marshal(l)
		f.Write(append(b, '\n'))
		f.Sync()
	}
	var idxs []int
	for i, s := range specs {
		if s.dangerous() && i >= from && (cfg.Only < 0 || cfg.Only == i) {
			idxs = append(idxs, i)
		}
	}
	batch := 4
	if cfg.Thorough() {
		batch = 12
	}
	for lo := 0; lo < len(idxs); {
		hi := lo + batch
		if hi > len(idxs) {
			hi = len(idxs)
		}
		if specs[idxs[lo]].stress > 0 {
			hi = lo + 1
		}
		for k := lo + 1; k < hi; k++ {
			if specs[idxs[k]].stress > 0 {
				hi = k
			}
		}
		put(childLine{Start: idxs[lo:hi]})
		var sub []spec
		stressLeft := map[int]int{}
		for _, i := range idxs[lo:hi] {
			if specs[i].stress > 0 {
				if n := runStress(specs[i]); n > 0 {
					stressLeft[i] = n
					rn.attributed++
					for _, id := range luraGoroutines(rn.ignore) {
						rn.ignore[id] = true // on record with this case; not to be counted again
					}
				}
			}
			sub = append(sub, specs[i])
		}
		rs := rn.runAll(sub, len(sub))
		for k, i := range idxs[lo:hi] {
			i := i
			o := rs[k].data()
			o.Leaked += stressLeft[i]
			put(childLine{Idx: &i, Obs: &o})
		}
		lo = hi
	}
	f.Close()
}

// runInChildren runs the given (dangerous) cases in child processes of this very program; a
// child that dies takes the cases that were in flight with it: their observation is "the
// pipeline did not return" together with the last words of the process
func runInChildren(cfg out.Config, idxs []int) (map[int]obsData, int) {
	res := map[int]obsData{}
	want := map[int]bool{}
	for _, i := range idxs {
		want[i] = true
	}
	deaths := 0
	from := 0
	for attempt := 0; attempt < 8 && len(res) < len(idxs); attempt++ {
		dir := filepath.Join(cfg.Dir, fmt.Sprintf("child%d", attempt))
		os.MkdirAll(dir, 0o755)
		args := []string{"--tier", cfg.Tier, "--seed", strconv.FormatUint(cfg.Seed, 10), "--out", dir, "--extra", "child:" + strconv.Itoa(from)}
		if cfg.Only >= 0 {
			args = append(args, "--only", strconv.Itoa(cfg.Only))
		}
		budget := 90 * time.Second
		if cfg.Thorough() {
			budget = 8 * time.Minute
		}
		cctx, ccancel := context.WithTimeout(context.Background(), budget)
		cmd := exec.CommandContext(cctx, os.Args[0], args...)
		var stderr bytes.Buffer
		cmd.Stderr = &stderr
		err := cmd.Run()
		if cctx.Err() != nil && err != nil {
			err = fmt.Errorf("killed after %s without finishing (%v)", budget, err)
		}
		ccancel()
		inflight := map[int]bool{}
		if b, e := os.ReadFile(filepath.Join(dir, "child.jsonl")); e == nil {
			for _, line := range strings.Split(string(b), "\n") {
				var l childLine
				if json.Unmarshal([]byte(line), &l) != nil {
					continue
				}
				for _, i := range l.Start {
					inflight[i] = true
				}
				if l.Idx != nil && l.Obs != nil {
					res[*l.Idx] = *l.Obs
					delete(inflight, *l.Idx)
				}
			}
		}
		if err == nil {
			break
		}
		deaths++
		words := stderr.String()
		if len(words) > 1500 {
			words = words[:1500]
		}
		if len(inflight) == 0 {
			// died outside any batch (start-up): nothing to pin it on; do not loop for ever
			for _, i := range idxs {
				if _, ok := res[i]; !ok {
					res[i] = obsData{Returned: false, Panic: "child process died before running the case: " + err.Error() + "\n" + words}
				}
			}
			break
		}
		for i := range inflight {
			res[i] = obsData{Returned: false, Panic: "the process serving this request died: " + err.Error() + "\n" + words}
			if i+1 > from {
				from = i + 1
			}
		}
	}
	for _, i := range idxs {
		if _, ok := res[i]; !ok {
			res[i] = obsData{Returned: false, Panic: "not run: child processes kept dying"}
		}
	}
	return res, deaths
}

// ---- emission -------------------------------------------------------------------------

const slack = 400 * time.Millisecond

// what was observed, as plain data (also what a child process hands back)
type callData struct {
	Be        int   `json:"be"`
	Inv       int64 `json:"inv"`
	HasDl     bool  `json:"has_dl"`
	Dl        int64 `json:"dl"`
	DoneAfter bool  `json:"done_after"`
	Depth     int   `json:"depth"`
	ChainDone bool  `json:"chain_done"`
}

type obsData struct {
	Calls      []callData `json:"calls"`
	Returned   bool       `json:"returned"`
	Ret        int64      `json:"ret"`
	Keys       []int      `json:"keys"`
	Leaked     int        `json:"leaked"`
	Released   bool       `json:"released"`
	Tainted    bool       `json:"tainted"`
	Panic      string     `json:"panic"`
	BatchLevel bool       `json:"batch_level"`
	Orphans    int64      `json:"orphans"`
	RbIn       int64      `json:"rb_in"` // 0: the request builder was not seen
}

func (r *result) data() obsData {
	rec := r.rec
	rec.mu.Lock()
	calls := append([]*callRec(nil), rec.calls...)
	rec.mu.Unlock()
	sort.SliceStable(calls, func(i, j int) bool {
		if calls[i].be != calls[j].be {
			return calls[i].be < calls[j].be
		}
		return calls[i].inv < calls[j].inv
	})
	o := obsData{Returned: r.returned, Ret: int64(r.ret), Keys: r.keys, Leaked: r.leaked, Released: rec.released.Load(),
		Tainted: r.tainted || rec.midTaint.Load(), Panic: r.panicked, BatchLevel: r.batchLevel, RbIn: rec.rbIn.Load()}
	for _, c := range calls {
		o.Calls = append(o.Calls, callData{Be: c.be, Inv: int64(c.inv), HasDl: c.hasDl, Dl: int64(c.dl), DoneAfter: c.doneAfter, Depth: c.depth, ChainDone: c.chainDone})
	}
	return o
}

func emitCase(w *out.Writer, s spec, r obsData) {
	var cl []string
	var cj []interface{}
	for _, c := range r.Calls {
		dl := "None"
		var dj interface{}
		if c.HasDl {
			dl = emit.Some(emit.Z(c.Dl))
			dj = c.Dl
		}
		depth := "None"
		if c.Depth >= 0 {
			depth = emit.Some(emit.Nat(c.Depth))
		} else {
			w.Count("context-chain-not-walkable")
		}
		cl = append(cl, fmt.Sprintf("{| k_be := %s; k_inv := %s; k_dl := %s; k_done_after := %s; k_depth := %s; k_chain_done := %s |}",
			emit.Nat(c.Be), emit.Z(c.Inv), dl, emit.Bool(c.DoneAfter), depth, emit.Bool(c.ChainDone || c.Depth < 0)))
		cj = append(cj, map[string]interface{}{"backend": c.Be, "invoked_ns": c.Inv, "deadline_ns": dj, "done_after_return": c.DoneAfter,
			"derived_contexts_above": c.Depth, "all_of_them_done_after_return": c.ChainDone})
	}
	keys := append([]int(nil), r.Keys...)
	sort.Ints(keys)
	var kl []int
	for i, k := range keys {
		if i == 0 || keys[i-1] != k {
			kl = append(kl, k)
		}
	}
	rb := "None"
	var rbj interface{}
	if r.RbIn > 0 {
		rb = emit.Some(emit.Z(r.RbIn - 1))
		rbj = r.RbIn - 1
	}
	obs := fmt.Sprintf("{| o_calls := %s; o_returned := %s; o_ret := %s; o_keys := %s; o_leaked := %s; o_released := %s; o_rb := %s; o_tainted := %s |}",
		emit.List(cl), emit.Bool(r.Returned), emit.Z(r.Ret), emit.NatList(kl), emit.Nat(r.Leaked), emit.Bool(r.Released), rb, emit.Bool(r.Tainted))
	term := emit.App("Case", s.coq(), emit.Z(int64(slack)), obs)
	js := map[string]interface{}{"input": s.js(), "observed": map[string]interface{}{"calls": cj, "returned": r.Returned, "returned_ns": r.Ret,
		"keys": kl, "leaked": r.Leaked, "released_by_watchdog": r.Released, "tainted": r.Tainted, "panic": r.Panic, "leak_seen_with_whole_batch_only": r.BatchLevel, "request_builder_entered_ns": rbj}, "slack_ns": int64(slack)}
	nontrivial := s.level != "LProxy" || s.parent != 0
	for _, a := range s.backends {
		for _, x := range a {
			if x != bAnswer {
				nontrivial = true
			}
		}
	}
	w.Count("group:" + s.group)
	w.Count("level:" + s.level)
	shape := "single"
	if s.multi() {
		shape = "parallel"
		if s.seq {
			shape = "sequential"
		}
	}
	w.Count(fmt.Sprintf("shape:%s/%d", shape, len(s.backends)))
	for _, a := range s.backends {
		w.Count(fmt.Sprintf("concurrent_calls:%d", len(a)))
		for _, x := range a {
			w.Count("behaviour:" + behNames[x])
		}
	}
	if s.parent != 0 {
		if s.parent < s.minDeadlineNoParent() {
			w.Count("parent:earlier")
		} else {
			w.Count("parent:later")
		}
	} else {
		w.Count("parent:none")
	}
	if s.http {
		w.Count("stubs:http-executor")
	} else {
		w.Count("stubs:proxy")
	}
	if r.Tainted {
		w.Count("tainted")
	}
	if s.seqID > 0 {
		w.Count("reuse:sequence-step")
	}
	if s.concID > 0 {
		w.Count("reuse:concurrent-request")
	}
	if s.dangerous() {
		w.Count("run-in-child-process")
	}
	if s.shadow != 0 {
		w.Count("built-by-shadow-factory")
	}
	if s.slowRB > 0 {
		w.Count("slow-request-builder")
	}
	if s.plugin {
		w.Count("client-executor-plugin")
	}
	if s.dns {
		w.Count("dns-srv-refresh-in-flight")
	}
	w.Add(term, js, "", s.canon(), nontrivial)
}

func (s spec) minDeadlineNoParent() time.Duration {
	t := s
	t.parent = 0
	return t.minDeadline()
}

// ---- generation -----------------------------------------------------------------------

func needsParent(s spec) bool {
	if s.level != "LProxy" || s.multi() {
		return false
	}
	return len(s.backends[0]) == 1 && s.backends[0][0].waits() && s.backends[0][0] != bSlow
}

func vectors(n, base int) [][]beh {
	total := 1
	for i := 0; i < n; i++ {
		total *= base
	}
	res := make([][]beh, 0, total)
	for v := 0; v < total; v++ {
		x := v
		a := make([]beh, n)
		for i := 0; i < n; i++ {
			a[i] = beh(x % base)
			x /= base
		}
		res = append(res, a)
	}
	return res
}

// multisets of size n over the first `base` behaviours (attempts are anonymous)
func multisets(n, base int) [][]beh {
	var res [][]beh
	var rec func(start int, cur []beh)
	rec = func(start int, cur []beh) {
		if len(cur) == n {
			res = append(res, append([]beh(nil), cur...))
			return
		}
		for b := start; b < base; b++ {
			rec(b, append(cur, beh(b)))
		}
	}
	rec(0, nil)
	return res
}

func singles(v []beh) [][]beh {
	r := make([][]beh, len(v))
	for i, b := range v {
		r[i] = []beh{b}
	}
	return r
}

func fix(s spec) spec {
	if s.http {
		for _, a := range s.backends {
			for j, x := range a {
				if x == bIncomplete {
					a[j] = bAnswer
				}
				if x == bNil {
					a[j] = bFail
				}
			}
		}
	} else {
		s.noop = false
	}
	if s.noop && (s.multi() || len(s.backends[0]) != 1) {
		s.noop = false
	}
	if needsParent(s) && s.parent == 0 {
		s.parent = s.T / 2
	}
	return s
}

func generate(cfg out.Config, r *rng.R) []spec {
	var specs []spec
	add := func(s spec) { specs = append(specs, fix(s)) }
	T1, T2 := 120*time.Millisecond, 300*time.Millisecond
	Ts := []time.Duration{T1, T2}
	if cfg.Thorough() {
		Ts = append(Ts, time.Second, 100000007*time.Nanosecond)
	}
	levels := []string{"LProxy", "LGin", "LMux"}

	// 1. regression corpus: the shapes of the suite's three timing tests and the mixes under
	// which a dropped cancel / unbuffered channel / detached context shows
	corpus := []spec{
		{level: "LProxy", T: T1, backends: [][]beh{{bAnswer}, {bHang}}},
		{level: "LProxy", T: T1, backends: [][]beh{{bHang}, {bHang}, {bAnswer}}},
		{level: "LProxy", T: T1, backends: [][]beh{{bLate}, {bLate}}},
		{level: "LProxy", T: T1, backends: [][]beh{{bAnswer, bHang}}},
		{level: "LProxy", T: T1, backends: [][]beh{{bAnswer, bLate, bLate}}},
		{level: "LProxy", T: T1, backends: [][]beh{{bHang, bHang, bHang}}},
		{level: "LProxy", T: T1, seq: true, backends: [][]beh{{bFail}, {bAnswer}}},
		{level: "LProxy", T: T1, seq: true, backends: [][]beh{{bAnswer}, {bHang}, {bAnswer}}},
		{level: "LProxy", T: T1, seq: true, backends: [][]beh{{bSlow}, {bHang, bHang}}},
		{level: "LProxy", T: T1, seq: true, backends: [][]beh{{bSlow}, {bSlow}, {bAnswer, bHang}}},
		{level: "LProxy", T: T1, parent: T1 / 2, backends: [][]beh{{bHang}, {bAnswer, bHang}}},
		{level: "LProxy", T: T1, parent: T1 / 2, backends: [][]beh{{bHang, bLate}}},
		{level: "LProxy", T: T1, parent: T1 + 2*time.Second, backends: [][]beh{{bHang}, {bLate}}},
		{level: "LMux", T: T1, backends: [][]beh{{bHang}}},
		{level: "LGin", T: T1, backends: [][]beh{{bHang}}},
		{level: "LGin", T: T1, backends: [][]beh{{bAnswer}, {bHang}}},
		{level: "LMux", T: T1, parent: T1 / 2, backends: [][]beh{{bAnswer}, {bHang, bHang}}},
		{level: "LMux", T: T1, seq: true, backends: [][]beh{{bSlow}, {bAnswer, bHang}}},
		{level: "LGin", T: T1, http: true, noop: true, backends: [][]beh{{bAnswer}}},
		{level: "LMux", T: T1, http: true, noop: true, backends: [][]beh{{bAnswer}}},
		{level: "LProxy", T: T1, http: true, noop: true, backends: [][]beh{{bAnswer}}},
		{level: "LProxy", T: T1, http: true, backends: [][]beh{{bAnswer}, {bLate}}},
		{level: "LGin", T: T1, http: true, backends: [][]beh{{bAnswer, bHang}, {bFail}}},
	}
	for _, s := range corpus {
		s.group = "corpus"
		add(s)
	}
	// sequential merge + concurrent_calls 3 over real http proxies, hammered first (fixed: f5f9a56;
	// runs in a child process, see spec.dangerous)
	stress := 2 * time.Second
	if cfg.Thorough() {
		stress = 6 * time.Second
	}
	add(spec{level: "LProxy", T: T1, seq: true, http: true, stress: stress, group: "corpus-stress",
		backends: [][]beh{{bAnswer, bAnswer, bAnswer}, {bAnswer, bAnswer, bAnswer}}})

	// 1a. the window between the 75% of a concurrent stage and the 85% of the merge: a backend that
	// answers at 80% of T next to siblings that hang with concurrent_calls 2..3 (their stage
	// reports context.DeadlineExceeded at 75%) must still be delivered.  T = 1 s: the window
	// is 50 ms on either side.
	TW := time.Second
	M := bMid
	for _, s := range []spec{
		{level: "LProxy", T: TW, backends: [][]beh{{M}, {bHang, bHang}}},
		{level: "LProxy", T: TW, backends: [][]beh{{M}, {bHang, bHang, bHang}}},
		{level: "LProxy", T: TW, backends: [][]beh{{bHang, bHang}, {M}, {bAnswer}}},
		{level: "LGin", T: TW, backends: [][]beh{{M}, {bHang, bHang}}},
		{level: "LMux", T: TW, backends: [][]beh{{M}, {bHang, bHang}}},
		{level: "LMux", T: TW, parent: TW + time.Second, backends: [][]beh{{M}, {bHang, bHang, bHang}}},
		{level: "LMux", T: TW, parent: TW / 2, backends: [][]beh{{M}, {bHang, bHang}}},
		{level: "LProxy", T: TW, backends: [][]beh{{M}, {bHang}}},
		{level: "LProxy", T: TW, backends: [][]beh{{M}, {bFail, bHang}}},
		{level: "LProxy", T: TW, http: true, backends: [][]beh{{M}, {bHang, bHang}}},
		{level: "LGin", T: TW, backends: [][]beh{{M}}},
		{level: "LProxy", T: TW, backends: [][]beh{{M, M}, {bHang, bHang}}},
	} {
		s.group = "corpus-window"
		add(s)
	}
	sib := [][]beh{{bAnswer}, {bHang}, {bHang, bHang}, {bHang, bHang, bHang}, {bFail, bHang}, {bLate, bLate}}
	for _, a := range sib {
		add(spec{level: "LProxy", T: TW, backends: [][]beh{{M}, append([]beh(nil), a...)}, group: "exhaustive-window"})
		add(spec{level: "LGin", T: TW, backends: [][]beh{append([]beh(nil), a...), {M}}, group: "exhaustive-window"})
		add(spec{level: "LMux", T: TW, backends: [][]beh{{M}, append([]beh(nil), a...)}, group: "exhaustive-window"})
		for _, b := range sib {
			add(spec{level: "LProxy", T: TW, backends: [][]beh{append([]beh(nil), a...), {M}, append([]beh(nil), b...)}, group: "exhaustive-window"})
		}
	}

	// 1a'. endpoints built through proxy.NewShadowFactory: >= 2 regular backends and a shadow backend
	// whose shadow_timeout is larger / smaller than the endpoint timeout or not configured; the
	// regular calls must see the deadlines of the endpoint timeout, and a regular backend that
	// answers at 80% of T must be delivered however short the shadow timeout is
	for _, sh := range []time.Duration{3 * time.Second, 15 * time.Millisecond, -1} {
		for _, lv := range levels {
			for _, bs := range [][][]beh{
				{{bAnswer}, {bHang}}, {{bHang}, {bHang}}, {{bAnswer, bHang}, {bHang}}, {{bAnswer}, {bHang}, {bFail}}, {{bLate}, {bAnswer, bAnswer}},
			} {
				cp := make([][]beh, len(bs))
				for i := range bs {
					cp[i] = append([]beh(nil), bs[i]...)
				}
				add(spec{level: lv, T: T1, shadow: sh, backends: cp, group: "shadow-factory"})
			}
			add(spec{level: lv, T: T1, seq: true, shadow: sh, backends: [][]beh{{bAnswer}, {bHang}}, group: "shadow-factory"})
			add(spec{level: lv, T: T1, seq: true, shadow: sh, backends: [][]beh{{bAnswer, bAnswer}, {bFail}, {bAnswer}}, group: "shadow-factory"})
		}
	}
	for _, sh := range []time.Duration{100 * time.Millisecond, 3 * time.Second} {
		add(spec{level: "LProxy", T: TW, shadow: sh, backends: [][]beh{{M}, {bAnswer}}, group: "shadow-factory"})
		add(spec{level: "LMux", T: TW, shadow: sh, backends: [][]beh{{bHang, bHang}, {M}}, group: "shadow-factory"})
		add(spec{level: "LGin", T: TW, shadow: sh, backends: [][]beh{{M}, {bFail}, {bAnswer}}, group: "shadow-factory"})
	}
	// 1a''. a mux handler whose RequestBuilder takes a fifth of the timeout (the clock must be
	// running meanwhile), and backends reached through the client-executor plugin adapter
	for _, bs := range [][][]beh{
		{{bAnswer}}, {{bHang}}, {{bAnswer}, {bHang}}, {{bHang, bHang}}, {{bAnswer, bHang}, {bFail}}, {{bLate}, {bAnswer}},
	} {
		cp := func() [][]beh {
			c := make([][]beh, len(bs))
			for i := range bs {
				c[i] = append([]beh(nil), bs[i]...)
			}
			return c
		}
		add(spec{level: "LMux", T: T1, slowRB: T1 / 5, backends: cp(), group: "slow-request-builder"})
		add(spec{level: "LMux", T: T2, slowRB: T2 / 5, seq: len(bs) > 1, backends: cp(), group: "slow-request-builder"})
		for _, lv := range levels {
			add(spec{level: lv, T: T1, http: true, plugin: true, backends: cp(), group: "client-plugin"})
		}
		add(spec{level: "LProxy", T: T1, http: true, plugin: true, parent: T1 / 2, backends: cp(), group: "client-plugin"})
	}
	// DNS SRV discovery with a refresh waiting for the resolver while the request is served
	for _, lv := range levels {
		add(spec{level: lv, T: T1, dns: true, backends: [][]beh{{bAnswer}}, group: "dns-refresh"})
		add(spec{level: lv, T: T1, dns: true, backends: [][]beh{{bAnswer}, {bAnswer}}, group: "dns-refresh"})
		add(spec{level: lv, T: T1, dns: true, backends: [][]beh{{bAnswer}, {bHang}}, group: "dns-refresh"})
		add(spec{level: lv, T: T1, dns: true, backends: [][]beh{{bAnswer, bAnswer}}, group: "dns-refresh"})
	}
	add(spec{level: "LProxy", T: T1, http: true, plugin: true, seq: true, backends: [][]beh{{bAnswer}, {bHang}}, group: "client-plugin"})
	add(spec{level: "LMux", T: T1, http: true, plugin: true, seq: true, backends: [][]beh{{bFail}, {bAnswer}}, group: "client-plugin"})

	// 1b. instance reuse, the telling orders: ONE pipeline / handler instance serves the requests
	// of a sequence one after the other (a context, timer or cancel function created once per
	// endpoint instead of once per request shows at the second request)
	seqs, concs := 0, 0
	addSeq := func(group string, base spec, steps ...[][]beh) {
		seqs++
		for k, bs := range steps {
			st := base
			st.backends = bs
			st.seqID, st.step, st.group = seqs, k, group
			if k%3 != 2 {
				st.parent = 0 // the base's parent deadline only on every third request
			}
			add(st)
		}
	}
	A, H, F, L, I := bAnswer, bHang, bFail, bLate, bIncomplete
	addSeq("reuse-seq-corpus", spec{level: "LProxy", T: T1, parent: T1 / 2},
		[][]beh{{A}, {A}}, [][]beh{{A}, {H}}, [][]beh{{H}, {H}}, [][]beh{{A}, {A}}, [][]beh{{F}, {A}}, [][]beh{{A}, {A}})
	addSeq("reuse-seq-corpus", spec{level: "LProxy", T: T1, parent: T1 / 2},
		[][]beh{{A, A}}, [][]beh{{A, H}}, [][]beh{{H, H}}, [][]beh{{A, A}}, [][]beh{{F, F}}, [][]beh{{A, I}})
	addSeq("reuse-seq-corpus", spec{level: "LProxy", T: T1, seq: true, parent: T1 + time.Second},
		[][]beh{{F}, {A}}, [][]beh{{A}, {A}}, [][]beh{{A}, {H}}, [][]beh{{A}, {A}})
	addSeq("reuse-seq-corpus", spec{level: "LGin", T: T1},
		[][]beh{{A}}, [][]beh{{H}}, [][]beh{{A}}, [][]beh{{F}}, [][]beh{{A}})
	addSeq("reuse-seq-corpus", spec{level: "LMux", T: T1, parent: T1 / 2},
		[][]beh{{A}}, [][]beh{{H}}, [][]beh{{A}}, [][]beh{{F}}, [][]beh{{A}})
	addSeq("reuse-seq-corpus", spec{level: "LGin", T: T1},
		[][]beh{{A}, {A}}, [][]beh{{H}, {A}}, [][]beh{{A}, {A}}, [][]beh{{L}, {F}}, [][]beh{{A}, {A}})
	addSeq("reuse-seq-corpus", spec{level: "LMux", T: T1, seq: true, parent: T1 / 2},
		[][]beh{{A, H}, {A}}, [][]beh{{H, H}, {A}}, [][]beh{{A, A}, {A}}, [][]beh{{A, A}, {H}}, [][]beh{{A, A}, {A}})
	addSeq("reuse-seq-corpus", spec{level: "LProxy", T: T1, shadow: 3 * time.Second},
		[][]beh{{A}, {A}}, [][]beh{{A}, {H}}, [][]beh{{H}, {H}}, [][]beh{{A}, {A}})
	addSeq("reuse-seq-corpus", spec{level: "LMux", T: T1, shadow: 15 * time.Millisecond},
		[][]beh{{A}, {A}}, [][]beh{{A}, {H}}, [][]beh{{A}, {A}})
	addSeq("reuse-seq-corpus", spec{level: "LGin", T: T1, http: true, noop: true},
		[][]beh{{A}}, [][]beh{{A}}, [][]beh{{H}}, [][]beh{{A}})
	addSeq("reuse-seq-corpus", spec{level: "LProxy", T: T1, http: true, parent: T1 / 2},
		[][]beh{{A}, {A}}, [][]beh{{A}, {L}}, [][]beh{{A}, {A}}, [][]beh{{F}, {H}}, [][]beh{{A}, {A}})
	addSeq("reuse-seq-corpus", spec{level: "LMux", T: T1},
		[][]beh{{A, A}, {A, A}}, [][]beh{{A, H}, {F, F}}, [][]beh{{A, A}, {A, A}}, [][]beh{{H, H}, {A, L}}, [][]beh{{A, A}, {A, A}})

	// 2. exhaustive small scope, proxy level: every vector of the six behaviours over n
	// backends (parallel and sequential), every multiset over the attempts of one backend
	maxN := 3
	if cfg.Thorough() {
		maxN = 4
	}
	for n := 2; n <= maxN; n++ {
		for _, seq := range []bool{false, true} {
			for _, v := range vectors(n, 6) {
				add(spec{level: "LProxy", seq: seq, T: T1, backends: singles(v), group: "exhaustive-vector"})
			}
		}
	}
	for _, b := range vectors(1, 7) {
		add(spec{level: "LProxy", T: T1, backends: singles(b), group: "exhaustive-single"})
		add(spec{level: "LGin", T: T1, backends: singles(b), group: "exhaustive-single"})
		add(spec{level: "LMux", T: T1, backends: singles(b), group: "exhaustive-single"})
	}
	for cc := 2; cc <= 3; cc++ {
		for _, m := range multisets(cc, 7) {
			add(spec{level: "LProxy", T: T1, backends: [][]beh{m}, group: "exhaustive-attempts"})
			add(spec{level: levels[1+len(specs)%2], T: T1, backends: [][]beh{append([]beh(nil), m...)}, group: "exhaustive-attempts"})
		}
	}
	// every vector for two backends behind both routers, and with an earlier / later deadline
	// of the context handed in
	for _, v := range vectors(2, 6) {
		for _, seq := range []bool{false, true} {
			add(spec{level: "LGin", seq: seq, T: T1, backends: singles(v), group: "exhaustive-router"})
			add(spec{level: "LMux", seq: seq, T: T1, backends: singles(v), group: "exhaustive-router"})
			add(spec{level: "LProxy", seq: seq, T: T1, parent: T1 / 2, backends: singles(v), group: "exhaustive-parent"})
			add(spec{level: "LMux", seq: seq, T: T1, parent: T1 / 2, backends: singles(v), group: "exhaustive-parent"})
			add(spec{level: "LProxy", seq: seq, T: T1, parent: T1 + time.Second, backends: singles(v), group: "exhaustive-parent"})
		}
	}

	// 3. structured random: shapes x concurrent_calls 1..3 x behaviours x timeouts x parents x levels
	nr := 900
	if cfg.Thorough() {
		nr = 12000
	}
	for k := 0; k < nr; k++ {
		s := spec{group: "random"}
		s.level = levels[r.Intn(3)]
		s.T = Ts[r.Intn(len(Ts))]
		if r.Chance(1, 8) {
			s.T = time.Duration(100000000 + r.Intn(200000000)) // odd nanosecond counts
		}
		n := 1 + r.Intn(4)
		s.seq = n > 1 && r.Chance(2, 5)
		s.http = r.Chance(1, 5)
		s.noop = s.http && r.Chance(1, 2)
		switch r.Intn(4) {
		case 0:
			s.parent = s.T / 2
		case 1:
			s.parent = s.T + time.Duration(1+r.Intn(1500))*time.Millisecond
		}
		waiting := 0
		for i := 0; i < n; i++ {
			cc := 1
			if r.Chance(2, 5) {
				cc = 2 + r.Intn(2)
			}
			a := make([]beh, cc)
			for j := range a {
				switch {
				case r.Chance(2, 5):
					a[j] = bAnswer
				case r.Chance(1, 2) && waiting < 6:
					a[j] = []beh{bHang, bLate, bHang, bSlow}[r.Intn(4)]
					waiting++
				default:
					a[j] = []beh{bIncomplete, bFail, bNil, bFail}[r.Intn(4)]
				}
			}
			s.backends = append(s.backends, a)
		}
		add(s)
	}
	// 4. instance reuse, random sequences: one random shape, 4 requests with random behaviours,
	// the last one healthy (whatever came before, it must be served in full)
	nseq := 30
	if cfg.Thorough() {
		nseq = 300
	}
	imm := []beh{bAnswer, bAnswer, bIncomplete, bFail, bNil}
	wt := []beh{bHang, bLate, bHang}
	for k := 0; k < nseq; k++ {
		base := spec{level: levels[r.Intn(3)], T: T1}
		n := 1 + r.Intn(3)
		base.seq = n > 1 && r.Chance(2, 5)
		base.http = r.Chance(1, 5)
		base.noop = base.http && r.Chance(1, 2)
		ccs := make([]int, n)
		for i := range ccs {
			ccs[i] = 1
			if r.Chance(2, 5) {
				ccs[i] = 2 + r.Intn(2)
			}
		}
		base.backends = make([][]beh, n)
		for i := range ccs {
			base.backends[i] = make([]beh, ccs[i])
		}
		if base.dangerous() {
			base.http, base.noop = false, false
		}
		base.parent = []time.Duration{T1 / 2, T1 + time.Second}[r.Intn(2)]
		var steps [][][]beh
		for st := 0; st < 4; st++ {
			bs := make([][]beh, n)
			for i := range bs {
				bs[i] = make([]beh, ccs[i])
				for j := range bs[i] {
					switch {
					case st == 3:
						bs[i][j] = bAnswer
					case r.Chance(1, 3):
						bs[i][j] = wt[r.Intn(len(wt))]
					default:
						bs[i][j] = imm[r.Intn(len(imm))]
					}
				}
			}
			steps = append(steps, bs)
		}
		addSeq("reuse-seq-random", base, steps...)
	}

	// 5. instance reuse, concurrent: ONE instance hit by G goroutines released together, each
	// sending its requests one after the other; a small set of distinct inputs per group
	G, iters := 12, 3
	if cfg.Thorough() {
		G, iters = 16, 4
	}
	addConc := func(base spec, inputs ...[][]beh) {
		concs++
		for g := 0; g < G; g++ {
			for it := 0; it < iters; it++ {
				st := base
				st.backends = inputs[(g+it)%len(inputs)]
				st.concID, st.concG, st.group = concs, g, "reuse-concurrent"
				add(st)
			}
		}
	}
	addConc(spec{level: "LProxy", T: T1}, [][]beh{{A}, {A}}, [][]beh{{A}, {H}}, [][]beh{{F}, {A}}, [][]beh{{H}, {H}})
	addConc(spec{level: "LProxy", T: T1}, [][]beh{{A, A, A}}, [][]beh{{A, H, H}}, [][]beh{{H, H, H}}, [][]beh{{F, A, H}})
	addConc(spec{level: "LGin", T: T1}, [][]beh{{A}, {A}}, [][]beh{{A}, {H}}, [][]beh{{F}, {A}}, [][]beh{{H}, {L}})
	addConc(spec{level: "LMux", T: T1, seq: true}, [][]beh{{A}, {A, A}}, [][]beh{{A}, {A, H}}, [][]beh{{F}, {A, A}}, [][]beh{{A}, {H, H}})
	if cfg.Thorough() {
		addConc(spec{level: "LMux", T: T1, http: true, noop: true}, [][]beh{{A}}, [][]beh{{H}}, [][]beh{{F}})
		addConc(spec{level: "LProxy", T: T1, http: true}, [][]beh{{A}, {A}}, [][]beh{{A}, {L}}, [][]beh{{H}, {A}})
		addConc(spec{level: "LGin", T: T1}, [][]beh{{A, A}}, [][]beh{{A, H}}, [][]beh{{I, I}}, [][]beh{{H, H}})
		addConc(spec{level: "LProxy", T: T1, seq: true}, [][]beh{{A}, {A}, {A}}, [][]beh{{A}, {H}, {A}}, [][]beh{{A}, {A}, {F}})
	}
	return specs
}

func main() {
	cfg := out.ParseFlags("C04")
	gin.SetMode(gin.ReleaseMode)
	r := rng.New(cfg.Seed)
	specs := generate(cfg, r)
	rn := &runner{ignore: map[string]bool{}, serialLeft: 96, rerunLeft: 400, rerunBudget: 15 * time.Second}
	if cfg.Thorough() {
		rn.rerunLeft, rn.rerunBudget = 4000, 120*time.Second
	}
	go heartbeat()
	for _, id := range luraGoroutines(nil) {
		rn.ignore[id] = true // whatever lura's package initialisers started
	}
	if strings.HasPrefix(cfg.Extra, "child:") {
		from, _ := strconv.Atoi(strings.TrimPrefix(cfg.Extra, "child:"))
		childMain(cfg, specs, from, rn)
		return
	}
	w := out.NewWriter(cfg, "Verif.Corr.C04", 400)
	t0 := time.Now()

	// which cases to run: all, or (replay) the one asked for together with what precedes it
	// in its reuse sequence / its whole concurrent group
	wanted := func(i int) bool { return true }
	if cfg.Only >= 0 && cfg.Only < len(specs) {
		o := specs[cfg.Only]
		wanted = func(i int) bool {
			s := specs[i]
			switch {
			case o.seqID > 0:
				return s.seqID == o.seqID && s.step <= o.step
			case o.concID > 0:
				return s.concID == o.concID
			}
			return i == cfg.Only
		}
	}
	var plain, child, seqs []int
	concs := map[int][]int{}
	var concOrder []int
	for i, s := range specs {
		if !wanted(i) {
			continue
		}
		switch {
		case s.dangerous():
			child = append(child, i)
		case s.seqID > 0:
			seqs = append(seqs, i)
		case s.concID > 0:
			if _, ok := concs[s.concID]; !ok {
				concOrder = append(concOrder, s.concID)
			}
			concs[s.concID] = append(concs[s.concID], i)
		default:
			plain = append(plain, i)
		}
	}
	obs := map[int]obsData{}
	deaths := 0
	if len(child) > 0 {
		var res map[int]obsData
		res, deaths = runInChildren(cfg, child)
		for i, o := range res {
			obs[i] = o
		}
	}
	tChild := time.Since(t0)
	if len(seqs) > 0 {
		for i, r := range rn.runSequences(specs, seqs) {
			obs[i] = r.data()
		}
	}
	for _, id := range concOrder {
		for i, r := range rn.runConcurrent(specs, concs[id]) {
			obs[i] = r.data()
		}
	}
	tReuse := time.Since(t0) - tChild
	if len(plain) > 0 {
		batch := 48
		if cfg.Thorough() {
			batch = 96
		}
		sub := make([]spec, len(plain))
		for k, i := range plain {
			sub[k] = specs[i]
		}
		for k, r := range rn.runAll(sub, batch) {
			obs[plain[k]] = r.data()
		}
	}
	for i, s := range specs {
		if o, ok := obs[i]; ok {
			emitCase(w, s, o)
		} else {
			w.Add("", nil, "", s.canon(), false)
		}
	}
	w.Meta["run_wall_s"] = time.Since(t0).Seconds()
	w.Meta["child_process_wall_s"] = tChild.Seconds()
	w.Meta["instance_reuse_wall_s"] = tReuse.Seconds()
	w.Meta["cases_run_in_child_process"] = len(child)
	w.Meta["child_processes_that_died"] = deaths
	w.Meta["instance_reuse_sequence_steps"] = len(seqs)
	w.Meta["instance_reuse_concurrent_groups"] = len(concOrder)
	w.Meta["stub_calls_without_a_known_request"] = rn.orphans
	w.Meta["batches_with_leftover_goroutines"] = rn.batchLeaks
	w.Meta["leaks_pinned_to_a_case"] = rn.attributed
	w.Meta["batches_with_leak_not_pinned_down"] = rn.unattributed
	w.Meta["reruns_because_machine_was_slow"] = rn.retries
	w.Meta["cases_still_tainted"] = rn.taintedLeft
	w.Meta["batches_with_scheduling_stall"] = rn.stalledBatches
	w.Meta["wall_time_slack_ns"] = int64(slack)
	w.Close("corpus (23 shapes + a stressed sequential/concurrent_calls 3 shape over http proxies, run in a child process whose death is an observation) + instance reuse (one pipeline/handler instance serving 4-6 consecutive different requests: 10 hand-picked orders and random ones; one instance hit by 12 goroutines x 3 requests over 4 distinct inputs, 4 shapes) + exhaustive at proxy level: all 6^n behaviour vectors for n=2..3 backends (thorough: ..4) in parallel and in sequential mode, all 7 behaviours for a single backend at the three levels, all multisets of 7 behaviours over 2 and 3 concurrent attempts, all 6^2 vectors behind gin and mux and with an earlier/later deadline of the context handed in + structured random (1..4 backends, concurrent_calls 1..3, 3 levels, timeouts incl. odd nanosecond counts, proxy stubs or http-executor stubs incl. no-op); nontrivial = anything but all-Answer at proxy level without parent deadline", true)
}
