// C04 generator: every backend call is bounded by the endpoint timeout; nothing outlives it.
//
// Drives the real pipelines (proxy.NewDefaultFactory(...).New(endpoint), alone or behind the
// gin / mux endpoint handlers) with stub backends that answer, fail, never answer (block on
// ctx.Done()), answer late (return a response once ctx is done) or answer slowly, and records
//   - ctx.Deadline() of the context every stub is invoked with and when it was invoked,
//   - ctx.Err() of each of those contexts right after the pipeline returned,
//   - when the pipeline returned, which backends' data is in the response,
//   - after each batch of cases: goroutines with lura frames still alive (runtime.Stack) and
//     backend bodies never closed.
//
// All times are monotonic-clock nanoseconds after the arrival; comparisons (in Coq) are
// intervals.  No sleeps for synchronisation: never-answering stubs block on ctx.Done() (and on
// a watchdog channel so that a context that is never cancelled shows up as an observation
// instead of a hang).
package main

import (
	"context"
	"errors"
	"fmt"
	"io"
	"net/http"
	"net/http/httptest"
	"regexp"
	"runtime"
	"sort"
	"strconv"
	"strings"
	"sync"
	"sync/atomic"
	"time"

	"github.com/gin-gonic/gin"
	"github.com/luraproject/lura/v2/config"
	"github.com/luraproject/lura/v2/encoding"
	"github.com/luraproject/lura/v2/logging"
	"github.com/luraproject/lura/v2/proxy"
	krakendgin "github.com/luraproject/lura/v2/router/gin"
	"github.com/luraproject/lura/v2/router/mux"

	"verif/harness/internal/emit"
	"verif/harness/internal/out"
	"verif/harness/internal/rng"
)

type beh int

const (
	bAnswer beh = iota
	bIncomplete
	bFail
	bNil
	bHang
	bLate
	bSlow
)

var behNames = []string{"Answer", "Incomplete", "Fail", "NilResp", "Hang", "Late", "Slow"}

func (b beh) waits() bool { return b == bHang || b == bLate || b == bSlow }

type spec struct {
	level    string // LProxy | LGin | LMux
	seq      bool
	T        time.Duration
	parent   time.Duration // 0: the context handed in has no deadline
	http     bool
	noop     bool // http only, single backend: no-op encoding (body handed through, closed on cancellation)
	backends [][]beh
	group    string
}

func (s spec) canon() string {
	var b strings.Builder
	fmt.Fprintf(&b, "%s|%v|%d|%d|%v|%v|", s.level, s.seq, s.T, s.parent, s.http, s.noop)
	for _, a := range s.backends {
		for _, x := range a {
			b.WriteByte(byte('0' + x))
		}
		b.WriteByte('/')
	}
	return b.String()
}

func (s spec) coq() string {
	bl := make([]string, len(s.backends))
	for i, a := range s.backends {
		xs := make([]string, len(a))
		for j, x := range a {
			xs[j] = behNames[x]
		}
		bl[i] = emit.List(xs)
	}
	parent := "None"
	if s.parent != 0 {
		parent = emit.Some(emit.Z(int64(s.parent)))
	}
	return fmt.Sprintf("{| c_level := %s; c_seq := %s; c_T := %s; c_parent := %s; c_http := %s; c_backends := %s |}",
		s.level, emit.Bool(s.seq), emit.Z(int64(s.T)), parent, emit.Bool(s.http), emit.List(bl))
}

func (s spec) js() map[string]interface{} {
	bl := make([][]string, len(s.backends))
	for i, a := range s.backends {
		for _, x := range a {
			bl[i] = append(bl[i], behNames[x])
		}
	}
	return map[string]interface{}{"level": s.level, "sequential": s.seq, "timeout_ns": int64(s.T), "parent_deadline_ns": int64(s.parent),
		"http_executor_stubs": s.http, "no_op": s.noop, "backends": bl, "group": s.group}
}

func (s spec) multi() bool { return len(s.backends) > 1 }

// earliest deadline any call of this request can have, relative to the arrival
func (s spec) minDeadline() time.Duration {
	d := time.Duration(1 << 62)
	if s.level != "LProxy" {
		d = s.T
	}
	if s.multi() && 85*s.T/100 < d {
		d = 85 * s.T / 100
	}
	for _, a := range s.backends {
		if len(a) > 1 && 75*s.T/100 < d {
			d = 75 * s.T / 100
		}
	}
	if s.parent != 0 && s.level != "LGin" && s.parent < d {
		d = s.parent
	}
	return d
}

// ---- recording ------------------------------------------------------------------------

type callRec struct {
	be        int
	inv       time.Duration
	hasDl     bool
	dl        time.Duration
	ctx       context.Context
	doneAfter bool
}

// a backend body; one that lura started to read (so it got past the "context done?" test of
// proxy/http.go, which drops a reply unread) must be closed in the end
type body struct {
	r      *strings.Reader
	read   atomic.Bool
	closed atomic.Bool
}

func (b *body) Read(p []byte) (int, error) { b.read.Store(true); return b.r.Read(p) }
func (b *body) Close() error               { b.closed.Store(true); return nil }

type recorder struct {
	s         spec
	t0        time.Time
	mu        sync.Mutex
	calls     []*callRec
	returned  bool
	next      []int32
	release   chan struct{}
	released  atomic.Bool
	immMax    atomic.Int64 // latest moment an "at once" behaviour that the model relies on finished
	bodies    []*body
	firstSlow int // index of the first backend without an Answer attempt (sequential: later ones are not called "at once")
}

func newRecorder(s spec) *recorder {
	r := &recorder{s: s, next: make([]int32, len(s.backends)), release: make(chan struct{}), firstSlow: len(s.backends)}
	// sequential mode: backends after the first one that does not certainly complete at once
	// are called late or not at all
	for i, a := range s.backends {
		has := false
		for _, x := range a {
			if x == bAnswer {
				has = true
			}
		}
		if !has {
			r.firstSlow = i
			break
		}
	}
	return r
}

// enter records the invocation and returns the behaviour of this attempt
func (r *recorder) enter(ctx context.Context, be int) beh {
	inv := time.Since(r.t0)
	c := &callRec{be: be, inv: inv, ctx: ctx}
	if d, ok := ctx.Deadline(); ok {
		c.hasDl = true
		c.dl = d.Sub(r.t0)
	}
	r.mu.Lock()
	if r.returned {
		c.doneAfter = ctx.Err() != nil
	}
	r.calls = append(r.calls, c)
	r.mu.Unlock()
	slot := int(atomic.AddInt32(&r.next[be], 1)) - 1
	if slot >= len(r.s.backends[be]) {
		return bAnswer // more attempts than configured: shows up in the call counts
	}
	return r.s.backends[be][slot]
}

func (r *recorder) immediateDone(be int) {
	if r.s.multi() && r.s.seq && be > r.firstSlow {
		return
	}
	t := int64(time.Since(r.t0))
	for {
		old := r.immMax.Load()
		if t <= old || r.immMax.CompareAndSwap(old, t) {
			return
		}
	}
}

// wait blocks until ctx is done (true) or the watchdog released the stub (false)
func (r *recorder) wait(ctx context.Context) bool {
	select {
	case <-ctx.Done():
		return true
	case <-r.release:
		r.released.Store(true)
		return false
	}
}

var errBackend = errors.New("backend failed")
var errReleased = errors.New("released by the watchdog")

// outcome of a behaviour: kind 0 response complete, 1 response incomplete, 2 error, 3 nil
func (r *recorder) play(ctx context.Context, be int, b beh) (int, error) {
	switch b {
	case bAnswer:
		r.immediateDone(be)
		return 0, nil
	case bIncomplete:
		r.immediateDone(be)
		return 1, nil
	case bFail:
		r.immediateDone(be)
		return 2, errBackend
	case bNil:
		r.immediateDone(be)
		return 3, nil
	case bHang:
		if r.wait(ctx) {
			return 2, ctx.Err()
		}
		return 2, errReleased
	case bLate:
		r.wait(ctx)
		return 0, nil
	case bSlow:
		t := time.NewTimer(r.s.T / 4)
		defer t.Stop()
		select {
		case <-t.C:
			return 0, nil
		case <-ctx.Done():
			return 2, ctx.Err()
		case <-r.release:
			r.released.Store(true)
			return 2, errReleased
		}
	}
	return 2, errBackend
}

func beIndex(b *config.Backend) int {
	i, err := strconv.Atoi(strings.TrimPrefix(b.URLPattern, "/b"))
	if err != nil {
		panic("unknown backend " + b.URLPattern)
	}
	return i
}

func (r *recorder) backendFactory() proxy.BackendFactory {
	return func(b *config.Backend) proxy.Proxy {
		be := beIndex(b)
		if r.s.http {
			exec := func(ctx context.Context, _ *http.Request) (*http.Response, error) {
				kind, err := r.play(ctx, be, r.enter(ctx, be))
				if kind != 0 {
					if err == nil {
						err = errBackend
					}
					return nil, err
				}
				bd := &body{r: strings.NewReader(fmt.Sprintf(`{"k%d":%d}`, be, be))}
				r.mu.Lock()
				r.bodies = append(r.bodies, bd)
				r.mu.Unlock()
				return &http.Response{StatusCode: 200, Header: http.Header{"Content-Type": []string{"application/json"}}, Body: bd}, nil
			}
			return proxy.NewHTTPProxyWithHTTPExecutor(b, exec, b.Decoder)
		}
		return func(ctx context.Context, _ *proxy.Request) (*proxy.Response, error) {
			kind, err := r.play(ctx, be, r.enter(ctx, be))
			switch kind {
			case 0, 1:
				return &proxy.Response{Data: map[string]interface{}{fmt.Sprintf("k%d", be): be}, IsComplete: kind == 0}, nil
			case 3:
				return nil, nil
			}
			return nil, err
		}
	}
}

// markReturned samples ctx.Err() of every context recorded so far
func (r *recorder) markReturned() {
	r.mu.Lock()
	r.returned = true
	for _, c := range r.calls {
		c.doneAfter = c.ctx.Err() != nil
	}
	r.mu.Unlock()
}

// ---- one case -------------------------------------------------------------------------

type result struct {
	s          spec
	rec        *recorder
	returned   bool
	ret        time.Duration
	keys       []int
	tainted    bool
	leaked     int
	panicked   string
	batchLevel bool
}

var keyRe = regexp.MustCompile(`"k(\d+)"`)

func keysOfData(m map[string]interface{}) []int {
	var ks []int
	for k := range m {
		if strings.HasPrefix(k, "k") {
			if i, err := strconv.Atoi(k[1:]); err == nil {
				ks = append(ks, i)
			}
		}
	}
	return ks
}

func keysOfText(s string) []int {
	var ks []int
	for _, m := range keyRe.FindAllStringSubmatch(s, -1) {
		i, _ := strconv.Atoi(m[1])
		ks = append(ks, i)
	}
	return ks
}

func build(s spec, rec *recorder) (*config.EndpointConfig, proxy.Proxy) {
	sc := config.ServiceConfig{Version: config.ConfigVersion, Timeout: s.T, Host: []string{"http://127.0.0.1:8081"}}
	ep := &config.EndpointConfig{Endpoint: "/x", Method: "GET", Timeout: s.T}
	if s.noop {
		ep.OutputEncoding = encoding.NOOP
	}
	if s.seq {
		ep.ExtraConfig = config.ExtraConfig{proxy.Namespace: map[string]interface{}{"sequential": true}}
	}
	for i, a := range s.backends {
		b := &config.Backend{URLPattern: fmt.Sprintf("/b%d", i), ConcurrentCalls: len(a)}
		if s.noop {
			b.Encoding = encoding.NOOP
		}
		ep.Backend = append(ep.Backend, b)
	}
	sc.Endpoints = []*config.EndpointConfig{ep}
	if err := sc.Init(); err != nil {
		panic(err)
	}
	// concurrent_calls is an endpoint setting that Init copies to the backends; the harness also
	// covers mixed values (backends configured directly)
	for i, a := range s.backends {
		ep.Backend[i].ConcurrentCalls = len(a)
	}
	p, err := proxy.NewDefaultFactory(rec.backendFactory(), logging.NoOp).New(ep)
	if err != nil {
		panic(err)
	}
	return ep, p
}

const watchdogAfter = 1500 * time.Millisecond // after the endpoint timeout
const giveUpAfter = 3 * time.Second           // after the watchdog

func runCase(s spec) *result {
	rec := newRecorder(s)
	res := &result{s: s, rec: rec}
	ep, p := build(s, rec)
	var handler http.Handler
	switch s.level {
	case "LGin":
		e := gin.New()
		e.GET("/x", krakendgin.EndpointHandler(ep, p))
		handler = e
	case "LMux":
		handler = mux.EndpointHandler(ep, p)
	}
	base, cancelBase := context.WithCancel(context.Background())
	defer cancelBase()
	finished := make(chan struct{})
	var keys []int
	var ret time.Duration
	var panicked string

	rec.t0 = time.Now()
	pctx := base
	if s.parent != 0 {
		var c2 context.CancelFunc
		pctx, c2 = context.WithDeadline(base, rec.t0.Add(s.parent))
		defer c2()
	}
	limit := s.T
	if s.parent > limit {
		limit = s.parent
	}
	stop := make(chan struct{})
	defer close(stop)
	go func() {
		if patiently(limit+watchdogAfter, stop) {
			close(rec.release)
		}
	}()
	gaveUp := make(chan struct{})
	go func() {
		if patiently(limit+watchdogAfter+giveUpAfter, stop) {
			close(gaveUp)
		}
	}()
	go func() {
		defer close(finished)
		defer func() {
			if e := recover(); e != nil {
				panicked = fmt.Sprint(e)
			}
		}()
		if handler == nil {
			resp, _ := p(pctx, &proxy.Request{Method: "GET", Path: "/x", Params: map[string]string{}, Headers: map[string][]string{}, Query: map[string][]string{}})
			ret = time.Since(rec.t0)
			rec.markReturned()
			if resp != nil {
				keys = keysOfData(resp.Data)
				if resp.Io != nil {
					b, _ := io.ReadAll(resp.Io)
					keys = append(keys, keysOfText(string(b))...)
				}
			}
		} else {
			w := httptest.NewRecorder()
			req := httptest.NewRequest("GET", "/x", nil).WithContext(pctx)
			handler.ServeHTTP(w, req)
			ret = time.Since(rec.t0)
			rec.markReturned()
			keys = keysOfText(w.Body.String())
		}
	}()
	select {
	case <-finished:
		res.returned = true
		res.ret = ret
		res.keys = keys
		res.panicked = panicked
		if panicked != "" {
			res.returned = false
		}
	case <-gaveUp:
		res.returned = false
		res.ret = time.Since(rec.t0)
		rec.markReturned()
	}
	// "at once" must mean "well before every deadline" for the parts of the model that
	// say what certainly happens
	half := int64(s.minDeadline() / 2)
	if rec.immMax.Load() > half {
		res.tainted = true
	}
	anyWait := false
	for _, a := range s.backends {
		for _, x := range a {
			if x.waits() {
				anyWait = true
			}
		}
	}
	if !anyWait && int64(res.ret) > half {
		res.tainted = true
	}
	return res
}

// ---- goroutines with lura frames -------------------------------------------------------

var goroutineRe = regexp.MustCompile(`^goroutine (\d+) \[`)

func luraGoroutines(ignore map[string]bool) []string {
	buf := make([]byte, 1<<20)
	for {
		n := runtime.Stack(buf, true)
		if n < len(buf) {
			buf = buf[:n]
			break
		}
		buf = make([]byte, 2*len(buf))
	}
	var ids []string
	for _, blk := range strings.Split(string(buf), "\n\n") {
		if !strings.Contains(blk, "github.com/luraproject/lura/v2/") {
			continue
		}
		m := goroutineRe.FindStringSubmatch(blk)
		if m == nil || ignore[m[1]] {
			continue
		}
		ids = append(ids, m[1])
	}
	return ids
}

// quiesce polls until no goroutine with lura frames is left (or the bound is reached) and
// returns the ones that stayed
func quiesce(ignore map[string]bool, bound time.Duration) []string {
	deadline := time.Now().Add(bound)
	wait := 200 * time.Microsecond
	for {
		ids := luraGoroutines(ignore)
		if len(ids) == 0 || (time.Now().After(deadline) && responsiveFor(time.Second)) || time.Now().After(deadline.Add(90*time.Second)) {
			return ids
		}
		time.Sleep(wait) // polling, not synchronisation
		if wait < 20*time.Millisecond {
			wait *= 2
		}
	}
}

func unclosedBodies(r *recorder) int {
	r.mu.Lock()
	defer r.mu.Unlock()
	n := 0
	for _, b := range r.bodies {
		if b.read.Load() && !b.closed.Load() {
			n++
		}
	}
	return n
}

// ---- how slow is the machine right now --------------------------------------------------
// A goroutine that asks to be woken every millisecond records the longest time it was kept
// waiting: a direct measurement of "at once" (scheduling latency), not a synchronisation.
var hbMax atomic.Int64
var hbTicks atomic.Int64
var procStart = time.Now()
var lastStall atomic.Int64 // ns after procStart at which the last stall ended

// responsiveFor reports whether no stall was seen during the last d
func responsiveFor(d time.Duration) bool {
	return int64(time.Since(procStart))-lastStall.Load() >= int64(d)
}

// patiently waits for the nominal duration d and then until the machine has been responsive
// for a second (so that every timer that was due has had its effect), at most 90 s more;
// returns false when stop was closed first
func patiently(d time.Duration, stop <-chan struct{}) bool {
	t := time.NewTimer(d)
	defer t.Stop()
	select {
	case <-stop:
		return false
	case <-t.C:
	}
	for k := 0; k < 900; k++ {
		if responsiveFor(time.Second) {
			return true
		}
		w := time.NewTimer(100 * time.Millisecond)
		select {
		case <-stop:
			w.Stop()
			return false
		case <-w.C:
		}
	}
	return true
}

func heartbeat() {
	last := time.Now()
	for {
		time.Sleep(time.Millisecond)
		now := time.Now()
		gap := int64(now.Sub(last))
		last = now
		hbTicks.Add(1)
		if gap > int64(stallLimit) {
			lastStall.Store(int64(now.Sub(procStart)))
		}
		for {
			old := hbMax.Load()
			if gap <= old || hbMax.CompareAndSwap(old, gap) {
				break
			}
		}
	}
}

const stallLimit = 25 * time.Millisecond

// ---- running many cases ---------------------------------------------------------------

type runner struct {
	ignore         map[string]bool
	serialLeft     int
	batchLeaks     int
	retries        int
	taintedLeft    int
	stalledBatches int
	rerunLeft      int
	attributed     int
	unattributed   int
	rerunBudget    time.Duration
}

// an observation that a stalled process could also produce: run the case again (a real
// violation shows again)
func suspicious(r *result) bool {
	if r.tainted || !r.returned || r.rec.released.Load() {
		return true
	}
	r.rec.mu.Lock()
	defer r.rec.mu.Unlock()
	var maxDl time.Duration
	for _, c := range r.rec.calls {
		if !c.hasDl {
			return false
		}
		if c.dl > maxDl {
			maxDl = c.dl
		}
	}
	return len(r.rec.calls) > 0 && r.ret > maxDl+slack/2
}

func (rn *runner) runBatch(specs []spec) []*result {
	res := make([]*result, len(specs))
	var wg sync.WaitGroup
	hbMax.Store(0)
	for i := range specs {
		wg.Add(1)
		go func(i int) {
			defer wg.Done()
			res[i] = runCase(specs[i])
		}(i)
	}
	wg.Wait()
	// let the heartbeat report a stall that ended just now
	for t := hbTicks.Load(); hbTicks.Load() < t+2; {
		time.Sleep(200 * time.Microsecond)
	}
	if stall := hbMax.Load(); stall > int64(stallLimit) {
		// the process was not scheduled for that long while the cases ran
		rn.stalledBatches++
		for _, r := range res {
			r.tainted = true
		}
	}
	bound := 5 * time.Second
	if rn.serialLeft <= 0 && rn.attributed > 0 {
		bound = time.Second // leaks are already on record with the cases that cause them
	}
	left := quiesce(rn.ignore, bound)
	for _, r := range res {
		r.leaked = unclosedBodies(r.rec)
	}
	if len(left) > 0 {
		rn.batchLeaks++
		for _, id := range left {
			rn.ignore[id] = true
		}
		// attribute: one case at a time
		before := rn.attributed
		for i := range specs {
			if rn.serialLeft <= 0 {
				break
			}
			rn.serialLeft--
			r := runCase(specs[i])
			l := quiesce(rn.ignore, 1500*time.Millisecond)
			for _, id := range l {
				rn.ignore[id] = true
			}
			r.leaked = len(l) + unclosedBodies(r.rec)
			if len(l) > 0 {
				rn.attributed++
			}
			res[i] = r
		}
		if rn.attributed == before {
			rn.unattributed++
			if rn.attributed == 0 {
				// seen only with the batch running concurrently (or the budget for running cases
				// one at a time is used up and nothing was pinned down): keep the observation
				res[0].leaked += len(left)
				res[0].batchLevel = true
			}
		}
	}
	return res
}

func (rn *runner) runAll(specs []spec, batch int) []*result {
	all := make([]*result, len(specs))
	for lo := 0; lo < len(specs); lo += batch {
		hi := lo + batch
		if hi > len(specs) {
			hi = len(specs)
		}
		copy(all[lo:hi], rn.runBatch(specs[lo:hi]))
	}
	// cases in which the machine was too slow: again, a few at a time
	rerunStart := time.Now()
	for round := 0; round < 4 && time.Since(rerunStart) < rn.rerunBudget; round++ {
		var idx []int
		for i, r := range all {
			if suspicious(r) && r.leaked == 0 && rn.rerunLeft > 0 {
				idx = append(idx, i)
				rn.rerunLeft--
			}
		}
		if len(idx) == 0 {
			break
		}
		for lo := 0; lo < len(idx) && time.Since(rerunStart) < rn.rerunBudget; lo += 8 {
			hi := lo + 8
			if hi > len(idx) {
				hi = len(idx)
			}
			var sub []spec
			for _, i := range idx[lo:hi] {
				sub = append(sub, specs[i])
			}
			rs := rn.runBatch(sub)
			for k, i := range idx[lo:hi] {
				all[i] = rs[k]
				rn.retries++
			}
		}
	}
	for _, r := range all {
		if r.tainted {
			rn.taintedLeft++
		}
	}
	return all
}

// ---- emission -------------------------------------------------------------------------

const slack = 400 * time.Millisecond

func emitCase(w *out.Writer, r *result) {
	s := r.s
	rec := r.rec
	rec.mu.Lock()
	calls := append([]*callRec(nil), rec.calls...)
	rec.mu.Unlock()
	sort.SliceStable(calls, func(i, j int) bool {
		if calls[i].be != calls[j].be {
			return calls[i].be < calls[j].be
		}
		return calls[i].inv < calls[j].inv
	})
	var cl []string
	var cj []interface{}
	for _, c := range calls {
		dl := "None"
		var dj interface{}
		if c.hasDl {
			dl = emit.Some(emit.Z(int64(c.dl)))
			dj = int64(c.dl)
		}
		cl = append(cl, fmt.Sprintf("{| k_be := %s; k_inv := %s; k_dl := %s; k_done_after := %s |}", emit.Nat(c.be), emit.Z(int64(c.inv)), dl, emit.Bool(c.doneAfter)))
		cj = append(cj, map[string]interface{}{"backend": c.be, "invoked_ns": int64(c.inv), "deadline_ns": dj, "done_after_return": c.doneAfter})
	}
	keys := append([]int(nil), r.keys...)
	sort.Ints(keys)
	var kl []int
	for i, k := range keys {
		if i == 0 || keys[i-1] != k {
			kl = append(kl, k)
		}
	}
	obs := fmt.Sprintf("{| o_calls := %s; o_returned := %s; o_ret := %s; o_keys := %s; o_leaked := %s; o_released := %s; o_tainted := %s |}",
		emit.List(cl), emit.Bool(r.returned), emit.Z(int64(r.ret)), emit.NatList(kl), emit.Nat(r.leaked), emit.Bool(rec.released.Load()), emit.Bool(r.tainted))
	term := emit.App("Case", s.coq(), emit.Z(int64(slack)), obs)
	js := map[string]interface{}{"input": s.js(), "observed": map[string]interface{}{"calls": cj, "returned": r.returned, "returned_ns": int64(r.ret),
		"keys": kl, "leaked": r.leaked, "released_by_watchdog": rec.released.Load(), "tainted": r.tainted, "panic": r.panicked, "leak_seen_with_whole_batch_only": r.batchLevel}, "slack_ns": int64(slack)}
	nontrivial := s.level != "LProxy" || s.parent != 0
	for _, a := range s.backends {
		for _, x := range a {
			if x != bAnswer {
				nontrivial = true
			}
		}
	}
	w.Count("group:" + s.group)
	w.Count("level:" + s.level)
	shape := "single"
	if s.multi() {
		shape = "parallel"
		if s.seq {
			shape = "sequential"
		}
	}
	w.Count(fmt.Sprintf("shape:%s/%d", shape, len(s.backends)))
	for _, a := range s.backends {
		w.Count(fmt.Sprintf("concurrent_calls:%d", len(a)))
		for _, x := range a {
			w.Count("behaviour:" + behNames[x])
		}
	}
	if s.parent != 0 {
		if s.parent < s.minDeadlineNoParent() {
			w.Count("parent:earlier")
		} else {
			w.Count("parent:later")
		}
	} else {
		w.Count("parent:none")
	}
	if s.http {
		w.Count("stubs:http-executor")
	} else {
		w.Count("stubs:proxy")
	}
	if r.tainted {
		w.Count("tainted")
	}
	w.Add(term, js, "", s.canon(), nontrivial)
}

func (s spec) minDeadlineNoParent() time.Duration {
	t := s
	t.parent = 0
	return t.minDeadline()
}

// ---- generation -----------------------------------------------------------------------

func needsParent(s spec) bool {
	if s.level != "LProxy" || s.multi() {
		return false
	}
	return len(s.backends[0]) == 1 && s.backends[0][0].waits() && s.backends[0][0] != bSlow
}

func vectors(n, base int) [][]beh {
	total := 1
	for i := 0; i < n; i++ {
		total *= base
	}
	res := make([][]beh, 0, total)
	for v := 0; v < total; v++ {
		x := v
		a := make([]beh, n)
		for i := 0; i < n; i++ {
			a[i] = beh(x % base)
			x /= base
		}
		res = append(res, a)
	}
	return res
}

// multisets of size n over the first `base` behaviours (attempts are anonymous)
func multisets(n, base int) [][]beh {
	var res [][]beh
	var rec func(start int, cur []beh)
	rec = func(start int, cur []beh) {
		if len(cur) == n {
			res = append(res, append([]beh(nil), cur...))
			return
		}
		for b := start; b < base; b++ {
			rec(b, append(cur, beh(b)))
		}
	}
	rec(0, nil)
	return res
}

func singles(v []beh) [][]beh {
	r := make([][]beh, len(v))
	for i, b := range v {
		r[i] = []beh{b}
	}
	return r
}

// Sequential merge + concurrent_calls > 1 over real http proxies can crash the process in the
// unrepaired tree (finding reported with this check: the last attempt of the concurrent stage
// works on the caller's *Request, which sequentialRequestPart overwrites once the stage has
// returned on the first complete answer -> nil URL in proxy/http.go).  A panic in a goroutine
// started by lura cannot be recovered here, so that combination is driven with proxy stubs
// unless --extra seq-conc-http asks for it (used to validate fixes/C04-*.diff).
var allowSeqConcHTTP bool

func fix(s spec) spec {
	if s.http && s.seq && s.multi() && !allowSeqConcHTTP {
		for _, a := range s.backends {
			if len(a) > 1 {
				s.http = false
			}
		}
	}
	if s.http {
		for _, a := range s.backends {
			for j, x := range a {
				if x == bIncomplete {
					a[j] = bAnswer
				}
				if x == bNil {
					a[j] = bFail
				}
			}
		}
	} else {
		s.noop = false
	}
	if s.noop && (s.multi() || len(s.backends[0]) != 1) {
		s.noop = false
	}
	if needsParent(s) && s.parent == 0 {
		s.parent = s.T / 2
	}
	return s
}

func generate(cfg out.Config, r *rng.R) []spec {
	var specs []spec
	add := func(s spec) { specs = append(specs, fix(s)) }
	T1, T2 := 120*time.Millisecond, 300*time.Millisecond
	Ts := []time.Duration{T1, T2}
	if cfg.Thorough() {
		Ts = append(Ts, time.Second, 100000007*time.Nanosecond)
	}
	levels := []string{"LProxy", "LGin", "LMux"}

	// 1. regression corpus: the shapes of the suite's three timing tests and the mixes under
	// which a dropped cancel / unbuffered channel / detached context shows
	corpus := []spec{
		{level: "LProxy", T: T1, backends: [][]beh{{bAnswer}, {bHang}}},
		{level: "LProxy", T: T1, backends: [][]beh{{bHang}, {bHang}, {bAnswer}}},
		{level: "LProxy", T: T1, backends: [][]beh{{bLate}, {bLate}}},
		{level: "LProxy", T: T1, backends: [][]beh{{bAnswer, bHang}}},
		{level: "LProxy", T: T1, backends: [][]beh{{bAnswer, bLate, bLate}}},
		{level: "LProxy", T: T1, backends: [][]beh{{bHang, bHang, bHang}}},
		{level: "LProxy", T: T1, seq: true, backends: [][]beh{{bFail}, {bAnswer}}},
		{level: "LProxy", T: T1, seq: true, backends: [][]beh{{bAnswer}, {bHang}, {bAnswer}}},
		{level: "LProxy", T: T1, seq: true, backends: [][]beh{{bSlow}, {bHang, bHang}}},
		{level: "LProxy", T: T1, seq: true, backends: [][]beh{{bSlow}, {bSlow}, {bAnswer, bHang}}},
		{level: "LProxy", T: T1, parent: T1 / 2, backends: [][]beh{{bHang}, {bAnswer, bHang}}},
		{level: "LProxy", T: T1, parent: T1 / 2, backends: [][]beh{{bHang, bLate}}},
		{level: "LProxy", T: T1, parent: T1 + 2*time.Second, backends: [][]beh{{bHang}, {bLate}}},
		{level: "LMux", T: T1, backends: [][]beh{{bHang}}},
		{level: "LGin", T: T1, backends: [][]beh{{bHang}}},
		{level: "LGin", T: T1, backends: [][]beh{{bAnswer}, {bHang}}},
		{level: "LMux", T: T1, parent: T1 / 2, backends: [][]beh{{bAnswer}, {bHang, bHang}}},
		{level: "LMux", T: T1, seq: true, backends: [][]beh{{bSlow}, {bAnswer, bHang}}},
		{level: "LGin", T: T1, http: true, noop: true, backends: [][]beh{{bAnswer}}},
		{level: "LMux", T: T1, http: true, noop: true, backends: [][]beh{{bAnswer}}},
		{level: "LProxy", T: T1, http: true, noop: true, backends: [][]beh{{bAnswer}}},
		{level: "LProxy", T: T1, http: true, backends: [][]beh{{bAnswer}, {bLate}}},
		{level: "LGin", T: T1, http: true, backends: [][]beh{{bAnswer, bHang}, {bFail}}},
	}
	for _, s := range corpus {
		s.group = "corpus"
		add(s)
	}

	// 2. exhaustive small scope, proxy level: every vector of the six behaviours over n
	// backends (parallel and sequential), every multiset over the attempts of one backend
	maxN := 3
	if cfg.Thorough() {
		maxN = 4
	}
	for n := 2; n <= maxN; n++ {
		for _, seq := range []bool{false, true} {
			for _, v := range vectors(n, 6) {
				add(spec{level: "LProxy", seq: seq, T: T1, backends: singles(v), group: "exhaustive-vector"})
			}
		}
	}
	for _, b := range vectors(1, 7) {
		add(spec{level: "LProxy", T: T1, backends: singles(b), group: "exhaustive-single"})
		add(spec{level: "LGin", T: T1, backends: singles(b), group: "exhaustive-single"})
		add(spec{level: "LMux", T: T1, backends: singles(b), group: "exhaustive-single"})
	}
	for cc := 2; cc <= 3; cc++ {
		for _, m := range multisets(cc, 7) {
			add(spec{level: "LProxy", T: T1, backends: [][]beh{m}, group: "exhaustive-attempts"})
			add(spec{level: levels[1+len(specs)%2], T: T1, backends: [][]beh{append([]beh(nil), m...)}, group: "exhaustive-attempts"})
		}
	}
	// every vector for two backends behind both routers, and with an earlier / later deadline
	// of the context handed in
	for _, v := range vectors(2, 6) {
		for _, seq := range []bool{false, true} {
			add(spec{level: "LGin", seq: seq, T: T1, backends: singles(v), group: "exhaustive-router"})
			add(spec{level: "LMux", seq: seq, T: T1, backends: singles(v), group: "exhaustive-router"})
			add(spec{level: "LProxy", seq: seq, T: T1, parent: T1 / 2, backends: singles(v), group: "exhaustive-parent"})
			add(spec{level: "LMux", seq: seq, T: T1, parent: T1 / 2, backends: singles(v), group: "exhaustive-parent"})
			add(spec{level: "LProxy", seq: seq, T: T1, parent: T1 + time.Second, backends: singles(v), group: "exhaustive-parent"})
		}
	}

	// 3. structured random: shapes x concurrent_calls 1..3 x behaviours x timeouts x parents x levels
	nr := 900
	if cfg.Thorough() {
		nr = 12000
	}
	for k := 0; k < nr; k++ {
		s := spec{group: "random"}
		s.level = levels[r.Intn(3)]
		s.T = Ts[r.Intn(len(Ts))]
		if r.Chance(1, 8) {
			s.T = time.Duration(100000000 + r.Intn(200000000)) // odd nanosecond counts
		}
		n := 1 + r.Intn(4)
		s.seq = n > 1 && r.Chance(2, 5)
		s.http = r.Chance(1, 5)
		s.noop = s.http && r.Chance(1, 2)
		switch r.Intn(4) {
		case 0:
			s.parent = s.T / 2
		case 1:
			s.parent = s.T + time.Duration(1+r.Intn(1500))*time.Millisecond
		}
		waiting := 0
		for i := 0; i < n; i++ {
			cc := 1
			if r.Chance(2, 5) {
				cc = 2 + r.Intn(2)
			}
			a := make([]beh, cc)
			for j := range a {
				switch {
				case r.Chance(2, 5):
					a[j] = bAnswer
				case r.Chance(1, 2) && waiting < 6:
					a[j] = []beh{bHang, bLate, bHang, bSlow}[r.Intn(4)]
					waiting++
				default:
					a[j] = []beh{bIncomplete, bFail, bNil, bFail}[r.Intn(4)]
				}
			}
			s.backends = append(s.backends, a)
		}
		add(s)
	}
	return specs
}

func main() {
	cfg := out.ParseFlags("C04")
	allowSeqConcHTTP = true // the crash of this shape was repaired (fix: every attempt works on its own copy)
	gin.SetMode(gin.ReleaseMode)
	r := rng.New(cfg.Seed)
	w := out.NewWriter(cfg, "Verif.Corr.C04", 400)
	specs := generate(cfg, r)
	rn := &runner{ignore: map[string]bool{}, serialLeft: 96, rerunLeft: 400, rerunBudget: 15 * time.Second}
	if cfg.Thorough() {
		rn.rerunLeft, rn.rerunBudget = 4000, 120*time.Second
	}
	go heartbeat()
	for _, id := range luraGoroutines(nil) {
		rn.ignore[id] = true // whatever lura's package initialisers started
	}
	t0 := time.Now()
	if cfg.Only >= 0 {
		for i, s := range specs {
			if i == cfg.Only {
				rs := rn.runAll([]spec{s}, 1)
				emitCase(w, rs[0])
			} else {
				w.Add("", nil, "", s.canon(), false)
			}
		}
	} else {
		batch := 48
		if cfg.Thorough() {
			batch = 96
		}
		for _, res := range rn.runAll(specs, batch) {
			emitCase(w, res)
		}
	}
	w.Meta["run_wall_s"] = time.Since(t0).Seconds()
	w.Meta["batches_with_leftover_goroutines"] = rn.batchLeaks
	w.Meta["leaks_pinned_to_a_case"] = rn.attributed
	w.Meta["batches_with_leak_not_pinned_down"] = rn.unattributed
	w.Meta["reruns_because_machine_was_slow"] = rn.retries
	w.Meta["cases_still_tainted"] = rn.taintedLeft
	w.Meta["batches_with_scheduling_stall"] = rn.stalledBatches
	w.Meta["wall_time_slack_ns"] = int64(slack)
	w.Close("corpus (23 shapes) + exhaustive at proxy level: all 6^n behaviour vectors for n=2..3 backends (thorough: ..4) in parallel and in sequential mode, all 7 behaviours for a single backend at the three levels, all multisets of 7 behaviours over 2 and 3 concurrent attempts, all 6^2 vectors behind gin and mux and with an earlier/later deadline of the context handed in + structured random (1..4 backends, concurrent_calls 1..3, 3 levels, timeouts incl. odd nanosecond counts, proxy stubs or http-executor stubs incl. no-op); nontrivial = anything but all-Answer at proxy level without parent deadline", true)
}
