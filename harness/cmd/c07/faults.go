package main

// Two kinds of input the other streams do not produce:
//  - a backend url_pattern that embeds a path parameter: the generated path then carries the
//    client's value ('#', spaces, quotes, unicode ...) and the operation of the GET transport has
//    to survive next to it in the URL;
//  - a client body STREAM that fails: it delivers a prefix (possibly a complete JSON object) and
//    then returns an error. What arrived is not the client's JSON body, the call must fail
//    without contacting the backend.

import (
	"context"
	"errors"
	"io"
	"net/url"
	"strings"
)

var embeddedValues = []string{
	"acme", "acme#1", "#", "a#b#c", "acme#query=evil", "a b", "a\"b", "é漢", "\U0001F600", "a&b=c", "a=b", "a+b", "a;b", "a:b", "a@b", "a'b", "a,b", "a%20b", "a%23b", "{x}", "a\\b", "a|b", "<a>", "~a", "a$b", "a!b*",
}

func embeddedParams(g *gen) {
	patterns := []string{"/graphql/{tenant}", "/t/{tenant}/graphql", "/graphql/{tenant}#frag"}
	for _, v := range embeddedValues {
		// the URL assembly itself (what is a valid path, '?' opening a query) is C10's: only
		// values the balancer can render into a URL, and no '?'
		if _, err := url.Parse("http://h/graphql/" + v); err != nil || strings.Contains(v, "?") {
			g.w.Count("embedded:skipped")
			continue
		}
		for pi, pat := range patterns {
			if pi == 2 && !g.cfg.Thorough() && len(v)%3 != 0 {
				continue
			}
			for _, m := range []string{"get", "post"} {
				g.add("embedded-param", &scenario{query: "query Q($t: ID!) { tenant(id: $t) { name } }", name: "Q", typ: "query", method: m,
					vars: map[string]interface{}{"t": "{tenant}", "n": 1.0}, params: map[string]string{"Tenant": v}, urlPattern: pat})
			}
			g.add("embedded-param", &scenario{query: "mutation M { m }", typ: "mutation", method: "get",
				vars: map[string]interface{}{"d": "D"}, params: map[string]string{"Tenant": v}, urlPattern: pat, body: str(`{"a":"` + strings.ReplaceAll(strings.ReplaceAll(v, `\`, `\\`), `"`, `\"`) + `"}`)})
		}
	}
}

func bodyFaults(g *gen) {
	full := `{"from":"checking","amount":250,"to":"landlord"}`
	prefixes := []string{`{"from":"checking","amount":250}`, `{"from":"checking","amount":250} `, `{"from":"checking","amount":250,`, `{}`, `{`, ``, `null`, full}
	errs := []error{io.ErrUnexpectedEOF, io.ErrClosedPipe, errors.New("connection reset by peer"), context.DeadlineExceeded, io.ErrNoProgress}
	defaults := []map[string]interface{}{{"to": "savings", "memo": "rent"}, nil}
	for _, pre := range prefixes {
		for ei, e := range errs {
			for di, d := range defaults {
				for mi, m := range []string{"post", "get"} {
					if !g.cfg.Thorough() && ei > 0 && (ei+di+mi)%2 == 1 {
						continue
					}
					g.add("body-fault", &scenario{query: "mutation T { transfer }", name: "T", typ: "mutation", method: m, vars: d,
						body: str(full), fault: &bodyFault{prefix: pre, err: e}})
				}
			}
		}
	}
	// a query does not read the body: a failing stream does not matter
	g.add("body-fault", &scenario{query: "{ q }", typ: "query", method: "post", vars: map[string]interface{}{"a": "{id}"}, params: map[string]string{"Id": "1"},
		epMethod: "POST", body: str(full), fault: &bodyFault{prefix: `{"x":1}`, err: io.ErrUnexpectedEOF}})
}
