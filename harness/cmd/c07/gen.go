package main

import (
	"encoding/json"
	"fmt"
	"strings"
	"time"

	"github.com/luraproject/lura/v2/config"

	"verif/harness/internal/emit"
	"verif/harness/internal/rng"
)

// ---------------------------------------------------------------------------------------
// regression corpus: the inputs of the recorded defects and other tricky ones

var nastyStrings = []string{
	"", " ", "\"", "\\", "\\\"", "/", "\x00", "\x01\x1f", "\n\r\t\b\f", "\x7f", "%", "%41", "%zz", "100%", "+", "a b+c",
	"&=?#", "<script>&amp;</script>", "\u2028\u2029", "é", "ß漢", "\U0001F600", "\U0010FFFF", "�", "\ufeff", "{", "}", "{}", "{{.Id}}",
	"\\u00e9", "\\n", "';--", "a\"b\\c/d", "query { user(id: \"1\") { name } }", "\u0000ÿĀ￿",
}

func corpus(g *gen) {
	// F-C17 / F-C07: string variables "" and "{}" are plain values (used to panic)
	for _, typ := range []string{"query", "mutation"} {
		for _, m := range []string{"", "get"} {
			for _, v := range []string{"", "{}", "{", "}", "{a}"} {
				g.add("corpus", &scenario{query: "{ q }", typ: typ, method: m, vars: map[string]interface{}{"a": v},
					params: map[string]string{"A": "pa"}, body: str(`{"k":1}`)})
			}
		}
	}
	// F-C07: the GET transport carries the operation (URL rendered after the GraphQL stage)
	g.add("corpus", &scenario{query: "query Q($id: ID!) { user(id: $id) { name } }", name: "Q", typ: "query", method: "get",
		vars: map[string]interface{}{"id": "{id}", "n": 1.5}, params: map[string]string{"Id": "42"}})
	g.add("corpus", &scenario{query: "mutation M { m }", name: "M", typ: "mutation", method: "GET",
		vars: map[string]interface{}{"d": true}, body: str(`{"x":"y z&"}`)})
	// GET transport behind backend filters and next to client headers / query strings
	g.add("corpus", &scenario{query: "{ q }", typ: "query", method: "get", vars: map[string]interface{}{"a": "{id}"},
		params: map[string]string{"Id": "1"}, qsAllow: []string{"page"}, hdrAllow: []string{"X-A"},
		cquery: map[string][]string{"page": {"2"}, "drop": {"x"}}, chdrs: map[string][]string{"X-A": {"1"}, "X-B": {"2"}, "Content-Type": {"text/plain"}}})
	g.add("corpus", &scenario{query: "{ q }", typ: "query", method: "post", vars: map[string]interface{}{"a": "{id}"},
		params: map[string]string{"Id": "1"}, qsAllow: []string{"page"}, hdrAllow: []string{"X-A", "content-type"},
		cquery: map[string][]string{"page": {"2", "3"}}, chdrs: map[string][]string{"X-A": {"1"}, "Content-Type": {"text/plain"}, "Content-Length": {"999"}}})
	// F-C07b: mutation bodies that are not objects: null, empty, blank, none
	for _, m := range []string{"post", "get"} {
		for _, vars := range []map[string]interface{}{nil, {}, {"d": 7.0}, {"d": "{id}", "e": nil}} {
			for _, b := range []*string{nil, str(""), str(" \n\t"), str("null"), str(" null\n"), str("nul"), str("NULL")} {
				g.add("corpus", &scenario{query: "mutation { m }", typ: "mutation", method: m, vars: vars, body: b, params: map[string]string{"Id": "p"}})
			}
		}
	}
	// numbers of a mutation body
	for _, b := range []string{
		`{"id":9007199254740993}`, `{"id":9007199254740992}`, `{"a":12345678901234567890}`, `{"y":1e400}`, `{"y":-1e-400}`,
		`{"z":1.0,"w":1e2,"v":1E+2,"u":100,"t":-0,"s":0.0,"r":-0.0e5}`, `{"p":0.1000000000000000055}`, `{"p":0.1}`,
		`{"q":[1.5,{"n":123456789012345678}]}`, `{"big":1.7976931348623157e308,"small":5e-324}`, `{"m":2.5e-3,"n":25e-4}`,
	} {
		for _, m := range []string{"post", "get"} {
			g.add("corpus", &scenario{query: "mutation { m }", typ: "mutation", method: m, vars: map[string]interface{}{"d": 7.0}, body: str(b)})
		}
	}
	// a client query string that collides with the operation's parameters (GET transport)
	for _, k := range []string{"query", "operationName", "variables"} {
		g.add("corpus", &scenario{query: "{ configured }", name: "Op", typ: "query", method: "get", vars: map[string]interface{}{"a": 1.0},
			cquery: map[string][]string{k: {"client-chosen"}}})
		g.add("corpus", &scenario{query: "{ configured }", name: "Op", typ: "query", method: "get", vars: map[string]interface{}{"a": 1.0},
			cquery: map[string][]string{k: {"client-chosen"}, "page": {"1"}}, qsAllow: []string{"page"}})
	}
	// ... and names the operation does not set (no operation name, no variables)
	g.add("corpus", &scenario{query: "{ configured }", typ: "query", method: "get", vars: map[string]interface{}{"a": 1.0},
		cquery: map[string][]string{"operationName": {"client-chosen"}}})
	g.add("corpus", &scenario{query: "{ configured }", name: "Op", typ: "query", method: "get",
		cquery: map[string][]string{"variables": {`{"x":1}`}}})
	g.add("corpus", &scenario{query: "mutation { m }", typ: "mutation", method: "get", body: str(`{}`),
		cquery: map[string][]string{"variables": {`{"x":1}`}, "operationName": {"c"}, "query": {"{ c }"}}})
	g.add("corpus", &scenario{query: "mutation { m }", typ: "mutation", method: "get", body: str(`{"b":1}`),
		cquery: map[string][]string{"variables": {`{"x":1}`}, "query": {"{ c }", "{ d }"}}})
	g.add("corpus", &scenario{query: "{ configured }", typ: "query", method: "get",
		cquery: map[string][]string{"variables": {`{"x":1}`}, "operationName": {"c"}, "page": {"1"}}, qsAllow: []string{"page", "query"}})
	// every nasty string in every position
	for i, s := range nastyStrings {
		for _, m := range []string{"post", "get"} {
			g.add("corpus", &scenario{query: "q " + s, name: s, typ: "query", method: m,
				vars:   map[string]interface{}{"p": "{id}", "lit": s, "k" + s: []interface{}{s, map[string]interface{}{s: s}}},
				params: map[string]string{"Id": s, "Other": nastyStrings[(i+1)%len(nastyStrings)]}})
			b, _ := json.Marshal(map[string]interface{}{"s": s, "k" + s: []interface{}{s}})
			g.add("corpus", &scenario{query: "mutation " + s, name: s, typ: "mutation", method: m,
				vars: map[string]interface{}{"lit": s, "s": "default"}, body: str(string(b))})
		}
	}
	// type / method spelling
	for _, typ := range []string{"Query", "QUERY", "Mutation", "MUTATION"} {
		for _, m := range []string{"", "GET", "Get", "post", "POST", "put", "delete"} {
			g.add("corpus", &scenario{query: "{ q }", name: "N", typ: typ, method: m, vars: map[string]interface{}{"a": "{id}"},
				params: map[string]string{"Id": "7"}, body: str(`{"b":2}`), epMethod: []string{"GET", "POST", "PUT"}[len(m)%3]})
		}
	}
}

// ---------------------------------------------------------------------------------------
// exhaustive small scope

var valueShapes = []interface{}{
	"", "{}", "{", "}", "{a}", "{A}", "{aB}", "{id}", "{Id}", "{ID}", "{iD}", "{{id}}", "{id", "id}", "x{id}", "{id}x", " {id}", "{i}", "{1a}", "{_x}", "{-}", "{é}", "{ }", "{}}", "{{}", "plain",
	1.5, true, nil, []interface{}{"{id}"}, map[string]interface{}{"k": "{id}"},
}

var paramSets = []map[string]string{
	{},
	{"Id": "V-Id", "A": "V-A", "AB": "V-AB", "I": "V-I", "1a": "V-1a", "_x": "V-_x", "-": "V--", "é": "V-é", "{id}": "V-braced", " ": "V-space", "}": "V-}", "{": "V-{", "ID": "V-ID", "ID2": "no"},
	{"id": "raw-id", "a": "raw-a", "aB": "raw-aB", "i": "raw-i", "iD": "raw-iD"},
	{"Id": "cap", "id": "raw", "A": "capA", "a": "rawa", "Ab": "wholeAb", "AB": "capAB"},
}

var bodies = []string{
	`{}`, ` { } `, `{"a":1}`, `{"a":null}`, `{"a":"{id}"}`, `{"b":"x","a":[1,2,{"c":null}]}`, `{"d":{"e":{"f":[]}}}`, `{"a":1,"a":2}`, `{"":""}`,
	`{"dflt":"client wins"}`, `{"dflt":null}`, `{"Dflt":"other case"}`, `{"a":true,"b":false,"c":"é😀\u2028"}`,
	`[]`, `[{"a":1}]`, `1`, `-1.5e3`, `"s"`, `"{}"`, `true`, `false`, `null`,
	``, ` `, `{`, `{"a"`, `{"a":`, `{"a":1`, `{"a":1,}`, `{"a":1} x`, `{"a":1}{"b":2}`, `{'a':1}`, "\ufeff{}", `{"a":01}`,
}

var defaultSets = []map[string]interface{}{
	nil, {}, {"dflt": "D"}, {"dflt": "{id}", "a": 9.0, "n": nil, "o": map[string]interface{}{"x": []interface{}{1.0}}},
}

func smallScope(g *gen) {
	for _, v := range valueShapes {
		for _, typ := range []string{"query", "mutation"} {
			for _, m := range []string{"post", "get"} {
				for pi, ps := range paramSets {
					for _, name := range []string{"", "Op"} {
						if !g.cfg.Thorough() && typ == "mutation" && (pi%2 == 1 || name == "") {
							continue // mutations do not read the parameters: half of them in the quick tier
						}
						g.add("small", &scenario{query: "{ q }", name: name, typ: typ, method: m,
							vars: map[string]interface{}{"v": v, "w": "{a}"}, params: ps, body: str(`{"c":"{id}"}`)})
					}
				}
			}
		}
	}
	for _, b := range bodies {
		for _, d := range defaultSets {
			for _, m := range []string{"post", "get"} {
				g.add("small", &scenario{query: "mutation { m }", typ: "mutation", method: m, vars: d, body: str(b), params: map[string]string{"Id": "P"}})
			}
		}
	}
}

// ---------------------------------------------------------------------------------------
// config.ServiceConfig.Init: the key generated for a path parameter name

func initKey(name string) (key string, ok bool) {
	defer func() {
		if recover() != nil {
			ok = false
		}
	}()
	svc := config.ServiceConfig{Version: config.ConfigVersion, Timeout: time.Second, Host: []string{"http://h"}}
	ep := &config.EndpointConfig{Endpoint: "/x/{" + name + "}", Method: "GET",
		Backend: []*config.Backend{{URLPattern: "/b/{" + name + "}"}}}
	svc.Endpoints = []*config.EndpointConfig{ep}
	if err := svc.Init(); err != nil {
		return "", false
	}
	if len(ep.Backend[0].URLKeys) != 1 {
		return "", false
	}
	return ep.Backend[0].URLKeys[0], true
}

const nameAlphabet = "abcxyzABCXYZ019_-"

func capCases(g *gen) {
	add := func(name string) {
		key, ok := initKey(name)
		if !ok {
			g.w.Count("cap:rejected-by-init")
			return
		}
		g.w.Count("cap:names")
		g.w.Add(emit.App("CCap", emit.Str(name), emit.Str(key)),
			map[string]interface{}{"stream": "cap", "name": name, "observed": map[string]interface{}{"config_key": key}}, "", "C|"+name, name[0] >= 'a' && name[0] <= 'z')
	}
	for c := 0; c < 128; c++ {
		ch := byte(c)
		if ch >= 'a' && ch <= 'z' || ch >= 'A' && ch <= 'Z' || ch >= '0' && ch <= '9' || ch == '_' || ch == '-' {
			add(string(ch))
			add(string(ch) + "bC")
		}
	}
	n := 40
	if g.cfg.Thorough() {
		n = 400
	}
	for i := 0; i < n; i++ {
		l := 1 + g.r.Intn(6)
		var b strings.Builder
		for j := 0; j < l; j++ {
			b.WriteByte(nameAlphabet[g.r.Intn(len(nameAlphabet))])
		}
		add(b.String())
	}
}

// ---------------------------------------------------------------------------------------
// random

var pieces = []string{
	"\"", "\\", "/", "\x00", "\x01", "\x08", "\x0c", "\n", "\r", "\t", "\x1f", "\x7f", "%", "%41", "%2", "+", "&", "=", "?", "#", " ", "<", ">", "'",
	"\u2028", "\u2029", "é", "ß", "漢", "\U0001F600", "\U0010FFFF", "�", "\ufeff", "\u0080", "߿", "ࠀ", "￿", "\U00010000",
	"{", "}", "{id}", "{{.Id}}", "\\u0041", "\\n", "$id", "query", "null", ":", ",", "[", "]",
}

func rstring(r *rng.R) string {
	switch r.Intn(10) {
	case 0:
		return ""
	case 1:
		return nastyStrings[r.Intn(len(nastyStrings))]
	}
	var b strings.Builder
	n := r.Intn(7)
	for i := 0; i < n; i++ {
		if r.Chance(1, 2) {
			b.WriteString(pieces[r.Intn(len(pieces))])
		} else {
			b.WriteByte(byte(0x20 + r.Intn(0x5f)))
		}
	}
	return b.String()
}

var paramNames = []string{"id", "Id", "userName", "a", "A", "x1", "_u", "n-m", "ID"}

func capName(n string) string {
	c := n[0]
	if c >= 'a' && c <= 'z' {
		c -= 32
	}
	return string(c) + n[1:]
}

func rplaceholderish(r *rng.R) string {
	n := paramNames[r.Intn(len(paramNames))]
	switch r.Intn(8) {
	case 0:
		return "{" + n
	case 1:
		return n + "}"
	case 2:
		return "{" + rstring(r) + "}"
	case 3:
		return "{{" + n + "}}"
	}
	return "{" + n + "}"
}

func rnumber(r *rng.R) float64 {
	switch r.Intn(6) {
	case 0:
		return float64(r.Intn(100))
	case 1:
		return -float64(r.Intn(100000)) / 8
	case 2:
		return float64(r.U64()>>11) * 1e3
	case 3:
		return 1e21 * float64(1+r.Intn(9))
	case 4:
		return 1e-7 * float64(1+r.Intn(9))
	}
	return float64(int64(r.U64()>>12)) / 1024
}

func rvalue(r *rng.R, depth int) interface{} {
	k := r.Intn(9)
	if depth <= 0 && k >= 7 {
		k = r.Intn(7)
	}
	switch k {
	case 0, 1:
		return rstring(r)
	case 2, 3:
		return rplaceholderish(r)
	case 4:
		return rnumber(r)
	case 5:
		return r.Bool()
	case 6:
		return nil
	case 7:
		n := r.Intn(4)
		l := make([]interface{}, n)
		for i := range l {
			l[i] = rvalue(r, depth-1)
		}
		return l
	}
	n := r.Intn(4)
	m := map[string]interface{}{}
	for i := 0; i < n; i++ {
		m[rkey(r)] = rvalue(r, depth-1)
	}
	return m
}

func rkey(r *rng.R) string {
	if r.Chance(2, 3) {
		return []string{"a", "b", "id", "input", "first", "after", "Id", "dflt"}[r.Intn(8)]
	}
	return rstring(r)
}

func rvars(r *rng.R) map[string]interface{} {
	if r.Chance(1, 12) {
		return nil
	}
	n := r.Intn(5)
	m := map[string]interface{}{}
	for i := 0; i < n; i++ {
		m[rkey(r)] = rvalue(r, 2)
	}
	return m
}

func rparams(r *rng.R) map[string]string {
	m := map[string]string{}
	for _, n := range paramNames {
		switch r.Intn(4) {
		case 0:
			m[capName(n)] = rstring(r)
		case 1:
			m[capName(n)] = "v:" + n
		case 2:
			m[n] = "raw:" + n // a key the routers never produce for a lower-case name
		}
	}
	return m
}

// a JSON text for a random value, numbers with literal forms encoding/json itself would not print
func rjsonText(r *rng.R, v interface{}) string {
	switch x := v.(type) {
	case float64:
		switch r.Intn(5) {
		case 0:
			return fmt.Sprintf("%d.0", int64(x)%1000)
		case 1:
			return fmt.Sprintf("%de%d", 1+r.Intn(99), r.Intn(5))
		case 2:
			return fmt.Sprintf("%d", r.U64()>>uint(r.Intn(30))) // up to 64 bits: may not fit a float64
		case 3:
			return fmt.Sprintf("0.%d", r.U64()>>uint(r.Intn(60)))
		}
		b, _ := json.Marshal(x)
		return string(b)
	case []interface{}:
		parts := make([]string, len(x))
		for i, e := range x {
			parts[i] = rjsonText(r, e)
		}
		return "[" + strings.Join(parts, ", ") + "]"
	case map[string]interface{}:
		parts := []string{}
		for _, k := range sortedKeys(x) {
			kb, _ := json.Marshal(k)
			parts = append(parts, string(kb)+" : "+rjsonText(r, x[k]))
		}
		return "{" + strings.Join(parts, ",") + "}"
	}
	b, _ := json.Marshal(v)
	return string(b)
}

func rbody(r *rng.R) *string {
	switch r.Intn(14) {
	case 0:
		return nil
	case 1:
		return str(bodies[r.Intn(len(bodies))])
	case 2:
		return str(rjsonText(r, rvalue(r, 2))) // any JSON value
	}
	n := r.Intn(5)
	m := map[string]interface{}{}
	for i := 0; i < n; i++ {
		m[rkey(r)] = rvalue(r, 2)
	}
	return str(rjsonText(r, m))
}

func random(g *gen) {
	n := 900
	if g.cfg.Thorough() {
		n = 12000
	}
	r := g.r.Sub()
	for i := 0; i < n; i++ {
		sc := &scenario{
			query:  []string{"{ q }", "query Q($id: ID!) { user(id: $id) { name } }"}[r.Intn(2)],
			typ:    []string{"query", "mutation", "Query", "MUTATION"}[r.Intn(4)],
			method: []string{"", "get", "post", "GET", "POST", "patch"}[r.Intn(6)],
			vars:   rvars(r),
			params: rparams(r),
			body:   rbody(r),
		}
		if r.Chance(1, 2) {
			sc.query = rstring(r)
		}
		if r.Chance(1, 2) {
			sc.name = rstring(r)
		}
		if r.Chance(1, 4) {
			sc.cquery = map[string][]string{"page": {rstring(r)}, "q": {"1", "2"}}
			if r.Chance(1, 3) {
				sc.cquery[[]string{"query", "operationName", "variables"}[r.Intn(3)]] = []string{rstring(r)}
			}
			if r.Chance(1, 2) {
				sc.qsAllow = []string{"page"}
			}
		}
		if r.Chance(1, 4) {
			sc.chdrs = map[string][]string{"X-A": {"1"}, "Content-Type": {"text/plain"}, "Authorization": {"t"}}
			if r.Chance(1, 2) {
				sc.hdrAllow = [][]string{{"X-A"}, {"authorization", "Content-Type"}, {"Content-Length"}}[r.Intn(3)]
			}
		}
		sc.epMethod = []string{"GET", "POST", "PUT"}[r.Intn(3)]
		g.add("random", sc)
	}
}

// ---------------------------------------------------------------------------------------
// malformed client bodies: truncations, trailing data, random bytes

func malformed(g *gen) {
	n := 150
	if g.cfg.Thorough() {
		n = 2500
	}
	r := g.r.Sub()
	for i := 0; i < n; i++ {
		base := rjsonText(r, map[string]interface{}{rkey(r): rvalue(r, 2), "k": rvalue(r, 1)})
		var b string
		switch r.Intn(6) {
		case 0:
			b = base[:r.Intn(len(base)+1)]
		case 1:
			b = base + []string{" x", "}", "null", ",", "\x00", " {}"}[r.Intn(6)]
		case 2:
			p := r.Intn(len(base))
			b = base[:p] + []string{"'", "\"", "\\", "\x01", "}", "{", ","}[r.Intn(7)] + base[p:]
		case 3:
			l := r.Intn(8)
			bb := make([]byte, l)
			for j := range bb {
				const al = " \t\n{}[]\":,0nulltrue"
				bb[j] = al[r.Intn(len(al))]
			}
			b = string(bb)
		case 4:
			b = strings.Repeat(" ", r.Intn(3)) + []string{"null", "[]", "0", "\"\"", "true", "{}"}[r.Intn(6)] + strings.Repeat("\n", r.Intn(3))
		case 5:
			b = strings.Replace(base, ":", []string{"=", "::", ""}[r.Intn(3)], 1)
		}
		g.add("malformed", &scenario{query: "mutation { m }", typ: "mutation", method: []string{"post", "get"}[r.Intn(2)],
			vars: defaultSets[r.Intn(len(defaultSets))], body: str(b)})
	}
}

// ---------------------------------------------------------------------------------------
// arbitrary byte strings (valid UTF-8 or not) at every place a string travels through

var bytePlaces = []string{"param-post", "param-get", "query-post", "query-get", "name-post", "name-get", "value-post", "value-get", "key-post", "body-post"}

func member(v interface{}, k string) (interface{}, bool) {
	m, ok := v.(map[string]interface{})
	if !ok {
		return nil, false
	}
	x, ok := m[k]
	return x, ok
}

// the string the backend received at the place, "<none>" when there is no such string
func observeAt(place, s string) string {
	parts := strings.Split(place, "-")
	what, tr := parts[0], parts[1]
	sc := &scenario{query: "{ q }", name: "N", typ: "query", method: tr, epMethod: "GET", params: map[string]string{}}
	switch what {
	case "param":
		sc.vars = map[string]interface{}{"v": "{id}"}
		sc.params["Id"] = s
	case "query":
		sc.query = s
	case "name":
		sc.name = s
	case "value":
		sc.vars = map[string]interface{}{"v": s}
	case "key":
		sc.vars = map[string]interface{}{s: true}
	case "body":
		sc.typ, sc.epMethod = "mutation", "POST"
		sc.body = str(`{"v":"` + s + `"}`)
	}
	o, _ := execute(sc)
	if o.kind != "sent" {
		return "<none:" + o.kind + ">"
	}
	var q, name string
	var vars interface{}
	if tr == "post" {
		qv, _ := member(o.s.body, "query")
		q, _ = qv.(string)
		nv, _ := member(o.s.body, "operationName")
		name, _ = nv.(string)
		vars, _ = member(o.s.body, "variables")
	} else {
		if len(o.s.q) == 1 {
			q = o.s.q[0]
		}
		if len(o.s.name) == 1 {
			name = o.s.name[0]
		}
		if len(o.s.vars) == 1 {
			vars = o.s.vars[0]
		}
	}
	switch what {
	case "query":
		return q
	case "name":
		return name
	case "key":
		if m, ok := vars.(map[string]interface{}); ok && len(m) == 1 {
			for k := range m {
				return k
			}
		}
		return "<none>"
	}
	if v, ok := member(vars, "v"); ok {
		if x, ok := v.(string); ok {
			return x
		}
	}
	return "<none>"
}

func usableAt(place, s string) bool {
	switch place {
	case "name-post", "name-get":
		return s != "" // an empty operation name is omitted
	case "value-post", "value-get":
		return !(len(s) > 2 && s[0] == '{' && s[len(s)-1] == '}')
	case "body-post":
		for i := 0; i < len(s); i++ {
			if s[i] < 0x20 || s[i] == '"' || s[i] == '\\' {
				return false
			}
		}
	}
	return true
}

var byteSeqs = []string{
	"\xc2\x80", "\xdf\xbf", "\xc1\xbf", "\xc0\x80", "\xc2", "\xc2\x7f", "\xc2\xc0", "\xe0\xa0\x80", "\xe0\x9f\xbf", "\xe0\x80\x80", "\xe0\xa0", "\xe1\x80\x80",
	"\xec\xbf\xbf", "\xed\x9f\xbf", "\xed\xa0\x80", "\xed\xbf\xbf", "\xee\x80\x80", "\xef\xbf\xbd", "\xef\xbf\xbf", "\xef\xbf", "\xf0\x90\x80\x80", "\xf0\x8f\xbf\xbf",
	"\xf0\x9f\x98\x80", "\xf0\x9f\x98", "\xf0\x9f", "\xf3\xbf\xbf\xbf", "\xf4\x8f\xbf\xbf", "\xf4\x90\x80\x80", "\xf5\x80\x80\x80", "\xf8\x88\x80\x80\x80", "\xff\xfe", "\xfe\xff",
	"\x80", "\xbf", "\x80\x80", "a\xffb", "\"\xff\\", "%\xff%41", "\x00\xff\x1f", "\xc3\xa9\xc3", "\xc3\xc3\xa9", "\xe2\x80\xa8\xe2\x80", "\xed\xa0\xbd\xed\xb8\x80", "{\xff}", "\xc3{\xa9}",
}

const byteAlphabet = "\x00\x22\x5c\x25\x7f\x80\xbf\xc0\xc1\xc2\xdf\xe0\xa0\x9f\xed\xef\xf0\x90\x8f\xf4\xf5\xffAz{}"

func bytesCases(g *gen) {
	add := func(place, s string) {
		if !usableAt(place, s) {
			return
		}
		obs := observeAt(place, s)
		g.w.Count("bytes:" + place)
		if !validUTF8(s) {
			g.w.Count("bytes:invalid-utf8")
		}
		g.w.Add(emit.App("CBytes", emit.Str(place), emit.Str(s), emit.Str(obs)),
			map[string]interface{}{"stream": "bytes", "place": place, "string": fmt.Sprintf("%q", s), "observed": map[string]interface{}{"received": fmt.Sprintf("%q", obs)}},
			"", "B|"+place+"|"+s, !validUTF8(s))
	}
	esc := func(s string) {
		b, err := json.Marshal(s)
		if err != nil || len(b) < 2 {
			return
		}
		enc := string(b[1 : len(b)-1])
		g.w.Count("bytes:escape")
		g.w.Add(emit.App("CEscape", emit.Str(s), emit.Str(enc)),
			map[string]interface{}{"stream": "escape", "string": fmt.Sprintf("%q", s), "observed": map[string]interface{}{"json": enc}}, "", "X|"+s, true)
	}
	for c := 0; c <= 0xff; c++ {
		esc(string([]byte{byte(c)}))
		esc("a" + string([]byte{byte(c)}) + "\xe2\x80")
	}
	for _, s := range nastyStrings {
		esc(s)
	}
	for _, s := range byteSeqs {
		esc(s)
		esc(s + s)
	}
	for c := 0x80; c <= 0xff; c++ {
		s := string([]byte{byte(c)})
		add("param-post", s)
		add("query-get", "q"+s)
		if g.cfg.Thorough() {
			for _, p := range bytePlaces {
				add(p, "x"+s+"y")
			}
		}
	}
	for i, s := range byteSeqs {
		for j, p := range bytePlaces {
			if g.cfg.Thorough() || (i+j)%2 == 0 {
				add(p, s)
			}
		}
	}
	n := 150
	if g.cfg.Thorough() {
		n = 2500
	}
	r := g.r.Sub()
	for i := 0; i < n; i++ {
		l := 1 + r.Intn(7)
		b := make([]byte, l)
		for j := range b {
			if r.Chance(1, 5) {
				b[j] = byte(r.Intn(256))
			} else {
				b[j] = byteAlphabet[r.Intn(len(byteAlphabet))]
			}
		}
		add(bytePlaces[r.Intn(len(bytePlaces))], string(b))
		esc(string(b))
	}
}

// ---------------------------------------------------------------------------------------
// end to end through the gin router: the path parameters come from the request path, under
// the names the router stores them

func e2eCases(g *gen) {
	n := 60
	if g.cfg.Thorough() {
		n = 1500
	}
	r := g.r.Sub()
	vals := append([]string{"42", "a b", "%", "%41", "x?y=1", "#f", "\"q\"", "\\", "é漢", "\U0001F600", "{id}", "{{.Id}}", "\x01", "+", "&", "a=b", "'", "<>", " ", ":", ";", ","}, nastyStrings...)
	for i := 0; i < n; i++ {
		v1, v2 := vals[r.Intn(len(vals))], vals[r.Intn(len(vals))]
		if i < len(vals) {
			v1 = vals[i]
		}
		if r.Chance(1, 3) {
			v2 = rstring(r)
		}
		typ := []string{"query", "mutation"}[r.Intn(2)]
		sc := &scenario{
			query: "query Q { q }", name: []string{"", "Q"}[r.Intn(2)], typ: typ, method: []string{"post", "get"}[r.Intn(2)],
			vars:   map[string]interface{}{"a": "{id}", "b": "{userName}", "c": "{UserName}", "d": "{ID}", "e": "{username}", "lit": v1, "n": 1.5},
			params: map[string]string{"Id": v1, "UserName": v2},
		}
		if typ == "mutation" {
			sc.epMethod = "POST"
			sc.body = rbody(r)
		} else {
			sc.epMethod = "GET"
		}
		o, be, routed := executeGin(sc, "id", "userName", v1, v2)
		if !routed {
			g.w.Count("e2e:not-routed")
			continue
		}
		term := caseTerm(sc, be, o)
		js := sc.js()
		js["stream"] = "e2e-gin"
		js["observed"] = o.js()
		g.w.Count("stream:e2e-gin")
		g.w.Count("outcome:" + o.kind)
		g.w.Add(term, js, "", "E|"+sc.canon(), true)
	}
}
