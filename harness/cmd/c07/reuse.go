package main

// Instance reuse: ONE default backend stack built for a GraphQL configuration serves a sequence
// of different requests (and, in the concurrent part, requests from several goroutines at
// once).  State hoisted out of the per-request closure - a variables map, a generated body or a
// query built once and filled in per request - shows up as a later request carrying an
// earlier (or another in-flight) request's parameters or body.  Every step is emitted as a
// normal CStack case: the model is stateless per request.

import (
	"bytes"
	"context"
	"encoding/json"
	"fmt"
	"io"
	"net/http"
	"os"
	"os/exec"
	"sort"
	"strings"
	"sync"
	"time"

	"github.com/luraproject/lura/v2/config"
	"github.com/luraproject/lura/v2/logging"
	"github.com/luraproject/lura/v2/proxy"
	"github.com/luraproject/lura/v2/transport/http/client"
	"github.com/luraproject/lura/v2/transport/http/client/graphql"

	"verif/harness/internal/emit"
)

type recKey struct{}

type callRec struct {
	calls int
	s     sentT
}

type instance struct {
	p  proxy.Proxy
	be *config.Backend
}

// builds the stack once from the configuration part of sc (query, name, vars, type, method,
// backend filter lists, endpoint method)
func newInstance(sc *scenario) (inst *instance, pan interface{}) {
	defer func() {
		if x := recover(); x != nil {
			inst, pan = nil, x
		}
	}()
	svc := config.ServiceConfig{Version: config.ConfigVersion, Timeout: 5 * time.Second, Host: []string{"http://127.0.0.1:8081"}}
	ep := &config.EndpointConfig{Endpoint: "/x", Method: sc.epMethod}
	ep.Backend = []*config.Backend{{
		URLPattern:         "/graphql",
		ExtraConfig:        config.ExtraConfig{graphql.Namespace: gqlExtra(sc)},
		HeadersToPass:      append([]string(nil), sc.hdrAllow...),
		QueryStringsToPass: append([]string(nil), sc.qsAllow...),
	}}
	svc.Endpoints = []*config.EndpointConfig{ep}
	if err := svc.Init(); err != nil {
		panic("harness: config init: " + err.Error())
	}
	// the recorder of the call travels in the context: the executor is shared by all calls
	ex := func(ctx context.Context, req *http.Request) (*http.Response, error) {
		if r, ok := ctx.Value(recKey{}).(*callRec); ok {
			r.calls++
			r.s = record(req)
		}
		return &http.Response{StatusCode: 200, Header: http.Header{"Content-Type": {"application/json"}},
			Body: io.NopCloser(strings.NewReader(`{"data":{"ok":true}}`))}, nil
	}
	bf := func(b *config.Backend) proxy.Proxy {
		return proxy.NewHTTPProxyWithHTTPExecutor(b, client.HTTPRequestExecutor(ex), b.Decoder)
	}
	p, err := proxy.NewDefaultFactory(bf, logging.NoOp).New(ep)
	if err != nil {
		panic("harness: factory: " + err.Error())
	}
	return &instance{p: p, be: ep.Backend[0]}, nil
}

// one request (params, body, client query and headers of sc) through the shared instance
func (in *instance) call(sc *scenario) (o outcome) {
	rec := &callRec{}
	defer func() {
		if x := recover(); x != nil {
			o = outcome{kind: "panic", what: fmt.Sprint(x), calls: rec.calls}
		}
	}()
	req := &proxy.Request{Method: sc.epMethod, Params: map[string]string{}, Headers: map[string][]string{}, Query: map[string][]string{}}
	for k, v := range sc.params {
		req.Params[k] = v
	}
	for k, v := range sc.chdrs {
		req.Headers[k] = append([]string(nil), v...)
	}
	for k, v := range sc.cquery {
		req.Query[k] = append([]string(nil), v...)
	}
	if sc.body != nil {
		req.Body = io.NopCloser(strings.NewReader(*sc.body))
	}
	_, perr := in.p(context.WithValue(context.Background(), recKey{}, rec), req)
	switch {
	case rec.calls == 1:
		o = outcome{kind: "sent", s: rec.s, calls: 1}
	case rec.calls == 0 && perr != nil:
		o = outcome{kind: "failed", err: perr.Error()}
	case rec.calls == 0:
		o = outcome{kind: "odd", what: "no call and no error"}
	default:
		o = outcome{kind: "odd", what: fmt.Sprintf("%d calls", rec.calls), calls: rec.calls}
	}
	if perr != nil && o.err == "" {
		o.err = perr.Error()
	}
	return o
}

// the per-request part of a scenario
type request struct {
	params map[string]string
	body   *string
	cquery map[string][]string
	chdrs  map[string][]string
}

func (sc *scenario) with(r request) *scenario {
	c := *sc
	c.params, c.body, c.cquery, c.chdrs = r.params, r.body, r.cquery, r.chdrs
	if c.params == nil {
		c.params = map[string]string{}
	}
	return &c
}

func (g *gen) emitStep(stream string, sc *scenario, be *config.Backend, o outcome, note string) {
	term := caseTerm(sc, be, o)
	js := sc.js()
	js["stream"] = stream
	js["reuse"] = note
	js["observed"] = o.js()
	g.w.Count("stream:" + stream)
	g.w.Count("outcome:" + o.kind)
	g.w.Add(term, js, "", "R|"+stream+"|"+note+"|"+sc.canon(), true)
}

// sequential reuse: the steps in order through one instance
func (g *gen) sequence(name string, cfgSc *scenario, steps []request) {
	if cfgSc.epMethod == "" {
		cfgSc.epMethod = "GET"
		if normType(cfgSc.typ) == "TMutation" {
			cfgSc.epMethod = "POST"
		}
	}
	inst, pan := newInstance(cfgSc)
	for i, st := range steps {
		sc := cfgSc.with(st)
		var o outcome
		var be *config.Backend
		if inst == nil {
			o = outcome{kind: "panic", what: fmt.Sprint(pan)}
		} else {
			o, be = inst.call(sc), inst.be
		}
		g.emitStep("reuse-seq", sc, be, o, fmt.Sprintf("%s step %d of %d on one instance", name, i+1, len(steps)))
	}
}

var queryVars = map[string]interface{}{"a": "{id}", "b": "{name}", "c": "{id}", "lit": "L", "n": 1.5, "nested": map[string]interface{}{"k": []interface{}{"{id}"}}}
var mutationDefaults = map[string]interface{}{"dflt": "D", "keep": map[string]interface{}{"x": []interface{}{1.0}}, "ref": "{id}"}

func ps(kv ...string) map[string]string {
	m := map[string]string{}
	for i := 0; i+1 < len(kv); i += 2 {
		m[kv[i]] = kv[i+1]
	}
	return m
}

// consecutive requests differ in exactly what the property speaks of: parameters that appear,
// change, disappear; bodies with disjoint keys, keys that override a default and then do not,
// a rejected body between two accepted ones
var querySteps = []request{
	{params: ps("Id", "one", "Name", "first")},
	{params: ps("Id", "two")},
	{params: ps("Name", "third \"q\" \\ %41")},
	{params: ps()},
	{params: ps("Id", "", "Name", "é😀"), cquery: map[string][]string{"page": {"2"}}, chdrs: map[string][]string{"X-A": {"1"}}},
	{params: ps("Id", "six", "Name", "sixth")},
}

var mutationSteps = []request{
	{body: str(`{"a":1,"dflt":"client"}`)},
	{body: str(`{"b":[2,{"c":null}]}`)},
	{body: str(`null`)},
	{body: str(`{}`), params: ps("Id", "ignored")},
	{body: str(`{"keep":"overridden","z":9007199254740993}`), chdrs: map[string][]string{"Content-Type": {"text/plain"}}},
	{body: str(`{"a":`)},
	{body: str(`{"a":"last"}`), cquery: map[string][]string{"variables": {`{"x":1}`}}},
}

func reuseSequential(g *gen) {
	for _, m := range []string{"post", "get"} {
		g.sequence("query/"+m, &scenario{query: "query Q($id: ID!) { user(id: $id) { name } }", name: "Q", typ: "query", method: m, vars: queryVars}, querySteps)
		// the same, backwards: the full request first
		rev := make([]request, len(querySteps))
		for i, s := range querySteps {
			rev[len(querySteps)-1-i] = s
		}
		g.sequence("query-reversed/"+m, &scenario{query: "{ q }", typ: "query", method: m, vars: queryVars}, rev)
		g.sequence("mutation/"+m, &scenario{query: "mutation M { m }", name: "M", typ: "mutation", method: m, vars: mutationDefaults}, mutationSteps)
		g.sequence("mutation-no-defaults/"+m, &scenario{query: "mutation { m }", typ: "mutation", method: m}, mutationSteps)
		// no placeholder: graphql.New precomputes the body once - it must be the same for every request
		g.sequence("query-static/"+m, &scenario{query: "{ q }", typ: "query", method: m, vars: map[string]interface{}{"lit": "{}", "n": 2.0}}, querySteps[:4])
		// backend filters in front of the GraphQL stage
		g.sequence("query-filtered/"+m, &scenario{query: "{ q }", typ: "query", method: m, vars: queryVars, hdrAllow: []string{"X-A"}, qsAllow: []string{"page"}}, querySteps)
	}
}

func reuseRandom(g *gen) {
	n := 12
	if g.cfg.Thorough() {
		n = 300
	}
	r := g.r.Sub()
	for i := 0; i < n; i++ {
		typ := []string{"query", "mutation"}[r.Intn(2)]
		cfgSc := &scenario{query: rstring(r), name: rstring(r), typ: typ, method: []string{"post", "get"}[r.Intn(2)], vars: rvars(r)}
		if cfgSc.query == "" {
			cfgSc.query = "{ q }"
		}
		steps := make([]request, 3+r.Intn(4))
		for j := range steps {
			steps[j] = request{params: rparams(r)}
			if typ == "mutation" {
				steps[j].body = rbody(r)
			}
		}
		g.sequence(fmt.Sprintf("random-%d", i), cfgSc, steps)
	}
}

// concurrent reuse: one instance, goroutines released together, many iterations over a small
// set of distinct requests; each distinct (request, observation) pair is emitted once.
// The batches run in a child process (the same binary with --extra conc-child): unsynchronised
// shared state typically ends in the runtime's unrecoverable "concurrent map writes", which must
// not take the cases of the other streams with it - the parent then emits a Panicked case for
// the configuration.

type concCfg struct {
	name string
	sc   *scenario
	reqs []request
}

func concConfigs() []concCfg {
	var qreqs, mreqs []request
	for j := 0; j < 12; j++ {
		r := request{params: ps("Id", fmt.Sprintf("id-%d", j))}
		if j%3 != 0 {
			r.params["Name"] = fmt.Sprintf("name-%d \"%d\"", j, j)
		}
		if j%4 == 1 {
			r.cquery = map[string][]string{"page": {fmt.Sprint(j)}}
			r.chdrs = map[string][]string{"X-A": {fmt.Sprint(j)}}
		}
		qreqs = append(qreqs, r)
		body := fmt.Sprintf(`{"k%d":%d,"own":"body-%d"}`, j, j, j)
		switch j % 6 {
		case 2:
			body = fmt.Sprintf(`{"dflt":"client-%d"}`, j)
		case 4:
			body = "null"
		case 5:
			body = fmt.Sprintf(`{"k%d":`, j)
		}
		mreqs = append(mreqs, request{body: str(body), params: ps("Id", fmt.Sprint(j))})
	}
	var res []concCfg
	for _, m := range []string{"post", "get"} {
		res = append(res,
			concCfg{"query/" + m, &scenario{query: "query Q { q }", name: "Q", typ: "query", method: m, vars: queryVars, epMethod: "GET"}, qreqs},
			concCfg{"query-static/" + m, &scenario{query: "{ q }", typ: "query", method: m, vars: map[string]interface{}{"lit": "x"}, epMethod: "GET"}, qreqs[:4]},
			concCfg{"mutation/" + m, &scenario{query: "mutation M { m }", name: "M", typ: "mutation", method: m, vars: mutationDefaults, epMethod: "POST"}, mreqs})
	}
	return res
}

type concLine struct {
	Name  string                 `json:"name"`
	J     int                    `json:"j"`
	OTerm string                 `json:"oterm,omitempty"`
	OJS   map[string]interface{} `json:"ojs,omitempty"`
	Done  bool                   `json:"done,omitempty"`
}

func concSizes(thorough bool) (int, int) {
	if thorough {
		return 16, 1500
	}
	return 12, 150
}

// child: run every batch, print the distinct (request, observation) pairs as JSON lines
func concChild(thorough bool) {
	goroutines, iters := concSizes(thorough)
	enc := json.NewEncoder(os.Stdout)
	for _, c := range concConfigs() {
		inst, pan := newInstance(c.sc)
		if inst == nil {
			o := outcome{kind: "panic", what: fmt.Sprint(pan)}
			enc.Encode(concLine{Name: c.name, J: 0, OTerm: o.term(), OJS: o.js()})
			enc.Encode(concLine{Name: c.name, Done: true})
			continue
		}
		type seen struct {
			j int
			o outcome
		}
		res := make([]map[string]seen, goroutines)
		start := make(chan struct{})
		var wg sync.WaitGroup
		for w := 0; w < goroutines; w++ {
			res[w] = map[string]seen{}
			wg.Add(1)
			go func(w int) {
				defer wg.Done()
				<-start
				for k := 0; k < iters; k++ {
					j := (w*5 + k) % len(c.reqs)
					o := inst.call(c.sc.with(c.reqs[j]))
					key := fmt.Sprintf("%03d|%s", j, o.term())
					if _, ok := res[w][key]; !ok {
						res[w][key] = seen{j, o}
					}
				}
			}(w)
		}
		close(start)
		wg.Wait()
		all := map[string]seen{}
		for _, m := range res {
			for k, v := range m {
				all[k] = v
			}
		}
		keys := make([]string, 0, len(all))
		for k := range all {
			keys = append(keys, k)
		}
		sort.Strings(keys)
		for _, k := range keys {
			v := all[k]
			o := v.o
			enc.Encode(concLine{Name: c.name, J: v.j, OTerm: o.term(), OJS: o.js()})
		}
		enc.Encode(concLine{Name: c.name, Done: true})
	}
}

func reuseConcurrent(g *gen) {
	goroutines, _ := concSizes(g.cfg.Thorough())
	exe, err := os.Executable()
	if err != nil {
		panic(err)
	}
	cmd := exec.Command(exe, "--tier", g.cfg.Tier, "--seed", fmt.Sprint(g.cfg.Seed), "--out", g.cfg.Dir, "--extra", "conc-child")
	var stdout, stderr bytes.Buffer
	cmd.Stdout, cmd.Stderr = &stdout, &stderr
	runErr := cmd.Run()
	cfgs := concConfigs()
	byName := map[string]concCfg{}
	for _, c := range cfgs {
		byName[c.name] = c
	}
	done := map[string]bool{}
	emitLine := func(c concCfg, j int, oterm string, ojs map[string]interface{}, kind string) {
		sc := c.sc.with(c.reqs[j])
		var be *config.Backend
		if inst, _ := newInstance(c.sc); inst != nil {
			be = inst.be
		}
		note := fmt.Sprintf("%s request %d, %d goroutines on one instance", c.name, j, goroutines)
		js := sc.js()
		js["stream"] = "reuse-conc"
		js["reuse"] = note
		js["observed"] = ojs
		g.w.Count("stream:reuse-conc")
		g.w.Count("outcome:" + kind)
		g.w.Add(emit.App("CStack", sc.term(be), oterm), js, "", "R|reuse-conc|"+note+"|"+sc.canon()+"|"+oterm, true)
	}
	d := json.NewDecoder(&stdout)
	for {
		var l concLine
		if err := d.Decode(&l); err != nil {
			break
		}
		c, ok := byName[l.Name]
		if !ok {
			continue
		}
		if l.Done {
			done[l.Name] = true
			continue
		}
		kind, _ := l.OJS["outcome"].(string)
		emitLine(c, l.J, l.OTerm, l.OJS, kind)
	}
	if runErr != nil {
		// the child died (a fatal runtime error is not recoverable): the first configuration it
		// did not finish is the one that killed it
		what := "child process failed: " + runErr.Error()
		for _, line := range strings.Split(stderr.String(), "\n") {
			if strings.HasPrefix(line, "fatal error:") || strings.HasPrefix(line, "panic:") {
				what = line
				break
			}
		}
		for _, c := range cfgs {
			if !done[c.name] {
				o := outcome{kind: "panic", what: what}
				emitLine(c, 0, o.term(), o.js(), "panic")
				break
			}
		}
	}
}
