package main

import (
	"context"
	"fmt"
	"io"
	"net/http"
	"net/http/httptest"
	"net/url"
	"strings"
	"time"

	"github.com/gin-gonic/gin"
	"github.com/luraproject/lura/v2/config"
	"github.com/luraproject/lura/v2/logging"
	"github.com/luraproject/lura/v2/proxy"
	krakendgin "github.com/luraproject/lura/v2/router/gin"
	"github.com/luraproject/lura/v2/transport/http/client"
	"github.com/luraproject/lura/v2/transport/http/client/graphql"
)

// the same scenario, entered through the gin endpoint handler: endpoint /e/{n1}/{n2}, request
// path /e/<v1>/<v2> (escaped). routed=false when the router did not hand the request to the
// proxy (no route for that path).
func executeGin(sc *scenario, n1, n2, v1, v2 string) (o outcome, be *config.Backend, routed bool) {
	calls := 0
	var rec sentT
	defer func() {
		if x := recover(); x != nil {
			o = outcome{kind: "panic", what: fmt.Sprint(x), calls: calls}
			routed = true
		}
	}()
	gin.SetMode(gin.ReleaseMode)
	svc := config.ServiceConfig{Version: config.ConfigVersion, Timeout: 5 * time.Second, Host: []string{"http://127.0.0.1:8081"}}
	ep := &config.EndpointConfig{Endpoint: "/e/{" + n1 + "}/{" + n2 + "}", Method: sc.epMethod}
	ep.Backend = []*config.Backend{{URLPattern: "/graphql", ExtraConfig: config.ExtraConfig{graphql.Namespace: gqlExtra(sc)}}}
	svc.Endpoints = []*config.EndpointConfig{ep}
	if err := svc.Init(); err != nil {
		panic("harness: config init: " + err.Error())
	}
	be = ep.Backend[0]
	ex := func(_ context.Context, req *http.Request) (*http.Response, error) {
		calls++
		rec = record(req)
		return &http.Response{StatusCode: 200, Header: http.Header{"Content-Type": {"application/json"}},
			Body: io.NopCloser(strings.NewReader(`{"data":{"ok":true}}`))}, nil
	}
	bf := func(b *config.Backend) proxy.Proxy {
		return proxy.NewHTTPProxyWithHTTPExecutor(b, client.HTTPRequestExecutor(ex), b.Decoder)
	}
	p, err := proxy.NewDefaultFactory(bf, logging.NoOp).New(ep)
	if err != nil {
		panic("harness: factory: " + err.Error())
	}
	entered := false
	var perr error
	wrapped := func(ctx context.Context, r *proxy.Request) (*proxy.Response, error) {
		entered = true
		resp, err := p(ctx, r)
		perr = err
		return resp, err
	}
	e := gin.New()
	e.Handle(ep.Method, ep.Endpoint, krakendgin.EndpointHandler(ep, wrapped))
	var body io.Reader
	if sc.body != nil {
		body = strings.NewReader(*sc.body)
	}
	target := "/e/" + url.PathEscape(v1) + "/" + url.PathEscape(v2)
	req, err := http.NewRequest(sc.epMethod, "http://gw"+target, body)
	if err != nil {
		return outcome{}, be, false
	}
	w := httptest.NewRecorder()
	e.ServeHTTP(w, req)
	if !entered {
		return outcome{}, be, false
	}
	switch {
	case calls == 1:
		o = outcome{kind: "sent", s: rec, calls: calls}
	case calls == 0 && perr != nil:
		o = outcome{kind: "failed", err: perr.Error()}
	case calls == 0:
		o = outcome{kind: "odd", what: "no call and no error"}
	default:
		o = outcome{kind: "odd", what: fmt.Sprintf("%d calls", calls), calls: calls}
	}
	return o, be, true
}
