// C07 generator: drives the complete default backend stack of the real code
// (proxy.NewDefaultFactory over proxy.NewHTTPProxyWithHTTPExecutor) for GraphQL backends with a
// recording HTTPRequestExecutor, decodes what the executor was handed (encoding/json, net/url)
// and writes input + observation as Gallina cases.
package main

import (
	"bytes"
	"context"
	"encoding/json"
	"fmt"
	"io"
	"math/big"
	"net/http"
	"sort"
	"strconv"
	"strings"
	"time"
	"unicode/utf8"

	"github.com/luraproject/lura/v2/config"
	"github.com/luraproject/lura/v2/logging"
	"github.com/luraproject/lura/v2/proxy"
	"github.com/luraproject/lura/v2/transport/http/client"
	"github.com/luraproject/lura/v2/transport/http/client/graphql"

	"verif/harness/internal/emit"
	"verif/harness/internal/out"
	"verif/harness/internal/rng"
)

// ---------------------------------------------------------------------------------------
// one scenario

type scenario struct {
	query    string
	name     string
	vars     map[string]interface{} // nil: key absent from the configuration
	typ      string                 // as written in the configuration (any case)
	method   string                 // as written in the configuration ("" = absent)
	params   map[string]string      // Request.Params (keys as the routers store them)
	body     *string                // client body, nil: none
	hdrAllow []string               // backend input_headers
	qsAllow  []string               // backend input_query_strings
	cquery   map[string][]string    // Request.Query as it arrives
	chdrs    map[string][]string    // Request.Headers as they arrive
	epMethod string
	// backend url_pattern (default "/graphql"); when it embeds {tenant} the endpoint is
	// /x/{tenant} and the value comes from params["Tenant"]
	urlPattern string
	// the client body stream delivers this prefix of body and then fails with the error
	fault *bodyFault
}

type bodyFault struct {
	prefix string
	err    error
}

type faultReader struct {
	rest []byte
	err  error
}

func (f *faultReader) Read(p []byte) (int, error) {
	if len(f.rest) == 0 {
		return 0, f.err
	}
	n := copy(p, f.rest)
	f.rest = f.rest[n:]
	return n, nil
}
func (f *faultReader) Close() error { return nil }

// what the client body is for the model: a stream that fails is not a JSON text
func (sc *scenario) bodyClass() (string, map[string]interface{}) {
	if sc.fault != nil {
		return "BInvalid", nil
	}
	return classifyBody(sc.body)
}

func (sc *scenario) bodyReader() io.ReadCloser {
	if sc.fault != nil {
		return &faultReader{rest: []byte(sc.fault.prefix), err: sc.fault.err}
	}
	if sc.body == nil {
		return nil
	}
	return io.NopCloser(strings.NewReader(*sc.body))
}

func (sc *scenario) endpointAndPattern() (string, string) {
	if sc.urlPattern == "" {
		return "/x", "/graphql"
	}
	if strings.Contains(sc.urlPattern, "{tenant}") {
		return "/x/{tenant}", sc.urlPattern
	}
	return "/x", sc.urlPattern
}

type sentT struct {
	method   string
	q, name  []string
	vars     []interface{} // decoded, or undecodable{}
	hasBody  bool
	body     interface{}
	bodyLen  int
	clen     int64
	clenHdr  []string
	ctype    []string
	url      string
	rawBody  string
	allQuery map[string][]string
}

type undecodable struct{}

type outcome struct {
	kind  string // sent|failed|panic|odd
	s     sentT
	err   string
	what  string
	calls int
}

func decodeJSON(b []byte) (interface{}, bool) {
	d := json.NewDecoder(bytes.NewReader(b))
	d.UseNumber()
	var v interface{}
	if err := d.Decode(&v); err != nil {
		return nil, false
	}
	if _, err := d.Token(); err != io.EOF {
		return nil, false
	}
	return v, true
}

func gqlExtra(sc *scenario) map[string]interface{} {
	m := map[string]interface{}{"type": sc.typ, "query": sc.query}
	if sc.method != "" {
		m["method"] = sc.method
	}
	if sc.name != "" {
		m["operationName"] = sc.name
	}
	if sc.vars != nil {
		m["variables"] = sc.vars
	}
	return m
}

// what the executor was handed, decoded
func record(req *http.Request) sentT {
	rec := sentT{method: req.Method, url: req.URL.String(), clen: req.ContentLength}
	q := req.URL.Query()
	rec.allQuery = q
	rec.q = q["query"]
	rec.name = q["operationName"]
	for _, v := range q["variables"] {
		if d, ok := decodeJSON([]byte(v)); ok {
			rec.vars = append(rec.vars, d)
		} else {
			rec.vars = append(rec.vars, undecodable{})
		}
	}
	var raw []byte
	if req.Body != nil {
		raw, _ = io.ReadAll(req.Body)
	}
	rec.rawBody = string(raw)
	rec.bodyLen = len(raw)
	if len(raw) > 0 {
		rec.hasBody = true
		if d, ok := decodeJSON(raw); ok {
			rec.body = d
		} else {
			rec.body = undecodable{}
		}
	}
	rec.clenHdr = append([]string(nil), req.Header["Content-Length"]...)
	rec.ctype = append([]string(nil), req.Header["Content-Type"]...)
	return rec
}

// runs the real code. Also returns the backend as initialised (method, canonical header list).
func execute(sc *scenario) (o outcome, be *config.Backend) {
	calls := 0
	var rec sentT
	defer func() {
		if x := recover(); x != nil {
			o = outcome{kind: "panic", what: fmt.Sprint(x), calls: calls}
		}
	}()
	svc := config.ServiceConfig{Version: config.ConfigVersion, Timeout: 5 * time.Second, Host: []string{"http://127.0.0.1:8081"}}
	epPath, pattern := sc.endpointAndPattern()
	ep := &config.EndpointConfig{Endpoint: epPath, Method: sc.epMethod}
	ep.Backend = []*config.Backend{{
		URLPattern:         pattern,
		ExtraConfig:        config.ExtraConfig{graphql.Namespace: gqlExtra(sc)},
		HeadersToPass:      append([]string(nil), sc.hdrAllow...),
		QueryStringsToPass: append([]string(nil), sc.qsAllow...),
	}}
	svc.Endpoints = []*config.EndpointConfig{ep}
	if err := svc.Init(); err != nil {
		panic("harness: config init: " + err.Error())
	}
	be = ep.Backend[0]
	ex := func(_ context.Context, req *http.Request) (*http.Response, error) {
		calls++
		rec = record(req)
		return &http.Response{StatusCode: 200, Header: http.Header{"Content-Type": {"application/json"}},
			Body: io.NopCloser(strings.NewReader(`{"data":{"ok":true}}`))}, nil
	}
	bf := func(b *config.Backend) proxy.Proxy {
		return proxy.NewHTTPProxyWithHTTPExecutor(b, client.HTTPRequestExecutor(ex), b.Decoder)
	}
	p, err := proxy.NewDefaultFactory(bf, logging.NoOp).New(ep)
	if err != nil {
		panic("harness: factory: " + err.Error())
	}
	req := &proxy.Request{Method: sc.epMethod, Params: map[string]string{}, Headers: map[string][]string{}, Query: map[string][]string{}}
	for k, v := range sc.params {
		req.Params[k] = v
	}
	for k, v := range sc.chdrs {
		req.Headers[k] = append([]string(nil), v...)
	}
	for k, v := range sc.cquery {
		req.Query[k] = append([]string(nil), v...)
	}
	if rd := sc.bodyReader(); rd != nil {
		req.Body = rd
	}
	_, perr := p(context.Background(), req)
	switch {
	case calls == 1:
		o = outcome{kind: "sent", s: rec, calls: calls}
	case calls == 0 && perr != nil:
		o = outcome{kind: "failed", err: perr.Error()}
	case calls == 0:
		o = outcome{kind: "odd", what: "no call and no error"}
	default:
		o = outcome{kind: "odd", what: fmt.Sprintf("%d calls", calls), calls: calls}
	}
	if perr != nil && o.err == "" {
		o.err = perr.Error()
	}
	return o, be
}

// ---------------------------------------------------------------------------------------
// independent classification of the client body

func classifyBody(body *string) (string, map[string]interface{}) {
	if body == nil {
		return "BInvalid", nil
	}
	v, ok := decodeJSON([]byte(*body))
	if !ok {
		return "BInvalid", nil
	}
	switch x := v.(type) {
	case map[string]interface{}:
		return "BObject", x
	case nil:
		return "BNull", nil
	}
	return "BOtherValue", nil
}

// does some number of the document change its value when it goes through a float64?
func inexactNumber(v interface{}) bool {
	switch x := v.(type) {
	case json.Number:
		// the value encoding/json prints for the float64 the literal is read into
		f, err := strconv.ParseFloat(string(x), 64)
		if err != nil {
			return true
		}
		printed, err := json.Marshal(f)
		if err != nil {
			return true
		}
		exact, ok := new(big.Rat).SetString(string(x))
		got, ok2 := new(big.Rat).SetString(string(printed))
		if !ok || !ok2 {
			return true
		}
		return got.Cmp(exact) != 0
	case []interface{}:
		for _, e := range x {
			if inexactNumber(e) {
				return true
			}
		}
	case map[string]interface{}:
		for _, e := range x {
			if inexactNumber(e) {
				return true
			}
		}
	}
	return false
}

func validStrings(v interface{}) bool {
	switch x := v.(type) {
	case string:
		return utf8.ValidString(x)
	case []interface{}:
		for _, e := range x {
			if !validStrings(e) {
				return false
			}
		}
	case map[string]interface{}:
		for k, e := range x {
			if !utf8.ValidString(k) || !validStrings(e) {
				return false
			}
		}
	}
	return true
}

// ---------------------------------------------------------------------------------------
// emission

func jsonTerm(v interface{}) string {
	if _, ok := v.(undecodable); ok {
		return `(JOther "undecodable")`
	}
	return emit.Json(v)
}

func normType(t string) string {
	if strings.ToLower(t) == "mutation" {
		return "TMutation"
	}
	return "TQuery"
}

func normMethod(m string) string {
	if strings.ToUpper(m) == "GET" {
		return "TGet"
	}
	return "TPost"
}

// configured numbers are float64 values: the literal the model carries for them is the text
// encoding/json prints (the model's encoder writes number literals as they are)
func jsonNumbers(v interface{}) interface{} {
	switch x := v.(type) {
	case float64:
		b, err := json.Marshal(x)
		if err != nil {
			return x
		}
		return json.Number(string(b))
	case []interface{}:
		r := make([]interface{}, len(x))
		for i, e := range x {
			r[i] = jsonNumbers(e)
		}
		return r
	case map[string]interface{}:
		r := make(map[string]interface{}, len(x))
		for k, e := range x {
			r[k] = jsonNumbers(e)
		}
		return r
	}
	return v
}

func (sc *scenario) allValid() bool {
	if !utf8.ValidString(sc.query) || !utf8.ValidString(sc.name) || !validStrings(mapOrNil(sc.vars)) {
		return false
	}
	for k, v := range sc.params {
		if !utf8.ValidString(k) || !utf8.ValidString(v) {
			return false
		}
	}
	return true
}

// the case for one request: with the raw bytes of the body when the POST transport sent one
func caseTerm(sc *scenario, be *config.Backend, o outcome) string {
	if o.kind == "sent" && normMethod(sc.method) == "TPost" && sc.allValid() {
		return emit.App("CStackRaw", sc.term(be), o.term(), emit.Str(o.s.rawBody))
	}
	return emit.App("CStack", sc.term(be), o.term())
}

func (sc *scenario) term(be *config.Backend) string {
	kind, obj := sc.bodyClass()
	body := kind
	if kind == "BObject" {
		body = emit.App("BObject", emit.Obj(obj))
	}
	vars := sc.vars
	if vars == nil {
		vars = map[string]interface{}{}
	}
	opts := fmt.Sprintf("{| o_query := %s; o_name := %s; o_vars := %s; o_type := %s; o_method := %s |}",
		emit.Str(sc.query), emit.Str(sc.name), emit.Obj(jsonNumbers(vars).(map[string]interface{})), emit.App("type_of", emit.Str(sc.typ)), emit.App("norm_method", emit.Str(sc.method)))
	method, hdrs, qs := strings.ToUpper(sc.epMethod), sc.hdrAllow, sc.qsAllow
	if be != nil {
		method, hdrs, qs = be.Method, be.HeadersToPass, be.QueryStringsToPass
	}
	backend := fmt.Sprintf("{| b_method := %s; b_hdr_allow := %s; b_qs_allow := %s; b_opts := %s |}",
		emit.Str(method), emit.StrList(hdrs), emit.StrList(qs), opts)
	return fmt.Sprintf("{| i_backend := %s; i_concurrent := false; i_params := %s; i_body := %s; i_method := %s; i_query := %s; i_hdrs := %s |}",
		backend, emit.StrMap(sc.params), body, emit.Str(sc.epMethod), emit.MultiMap(sc.cquery), emit.MultiMap(sc.chdrs))
}

func (o *outcome) term() string {
	switch o.kind {
	case "failed":
		return "Failed"
	case "panic":
		return "Panicked"
	case "odd":
		return emit.App("Odd", emit.Str(o.what))
	}
	s := o.s
	vars := make([]string, len(s.vars))
	for i, v := range s.vars {
		vars[i] = jsonTerm(v)
	}
	body := "None"
	if s.hasBody {
		body = emit.Some(jsonTerm(s.body))
	}
	return emit.App("Sent", fmt.Sprintf("{| s_method := %s; s_q := %s; s_name := %s; s_vars := %s; s_body := %s; s_body_len := %s; s_clen := %s; s_clen_hdr := %s; s_ctype := %s |}",
		emit.Str(s.method), emit.StrList(s.q), emit.StrList(s.name), emit.List(vars), body,
		emit.Z(int64(s.bodyLen)), emit.Z(s.clen), emit.StrList(s.clenHdr), emit.StrList(s.ctype)))
}

// JSON cannot carry every byte string: the human form quotes strings with %q when needed
func hs(s string) interface{} {
	if utf8.ValidString(s) {
		return s
	}
	return map[string]interface{}{"bytes": fmt.Sprintf("%q", s)}
}

func hmap(m map[string]string) interface{} {
	r := map[string]interface{}{}
	for k, v := range m {
		r[fmt.Sprintf("%q", k)] = hs(v)
	}
	return r
}

func hjson(v interface{}) interface{} {
	switch x := v.(type) {
	case string:
		return hs(x)
	case []interface{}:
		r := make([]interface{}, len(x))
		for i, e := range x {
			r[i] = hjson(e)
		}
		return r
	case map[string]interface{}:
		r := map[string]interface{}{}
		for k, e := range x {
			if utf8.ValidString(k) {
				r[k] = hjson(e)
			} else {
				r[fmt.Sprintf("bytes:%q", k)] = hjson(e)
			}
		}
		return r
	case undecodable:
		return "<undecodable>"
	}
	return v
}

func (sc *scenario) js() map[string]interface{} {
	var body interface{}
	if sc.body != nil {
		body = hs(*sc.body)
	}
	kind, _ := sc.bodyClass()
	r := map[string]interface{}{
		"graphql":         map[string]interface{}{"type": sc.typ, "method": sc.method, "query": hs(sc.query), "operationName": hs(sc.name), "variables": hjson(mapOrNil(sc.vars))},
		"params":          hmap(sc.params),
		"client_body":     body,
		"body_kind":       kind,
		"input_headers":   sc.hdrAllow,
		"input_query":     sc.qsAllow,
		"client_query":    sc.cquery,
		"client_headers":  sc.chdrs,
		"endpoint_method": sc.epMethod,
	}
	if sc.urlPattern != "" {
		r["url_pattern"] = sc.urlPattern
	}
	if sc.fault != nil {
		r["body_stream"] = map[string]interface{}{"delivers": hs(sc.fault.prefix), "then_fails_with": sc.fault.err.Error()}
	}
	return r
}

func mapOrNil(m map[string]interface{}) interface{} {
	if m == nil {
		return nil
	}
	return m
}

func (o *outcome) js() map[string]interface{} {
	r := map[string]interface{}{"outcome": o.kind}
	if o.err != "" {
		r["error"] = o.err
	}
	if o.what != "" {
		r["what"] = o.what
	}
	if o.kind == "sent" {
		s := o.s
		vars := make([]interface{}, len(s.vars))
		for i, v := range s.vars {
			vars[i] = hjson(v)
		}
		r["backend_received"] = map[string]interface{}{
			"method": s.method, "url": s.url, "url_query": s.q, "url_operationName": s.name, "url_variables": vars,
			"body": hs(s.rawBody), "body_len": s.bodyLen, "ContentLength": s.clen,
			"Content-Length": s.clenHdr, "Content-Type": s.ctype,
		}
	}
	return r
}

func (sc *scenario) canon() string {
	b, _ := json.Marshal(sc.js())
	return string(b)
}

// signature of a listed, unrepaired finding the input falls under: none is left for C07 (the
// four defects found - "" / "{}" variables, stack order, null body, body numbers, client query
// strings colliding with the GET transport - are repaired), every input is in the normal comparison
func (sc *scenario) sig() string { return "" }

func validUTF8(s string) bool { return utf8.ValidString(s) }

func contains(l []string, x string) bool {
	for _, y := range l {
		if x == y {
			return true
		}
	}
	return false
}

func sortedKeys(m map[string]interface{}) []string {
	ks := make([]string, 0, len(m))
	for k := range m {
		ks = append(ks, k)
	}
	sort.Strings(ks)
	return ks
}

// ---------------------------------------------------------------------------------------

type gen struct {
	w   *out.Writer
	r   *rng.R
	cfg out.Config
}

func (g *gen) add(stream string, sc *scenario) {
	if sc.epMethod == "" {
		sc.epMethod = "GET"
		if normType(sc.typ) == "TMutation" {
			sc.epMethod = "POST"
		}
	}
	if sc.params == nil {
		sc.params = map[string]string{}
	}
	o, be := execute(sc)
	term := caseTerm(sc, be, o)
	js := sc.js()
	js["stream"] = stream
	js["observed"] = o.js()
	kind, _ := sc.bodyClass()
	g.w.Count("stream:" + stream)
	g.w.Count("type:" + normType(sc.typ) + "/" + normMethod(sc.method))
	g.w.Count("outcome:" + o.kind)
	if normType(sc.typ) == "TMutation" {
		g.w.Count("body:" + kind)
		if _, obj := sc.bodyClass(); obj != nil && inexactNumber(obj) {
			g.w.Count("body:number-not-a-float64")
		}
	}
	sig := sc.sig()
	if sig != "" {
		g.w.Count("sig:" + sig)
	}
	nontrivial := len(sc.vars) > 0 || normType(sc.typ) == "TMutation"
	g.w.Add(term, js, sig, "S|"+sc.canon(), nontrivial)
}

func str(s string) *string { return &s }

func main() {
	cfg := out.ParseFlags("C07")
	if cfg.Extra == "conc-child" {
		concChild(cfg.Thorough())
		return
	}
	g := &gen{w: out.NewWriter(cfg, "Verif.Corr.C07", 300), r: rng.New(cfg.Seed), cfg: cfg}
	if cfg.Only >= 0 {
		// replay of one case: the writer leaves "samples" null unless the index happens to be
		// a sampled one, and the driver slices it
		g.w.Meta["samples"] = []interface{}{}
	}
	corpus(g)
	reuseSequential(g)
	smallScope(g)
	capCases(g)
	random(g)
	malformed(g)
	bytesCases(g)
	e2eCases(g)
	reuseRandom(g)
	reuseConcurrent(g)
	concurrentCalls(g)
	optionSpellings(g)
	embeddedParams(g)
	bodyFaults(g)
	g.w.Close("complete default backend stack (NewDefaultFactory over NewHTTPProxyWithHTTPExecutor, recording executor; received body and URL query decoded with encoding/json / net/url, trees compared): corpus of the recorded defects; exhaustive small scope = 30 variable value shapes x {query,mutation} x {POST,GET} x 4 parameter sets x 2 operation names, and 34 client bodies x 4 default sets x 2 transports; config.Init capitalisation of path parameter names; random configurations (strings over quotes, backslashes, controls, %, U+2028, astral, braces), random and malformed client bodies; arbitrary byte strings (every byte 0x80..0xff, UTF-8 boundary / overlong / surrogate / truncated sequences, random bytes) at 10 places (path parameter, query text, operation name, variable value and name, client body string x transport) and json.Marshal of byte strings against the escape model (every byte, boundary sequences, random); the same stack entered through the gin endpoint handler with the parameters taken from the escaped request path; instance reuse: one stack instance serving sequences of 3-7 different requests (12 fixed orders x 2 transports, random sequences) and 12 goroutines x 150 iterations over 12 distinct requests per configuration, each distinct (request, observation) pair once; concurrent_calls 2..4: every attempt held at the executor until all have arrived, each attempt's request compared; spelling of type and method (case variants, Unicode case mappings onto ASCII, other types and methods) probed through the stack against the model of GetOptions; backend url_pattern embedding a path parameter whose value carries #, spaces, quotes, unicode (GET and POST transport); client body streams that fail after a prefix (complete object, cut object, nothing) with io.ErrUnexpectedEOF and other errors; POST bodies also compared byte for byte with the model's encoder; nontrivial = at least one variable or a mutation", true)
}
