package main

// Spelling of "type" and "method" in the configuration: what the stack does with a probe
// request tells which operation type and transport GetOptions and the middleware settled on.

import (
	"fmt"

	"verif/harness/internal/emit"
)

// probe: variables {"v":"{id}"}, parameter Id=P, client body {"b":1}.
//
//	query:    v = "P", no b          mutation: v = "{id}", b = 1
//	neither:  the client's body arrives as it is (no GraphQL handling)
func probeOptions(typ, method string) (string, map[string]interface{}) {
	sc := &scenario{query: "{ probe }", typ: typ, method: method, epMethod: "PUT",
		vars: map[string]interface{}{"v": "{id}"}, params: map[string]string{"Id": "P"}, body: str(`{"b":1}`)}
	o, _ := execute(sc)
	js := o.js()
	if o.kind != "sent" {
		return "(Some (TQuery, TPost)) (* unexpected: " + o.kind + " *)", js
	}
	var vars interface{}
	tr := ""
	switch {
	case o.s.method == "POST" && o.s.hasBody:
		if q, ok := member(o.s.body, "query"); ok && q == "{ probe }" {
			vars, _ = member(o.s.body, "variables")
			tr = "TPost"
		}
	case o.s.method == "GET" && len(o.s.q) == 1 && o.s.q[0] == "{ probe }":
		if len(o.s.vars) == 1 {
			vars = o.s.vars[0]
		}
		tr = "TGet"
	}
	if tr == "" {
		if o.s.method == "PUT" && o.s.rawBody == `{"b":1}` {
			return "None", js
		}
		return "(Some (TQuery, TGet)) (* unexpected shape *)", js
	}
	v, _ := member(vars, "v")
	_, hasB := member(vars, "b")
	switch {
	case v == "P" && !hasB:
		return "(Some (TQuery, " + tr + "))", js
	case v == "{id}" && hasB:
		return "(Some (TMutation, " + tr + "))", js
	}
	return "None (* unexpected variables *)", js
}

func optionSpellings(g *gen) {
	types := []string{"query", "Query", "QUERY", "qUeRy", "mutation", "Mutation", "MUTATION", "mutatİon", "MUTATİON", "mutatıon", "query ", " query", "",
		"subscription", "Subscription", "queries", "quer", "mutations", "ｑuery", "Kuery", "mutatİon", "qüery", "QUERY\x00", "query\n"}
	methods := []string{"", "get", "GET", "Get", "gEt", "post", "POST", "Post", "poſt", "put", "PUT", "delete", "gets", " get", "get ", "ɢet", "gеt", "HEAD", "patch"}
	for _, t := range types {
		for _, m := range methods {
			if !g.cfg.Thorough() && len(t)%3 != len(m)%3 && t != "query" && t != "MUTATION" && m != "get" && m != "" {
				continue
			}
			seen, js := probeOptions(t, m)
			g.w.Count("stream:option-spelling")
			g.w.Add(emit.App("COpts", emit.Str(t), emit.Str(m), seen),
				map[string]interface{}{"stream": "option-spelling", "type": fmt.Sprintf("%q", t), "method": fmt.Sprintf("%q", m), "observed": js},
				"", "O|"+t+"|"+m, true)
		}
	}
}
