package main

// concurrent_calls > 1: the concurrent middleware sits in front of the filters and the GraphQL
// stage and starts n attempts, each on its own copy of the request; every attempt must hand the
// backend the same operation (a mutation body read by one attempt must still be there for the
// next).  The executor holds every attempt until all n have arrived, so the set of observed
// requests does not depend on which attempt answers first.

import (
	"context"
	"fmt"
	"io"
	"net/http"
	"sort"
	"strings"
	"sync"
	"time"

	"github.com/luraproject/lura/v2/config"
	"github.com/luraproject/lura/v2/logging"
	"github.com/luraproject/lura/v2/proxy"
	"github.com/luraproject/lura/v2/transport/http/client"
	"github.com/luraproject/lura/v2/transport/http/client/graphql"

	"verif/harness/internal/emit"
)

func executeN(sc *scenario, n int) (os []outcome, be *config.Backend) {
	var mu sync.Mutex
	var recs []sentT
	gate := make(chan struct{})
	defer func() {
		if x := recover(); x != nil {
			os = []outcome{{kind: "panic", what: fmt.Sprint(x)}}
		}
	}()
	svc := config.ServiceConfig{Version: config.ConfigVersion, Timeout: 2 * time.Second, Host: []string{"http://127.0.0.1:8081"}}
	ep := &config.EndpointConfig{Endpoint: "/x", Method: sc.epMethod, ConcurrentCalls: n}
	ep.Backend = []*config.Backend{{
		URLPattern:         "/graphql",
		ExtraConfig:        config.ExtraConfig{graphql.Namespace: gqlExtra(sc)},
		HeadersToPass:      append([]string(nil), sc.hdrAllow...),
		QueryStringsToPass: append([]string(nil), sc.qsAllow...),
	}}
	svc.Endpoints = []*config.EndpointConfig{ep}
	if err := svc.Init(); err != nil {
		panic("harness: config init: " + err.Error())
	}
	be = ep.Backend[0]
	if be.ConcurrentCalls != n {
		panic(fmt.Sprintf("harness: concurrent calls %d, wanted %d", be.ConcurrentCalls, n))
	}
	ex := func(ctx context.Context, req *http.Request) (*http.Response, error) {
		r := record(req)
		mu.Lock()
		recs = append(recs, r)
		if len(recs) == n {
			close(gate)
		}
		mu.Unlock()
		select {
		case <-gate:
		case <-ctx.Done(): // an attempt that never arrives (a defect) must not hang the run
			return nil, ctx.Err()
		}
		return &http.Response{StatusCode: 200, Header: http.Header{"Content-Type": {"application/json"}},
			Body: io.NopCloser(strings.NewReader(`{"data":{"ok":true}}`))}, nil
	}
	bf := func(b *config.Backend) proxy.Proxy {
		return proxy.NewHTTPProxyWithHTTPExecutor(b, client.HTTPRequestExecutor(ex), b.Decoder)
	}
	p, err := proxy.NewDefaultFactory(bf, logging.NoOp).New(ep)
	if err != nil {
		panic("harness: factory: " + err.Error())
	}
	req := &proxy.Request{Method: sc.epMethod, Params: map[string]string{}, Headers: map[string][]string{}, Query: map[string][]string{}}
	for k, v := range sc.params {
		req.Params[k] = v
	}
	for k, v := range sc.chdrs {
		req.Headers[k] = append([]string(nil), v...)
	}
	for k, v := range sc.cquery {
		req.Query[k] = append([]string(nil), v...)
	}
	if rd := sc.bodyReader(); rd != nil {
		req.Body = rd
	}
	_, perr := p(context.Background(), req)
	mu.Lock()
	defer mu.Unlock()
	switch {
	case len(recs) == n:
		for _, r := range recs {
			os = append(os, outcome{kind: "sent", s: r, calls: 1})
		}
		sort.Slice(os, func(a, b int) bool { return os[a].term() < os[b].term() })
	case len(recs) == 0 && perr != nil:
		os = []outcome{{kind: "failed", err: perr.Error()}}
	default:
		os = []outcome{{kind: "odd", what: fmt.Sprintf("%d of %d attempts reached the backend, error %v", len(recs), n, perr)}}
	}
	return os, be
}

func (g *gen) addN(stream string, sc *scenario, n int) {
	if sc.epMethod == "" {
		sc.epMethod = "GET"
		if normType(sc.typ) == "TMutation" {
			sc.epMethod = "POST"
		}
	}
	if sc.params == nil {
		sc.params = map[string]string{}
	}
	os, be := executeN(sc, n)
	terms := make([]string, len(os))
	var ojs []interface{}
	for i := range os {
		terms[i] = os[i].term()
		ojs = append(ojs, os[i].js())
	}
	input := strings.Replace(sc.term(be), "i_concurrent := false", "i_concurrent := true", 1)
	js := sc.js()
	js["stream"] = stream
	js["concurrent_calls"] = n
	js["observed"] = map[string]interface{}{"attempts": ojs}
	g.w.Count("stream:" + stream)
	g.w.Count(fmt.Sprintf("concurrent_calls:%d", n))
	g.w.Add(emit.App("CStackN", input, emit.Nat(n), emit.List(terms)), js, "", fmt.Sprintf("N|%d|%s", n, sc.canon()), true)
}

func concurrentCalls(g *gen) {
	bodies := []*string{str(`{"a":1,"dflt":"client"}`), str(`{}`), str(`null`), str(`{"a":`), nil, str(`{"big":9007199254740993,"s":"é \"q\" <&>"}`)}
	for n := 2; n <= 4; n++ {
		for _, m := range []string{"post", "get"} {
			g.addN("concurrent-calls", &scenario{query: "query Q { q }", name: "Q", typ: "query", method: m, vars: queryVars,
				params: ps("Id", "one", "Name", "n \"1\"")}, n)
			g.addN("concurrent-calls", &scenario{query: "{ q }", typ: "query", method: m, vars: map[string]interface{}{"lit": "x"},
				cquery: map[string][]string{"page": {"2"}, "query": {"client"}}, chdrs: map[string][]string{"X-A": {"1"}, "Content-Type": {"text/plain"}}}, n)
			for _, b := range bodies {
				g.addN("concurrent-calls", &scenario{query: "mutation M { m }", name: "M", typ: "mutation", method: m, vars: mutationDefaults, body: b}, n)
			}
		}
	}
	// a client body stream that fails: every attempt works on a copy of the request, and the
	// copies must fail where the original failed
	for n := 2; n <= 3; n++ {
		for _, m := range []string{"post", "get"} {
			for _, pre := range []string{`{"from":"c"}`, `{"from":"c",`} {
				g.addN("concurrent-calls", &scenario{query: "mutation T { t }", typ: "mutation", method: m, vars: map[string]interface{}{"to": "savings"},
					body: str(`{"from":"c","to":"landlord"}`), fault: &bodyFault{prefix: pre, err: io.ErrUnexpectedEOF}}, n)
			}
		}
	}
	k := 40
	if g.cfg.Thorough() {
		k = 600
	}
	r := g.r.Sub()
	for i := 0; i < k; i++ {
		sc := &scenario{query: "{ q }", name: rstring(r), typ: []string{"query", "mutation"}[r.Intn(2)], method: []string{"post", "get"}[r.Intn(2)],
			vars: rvars(r), params: rparams(r), body: rbody(r)}
		g.addN("concurrent-calls", sc, 2+r.Intn(3))
	}
}
