// C10 generator: (i) net/url codec functions against the byte-level models, (ii) the real
// load-balancer middleware + http proxy (directly and through the default backend stack) with a
// recording executor, (iii) a gin engine with default options served with raw request lines.
package main

import (
	"bufio"
	"context"
	"encoding/json"
	"fmt"
	"io"
	"net/http"
	"net/http/httptest"
	"net/url"
	"os"
	"os/exec"
	"sort"
	"strings"
	"sync"
	"time"

	"github.com/gin-gonic/gin"
	"github.com/luraproject/lura/v2/config"
	"github.com/luraproject/lura/v2/encoding"
	"github.com/luraproject/lura/v2/logging"
	"github.com/luraproject/lura/v2/proxy"
	krakendgin "github.com/luraproject/lura/v2/router/gin"
	"github.com/luraproject/lura/v2/sd"
	"github.com/luraproject/lura/v2/transport/http/client"

	"verif/harness/internal/emit"
	"verif/harness/internal/out"
	"verif/harness/internal/rng"
)

// ---------------------------------------------------------------------------------------
// emit helpers

func ures(input, got string, err error) string {
	if err != nil {
		return "UErr"
	}
	if got == input {
		return "UId"
	}
	return emit.App("USome", emit.Str(got))
}

func codecRow(s string) (string, map[string]interface{}) {
	qe := url.QueryEscape(s)
	qu, quErr := url.QueryUnescape(s)
	pu, puErr := url.PathUnescape(s)
	pe := (&url.URL{Path: s}).EscapedPath()
	rt, rtErr := url.QueryUnescape(qe)
	row := emit.Tuple(emit.Str(qe), ures(s, qu, quErr), ures(s, pu, puErr), emit.Str(pe), ures(s, rt, rtErr))
	js := map[string]interface{}{"query_escape": qe, "query_unescape": qu, "query_unescape_err": quErr != nil,
		"path_unescape": pu, "path_unescape_err": puErr != nil, "escaped_path": pe, "roundtrip": rt}
	return row, js
}

func valuesCoq(q map[string][]string) string { return emit.MultiMap(q) }

func cloneValues(q map[string][]string) map[string][]string {
	if q == nil {
		return nil
	}
	m := make(map[string][]string, len(q))
	for k, v := range q {
		m[k] = append([]string{}, v...)
	}
	return m
}

type callObs struct {
	host, path, rawquery, frag, wire, full string
}

func (c *callObs) coq() string {
	if c == nil {
		return "None"
	}
	return emit.Some(fmt.Sprintf("{| o_host := %s; o_path := %s; o_rawquery := %s; o_frag := %s; o_wire := %s |}",
		emit.Str(c.host), emit.Str(c.path), emit.Str(c.rawquery), emit.Str(c.frag), emit.Str(c.wire)))
}

func (c *callObs) js() interface{} {
	if c == nil {
		return nil
	}
	return map[string]interface{}{"host": c.host, "path": c.path, "rawquery": c.rawquery, "fragment": c.frag, "request_uri": c.wire, "url": c.full}
}

type recorder struct {
	calls []*callObs
	inner *innerObs
	outer *outerObs
}

type innerObs struct {
	path  string
	query map[string][]string
}

type outerObs struct {
	params map[string]string
	query  map[string][]string
}

func (r *recorder) reset() { r.calls, r.inner, r.outer = nil, nil, nil }

// the recorder of a request travels in its context (concurrent requests through one shared
// instance each have their own); without one the process-wide recorder is used
type recKey struct{}

var globalRec = &recorder{}

func recFrom(ctx context.Context) *recorder {
	if r, ok := ctx.Value(recKey{}).(*recorder); ok && r != nil {
		return r
	}
	return globalRec
}

func withRec(ctx context.Context, r *recorder) context.Context {
	return context.WithValue(ctx, recKey{}, r)
}

func (r *recorder) call() *callObs {
	if len(r.calls) == 0 {
		return nil
	}
	return r.calls[0]
}

func (*recorder) executor() client.HTTPRequestExecutor {
	return func(ctx context.Context, req *http.Request) (*http.Response, error) {
		u := req.URL
		r := recFrom(ctx)
		r.calls = append(r.calls, &callObs{host: u.Scheme + "://" + u.Host, path: u.Path, rawquery: u.RawQuery,
			frag: u.Fragment, wire: u.RequestURI(), full: u.String()})
		h := http.Header{}
		h.Set("Content-Type", "application/json")
		return &http.Response{StatusCode: 200, Header: h, Body: io.NopCloser(strings.NewReader(`{"ok":true}`))}, nil
	}
}

func innerCoq(i *innerObs) string {
	if i == nil {
		return "None"
	}
	return emit.Some(emit.Pair(emit.Str(i.path), valuesCoq(i.query)))
}

func innerJS(i *innerObs) interface{} {
	if i == nil {
		return nil
	}
	return map[string]interface{}{"path": i.path, "query": i.query}
}

// polyHash: h := (h*257 + c + 1) mod 2^63 over the bytes (same function as Corr.C10.hash_str)
func polyHash(s string) uint64 {
	const mask = uint64(1)<<63 - 1
	h := uint64(0)
	for i := 0; i < len(s); i++ {
		h = (h*257 + uint64(s[i]) + 1) & mask
	}
	return h
}

// ---------------------------------------------------------------------------------------
// random material

var spicy = []byte("%%%??##&&==;;++  //..--__~~*!'()[]{}:@$,\"<>\\^`|\x00\x01\x09\x0a\x0d\x1f\x7f\x80\xc3\xa9\xe6\x97\xa5\xff")
var hexd = []byte("0123456789abcdefABCDEFgG")
var plainc = []byte("abcxyzABZ0189")

func randBytes(r *rng.R, maxLen int) string {
	n := r.Intn(maxLen + 1)
	b := make([]byte, 0, n+2)
	for len(b) < n {
		switch r.Intn(10) {
		case 0, 1, 2:
			b = append(b, plainc[r.Intn(len(plainc))])
		case 3, 4, 5:
			b = append(b, spicy[r.Intn(len(spicy))])
		case 6:
			b = append(b, '%', hexd[r.Intn(len(hexd))], hexd[r.Intn(len(hexd))])
		case 7:
			b = append(b, byte(r.Intn(256)))
		case 8:
			b = append(b, "%25"...)
		default:
			b = append(b, hexd[r.Intn(len(hexd))])
		}
	}
	return string(b)
}

// bytes a path segment may carry without breaking the segment structure at the model level
func randSeg(r *rng.R, maxLen int, allowTaint bool) string {
	for {
		s := randBytes(r, maxLen)
		s = strings.ReplaceAll(s, "/", "_")
		if !allowTaint {
			s = strings.NewReplacer("%", "p", "?", "q", "#", "h").Replace(s)
		}
		if s != "" {
			return s
		}
	}
}

func randValues(r *rng.R) map[string][]string {
	q := map[string][]string{}
	n := r.Intn(4)
	keys := []string{"k", "z", "a b", "", "é", "k&x=1", "%41", "K", "k;", "q?", "s"}
	for i := 0; i < n; i++ {
		var k string
		if r.Chance(2, 3) {
			k = keys[r.Intn(len(keys))]
		} else {
			k = randBytes(r, 5)
		}
		nv := r.Intn(4)
		if r.Chance(9, 10) && nv == 0 {
			nv = 1
		}
		vs := []string{}
		for j := 0; j < nv; j++ {
			switch r.Intn(5) {
			case 0:
				vs = append(vs, "")
			case 1:
				vs = append(vs, "v")
			default:
				vs = append(vs, randBytes(r, 10))
			}
		}
		q[k] = vs
	}
	return q
}

func randRawQuery(r *rng.R) string {
	n := r.Intn(5)
	var parts []string
	for i := 0; i < n; i++ {
		enc := func(s string) string {
			switch r.Intn(3) {
			case 0:
				return url.QueryEscape(s)
			case 1:
				return strings.ReplaceAll(url.QueryEscape(s), "+", "%20")
			}
			return s
		}
		k := enc([]string{"k", "z", "a b", "", "é", "k"}[r.Intn(6)])
		if r.Chance(1, 4) {
			k = enc(randBytes(r, 4))
		}
		switch r.Intn(6) {
		case 0:
			parts = append(parts, k)
		case 1:
			parts = append(parts, "")
		default:
			parts = append(parts, k+"="+enc(randBytes(r, 8)))
		}
	}
	return strings.Join(parts, "&")
}

// the same, restricted to what may appear in a request line
func wireSafe(s string) string {
	var b strings.Builder
	for i := 0; i < len(s); i++ {
		c := s[i]
		if c <= 0x20 || c == 0x7f || c == '#' {
			fmt.Fprintf(&b, "%%%02X", c)
		} else {
			b.WriteByte(c)
		}
	}
	return b.String()
}

var hostSets = [][]string{
	{"http://127.0.0.1:8080"},
	{"http://a.example.com", "https://b.example.com:8443"},
	{"https://api-1.internal_x.local:443", "http://10.0.0.2:81", "http://H.Example"},
}

// ---------------------------------------------------------------------------------------

// ---------------------------------------------------------------------------------------
// shared builders (also used by the child process of the engine-history stream)

func backendFactoryRec(be *config.Backend) proxy.Proxy {
	hp := proxy.NewHTTPProxyWithHTTPExecutor(be, globalRec.executor(), be.Decoder)
	return func(ctx context.Context, rq *proxy.Request) (*proxy.Response, error) {
		recFrom(ctx).inner = &innerObs{path: rq.Path, query: cloneValues(rq.Query)}
		return hp(ctx, rq)
	}
}

type ginSpec struct {
	endpoint, pattern string
	allow, beQuery    []string
}

var ginSpecs = []ginSpec{
	{"/a/{p}", "/b/{p}?s=1", []string{"*"}, nil},
	{"/a/{p}", "/b/{p}", []string{"k", "z"}, nil},
	{"/a/{p}/t/{q}", "/b/{p}/c/{q}?s=1", []string{"*"}, nil},
	{"/a/{p}", "/b/x-{p}.json?x=a%20b", nil, nil},
	{"/a/{p}", "/b/{p}?s=1", []string{"*"}, []string{"k"}},
	{"/a/{p}/t/{q}", "/b/{q}/{p}", []string{"k"}, nil},
}

type ginCfg struct {
	route   string // Coq term
	routeJS string
	allow   []string
	beAllow []string
	pattern string
	inited  string
	hosts   []string
	handler http.Handler
	two     bool
}

// buildGin builds one gin engine through krakendgin.NewEngine + the router factory for
// ginSpecs[i]; ginExtra is the value of the gin namespace in the service extra_config (nil:
// no extra config at all = default options).
func buildGin(i int, ginExtra map[string]interface{}) *ginCfg {
	g := ginSpecs[i]
	hosts := hostSets[i%len(hostSets)]
	sc := &config.ServiceConfig{Version: config.ConfigVersion, Timeout: 5 * time.Second, Host: hosts}
	if ginExtra != nil {
		sc.ExtraConfig = config.ExtraConfig{krakendgin.Namespace: ginExtra}
	}
	ep := &config.EndpointConfig{Endpoint: g.endpoint, Method: "GET", QueryString: g.allow,
		Backend: []*config.Backend{{URLPattern: g.pattern, Host: hosts, QueryStringsToPass: g.beQuery}}}
	sc.Endpoints = []*config.EndpointConfig{ep}
	if err := sc.Init(); err != nil {
		panic(err)
	}
	engine := krakendgin.NewEngine(*sc, krakendgin.EngineOptions{Logger: logging.NoOp, Writer: io.Discard})
	df := proxy.NewDefaultFactory(backendFactoryRec, logging.NoOp)
	pf := proxy.FactoryFunc(func(e *config.EndpointConfig) (proxy.Proxy, error) {
		p, err := df.New(e)
		if err != nil {
			return nil, err
		}
		return func(ctx context.Context, rq *proxy.Request) (*proxy.Response, error) {
			ps := map[string]string{}
			for k, v := range rq.Params {
				ps[k] = v
			}
			recFrom(ctx).outer = &outerObs{params: ps, query: cloneValues(rq.Query)}
			return p(ctx, rq)
		}, nil
	})
	var handler http.Handler
	krakendgin.NewFactory(krakendgin.Config{Engine: engine, Middlewares: []gin.HandlerFunc{}, HandlerFactory: krakendgin.EndpointHandler,
		ProxyFactory: pf, Logger: logging.NoOp,
		RunServer: func(_ context.Context, _ config.ServiceConfig, h http.Handler) error { handler = h; return nil }}).New().Run(*sc)
	if handler == nil {
		panic("gin handler not captured")
	}
	two := strings.Contains(g.endpoint, "{q}")
	route := `[Lit "a"; Par "p"]`
	if two {
		route = `[Lit "a"; Par "p"; Lit "t"; Par "q"]`
	}
	return &ginCfg{route, ep.Endpoint, ep.QueryString, ep.Backend[0].QueryStringsToPass, g.pattern, ep.Backend[0].URLPattern, hosts, handler, two}
}

type ginRes struct {
	malformed bool
	status    int
	panicText string
	rc        *recorder
}

func ginRun(g *ginCfg, target string) ginRes {
	rc := &recorder{}
	raw := "GET " + target + " HTTP/1.1\r\nHost: gw.example\r\n\r\n"
	req, err := http.ReadRequest(bufio.NewReader(strings.NewReader(raw)))
	res := ginRes{malformed: err != nil, rc: rc}
	if !res.malformed {
		req = req.WithContext(withRec(req.Context(), rc))
		rr := httptest.NewRecorder()
		func() {
			defer func() {
				if x := recover(); x != nil {
					res.panicText = fmt.Sprint("panic: ", x)
				}
			}()
			g.handler.ServeHTTP(rr, req)
		}()
		res.status = rr.Code
	}
	return res
}

func ginTarget(g *ginCfg, a, b string) string {
	if g.two {
		return "/a/" + a + "/t/" + b
	}
	return "/a/" + a
}

// ---- engine-history stream: runs in a CHILD process, so that process-wide state of the gin
// adapter written by an engine with other options cannot leak into the other streams.
// History: an engine with disable_path_decoding, the default-options engines A (spec 0) and
// A2 (spec 2), again an engine with disable_path_decoding, then a default engine C; the
// requests go to A, A2 and C only (the property speaks of default options).
type histObs struct {
	Engine    string     `json:"engine"`
	Spec      int        `json:"spec"`
	Target    string     `json:"target"`
	Malformed bool       `json:"malformed"`
	Status    int        `json:"status"`
	Panic     string     `json:"panic"`
	Outer     *histOuter `json:"outer"`
	Inner     *histInner `json:"inner"`
	Call      *histCall  `json:"call"`
}
type histOuter struct {
	Params map[string]string   `json:"params"`
	Query  map[string][]string `json:"query"`
}
type histInner struct {
	Path  []byte              `json:"path"`
	Query map[string][]string `json:"query"`
}
type histCall struct {
	Host, Path, RawQuery, Frag, Wire, Full []byte
}

const childEnv = "VERIF_C10_CHILD"

var historyTargets = [][2]string{{"7%3Fadmin=true", "w"}, {"7%23top", "w"}, {"%2541", "w"}, {"w", "x%3Fy"}, {"x%20y", "w"}, {"plain", "w"}, {"x%25", "w"}}

func childHistory() {
	gin.SetMode(gin.ReleaseMode)
	off := map[string]interface{}{"disable_path_decoding": true}
	buildGin(0, off)
	a := buildGin(0, nil)
	a2 := buildGin(2, nil)
	buildGin(1, off)
	c := buildGin(0, nil)
	enc := json.NewEncoder(os.Stdout)
	for _, e := range []struct {
		name string
		spec int
		g    *ginCfg
	}{{"A", 0, a}, {"A2", 2, a2}, {"C", 0, c}} {
		for _, t := range historyTargets {
			target := ginTarget(e.g, t[0], t[1])
			res := ginRun(e.g, target)
			o := histObs{Engine: e.name, Spec: e.spec, Target: target, Malformed: res.malformed, Status: res.status, Panic: res.panicText}
			if res.rc.outer != nil {
				o.Outer = &histOuter{res.rc.outer.params, res.rc.outer.query}
			}
			if res.rc.inner != nil {
				o.Inner = &histInner{[]byte(res.rc.inner.path), res.rc.inner.query}
			}
			if cl := res.rc.call(); cl != nil {
				o.Call = &histCall{[]byte(cl.host), []byte(cl.path), []byte(cl.rawquery), []byte(cl.frag), []byte(cl.wire), []byte(cl.full)}
			}
			if err := enc.Encode(o); err != nil {
				panic(err)
			}
		}
	}
}

func runHistoryChild() []histObs {
	ctx, cancel := context.WithTimeout(context.Background(), 60*time.Second)
	defer cancel()
	cmd := exec.CommandContext(ctx, os.Args[0])
	cmd.Env = append(os.Environ(), childEnv+"=engine-history")
	cmd.Stderr = os.Stderr
	outb, err := cmd.Output()
	if err != nil {
		panic(fmt.Sprintf("engine-history child process: %v", err))
	}
	var res []histObs
	d := json.NewDecoder(strings.NewReader(string(outb)))
	for d.More() {
		var o histObs
		if err := d.Decode(&o); err != nil {
			panic(fmt.Sprintf("engine-history child output: %v", err))
		}
		res = append(res, o)
	}
	return res
}

func main() {
	if os.Getenv(childEnv) == "engine-history" {
		childHistory()
		return
	}
	cfg := out.ParseFlags("C10")
	gin.SetMode(gin.ReleaseMode)
	r := rng.New(cfg.Seed)
	w := out.NewWriter(cfg, "Verif.Corr.C10", 100)
	mul := 1
	if cfg.Thorough() {
		mul = 10
	}

	// ================= (i) codec =================
	codec := func(s string, kind string) {
		row, js := codecRow(s)
		js["level"] = "codec"
		js["input"] = s
		js["input_bytes"] = []byte(s)
		w.Count("codec:" + kind)
		w.Add(emit.App("CCodec", emit.Str(s), row), js, "", "C|"+s, url.QueryEscape(s) != s)
	}
	for _, s := range []string{"", "%", "%%", "%2", "%zz", "%41", "%2541", "%252541", "+", " ", "a+b c", "&=;", "\x00", "\xff", "é",
		"日本", "*", "%3F", "%23", "~_-.", "!'()*", "a%2Fb", "%E4%", "%e4%bd", "%4", "%G1", "%1G", "a=b&c=d;e", "/b/x y", "[]", "x%", "%%41"} {
		codec(s, "corpus")
	}
	for b := 0; b < 256; b++ {
		codec(string([]byte{byte(b)}), "single-byte")
	}
	compact := func(in, got string, err error) string {
		if err != nil {
			return "E"
		}
		if got == in {
			return "I"
		}
		return fmt.Sprintf("S%X", got)
	}
	rowCase := func(ctor string, a int, mk func(b int) string) {
		var qe, qu, pu, pe []string
		for b := 0; b < 256; b++ {
			s := mk(b)
			qe = append(qe, url.QueryEscape(s))
			u, err := url.QueryUnescape(s)
			qu = append(qu, compact(s, u, err))
			u, err = url.PathUnescape(s)
			pu = append(pu, compact(s, u, err))
			pe = append(pe, (&url.URL{Path: s}).EscapedPath())
		}
		j := func(x []string) string { return strings.Join(x, "|") }
		hN := func(x []string) string { return emit.N(polyHash(j(x) + "|")) }
		w.Count("codec:" + ctor + " (256 strings per case)")
		w.Add(emit.App(ctor, emit.N(uint64(a)), hN(qe), hN(qu), hN(pu), hN(pe)),
			map[string]interface{}{"level": "codec-row", "kind": ctor, "first_byte": a, "note": "256 strings, second byte 0..255; outputs separated by |; the .v shard carries their 63-bit polynomial checksums",
				"observed": map[string]interface{}{"query_escape": j(qe), "query_unescape": j(qu), "path_unescape": j(pu), "escaped_path": j(pe)}},
			"", fmt.Sprintf("%s|%d", ctor, a), true)
	}
	for a := 0; a < 256; a++ {
		rowCase("CPairRow", a, func(b int) string { return string([]byte{byte(a), byte(b)}) })
	}
	for a := 0; a < 256; a++ {
		rowCase("CPctRow", a, func(b int) string { return string([]byte{'%', byte(a), byte(b)}) })
	}
	for i := 0; i < 500*mul; i++ {
		codec(randBytes(r, 24), "random")
	}

	// ParseQuery / Values.Encode
	parseQ := func(raw string, kind string) {
		m, err := url.ParseQuery(raw)
		w.Count("parsequery:" + kind)
		w.Add(emit.App("CParseQuery", emit.Str(raw), valuesCoq(m), emit.Bool(err == nil)),
			map[string]interface{}{"level": "parsequery", "raw": raw, "raw_bytes": []byte(raw), "observed": map[string]interface{}{"values": m, "ok": err == nil}},
			"", "Q|"+raw, strings.ContainsAny(raw, "%+;&"))
	}
	for _, s := range []string{"", "&", "&&", "=", "a", "a=", "=b", "a=b", "a=b&a=c", "a=b;c=d", "a=%zz&b=1", "%zz=1&b=2", "a=1&&b=2&", "a==b", "a=b=c",
		"a+b=c+d", "a%20b=%26", "k=%", "k=%4", ";", "a;b=1&c=2", "é=日本", "a=\x00\xff", "k=v&k=&k", "?a=1", "a=1#f"} {
		parseQ(s, "corpus")
	}
	for i := 0; i < 400*mul; i++ {
		if r.Chance(1, 3) {
			parseQ(randBytes(r, 20), "random-bytes")
		} else {
			parseQ(randRawQuery(r), "random-structured")
		}
	}
	encode := func(q map[string][]string, kind string) {
		enc := url.Values(q).Encode()
		back, err := url.ParseQuery(enc)
		w.Count("encode:" + kind)
		w.Add(emit.App("CEncode", valuesCoq(q), emit.Str(enc), valuesCoq(back), emit.Bool(err == nil)),
			map[string]interface{}{"level": "encode", "values": q, "observed": map[string]interface{}{"encoded": enc, "parsed_back": back, "ok": err == nil}},
			"", "E|"+enc+fmt.Sprint(len(q)), len(enc) > 0)
	}
	encode(map[string][]string{}, "corpus")
	encode(map[string][]string{"a": {}}, "corpus")
	encode(map[string][]string{"a": {""}, "": {"x"}, "B": {"1", "2", "1"}}, "corpus")
	encode(map[string][]string{"k&x=1": {"v&y=2", "a b+c", "%41", "é", "\x00\xff"}, "k": {"?#/;"}}, "corpus")
	encode(map[string][]string{"b": {"2"}, "a": {"1"}, "B": {"3"}, "aa": {"4"}, "a ": {"5"}, "\xff": {"6"}, "~": {"7"}}, "corpus")
	for i := 0; i < 300*mul; i++ {
		encode(randValues(r), "random")
	}

	// ================= (ii) load balancer + http proxy =================
	rec := globalRec
	ctx := context.Background()
	asmRun := func(hosts []string, path string, q map[string][]string) (*callObs, string) {
		rec.reset()
		be := &config.Backend{Encoding: encoding.JSON, Decoder: encoding.JSONDecoder, Method: "GET", Host: hosts}
		hp := proxy.NewHTTPProxyWithHTTPExecutor(be, rec.executor(), be.Decoder)
		lb := proxy.NewLoadBalancedMiddlewareWithSubscriber(sd.FixedSubscriber(hosts))(hp)
		errText := ""
		func() {
			defer func() {
				if x := recover(); x != nil {
					errText = fmt.Sprint("panic: ", x)
				}
			}()
			_, err := lb(ctx, &proxy.Request{Method: "GET", Path: path, Query: cloneValues(q), Headers: map[string][]string{}})
			if err != nil {
				errText = err.Error()
			}
		}()
		return rec.call(), errText
	}
	asmEmit := func(hosts []string, path string, q map[string][]string, c *callObs, errText string, kind string) {
		w.Count("asm:" + kind)
		if c == nil {
			w.Count("asm:not-called")
		}
		w.Add(emit.App("CAsm", emit.StrList(hosts), emit.Str(path), valuesCoq(q), c.coq()),
			map[string]interface{}{"level": "balancer+http-proxy", "stream": kind, "hosts": hosts, "path": path, "path_bytes": []byte(path), "query": q,
				"observed": map[string]interface{}{"call": c.js(), "error": errText}},
			"", fmt.Sprintf("A|%v|%s|%v", hosts, path, q), strings.ContainsAny(path, "?%# ") || len(q) > 0)
	}
	asm := func(hosts []string, path string, q map[string][]string, kind string) {
		c, errText := asmRun(hosts, path, q)
		asmEmit(hosts, path, q, c, errText, kind)
	}
	// one shared balancer + http proxy instance; the request's recorder travels in its context
	newLB := func(hosts []string) proxy.Proxy {
		be := &config.Backend{Encoding: encoding.JSON, Decoder: encoding.JSONDecoder, Method: "GET", Host: hosts}
		hp := proxy.NewHTTPProxyWithHTTPExecutor(be, rec.executor(), be.Decoder)
		return proxy.NewLoadBalancedMiddlewareWithSubscriber(sd.FixedSubscriber(hosts))(hp)
	}
	asmOn := func(lb proxy.Proxy, path string, q map[string][]string) (*callObs, string) {
		rc := &recorder{}
		errText := ""
		func() {
			defer func() {
				if x := recover(); x != nil {
					errText = fmt.Sprint("panic: ", x)
				}
			}()
			_, err := lb(withRec(ctx, rc), &proxy.Request{Method: "GET", Path: path, Query: cloneValues(q), Headers: map[string][]string{}})
			if err != nil {
				errText = err.Error()
			}
		}()
		return rc.call(), errText
	}
	type asmIn struct {
		p string
		q map[string][]string
	}
	qv := func(kv ...string) map[string][]string {
		m := map[string][]string{}
		for i := 0; i+1 < len(kv); i += 2 {
			m[kv[i]] = append(m[kv[i]], kv[i+1])
		}
		return m
	}
	seqAsm := [][]asmIn{
		{{"/b/one?s=1", qv("k", "v")}, {"/b/two", nil}, {"/b/three?t=2", qv("z", "a b", "z", "&")}, {"/b/four", qv("k", "w")}, {"/b/five?", nil}, {"/b/one?s=1", qv("k", "v2", "y", "")}},
		{{"/b", qv("k", "1")}, {"/b", qv("k", "2")}, {"/b", nil}, {"/b?s=1", nil}, {"/b", qv("k", "1", "k", "3")}, {"/b?s=1", qv("k", "1")}},
		{{"/b/x?s=1", nil}, {"/b/x?s=2", nil}, {"/b/y?s=1", qv("a", "b")}, {"/b/x", qv("a", "b")}, {"/b/x#f", nil}, {"/b/x", nil}, {"/b/%zz", qv("a", "b")}, {"/b/x y", qv("a", "c")}},
	}
	// the most telling orders first, on the single-host set (the balancer's random choice among
	// several hosts would make a replay of host-keyed state non-deterministic): one instance per
	// sequence; a later step repeats an earlier path with another forwarded query
	for _, seq := range seqAsm {
		lb := newLB(hostSets[0])
		for _, in := range seq {
			c, errText := asmOn(lb, in.p, in.q)
			asmEmit(hostSets[0], in.p, in.q, c, errText, "reuse-seq")
		}
	}
	oneQ := map[string][]string{"k": {"v"}}
	spQ := map[string][]string{"k": {"a b"}, "z": {"&=?#%", ""}}
	for _, c := range []struct {
		p string
		q map[string][]string
	}{
		{"/b", nil}, {"/b", oneQ}, {"/b?s=1", nil}, {"/b?s=1", oneQ}, {"/b?", nil}, {"/b?", oneQ}, {"/b??", oneQ}, {"/b?a?", nil}, {"/b?a=1?b=2", spQ},
		{"/b/x?y=1?s=1", oneQ}, {"/b/x#frag?s=1", oneQ}, {"/b/x%41?s=1", oneQ}, {"/b/x%2541", nil}, {"/b/x y", spQ}, {"/b/%zz", oneQ}, {"/b/%", nil},
		{"/b#", oneQ}, {"/b#%zz", nil}, {"/b#a%20b\x01", nil}, {"/b/\x01", oneQ}, {"/b/\x7f", nil}, {"/b?s=\x01", nil}, {"/", nil}, {"/*", nil},
		{"/b/é/日本", spQ}, {"/b/\xff\xfe", nil}, {"/b/a+b;c,d:e@f$g&h=i", oneQ}, {"/b/[x]'(y)'!*", nil}, {"/b/%5Bx%5D", nil}, {"/b/\"<>\\^`{|}", nil},
		{"/b", map[string][]string{"a": {}}}, {"/b?s=1", map[string][]string{"a": {}}}, {"/b?s=%zz&t=%", oneQ}, {"//b//c", nil}, {"/b/../c/./d", oneQ},
	} {
		asm(hostSets[r.Intn(len(hostSets))], c.p, c.q, "corpus")
	}
	for b := 0; b < 256; b++ {
		for v := 0; v < 4; v++ {
			p := "/b/x" + string([]byte{byte(b)}) + "y"
			if v&1 == 1 {
				p += "?s=1"
			}
			var q map[string][]string
			if v&2 == 2 {
				q = oneQ
			}
			asm(hostSets[(b+v)%len(hostSets)], p, q, "single-byte-in-path")
		}
	}
	for b := 0; b < 256; b++ {
		asm(hostSets[b%len(hostSets)], fmt.Sprintf("/b/x%%%02Xy?s=1", b), spQ, "percent-XX-in-path")
	}
	for b := 0; b < 256; b++ {
		asm(hostSets[b%len(hostSets)], "/b?s="+string([]byte{byte(b)})+"&t", oneQ, "single-byte-in-static-query")
	}
	for i := 0; i < 600*mul; i++ {
		p := "/" + randBytes(r, 12)
		if r.Chance(1, 2) {
			p = "/b/" + randSeg(r, 8, r.Chance(1, 3)) + "/c"
		}
		if r.Chance(1, 2) {
			p += "?" + strings.ReplaceAll(randRawQuery(r), "#", "%23")
		}
		asm(hostSets[r.Intn(len(hostSets))], p, randValues(r), "random")
	}

	// ================= default backend stack =================
	type stackCfg struct {
		endpoint, pattern string
		hosts             []string
		inited            string
		p                 proxy.Proxy
	}
	buildStack := func(endpoint, pattern string, hosts []string, beQuery []string) (*config.ServiceConfig, *config.EndpointConfig) {
		sc := &config.ServiceConfig{Version: config.ConfigVersion, Timeout: 5 * time.Second, Host: hosts}
		ep := &config.EndpointConfig{Endpoint: endpoint, Method: "GET", QueryString: []string{"*"},
			Backend: []*config.Backend{{URLPattern: pattern, Host: hosts, QueryStringsToPass: beQuery}}}
		sc.Endpoints = []*config.EndpointConfig{ep}
		if err := sc.Init(); err != nil {
			panic(fmt.Sprintf("config init %s %s: %v", endpoint, pattern, err))
		}
		return sc, ep
	}
	patterns := []struct{ endpoint, pattern string }{
		{"/a/{p}", "/b/{p}"},
		{"/a/{p}", "/b/{p}?s=1"},
		{"/a/{p}", "/b/{p}/c?x=a%20b&y=%26"},
		{"/a/{p}", "/b/x-{p}.json"},
		{"/a/{p}", "/b/{p}?"},
		{"/a/{p}", "/b/{p}?a=1?b=2"},
		{"/a/{p}/t/{q}", "/b/{p}/c/{q}?s=1"},
		{"/a/{p}/t/{q}", "/b/{q}/{p}/{q}"},
		{"/a/{p}", "/b?id={p}&s=1"},
	}
	var stacks []*stackCfg
	for i, pt := range patterns {
		hosts := hostSets[i%len(hostSets)]
		_, ep := buildStack(pt.endpoint, pt.pattern, hosts, nil)
		p, err := proxy.NewDefaultFactory(backendFactoryRec, logging.NoOp).New(ep)
		if err != nil {
			panic(err)
		}
		stacks = append(stacks, &stackCfg{pt.endpoint, pt.pattern, hosts, ep.Backend[0].URLPattern, p})
	}
	stackRun := func(s *stackCfg, rc *recorder, params map[string]string, q map[string][]string) string {
		errText := ""
		func() {
			defer func() {
				if x := recover(); x != nil {
					errText = fmt.Sprint("panic: ", x)
				}
			}()
			pc := map[string]string{}
			for k, v := range params {
				pc[k] = v
			}
			_, err := s.p(withRec(ctx, rc), &proxy.Request{Method: "GET", Params: pc, Query: cloneValues(q), Headers: map[string][]string{}})
			if err != nil {
				errText = err.Error()
			}
		}()
		return errText
	}
	stackEmit := func(s *stackCfg, params map[string]string, q map[string][]string, rc *recorder, errText string, kind string) {
		c := rc.call()
		inner := rc.inner
		w.Count("stack:" + kind)
		w.Count("stack-pattern:" + s.pattern)
		taint := false
		for _, v := range params {
			if strings.ContainsAny(v, "%?#") {
				taint = true
			}
		}
		w.Add(emit.App("CStack", emit.StrList(s.hosts), emit.Str(s.inited), emit.StrMap(params), valuesCoq(q), innerCoq(inner), c.coq()),
			map[string]interface{}{"level": "default-stack", "stream": kind, "hosts": s.hosts, "url_pattern": s.pattern, "url_pattern_inited": s.inited, "params": params, "query": q,
				"observed": map[string]interface{}{"backend_stage": innerJS(inner), "call": c.js(), "error": errText}},
			"", fmt.Sprintf("S|%s|%v|%v", s.pattern, params, q), taint || len(q) > 0)
	}
	stack := func(s *stackCfg, params map[string]string, q map[string][]string, kind string) {
		rc := &recorder{}
		errText := stackRun(s, rc, params, q)
		stackEmit(s, params, q, rc, errText, kind)
	}
	mkParams := func(s *stackCfg, a, b string) map[string]string {
		if strings.Contains(s.endpoint, "{q}") {
			return map[string]string{"P": a, "Q": b}
		}
		return map[string]string{"P": a}
	}
	for b := 0; b < 256; b++ {
		s := stacks[b%len(stacks)]
		stack(s, mkParams(s, "x"+string([]byte{byte(b)})+"y", "w"), oneQ, "single-byte-param")
	}
	for b := 0; b < 256; b++ {
		s := stacks[(b+3)%len(stacks)]
		stack(s, mkParams(s, fmt.Sprintf("x%%%02X", b), fmt.Sprintf("%%%02x", b)), nil, "percent-XX-param")
	}
	for _, s := range stacks {
		for _, v := range []string{"x?y=1", "x#frag", "x%41", "x%2541", "x y", "x&admin=true", "{{.Q}}", "{{.P}}", "", "é", "..", "x;y=1"} {
			if v == "{{.Q}}" && strings.Contains(s.endpoint, "{q}") {
				continue // the result would depend on the iteration order of the Params map
			}
			stack(s, mkParams(s, v, "w"), spQ, "corpus")
		}
	}
	for i := 0; i < 500*mul; i++ {
		s := stacks[r.Intn(len(stacks))]
		taintOK := r.Chance(1, 4)
		a, b := randSeg(r, 8, taintOK), randSeg(r, 6, taintOK)
		if strings.Contains(a, "{{.") || strings.Contains(b, "{{.") {
			continue
		}
		stack(s, mkParams(s, a, b), randValues(r), "random")
	}

	// ================= (iii) gin engine, default options =================
	var gins []*ginCfg
	for i := range ginSpecs {
		gins = append(gins, buildGin(i, nil))
	}
	ginObsCoq := func(res ginRes) string {
		outer := "None"
		if res.rc.outer != nil {
			outer = emit.Some(emit.Pair(emit.StrMap(res.rc.outer.params), valuesCoq(res.rc.outer.query)))
		}
		return fmt.Sprintf("{| g_status := %s; g_outer := %s; g_inner := %s; g_call := %s |}", emit.Z(int64(res.status)), outer, innerCoq(res.rc.inner), res.rc.call().coq())
	}
	ginEmit := func(g *ginCfg, target string, res ginRes, kind string) {
		malformed, status := res.malformed, res.status
		var outerJS interface{}
		if res.rc.outer != nil {
			outerJS = map[string]interface{}{"params": res.rc.outer.params, "query": res.rc.outer.query}
		}
		c := res.rc.call()
		obs := ginObsCoq(res)
		w.Count("gin:" + kind)
		switch {
		case malformed:
			w.Count("gin-outcome:request line refused by net/http")
		case status == 400:
			w.Count("gin-outcome:400")
		case c != nil:
			w.Count("gin-outcome:backend called")
		default:
			w.Count(fmt.Sprintf("gin-outcome:%d no call", status))
		}
		w.Add(emit.App("CGin", g.route, emit.StrList(g.allow), emit.StrList(g.beAllow), emit.Str(g.inited), emit.StrList(g.hosts), emit.Str(target), emit.Bool(malformed), obs),
			map[string]interface{}{"level": "gin", "stream": kind, "route": g.routeJS, "input_query_strings": g.allow, "backend_input_query_strings": g.beAllow, "url_pattern": g.pattern, "hosts": g.hosts,
				"request_target": target, "request_target_bytes": []byte(target),
				"observed": map[string]interface{}{"malformed": malformed, "status": status, "proxy_saw": outerJS, "backend_stage": innerJS(res.rc.inner), "call": c.js(), "panic": res.panicText}},
			"", fmt.Sprintf("G|%s|%s|%v|%s", g.routeJS, g.pattern, g.allow, target), strings.ContainsAny(target, "%?#"))
	}
	ginCase := func(g *ginCfg, target string, kind string) {
		ginEmit(g, target, ginRun(g, target), kind)
	}
	tgt := ginTarget
	for gi, g := range gins {
		for _, s := range []string{"x", "x%3Fy%3D1", "x%23frag", "x%2541", "x%20y", "%", "%zz", "x%2Fy", "..", ".", "x%00", "x%0Ay", "é", "%C3%A9",
			"x#f", "x;y", "x+y", "x&admin=true", "%7B%7B.Q%7D%7D", "{{.Q}}", "x%", "%25", "%2525", "%253F", "%2523", "x%3f", "x%3F", "*", "x\"y", "x%22y", "x%5By%5D"} {
			if !(g.two && (s == "{{.Q}}" || s == "%7B%7B.Q%7D%7D")) { // else the result depends on the iteration order of the Params map
				ginCase(g, tgt(g, s, "w"), "corpus")
			}
			if g.two {
				ginCase(g, tgt(g, "w", s), "corpus")
			}
		}
		for _, t := range []string{"/a/x?k=v&k=w&z=%26%3D", "/a/x/", "/A/x", "//a/x", "/a/", "/a", "/a/x?", "/a/x??", "/a/x?k=a+b&k=a%20b&k=%zz&z=;&y=1", "/a/x/t/", "/a/x/t/y/",
			"/a/x/t/y?k=1&z=2&y=3", "/", "*", "a/x", "/a/x?k=%23&z=%3F%3D%26", "/a/x%3Fk=1?k=2", "/a/x?k=é&z=\xff\xfe", "/a/x/t/y%3Fz"} {
			ginCase(g, t, "corpus-targets")
		}
		_ = gi
	}
	for b := 0; b < 256; b++ {
		g := gins[b%len(gins)]
		ginCase(g, tgt(g, "x"+string([]byte{byte(b)})+"y", "w")+"?k=1", "single-byte-raw")
	}
	for b := 0; b < 256; b++ {
		g := gins[(b+1)%len(gins)]
		ginCase(g, tgt(g, fmt.Sprintf("x%%%02Xy", b), "w"), "percent-XX")
		g2 := gins[(b+2)%len(gins)]
		ginCase(g2, tgt(g2, "w", fmt.Sprintf("%%%02x", b))+"?k=a%20b&z=%26", "percent-xx-second-or-only")
	}
	for b := 0; b < 256; b++ {
		g := gins[(b+3)%len(gins)]
		ginCase(g, tgt(g, fmt.Sprintf("x%%25%02Xy", b), "w"), "double-encoded-%25XX")
	}
	for i := 0; i < 700*mul; i++ {
		g := gins[r.Intn(len(gins))]
		seg := func() string {
			s := randSeg(r, 8, true)
			for strings.Contains(s, "{{.") {
				s = randSeg(r, 8, true)
			}
			switch r.Intn(4) {
			case 0:
				return wireSafe(strings.NewReplacer("%", "p", "?", "q").Replace(s))
			case 1:
				return wireSafe(strings.ReplaceAll(s, "?", "%3F"))
			case 2:
				return url.PathEscape(s)
			}
			return url.PathEscape(url.PathEscape(s))
		}
		t := tgt(g, seg(), seg())
		if r.Chance(1, 2) {
			t += "?" + wireSafe(randRawQuery(r))
		}
		ginCase(g, t, "random")
	}

	// ================= instance reuse =================
	// ONE balancer+proxy / stack / engine instance serves a sequence of requests that differ in
	// path, static query, parameters and forwarded query: anything kept from an earlier request
	// (a cached URL, query or verdict of the checker) shows in a later observation. Every step
	// is an ordinary case; --only idx re-runs the whole sequence up to idx.
	for _, hosts := range hostSets[1:] {
		for _, seq := range seqAsm {
			lb := newLB(hosts)
			for _, in := range seq {
				c, errText := asmOn(lb, in.p, in.q)
				asmEmit(hosts, in.p, in.q, c, errText, "reuse-seq")
			}
		}
	}
	for i := 0; i < 12*mul; i++ {
		hosts := hostSets[r.Intn(len(hostSets))]
		lb := newLB(hosts)
		for k := 0; k < 5; k++ {
			p := "/b/" + randSeg(r, 6, false)
			if r.Chance(1, 2) {
				p += "?s=" + fmt.Sprint(r.Intn(9))
			}
			q := randValues(r)
			c, errText := asmOn(lb, p, q)
			asmEmit(hosts, p, q, c, errText, "reuse-seq-random")
		}
	}
	for _, st := range stacks {
		for _, in := range []struct {
			a, b string
			q    map[string][]string
		}{{"one", "w1", qv("k", "v")}, {"two", "w2", nil}, {"one", "w3", qv("k", "v2", "z", "")}, {"x y", "w1", qv("k", "v")}, {"three", "w 4", qv("z", "a&b=c")}, {"one", "w1", nil}} {
			stack(st, mkParams(st, in.a, in.b), in.q, "reuse-seq")
		}
	}
	for _, g := range gins {
		for _, t := range []string{tgt(g, "one", "w1") + "?k=1&z=2", tgt(g, "two", "w2"), tgt(g, "x%3Fy", "w1"), tgt(g, "three", "w3") + "?k=2", tgt(g, "one", "w1") + "?k=9&k=1",
			tgt(g, "x%2541", "w1") + "?k=1", tgt(g, "four", "x%23y"), tgt(g, "four", "w4"), tgt(g, "one", "w1")} {
			ginCase(g, t, "reuse-seq")
		}
	}

	// engine history (child process): default-options engines must keep answering 400 whatever
	// other engines were built in the process before or after them
	for _, o := range runHistoryChild() {
		rc := &recorder{}
		if o.Outer != nil {
			rc.outer = &outerObs{params: o.Outer.Params, query: o.Outer.Query}
		}
		if o.Inner != nil {
			rc.inner = &innerObs{path: string(o.Inner.Path), query: o.Inner.Query}
		}
		if o.Call != nil {
			rc.calls = []*callObs{{host: string(o.Call.Host), path: string(o.Call.Path), rawquery: string(o.Call.RawQuery),
				frag: string(o.Call.Frag), wire: string(o.Call.Wire), full: string(o.Call.Full)}}
		}
		ginEmit(gins[o.Spec], o.Target, ginRes{malformed: o.Malformed, status: o.Status, panicText: o.Panic, rc: rc}, "engine-history:"+o.Engine)
	}

	// concurrent reuse: the same instance hit from several goroutines released together, many
	// iterations over a few distinct inputs; every distinct (input, observation) pair is
	// emitted once, so a run without interference yields exactly one case per input
	// (the host picked by the balancer is not part of the key).
	goroutines, iters := 8, 300
	if cfg.Thorough() {
		goroutines, iters = 16, 2000
	}
	type hit struct {
		j    int
		emit func()
	}
	concurrent := func(distinct int, run func(j int) (string, func())) {
		res := make([]map[string]hit, goroutines)
		start := make(chan struct{})
		var wg sync.WaitGroup
		for g := 0; g < goroutines; g++ {
			res[g] = map[string]hit{}
			wg.Add(1)
			go func(g int) {
				defer wg.Done()
				<-start
				for k := 0; k < iters; k++ {
					j := (g*5 + k) % distinct
					key, em := run(j)
					key = fmt.Sprintf("%03d|%s", j, key)
					if _, ok := res[g][key]; !ok {
						res[g][key] = hit{j, em}
					}
				}
			}(g)
		}
		close(start)
		wg.Wait()
		all := map[string]hit{}
		for g := 0; g < goroutines; g++ {
			for k, v := range res[g] {
				if _, ok := all[k]; !ok {
					all[k] = v
				}
			}
		}
		ks := make([]string, 0, len(all))
		for k := range all {
			ks = append(ks, k)
		}
		sort.Strings(ks)
		for _, k := range ks {
			all[k].emit()
		}
	}
	noHost := func(c *callObs) string {
		if c == nil {
			return "not-called"
		}
		return strings.Join([]string{c.path, c.rawquery, c.frag, c.wire}, "\x00")
	}
	cq := func(j int) map[string][]string {
		switch j % 3 {
		case 0:
			return nil
		case 1:
			return qv("k", fmt.Sprintf("v%d", j))
		}
		return qv("k", fmt.Sprintf("a %d", j), "k", "&", fmt.Sprintf("j%d", j), "")
	}
	{
		hosts := hostSets[1]
		lb := newLB(hosts)
		concurrent(16, func(j int) (string, func()) {
			p := fmt.Sprintf("/b/c%d", j)
			if j%2 == 1 {
				p += fmt.Sprintf("?s=%d", j)
			}
			q := cq(j)
			c, errText := asmOn(lb, p, q)
			return noHost(c) + "|" + errText, func() { asmEmit(hosts, p, q, c, errText, "reuse-concurrent") }
		})
	}
	for _, st := range []*stackCfg{stacks[1], stacks[6]} {
		st := st
		concurrent(12, func(j int) (string, func()) {
			params := mkParams(st, fmt.Sprintf("p%d", j), fmt.Sprintf("q %d", j))
			q := cq(j)
			rc := &recorder{}
			errText := stackRun(st, rc, params, q)
			key := noHost(rc.call()) + "|" + innerCoq(rc.inner) + "|" + errText
			return key, func() { stackEmit(st, params, q, rc, errText, "reuse-concurrent") }
		})
	}
	for _, g := range []*ginCfg{gins[0], gins[2], gins[4]} {
		g := g
		concurrent(12, func(j int) (string, func()) {
			var t string
			switch j % 4 {
			case 3:
				t = tgt(g, fmt.Sprintf("c%d%%3Fx", j), "w")
			case 2:
				t = tgt(g, fmt.Sprintf("c%d", j), fmt.Sprintf("w%%20%d", j))
			default:
				t = tgt(g, fmt.Sprintf("c%d", j), fmt.Sprintf("w%d", j)) + fmt.Sprintf("?k=%d&z=a%%20b&k=x", j)
			}
			res := ginRun(g, t)
			outer := ""
			if res.rc.outer != nil {
				outer = emit.StrMap(res.rc.outer.params) + valuesCoq(res.rc.outer.query)
			}
			key := fmt.Sprintf("%v|%d|%s|%s|%s|%s", res.malformed, res.status, outer, innerCoq(res.rc.inner), noHost(res.rc.call()), res.panicText)
			return key, func() { ginEmit(g, t, res, "reuse-concurrent") }
		})
	}

	keys := make([]string, 0)
	for _, p := range patterns {
		keys = append(keys, p.pattern)
	}
	sort.Strings(keys)
	w.Meta["url_patterns"] = keys
	w.Meta["host_sets"] = hostSets
	if cfg.Only >= 0 {
		// replay of a single case: the writer may have collected no sample (JSON null), which the
		// driver's evidence step does not expect
		w.Meta["samples"] = []interface{}{}
	}
	w.Close("codec: corpus + all 256 single bytes + all 65536 byte pairs (256 row cases) + random strings vs net/url QueryEscape/QueryUnescape/PathUnescape/EscapedPath; ParseQuery and Values.Encode on corpus + random; "+
		"balancer+http proxy: corpus + every byte in the path x {static query} x {forwarded query} + every %XX + every byte in the static query + random; default stack: 9 url_patterns x every byte / %XX as parameter + random; "+
		"instance reuse: one balancer+proxy / default stack / gin engine serving sequences of requests that differ in path, static query, parameters and forwarded query, and hit concurrently from 8 (thorough: 16) goroutines over 12-16 distinct inputs, each distinct (input, observation) emitted once; gin engine (default options) with raw request lines: corpus + every raw byte + every %XX (either case) + every %25XX + random (raw / encoded / double-encoded segments, random client queries); nontrivial = input contains a byte that is escaped or one of % ? # or a non-empty forwarded query",
		true)
}
