// C03 generator: drives the complete default proxy factory (parallel merge, concurrent
// calls, filters, GraphQL, load balancer, request builder, http proxy) of the REAL code with
// recording stub executors that meet at a barrier, once as a fan-out and once per backend
// configured alone, and records what every backend was sent.  Built with -race and run with
// --extra race it additionally turns race-detector reports with lura frames into failing
// cases.
package main

import (
	"bufio"
	"bytes"
	"context"
	"encoding/json"
	"fmt"
	"io"
	"net/http"
	"net/url"
	"os"
	"os/exec"
	"path/filepath"
	"runtime"
	"sort"
	"strings"
	"sync"
	"sync/atomic"
	"time"

	"github.com/luraproject/lura/v2/config"
	"github.com/luraproject/lura/v2/logging"
	"github.com/luraproject/lura/v2/proxy"
	"github.com/luraproject/lura/v2/transport/http/client/graphql"

	"verif/harness/internal/emit"
	"verif/harness/internal/out"
	"verif/harness/internal/rng"
)

// ---------------------------------------------------------------- scenario description

type gqlSpec struct {
	get      bool   // transport GET instead of POST
	mutation bool   // type mutation instead of query
	vars     string // "none" | "param" | "static"
	long     bool   // a longer operation text (another body length)
}

type beSpec struct {
	method  string // "" = inherit from the endpoint
	hdrs    []string
	qs      []string
	pattern string
	gql     *gqlSpec
}

type reqSpec struct {
	hdr  map[string][]string
	qry  map[string][]string
	par  map[string]string
	body *string
}

type scenario struct {
	name     string
	epMethod string
	cc       int
	ccEach   []int // optional per backend override (set after config.Init)
	bs       []beSpec
	req      reqSpec
	seq      []reqSpec // instance reuse streams: the requests one instance serves
	shadowFrom int     // > 0: backends bs[shadowFrom:] are shadow backends and the endpoint is built by proxy.NewShadowFactory
}

type sent struct {
	Method string              `json:"method"`
	URL    string              `json:"url"`
	Query  map[string][]string `json:"query"`
	Hdr    map[string][]string `json:"headers"`
	Body   string              `json:"body"`
}

func (s sent) coq() string {
	return fmt.Sprintf("(Build_sent %s %s %s %s %s)",
		emit.Str(s.Method), emit.Str(s.URL), emit.MultiMap(s.Query), emit.MultiMap(s.Hdr), emit.Str(s.Body))
}

func (s sent) key() string {
	return fmt.Sprintf("%s|%s|%s|%s|%q", s.Method, s.URL, emit.MultiMap(s.Query), emit.MultiMap(s.Hdr), s.Body)
}

// ---------------------------------------------------------------- barrier

// all expected executor calls of one processed request meet here, so that the pipelines of
// sibling backends (and of concurrent attempts) are all in flight together.  The timeout is
// only a safety net against a deadlocked harness when the implementation under test calls
// fewer executors than expected; it is recorded and fails the case.
type barrier struct {
	mu       sync.Mutex
	n, seen  int
	ch       chan struct{}
	timedOut bool
}

func newBarrier(n int) *barrier { return &barrier{n: n, ch: make(chan struct{})} }

func (b *barrier) wait() {
	b.mu.Lock()
	b.seen++
	if b.seen == b.n {
		close(b.ch)
	}
	b.mu.Unlock()
	select {
	case <-b.ch:
	case <-time.After(time.Duration(barrierTimeout.Load())):
		b.mu.Lock()
		b.timedOut = true
		b.mu.Unlock()
		// the implementation already misbehaved (the case fails): do not spend the full
		// safety timeout on every later scenario
		barrierTimeout.Store(int64(300 * time.Millisecond))
	}
}

// safety net only, see barrier
var barrierTimeout atomic.Int64

func init() { barrierTimeout.Store(int64(15 * time.Second)) }

// ---------------------------------------------------------------- running the real code

func gqlExtra(g *gqlSpec) map[string]interface{} {
	m := map[string]interface{}{"query": "{q}", "operationName": "Q"}
	if g.get {
		m["method"] = "get"
	} else {
		m["method"] = "post"
	}
	if g.mutation {
		m["type"] = "mutation"
		m["query"] = "mutation{m}"
		m["operationName"] = "M"
	} else {
		m["type"] = "query"
	}
	if g.long {
		m["query"] = m["query"].(string) + " # a considerably longer operation text, so that the body length differs from the sibling's"
	}
	switch g.vars {
	case "param":
		m["variables"] = map[string]interface{}{"id": "{id}", "n": 7}
	case "static":
		m["variables"] = map[string]interface{}{"k": "v"}
	}
	return m
}

func buildEndpoint(sc scenario, only int) (*config.EndpointConfig, error) {
	ep := &config.EndpointConfig{Endpoint: "/e/{id}", Method: sc.epMethod, ConcurrentCalls: sc.cc,
		HeadersToPass: []string{"*"}, QueryString: []string{"*"}}
	for i, b := range sc.bs {
		if only >= 0 && i != only {
			continue
		}
		be := &config.Backend{URLPattern: b.pattern, Method: b.method, Host: []string{fmt.Sprintf("http://h%d", i)},
			HeadersToPass: append([]string(nil), b.hdrs...), QueryStringsToPass: append([]string(nil), b.qs...)}
		if b.gql != nil {
			be.ExtraConfig = config.ExtraConfig{graphql.Namespace: gqlExtra(b.gql)}
		}
		if sc.shadowFrom > 0 && i >= sc.shadowFrom {
			if be.ExtraConfig == nil {
				be.ExtraConfig = config.ExtraConfig{}
			}
			be.ExtraConfig[proxy.Namespace] = map[string]interface{}{"shadow": true}
		}
		ep.Backend = append(ep.Backend, be)
	}
	svc := config.ServiceConfig{Version: config.ConfigVersion, Timeout: 60 * time.Second, Endpoints: []*config.EndpointConfig{ep}}
	if err := svc.Init(); err != nil {
		return nil, err
	}
	if len(sc.ccEach) == len(sc.bs) {
		j := 0
		for i := range sc.bs {
			if only >= 0 && i != only {
				continue
			}
			ep.Backend[j].ConcurrentCalls = sc.ccEach[i]
			j++
		}
	}
	return ep, nil
}

func isShadowBE(be *config.Backend) bool {
	e, ok := be.ExtraConfig[proxy.Namespace].(map[string]interface{})
	if !ok {
		return false
	}
	v, _ := e["shadow"].(bool)
	return v
}

// the endpoint the model speaks of: the regular backends (the shadow pipeline is C16's
// subject; here the shadow backends are only siblings that must not matter)
func modelEP(ep *config.EndpointConfig) *config.EndpointConfig {
	c := *ep
	c.Backend = nil
	for _, be := range ep.Backend {
		if !isShadowBE(be) {
			c.Backend = append(c.Backend, be)
		}
	}
	return &c
}

func cloneMM(m map[string][]string) map[string][]string {
	r := make(map[string][]string, len(m))
	for k, v := range m {
		r[k] = append([]string(nil), v...)
	}
	return r
}
func cloneSM(m map[string]string) map[string]string {
	r := make(map[string]string, len(m))
	for k, v := range m {
		r[k] = v
	}
	return r
}

type runResult struct {
	sent     [][]sent // per backend of the endpoint that was built
	timedOut bool
	panicked string
	afterHdr map[string][]string
	afterQry map[string][]string
	afterPar map[string]string
}

// expected executor calls: every attempt of every backend whose GraphQL extractor succeeds
func expectedCalls(ep *config.EndpointConfig, rq reqSpec) int {
	total := 0
	for _, be := range ep.Backend {
		if _, ok := gqlOut(be, rq); !ok || isShadowBE(be) {
			continue
		}
		cc := be.ConcurrentCalls
		if cc < 1 {
			cc = 1
		}
		total += cc
	}
	return total
}

type gout struct {
	body  string
	query map[string][]string
}

// what the GraphQL extractor yields for this request (independent call on private inputs)
func gqlOut(be *config.Backend, rq reqSpec) (*gout, bool) {
	opt, err := graphql.GetOptions(be.ExtraConfig)
	if err != nil {
		return nil, true // not a GraphQL backend
	}
	ex := graphql.New(*opt)
	body := ""
	if rq.body != nil {
		body = *rq.body
	}
	switch opt.Type {
	case graphql.OperationMutation:
		if opt.Method == graphql.MethodGet {
			q, err := ex.QueryFromBody(strings.NewReader(body))
			if err != nil {
				return nil, false
			}
			return &gout{query: q}, true
		}
		b, err := ex.BodyFromBody(strings.NewReader(body))
		if err != nil {
			return nil, false
		}
		return &gout{body: string(b), query: map[string][]string{}}, true
	case graphql.OperationQuery:
		if opt.Method == graphql.MethodGet {
			q, err := ex.QueryFromParams(cloneSM(rq.par))
			if err != nil {
				return nil, false
			}
			return &gout{query: q}, true
		}
		b, err := ex.BodyFromParams(cloneSM(rq.par))
		if err != nil {
			return nil, false
		}
		return &gout{body: string(b), query: map[string][]string{}}, true
	}
	return nil, true
}

// a client body that behaves like net/http's server side body: Close has an effect (a Read
// after Close fails) and both are serialised by a mutex
type serverBody struct {
	mu     sync.Mutex
	r      *bytes.Reader
	closed bool
}

func (b *serverBody) Read(p []byte) (int, error) {
	b.mu.Lock()
	defer b.mu.Unlock()
	if b.closed {
		return 0, http.ErrBodyReadAfterClose
	}
	return b.r.Read(p)
}

func (b *serverBody) Close() error {
	b.mu.Lock()
	b.closed = true
	b.mu.Unlock()
	return nil
}

// one processed request: where its executor calls are recorded and meet
type runState struct {
	bar  *barrier
	mu   sync.Mutex
	sent [][]sent
	wg   sync.WaitGroup
}

type runKey struct{}

// one factory-built endpoint proxy (instance).  The stub executors are bound when the factory
// runs; every call finds the request it belongs to through the context, so that one instance
// can serve a sequence of requests and several requests at the same time.
type instance struct {
	ep  *config.EndpointConfig
	p   proxy.Proxy
	err string
}

func newInstance(ep *config.EndpointConfig) *instance {
	in := &instance{ep: ep}
	idx := map[*config.Backend]int{}
	for i, be := range ep.Backend {
		idx[be] = i
	}
	bf := func(be *config.Backend) proxy.Proxy {
		k := idx[be]
		if isShadowBE(be) { // answers at once, records nothing, does not take part in the barrier
			return proxy.NewHTTPProxyWithHTTPExecutor(be, func(_ context.Context, r *http.Request) (*http.Response, error) {
				if r.Body != nil {
					io.Copy(io.Discard, r.Body)
				}
				return &http.Response{StatusCode: 200, Header: http.Header{"Content-Type": {"application/json"}},
					Body: io.NopCloser(strings.NewReader(`{"shadow":1}`))}, nil
			}, be.Decoder)
		}
		injected := fmt.Sprintf("X-Injected-By-%d", k)
		ex := func(ctx context.Context, r *http.Request) (*http.Response, error) {
			run, _ := ctx.Value(runKey{}).(*runState)
			if run == nil {
				return nil, fmt.Errorf("executor called outside a recorded request")
			}
			run.wg.Add(1)
			defer run.wg.Done()
			// what a cookie jar or a decorating round tripper does: write to the headers of the
			// outgoing request it was handed (its own, as far as it can know)
			r.Header.Set(injected, "1")
			s := sent{Method: r.Method, URL: r.URL.Scheme + "://" + r.URL.Host + r.URL.Path}
			q, err := url.ParseQuery(r.URL.RawQuery)
			if err != nil {
				q = url.Values{"<unparsable>": {r.URL.RawQuery}}
			}
			s.Query = q
			// like a real transport, the executor reads the body when it writes the request: here
			// after every pipeline of this client request has reached its executor, so that
			// whatever a sibling's stages did to a shared body (read, Close) has happened
			run.bar.wait()
			// the headers as they are when the transport writes the request, minus what this
			// executor added itself: a sibling's addition must not show up here
			s.Hdr = cloneMM(r.Header)
			delete(s.Hdr, injected)
			if r.Body != nil {
				b, err := io.ReadAll(r.Body)
				s.Body = string(b)
				if err != nil {
					s.Body += "<body read error: " + err.Error() + ">"
				}
			}
			run.mu.Lock()
			run.sent[k] = append(run.sent[k], s)
			run.mu.Unlock()
			return &http.Response{StatusCode: 200, Header: http.Header{"Content-Type": {"application/json"}},
				Body: io.NopCloser(strings.NewReader(fmt.Sprintf(`{"k%d":1}`, k)))}, nil
		}
		return proxy.NewHTTPProxyWithHTTPExecutor(be, ex, be.Decoder)
	}
	var f proxy.Factory = proxy.NewDefaultFactory(bf, logging.NoOp)
	for _, be := range ep.Backend {
		if isShadowBE(be) {
			f = proxy.NewShadowFactory(f)
			break
		}
	}
	p, err := f.New(ep)
	if err != nil {
		in.err = "factory: " + err.Error()
	}
	in.p = p
	return in
}

// call sends one client request through the instance.  quiesce: wait (bounded yield loop,
// only for attributing late race reports) until the goroutines of this request are gone.
func (in *instance) call(rq reqSpec, quiesce bool) runResult {
	ep := in.ep
	res := runResult{}
	if in.err != "" {
		res.sent = make([][]sent, len(modelEP(ep).Backend))
		res.panicked = in.err
		return res
	}
	run := &runState{bar: newBarrier(expectedCalls(ep, rq)), sent: make([][]sent, len(ep.Backend))}
	// the client's own maps: kept by reference, their contents are compared afterwards
	h0, q0, p0 := cloneMM(rq.hdr), cloneMM(rq.qry), cloneSM(rq.par)
	req := &proxy.Request{Method: ep.Method, Headers: h0, Query: q0, Params: p0}
	if rq.body != nil {
		req.Body = &serverBody{r: bytes.NewReader([]byte(*rq.body))}
	}
	base := runtime.NumGoroutine()
	func() {
		defer func() {
			if r := recover(); r != nil {
				res.panicked = fmt.Sprint(r)
			}
		}()
		ctx, cancel := context.WithTimeout(context.WithValue(context.Background(), runKey{}, run), 60*time.Second)
		defer cancel()
		in.p(ctx, req)
	}()
	// the concurrent middleware returns at the first complete answer: every attempt has passed
	// the barrier by then; wait for the executors to return
	run.wg.Wait()
	if quiesce {
		for i := 0; i < 200000 && runtime.NumGoroutine() > base; i++ {
			runtime.Gosched()
		}
	}
	run.bar.mu.Lock()
	res.timedOut = run.bar.timedOut
	run.bar.mu.Unlock()
	run.mu.Lock()
	defer run.mu.Unlock()
	res.sent = nil
	for k := range run.sent {
		if !isShadowBE(ep.Backend[k]) {
			res.sent = append(res.sent, append([]sent(nil), run.sent[k]...))
		}
	}
	res.afterHdr, res.afterQry, res.afterPar = cloneMM(h0), cloneMM(q0), cloneSM(p0)
	return res
}

func runEndpoint(ep *config.EndpointConfig, rq reqSpec) runResult {
	return newInstance(ep).call(rq, true)
}

func (r runResult) key() string {
	var sb strings.Builder
	for k, xs := range r.sent {
		ks := make([]string, len(xs))
		for i, x := range xs {
			ks[i] = x.key()
		}
		sort.Strings(ks)
		fmt.Fprintf(&sb, "[%d:%s]", k, strings.Join(ks, ";"))
	}
	fmt.Fprintf(&sb, "|%s|%s|%s|%v|%s", emit.MultiMap(r.afterHdr), emit.MultiMap(r.afterQry), emit.StrMap(r.afterPar), r.timedOut, r.panicked)
	return sb.String()
}

// ---------------------------------------------------------------- race log

type raceLog struct {
	prefix string
	offs   map[string]int64
	own    bool // only the file of this process
}

// new race-detector reports with lura frames since the last call
func (l *raceLog) fresh() []string {
	var found []string
	files, _ := filepath.Glob(l.prefix + ".*")
	if l.own {
		files = []string{fmt.Sprintf("%s.%d", l.prefix, os.Getpid())}
	}
	sort.Strings(files)
	for _, f := range files {
		b, err := os.ReadFile(f)
		if err != nil {
			continue
		}
		off := l.offs[f]
		if int64(len(b)) <= off {
			continue
		}
		l.offs[f] = int64(len(b))
		for _, blk := range strings.Split(string(b[off:]), "==================") {
			if strings.Contains(blk, "DATA RACE") && strings.Contains(blk, "github.com/luraproject/lura/v2/") {
				found = append(found, strings.TrimSpace(blk))
			}
		}
	}
	return found
}

func logPath() string {
	for _, f := range strings.Fields(os.Getenv("GORACE")) {
		if strings.HasPrefix(f, "log_path=") {
			return strings.TrimPrefix(f, "log_path=")
		}
	}
	return ""
}

// ---------------------------------------------------------------- emission

func strList(xs []string) string { return emit.StrList(xs) }

func backendCoq(be *config.Backend, rq reqSpec) (string, map[string]interface{}) {
	r := proxy.Request{Params: cloneSM(rq.par)}
	r.GeneratePath(be.URLPattern)
	g := "None"
	gj := interface{}(nil)
	if opt, err := graphql.GetOptions(be.ExtraConfig); err == nil {
		o, ok := gqlOut(be, rq)
		kind := "GQuery"
		if opt.Type == graphql.OperationMutation {
			kind = "GMutation"
		}
		outc := "None"
		if ok && o != nil {
			outc = emit.Some(emit.Pair(emit.Str(o.body), emit.MultiMap(o.query)))
		}
		g = emit.Some(fmt.Sprintf("(Build_gql %s %s %s)", emit.Bool(opt.Method == graphql.MethodGet), kind, outc))
		gj = map[string]interface{}{"method": string(opt.Method), "type": string(opt.Type), "extractor_ok": ok, "variables": opt.Variables}
	}
	cc := be.ConcurrentCalls
	term := fmt.Sprintf("(Build_backend %s %s %s %s %s %s %s)",
		emit.Str(be.Method), strList(be.HeadersToPass), strList(be.QueryStringsToPass), emit.Nat(cc), emit.Str(be.Host[0]), emit.Str(r.Path), g)
	js := map[string]interface{}{"method": be.Method, "input_headers": be.HeadersToPass, "input_query_strings": be.QueryStringsToPass,
		"concurrent_calls": cc, "host": be.Host[0], "url_pattern": be.URLPattern, "graphql": gj}
	return term, js
}

func reqCoq(m string, rq reqSpec) string {
	body := "None"
	if rq.body != nil {
		body = emit.Some(emit.Str(*rq.body))
	}
	return fmt.Sprintf("(Build_request %s %s %s %s %s)",
		emit.Str(m), emit.MultiMap(rq.hdr), emit.MultiMap(rq.qry), emit.StrMap(rq.par), body)
}

func sentsCoq(xs []sent) string {
	ys := make([]string, len(xs))
	for i, x := range xs {
		ys[i] = x.coq()
	}
	return emit.List(ys)
}

func sameSents(a, b []sent) bool {
	if len(a) != len(b) {
		return false
	}
	for _, x := range a {
		for _, y := range b {
			if x.key() != y.key() {
				return false
			}
		}
	}
	return true
}

func unsafeMethod(ep *config.EndpointConfig) bool {
	if len(ep.Backend) == 1 {
		return false
	}
	for _, b := range ep.Backend {
		if m := strings.ToUpper(b.Method); m != "GET" && m != "HEAD" {
			return true
		}
	}
	return false
}

// one unit of work: a scenario of one of the three streams.  nominal = the number of cases
// it yields when nothing interferes (0: the configuration is rejected by config.Init).
type job struct {
	kind    string // fresh | seq | conc
	sc      scenario
	nominal int
}

// what a worker process reports to the generator process, one JSON line each
type record struct {
	Job     int                    `json:"job"`
	Kind    string                 `json:"kind"` // start | case | done
	Term    string                 `json:"term,omitempty"`
	JS      map[string]interface{} `json:"js,omitempty"`
	Canon   string                 `json:"canon,omitempty"`
	Nontriv bool                   `json:"nontriv,omitempty"`
	Counts  []string               `json:"counts,omitempty"`
	Reports int                    `json:"reports,omitempty"`
}

func allJobs(cfg out.Config, raceMode bool) []job {
	r := rng.New(cfg.Seed)
	var jobs []job
	nominal := func(sc scenario, n int) int {
		if _, err := buildEndpoint(sc, -1); err != nil {
			return 0
		}
		return n
	}
	for _, sc := range scenarios(cfg, r, raceMode) {
		jobs = append(jobs, job{"fresh", sc, nominal(sc, 1)})
	}
	if !raceMode { // unit level ownership effects: single goroutine, nothing for the detector
		for _, sh := range shapes {
			for _, rq := range []reqSpec{reqA, reqB, reqCL} {
				sc := scenario{name: "alias:" + sh.name, epMethod: "POST", cc: 1, bs: []beSpec{sh.b}, req: rq}
				jobs = append(jobs, job{"alias", sc, nominal(sc, len(aliasKinds))})
			}
		}
	}
	seqs, concs := reuseScenarios(cfg, r, raceMode)
	for _, sc := range seqs {
		jobs = append(jobs, job{"seq", sc, nominal(sc, len(sc.seq))})
	}
	for _, sc := range concs { // last: their case count is deterministic only without interference
		jobs = append(jobs, job{"conc", sc, nominal(sc, len(sc.seq))})
	}
	return jobs
}

func canonOf(sc scenario, stream string, step int, rq reqSpec) string {
	return fmt.Sprintf("%s|%s|%d|%s|%d|%v|%d|%+v|%v|%v|%v|%v", sc.name, stream, step, sc.epMethod, sc.cc, sc.ccEach, sc.shadowFrom, describe(sc.bs), rq.hdr, rq.qry, rq.par, rq.body != nil)
}

// the statement excludes a body shared by shallow clones: never generate it
// (all backends GET/HEAD: the pipelines hold the same reader).  It stays when at most one
// pipeline touches it: a GraphQL query backend without concurrent calls replaces the Body of
// its own request and never reads or closes the one it was handed.
func inScope(ep *config.EndpointConfig, rq reqSpec) reqSpec {
	if rq.body != nil && len(ep.Backend) > 1 && !unsafeMethod(ep) {
		touchers := 0
		for _, be := range ep.Backend {
			opt, err := graphql.GetOptions(be.ExtraConfig)
			if be.ConcurrentCalls >= 2 || err != nil || opt.Type != graphql.OperationQuery {
				touchers++
			}
		}
		if touchers > 1 {
			rq.body = nil
		}
	}
	return rq
}

func stepRequest(j job, step int) reqSpec {
	if j.kind == "fresh" || j.kind == "alias" {
		return j.sc.req
	}
	return j.sc.seq[step%len(j.sc.seq)]
}

// builds the record of one case
// the client's own maps (with their value slices) hold something else than before the request
func (r runResult) mutated(rq reqSpec) bool {
	return emit.MultiMap(r.afterHdr) != emit.MultiMap(rq.hdr) || emit.MultiMap(r.afterQry) != emit.MultiMap(rq.qry) || emit.StrMap(r.afterPar) != emit.StrMap(rq.par)
}

// writers: the backends whose pipeline, run alone, writes into the client's own maps / value
// slices.  In a fan-out of several backends such a write goes to state the sibling pipelines
// read without any synchronisation: an observed conflicting access, whether or not the
// sibling happened to see the other value in this run.
func caseRecord(sc scenario, stream string, step int, ep *config.EndpointConfig, rq reqSpec, keep runResult, alone [][]sent, writers []int, problems []string, reports []string, crash string) record {
	n := len(ep.Backend)
	if keep.timedOut || keep.panicked != "" {
		problems = append(problems, fmt.Sprintf("fan-out: timeout=%v panic=%q", keep.timedOut, keep.panicked))
	}
	sharedWrite := len(ep.Backend) > 1 && len(writers) > 0 && keep.sent != nil && keep.afterHdr != nil && keep.mutated(rq)
	race := len(reports) > 0 || strings.Contains(crash, "concurrent map") || strings.Contains(crash, "DATA RACE") || sharedWrite
	var bl, ol []string
	var bj, oj []interface{}
	for k, be := range ep.Backend {
		t, j := backendCoq(be, rq)
		bl = append(bl, t)
		bj = append(bj, j)
		var fan, al []sent
		if k < len(keep.sent) {
			fan = keep.sent[k]
		}
		if k < len(alone) {
			al = alone[k]
		}
		if len(problems) > 0 {
			// a harness level problem must fail the case: make the observation unmatchable
			fan = append(append([]sent(nil), fan...), sent{Method: "<harness problem: " + strings.Join(problems, "; ") + ">"})
		}
		ol = append(ol, emit.Pair(sentsCoq(fan), sentsCoq(al)))
		oj = append(oj, map[string]interface{}{"fan_out": fan, "alone": al})
	}
	term := emit.App("Case", emit.List(bl), reqCoq(ep.Method, rq), emit.List(ol), emit.Bool(race),
		emit.MultiMap(keep.afterHdr), emit.MultiMap(keep.afterQry), emit.StrMap(keep.afterPar))
	var bodyJS interface{}
	if rq.body != nil {
		bodyJS = *rq.body
	}
	js := map[string]interface{}{"scenario": sc.name, "stream": stream, "step": step, "endpoint_method": ep.Method, "backends": bj,
		"request": map[string]interface{}{"headers": rq.hdr, "query": rq.qry, "params": rq.par, "body": bodyJS},
		"observed": map[string]interface{}{"per_backend": oj, "race_detector_reports_with_lura_frames": len(reports),
			"client_headers_after": keep.afterHdr, "client_query_after": keep.afterQry, "client_params_after": keep.afterPar, "problems": problems}}
	if len(reports) > 0 {
		rep := reports[0]
		if len(rep) > 6000 {
			rep = rep[:6000]
		}
		js["first_race_report"] = rep
	}
	if crash != "" {
		js["process_crashed_while_running_this_scenario"] = crash
	}
	if sharedWrite {
		js["write_into_client_maps_shared_with_siblings_by_backends"] = writers
	}
	counts := []string{"stream:" + stream, fmt.Sprintf("backends:%d", n), fmt.Sprintf("cc:%d", ep.Backend[0].ConcurrentCalls)}
	if unsafeMethod(ep) {
		counts = append(counts, "clone:deep")
	} else if n > 1 {
		counts = append(counts, "clone:shallow")
	}
	for _, b := range sc.bs {
		switch {
		case b.gql != nil && b.gql.get:
			counts = append(counts, "kind:graphql-get")
		case b.gql != nil:
			counts = append(counts, "kind:graphql-post")
		case len(b.hdrs)+len(b.qs) > 0:
			counts = append(counts, "kind:filtered")
		default:
			counts = append(counts, "kind:plain")
		}
	}
	if rq.body != nil {
		counts = append(counts, "body:present")
	}
	if crash != "" {
		counts = append(counts, "worker-crashed")
	}
	return record{Kind: "case", Term: term, JS: js, Canon: canonOf(sc, stream, step, rq), Nontriv: n > 1 || ep.Backend[0].ConcurrentCalls > 1, Counts: counts}
}

// ---------------------------------------------------------------- worker process

// runs jobs[from:to) against the real code; every scenario is announced before it starts, so
// that the generator process knows which one was in flight when this process dies of one of
// Go's unrecoverable errors (concurrent map writes, ...).  upto >= 0 (replay of one step of a
// sequence): run only steps 0..upto of the sequence.
func worker(cfg out.Config, raceMode bool, from, to, upto int, outPath string) {
	f, err := os.OpenFile(outPath, os.O_CREATE|os.O_WRONLY|os.O_APPEND, 0o644)
	if err != nil {
		fmt.Fprintln(os.Stderr, err)
		os.Exit(2)
	}
	put := func(r record) {
		b, err := json.Marshal(r)
		if err != nil {
			b, _ = json.Marshal(record{Job: r.Job, Kind: r.Kind, Term: r.Term, Canon: r.Canon, Counts: r.Counts, JS: map[string]interface{}{"marshal_error": err.Error()}})
		}
		f.Write(append(b, '\n')) // unbuffered: in the kernel before anything else happens
	}
	rl := &raceLog{prefix: logPath(), offs: map[string]int64{}, own: true}
	reps := 3 // a leak through a shared map shows only when the writer runs first: a few tries
	if raceMode && cfg.Thorough() {
		reps = 10
	}
	if cfg.Only >= 0 {
		reps = 400 // replay of one scenario: a leak that depends on which sibling runs first gets many tries
	}
	raceReports := 0
	freshReports := func() []string {
		if !raceMode {
			return nil
		}
		reports := rl.fresh()
		raceReports += len(reports)
		return reports
	}
	// alone: each backend as the only backend of a FRESH endpoint (the code is deterministic there)
	observeAlone := func(sc scenario, n int, rq reqSpec) ([][]sent, []int, []string) {
		alone := make([][]sent, n)
		var problems []string
		var writers []int
		for k := 0; k < n; k++ {
			epk, err := buildEndpoint(sc, k)
			if err != nil {
				problems = append(problems, "solo config rejected: "+err.Error())
				continue
			}
			rr := runEndpoint(epk, rq)
			alone[k] = rr.sent[0]
			if rr.timedOut || rr.panicked != "" {
				problems = append(problems, fmt.Sprintf("solo %d: timeout=%v panic=%q", k, rr.timedOut, rr.panicked))
			} else if epk.Backend[0].ConcurrentCalls <= 1 && rr.mutated(rq) {
				writers = append(writers, k)
			}
		}
		return alone, writers, problems
	}
	differs := func(rr runResult, alone [][]sent) bool {
		for k := range alone {
			if !sameSents(rr.sent[k], alone[k]) {
				return true
			}
		}
		return false
	}
	jobs := allJobs(cfg, raceMode)
	for ji := from; ji < to && ji < len(jobs); ji++ {
		j := jobs[ji]
		sc := j.sc
		put(record{Job: ji, Kind: "start"})
		ep, err := buildEndpoint(sc, -1)
		if err != nil {
			put(record{Job: ji, Kind: "done"})
			continue
		}
		emitRec := func(r record) { r.Job = ji; put(r) }
		switch j.kind {
		case "fresh": // one fresh instance per request
			epm := modelEP(ep)
			rq := inScope(epm, sc.req)
			alone, writers, problems := observeAlone(sc, len(epm.Backend), rq)
			// fan-out, repeated; keep the first run in which some backend was sent something
			// else than alone (else the first)
			var keep *runResult
			for i := 0; i < reps; i++ {
				rr := runEndpoint(ep, rq)
				d := differs(rr, alone)
				if keep == nil || d {
					c := rr
					keep = &c
				}
				if d {
					break
				}
			}
			emitRec(caseRecord(sc, "fresh", 0, epm, rq, *keep, alone, writers, problems, freshReports(), ""))
		case "alias":
			for _, rec := range aliasRecords(sc, ep, 0, sc.req) {
				emitRec(rec)
			}
		case "seq": // sequential reuse: ONE instance serves the whole sequence, every step is a case
			inst := newInstance(ep)
			for i, rq0 := range sc.seq {
				if upto >= 0 && i > upto {
					break
				}
				rq := inScope(ep, rq0)
				rr := inst.call(rq, true)
				alone, writers, problems := observeAlone(sc, len(ep.Backend), rq)
				emitRec(caseRecord(sc, "reuse-seq", i, ep, rq, rr, alone, writers, problems, freshReports(), ""))
			}
		case "conc":
			// concurrent reuse: ONE instance hit by many goroutines released together, a few
			// distinct requests; every DISTINCT (request, observation) pair is one case, so a run
			// without interference yields exactly one case per distinct request
			L := len(sc.seq)
			inputs := make([]reqSpec, L)
			alone := make([][][]sent, L)
			probs := make([][]string, L)
			wrs := make([][]int, L)
			for i, rq0 := range sc.seq {
				inputs[i] = inScope(ep, rq0)
				alone[i], wrs[i], probs[i] = observeAlone(sc, len(ep.Backend), inputs[i])
			}
			freshReports() // reports so far belong to the solo runs above (none expected)
			inst := newInstance(ep)
			const G, iters = 12, 6
			type obs struct {
				in int
				rr runResult
			}
			var mu sync.Mutex
			seen := map[string]obs{}
			gate := make(chan struct{})
			var wg sync.WaitGroup
			for g := 0; g < G; g++ {
				wg.Add(1)
				go func(g int) {
					defer wg.Done()
					<-gate
					for it := 0; it < iters; it++ {
						in := (g + it) % L
						rr := inst.call(inputs[in], false)
						k := fmt.Sprintf("%03d|%s", in, rr.key())
						mu.Lock()
						if _, ok := seen[k]; !ok {
							seen[k] = obs{in, rr}
						}
						mu.Unlock()
					}
				}(g)
			}
			close(gate)
			wg.Wait()
			reports := freshReports()
			keys := make([]string, 0, len(seen))
			for k := range seen {
				keys = append(keys, k)
			}
			sort.Strings(keys)
			for _, k := range keys {
				o := seen[k]
				emitRec(caseRecord(sc, "reuse-conc", o.in, ep, inputs[o.in], o.rr, alone[o.in], wrs[o.in], probs[o.in], reports, ""))
			}
		}
		put(record{Job: ji, Kind: "done", Reports: raceReports})
		raceReports = 0
	}
	f.Close()
}

// ---------------------------------------------------------------- generator process

type tailBuf struct {
	mu  sync.Mutex
	buf []byte
}

func (t *tailBuf) Write(p []byte) (int, error) {
	t.mu.Lock()
	defer t.mu.Unlock()
	if len(t.buf) < 1<<16 { // the head of a crash dump names the error and the first goroutines
		t.buf = append(t.buf, p...)
	}
	return len(p), nil
}

func main() {
	cfg := out.ParseFlags("C03")
	raceMode := cfg.Extra == "race"
	if raceMode && !raceEnabled {
		fmt.Fprintln(os.Stderr, "--extra race needs a binary built with -race")
		os.Exit(2)
	}
	if raceMode && logPath() == "" {
		fmt.Fprintln(os.Stderr, "GORACE log_path not set")
		os.Exit(2)
	}
	if spec := os.Getenv("C03_WORKER"); spec != "" {
		var from, to, upto int
		fmt.Sscanf(spec, "%d:%d:%d", &from, &to, &upto)
		worker(cfg, raceMode, from, to, upto, os.Getenv("C03_WORKER_OUT"))
		return
	}

	// The real code runs in worker processes only (one batch of scenarios per worker): a worker
	// killed by one of Go's unrecoverable runtime errors becomes failing case(s) of the scenario
	// in flight, and the next worker goes on behind it.
	w := out.NewWriter(cfg, "Verif.Corr.C03", 200)
	jobs := allJobs(cfg, raceMode)
	starts := make([]int, len(jobs)+1)
	for i, j := range jobs {
		starts[i+1] = starts[i] + j.nominal
	}
	var env []string
	for _, e := range os.Environ() {
		if !strings.HasPrefix(e, "GORACE=") && !strings.HasPrefix(e, "C03_WORKER") {
			env = append(env, e)
		}
	}
	if raceMode {
		// a race-built binary exits with status 66 once a race was reported; the reports are
		// turned into failing cases instead
		env = append(env, "GORACE="+os.Getenv("GORACE")+" exitcode=0")
	}
	workers, crashes, raceReports := 0, 0, 0
	runWorker := func(from, to, upto int) ([]record, string) {
		workers++
		outPath := filepath.Join(cfg.Dir, fmt.Sprintf("worker_%04d.jsonl", workers))
		os.Remove(outPath)
		cmd := exec.Command(os.Args[0], os.Args[1:]...)
		cmd.Env = append(append([]string(nil), env...), fmt.Sprintf("C03_WORKER=%d:%d:%d", from, to, upto), "C03_WORKER_OUT="+outPath)
		tb := &tailBuf{}
		cmd.Stdout, cmd.Stderr = tb, tb
		runErr := cmd.Run()
		var recs []record
		if f, err := os.Open(outPath); err == nil {
			sc := bufio.NewScanner(f)
			sc.Buffer(make([]byte, 1<<20), 1<<28)
			for sc.Scan() {
				var r record
				if json.Unmarshal(sc.Bytes(), &r) == nil && r.Kind != "" {
					recs = append(recs, r)
				}
			}
			f.Close()
		}
		os.Remove(outPath)
		crash := ""
		if runErr != nil {
			crash = fmt.Sprintf("worker process: %v\n%s", runErr, string(tb.buf))
			if len(crash) > 8000 {
				crash = crash[:8000]
			}
		}
		return recs, crash
	}
	apply := func(r record) {
		for _, c := range r.Counts {
			w.Count(c)
		}
		w.Add(r.Term, r.JS, "", r.Canon, r.Nontriv)
	}
	// cases standing for a scenario whose worker died: the request it was processing (and the
	// steps of its sequence that could not run any more)
	crashCases := func(ji, emitted int, crash string) {
		j := jobs[ji]
		ep, err := buildEndpoint(j.sc, -1)
		if err != nil {
			return
		}
		ep = modelEP(ep)
		stream := map[string]string{"fresh": "fresh", "seq": "reuse-seq", "conc": "reuse-conc", "alias": "alias"}[j.kind]
		n := j.nominal - emitted
		if n < 1 {
			n = 1
		}
		for k := 0; k < n; k++ {
			step := emitted + k
			rq := inScope(ep, stepRequest(j, step))
			text := crash
			if k > 0 && j.kind == "seq" {
				text = "step not run: the process died at an earlier step of this sequence\n" + crash
			}
			apply(caseRecord(j.sc, stream, step, ep, rq, runResult{sent: make([][]sent, len(ep.Backend))}, make([][]sent, len(ep.Backend)), nil,
				[]string{"the process running this scenario died"}, nil, text))
		}
	}
	pad := func(ji int) {
		for k := 0; k < jobs[ji].nominal; k++ {
			w.Add("", nil, "", fmt.Sprintf("skipped|%d|%d", ji, k), false)
		}
	}
	batch := 400
	for i := 0; i < len(jobs); {
		upto := -1
		to := i + batch
		if to > len(jobs) {
			to = len(jobs)
		}
		if cfg.Only >= 0 { // replay: only the scenario that produced that index
			last := i == len(jobs)-1
			if !(starts[i] <= cfg.Only && (cfg.Only < starts[i+1] || last)) || jobs[i].nominal == 0 {
				pad(i)
				i++
				continue
			}
			to = i + 1
			if jobs[i].kind == "seq" {
				upto = cfg.Only - starts[i]
			}
		}
		recs, crash := runWorker(i, to, upto)
		emitted := map[int]int{}
		started, done := -1, map[int]bool{}
		for _, r := range recs {
			switch r.Kind {
			case "start":
				started = r.Job
			case "case":
				apply(r)
				emitted[r.Job]++
			case "done":
				done[r.Job] = true
				raceReports += r.Reports
			}
		}
		switch {
		case started >= 0 && !done[started]: // died inside a scenario
			crashes++
			if crash == "" {
				crash = "worker process ended without finishing this scenario"
			}
			crashCases(started, emitted[started], crash)
			i = started + 1
		case started < to-1: // ended between scenarios without a reason: treat the next one as in flight
			crashes++
			nxt := started + 1
			if nxt < i {
				nxt = i
			}
			crashCases(nxt, 0, "worker process ended before this scenario: "+crash)
			i = nxt + 1
		default:
			if cfg.Only >= 0 && upto >= 0 { // steps after the replayed one
				for k := emitted[i]; k < jobs[i].nominal; k++ {
					w.Add("", nil, "", fmt.Sprintf("skipped|%d|%d", i, k), false)
				}
			}
			i = to
		}
	}
	reps := 3
	if raceMode && cfg.Thorough() {
		reps = 10
	}
	w.Meta["race_mode"] = raceMode
	w.Meta["fan_out_repetitions"] = reps
	w.Meta["race_reports_with_lura_frames"] = raceReports
	w.Meta["worker_processes"] = workers
	w.Meta["worker_crashes"] = crashes
	w.Close("regression corpus (GraphQL next to plain/filtered siblings, GET and POST endpoints, concurrent calls 2..3, mutation with invalid body) -> all ordered pairs of 20 backend shapes (methods GET/HEAD/POST/PUT/OPTIONS/TRACE/PATCH/PURGE, lower and mixed case spellings) x concurrent_calls 1..2 x 2 client requests, all singles x cc 1..3 -> random endpoints of 1..4 backends with random filter lists (0..3 names), GraphQL options, methods, per-backend concurrent_calls 1..3, random client headers/query/params/body -> endpoints built by proxy.NewShadowFactory (2..3 regular backends next to GET / HEAD / GraphQL shadow backends, client bodies): what the REGULAR backends are sent; every stub executor adds a header of its own to the outgoing request it is handed (as a cookie jar or a decorating round tripper does) and records the headers after all siblings did so -> unit level ownership effects (alias stream): Clone, CloneRequest, header filter, query filter, request builder, GraphQL middleware and load balancer applied alone to 3 requests x 22 backend shapes, which fields of the request handed on are the received objects (pointer identity of maps, value-slice backing arrays, body reader) -> instance reuse: one factory-built endpoint proxy serving a sequence of 4..5 different requests (each step a case; corpus orders + random endpoints) and the same instance hit by 12 goroutines x 6 iterations over 4 distinct requests (one case per distinct request/observation); every scenario is run as fan-out (stub executors meet at a barrier) and per backend alone; nontrivial = more than one backend or concurrent_calls > 1", false)
}

func describe(bs []beSpec) string {
	var sb strings.Builder
	for _, b := range bs {
		fmt.Fprintf(&sb, "[%s %v %v %s", b.method, b.hdrs, b.qs, b.pattern)
		if b.gql != nil {
			fmt.Fprintf(&sb, " gql:%v:%v:%s:%v", b.gql.get, b.gql.mutation, b.gql.vars, b.gql.long)
		}
		sb.WriteString("]")
	}
	return sb.String()
}
