package main

import (
	"bytes"
	"context"
	"fmt"
	"reflect"

	"github.com/luraproject/lura/v2/config"
	"github.com/luraproject/lura/v2/logging"
	"github.com/luraproject/lura/v2/proxy"
	"github.com/luraproject/lura/v2/sd"

	"verif/harness/internal/emit"
)

// Unit level stream: ONE function / middleware of the anchored files applied to a request;
// observed by pointer identity which reference fields of the request it hands on are the
// objects it received (maps: the map header; value slices: the backing array; body: the
// reader) - the ownership effect the model's views (pv) claim for that stage.

var aliasKinds = []string{"AClone", "ACloneRequest", "AHdrFilter", "AQryFilter", "ABuilder", "AGraphQL", "ABalancer"}

func mapPtr(m interface{}) uintptr {
	v := reflect.ValueOf(m)
	if !v.IsValid() || v.IsNil() {
		return 0
	}
	return v.Pointer()
}

func optBool(known bool, v bool) string {
	if !known {
		return "None"
	}
	return emit.Some(emit.Bool(v))
}

// value slices of header entries present on both sides (Content-Length / Content-Type are
// re-assigned by the GraphQL transports and not compared): all share their backing array /
// none does; anything else is reported as a harness problem
func valsSame(in, out map[string][]string) (known, same bool, problem string) {
	shared, fresh := 0, 0
	for k, vs := range in {
		if k == "Content-Length" || k == "Content-Type" || len(vs) == 0 {
			continue
		}
		ws, ok := out[k]
		if !ok || len(ws) == 0 {
			continue
		}
		if &vs[0] == &ws[0] {
			shared++
		} else {
			fresh++
		}
	}
	if shared > 0 && fresh > 0 {
		return true, false, "some header value slices are shared and some are not"
	}
	return shared+fresh > 0, shared > 0, ""
}

func aliasRecords(sc scenario, ep *config.EndpointConfig, k int, rq reqSpec) []record {
	be := ep.Backend[k]
	var recs []record
	for _, kind := range aliasKinds {
		h0, q0, p0 := cloneMM(rq.hdr), cloneMM(rq.qry), cloneSM(rq.par)
		in := &proxy.Request{Method: ep.Method, Path: "/p", Headers: h0, Query: q0, Params: p0}
		var body0 *serverBody
		if rq.body != nil {
			body0 = &serverBody{r: bytes.NewReader([]byte(*rq.body))}
			in.Body = body0
		}
		var out *proxy.Request
		reached := false
		next := func(_ context.Context, r *proxy.Request) (*proxy.Response, error) {
			out, reached = r, true
			return &proxy.Response{IsComplete: true}, nil
		}
		panicked := ""
		func() {
			defer func() {
				if r := recover(); r != nil {
					panicked = fmt.Sprint(r)
				}
			}()
			switch kind {
			case "AClone":
				c := in.Clone()
				out, reached = &c, true
			case "ACloneRequest":
				out, reached = proxy.CloneRequest(in), true
			case "AHdrFilter":
				proxy.NewFilterHeadersMiddleware(logging.NoOp, be)(next)(context.Background(), in)
			case "AQryFilter":
				proxy.NewFilterQueryStringsMiddleware(logging.NoOp, be)(next)(context.Background(), in)
			case "ABuilder":
				proxy.NewRequestBuilderMiddlewareWithLogger(logging.NoOp, be)(next)(context.Background(), in)
			case "AGraphQL":
				proxy.NewGraphQLMiddleware(logging.NoOp, be)(next)(context.Background(), in)
			case "ABalancer":
				proxy.NewLoadBalancedMiddlewareWithSubscriber(sd.FixedSubscriber(be.Host))(next)(context.Background(), in)
			}
		}()
		var problems []string
		if panicked != "" {
			problems = append(problems, "panic: "+panicked)
		}
		same := make([]string, 6)
		for i := range same {
			same[i] = "None"
		}
		src := "None"
		obsJS := map[string]interface{}{"reached": reached}
		if reached && out != nil {
			vk, vs, vp := valsSame(h0, out.Headers)
			if vp != "" {
				problems = append(problems, vp)
			}
			same[0] = optBool(true, out == in)
			same[1] = optBool(true, mapPtr(out.Headers) == mapPtr(h0))
			same[2] = optBool(true, mapPtr(out.Query) == mapPtr(q0))
			same[3] = optBool(true, mapPtr(out.Params) == mapPtr(p0))
			same[4] = optBool(body0 != nil, body0 != nil && out.Body == proxy.Request{Body: body0}.Body)
			same[5] = optBool(vk, vs)
			src = optBool(body0 != nil, body0 != nil && in.Body == proxy.Request{Body: body0}.Body)
			obsJS["same_struct_headers_query_params_body_vals"] = same
			obsJS["source_body_same"] = src
		}
		// the source's own maps keep their contents in every stage
		if emit.MultiMap(h0) != emit.MultiMap(rq.hdr) || emit.MultiMap(q0) != emit.MultiMap(rq.qry) || emit.StrMap(p0) != emit.StrMap(rq.par) {
			problems = append(problems, "the stage changed the contents of the maps it was handed")
		}
		if len(problems) > 0 { // a harness level problem must fail the case
			reached = !reached
		}
		bt, bj := backendCoq(be, rq)
		term := emit.App("CAlias", kind, bt, reqCoq(ep.Method, rq), emit.Bool(reached), emit.List(same), src)
		obsJS["problems"] = problems
		var bodyJS interface{}
		if rq.body != nil {
			bodyJS = *rq.body
		}
		js := map[string]interface{}{"scenario": sc.name, "stream": "alias", "stage": kind, "backend": bj,
			"request": map[string]interface{}{"headers": rq.hdr, "query": rq.qry, "params": rq.par, "body": bodyJS}, "observed": obsJS}
		recs = append(recs, record{Kind: "case", Term: term, JS: js, Canon: fmt.Sprintf("alias|%s|%d|%s", kind, k, canonOf(sc, "alias", k, rq)),
			Nontriv: true, Counts: []string{"stream:alias", "alias:" + kind}})
	}
	return recs
}
