package main

import (
	"fmt"

	"verif/harness/internal/out"
	"verif/harness/internal/rng"
)

func sp(s string) *string { return &s }

var shapes = []struct {
	name string
	b    beSpec
}{
	{"plain", beSpec{pattern: "/p/{id}"}},
	{"hf", beSpec{pattern: "/hf", hdrs: []string{"X-A"}}},
	{"hf-all", beSpec{pattern: "/hfall", hdrs: []string{"X-A", "X-B", "User-Agent", "Accept", "Content-Type"}}},
	{"qf", beSpec{pattern: "/qf/{id}", qs: []string{"x"}}},
	{"qf-hf", beSpec{pattern: "/qfhf", qs: []string{"y", "nope"}, hdrs: []string{"X-B", "X-Missing"}}},
	{"post", beSpec{pattern: "/post", method: "POST"}},
	{"put", beSpec{pattern: "/put/{id}", method: "PUT"}},
	{"head", beSpec{pattern: "/head", method: "HEAD"}},
	{"options", beSpec{pattern: "/opt", method: "OPTIONS"}},
	{"trace", beSpec{pattern: "/trc/{id}", method: "TRACE", hdrs: []string{"X-A"}}},
	{"patch", beSpec{pattern: "/pat", method: "PATCH"}},
	{"purge", beSpec{pattern: "/prg", method: "PURGE"}},
	{"lower-get", beSpec{pattern: "/lget", method: "get"}},
	{"mixed-options", beSpec{pattern: "/mopt", method: "Options", qs: []string{"x"}}},
	{"gql-post", beSpec{pattern: "/g1", gql: &gqlSpec{vars: "param"}}},
	{"gql-get", beSpec{pattern: "/g2", gql: &gqlSpec{get: true, vars: "param"}}},
	{"gql-get-qf", beSpec{pattern: "/g3", qs: []string{"x"}, hdrs: []string{"X-A"}, gql: &gqlSpec{get: true, vars: "static"}}},
	{"gql-mut", beSpec{pattern: "/g4", method: "POST", gql: &gqlSpec{mutation: true, vars: "static"}}},
	{"gql-mut-get", beSpec{pattern: "/g5", method: "POST", gql: &gqlSpec{mutation: true, get: true, vars: "none"}}},
	{"gql-post-none", beSpec{pattern: "/g6/{id}", gql: &gqlSpec{vars: "none"}}},
	{"gql-post-long", beSpec{pattern: "/g7", gql: &gqlSpec{vars: "none", long: true}}},
	{"gql-post-hf", beSpec{pattern: "/g8", hdrs: []string{"Content-Length", "Content-Type", "X-A"}, gql: &gqlSpec{vars: "static", long: true}}},
}

func shape(name string) beSpec {
	for _, s := range shapes {
		if s.name == name {
			return s.b
		}
	}
	panic("no shape " + name)
}

var reqA = reqSpec{
	hdr: map[string][]string{"X-A": {"1"}, "X-B": {"2", "3"}, "User-Agent": {"ua"}},
	qry: map[string][]string{"x": {"1"}, "y": {"2", "2b"}},
	par: map[string]string{"Id": "42"},
}
var reqB = reqSpec{
	hdr:  map[string][]string{"X-A": {"only"}},
	qry:  map[string][]string{},
	par:  map[string]string{"Id": "a-b"},
	body: sp(`{"v":1,"id":"from-body"}`),
}
var reqBadBody = reqSpec{
	hdr:  map[string][]string{"Content-Type": {"text/plain"}, "X-B": {"b"}},
	qry:  map[string][]string{"x": {"9"}, "variables": {"client"}},
	par:  map[string]string{"Id": "7"},
	body: sp(`not json`),
}

// client query strings with the names the GraphQL GET transport uses itself
var reqGqlNames = reqSpec{
	hdr: map[string][]string{"X-A": {"1"}},
	qry: map[string][]string{"query": {"client-q"}, "operationName": {"client-op"}, "variables": {"client-v"}, "x": {"1"}},
	par: map[string]string{"Id": "42"},
}

// a client request that already carries Content-Length / Content-Type (a router forwards
// them with input_headers or "*"): the GraphQL transports set both for their own body
var reqCL = reqSpec{
	hdr: map[string][]string{"Content-Length": {"0"}, "Content-Type": {"text/plain"}, "X-A": {"1"}},
	qry: map[string][]string{"x": {"1"}},
	par: map[string]string{"Id": "42"},
}

func scenarios(cfg out.Config, r *rng.R, raceMode bool) []scenario {
	var res []scenario
	add := func(name, m string, cc int, rq reqSpec, names ...string) {
		sc := scenario{name: name, epMethod: m, cc: cc, req: rq}
		for _, n := range names {
			sc.bs = append(sc.bs, shape(n))
		}
		res = append(res, sc)
	}
	// ---- regression corpus: the shapes of the repaired defect F-C03 and their neighbours
	add("corpus", "GET", 1, reqA, "gql-post", "gql-post", "plain")
	add("corpus", "GET", 1, reqA, "gql-get", "plain")
	add("corpus", "GET", 2, reqA, "gql-get", "plain")
	add("corpus", "GET", 2, reqA, "gql-get")
	add("corpus", "GET", 3, reqA, "gql-post")
	add("corpus", "POST", 1, reqB, "gql-mut", "post")
	add("corpus", "POST", 2, reqB, "gql-mut", "gql-get", "plain")
	add("corpus", "POST", 1, reqBadBody, "gql-mut", "post", "gql-mut-get")
	add("corpus", "GET", 1, reqA, "gql-get-qf", "qf", "hf", "plain")
	add("corpus", "POST", 3, reqB, "post", "put", "qf-hf")
	add("corpus", "GET", 1, reqB, "post", "gql-get")
	add("corpus", "GET", 2, reqB, "put", "gql-post", "head")
	// bodies are replicated whenever SOME backend uses a method other than GET/HEAD - also
	// the "safe" OPTIONS/TRACE, non-standard methods and other spellings
	add("corpus", "GET", 1, reqB, "options", "plain")
	add("corpus", "GET", 1, reqB, "trace", "head")
	add("corpus", "GET", 2, reqB, "options", "options")
	add("corpus", "POST", 1, reqB, "head", "trace", "options", "lower-get")
	add("corpus", "GET", 1, reqB, "lower-get", "mixed-options")
	add("corpus", "GET", 1, reqB, "plain", "purge")
	add("corpus", "GET", 1, reqB, "head", "patch")
	add("corpus", "GET", 1, reqB, "lower-get", "head") // all GET/HEAD by ToUpper: out of scope, body dropped
	add("corpus", "OPTIONS", 1, reqB, "plain", "head")
	add("corpus", "GET", 1, reqGqlNames, "gql-get", "plain", "qf")
	// a client GET that carries a body, all backends GET/HEAD (one shared reader, Close has an
	// effect): one plain backend next to GraphQL query siblings
	add("corpus", "GET", 1, reqB, "gql-post", "plain")
	add("corpus", "GET", 1, reqB, "plain", "gql-get")
	add("corpus", "GET", 1, reqB, "gql-post-long", "hf", "gql-get-qf")
	add("corpus", "GET", 1, reqB, "gql-get", "gql-post", "head")
	add("corpus", "HEAD", 1, reqB, "gql-post-none", "gql-get")
	// several GraphQL POST-transport siblings under shallow clones (backend method GET), bodies
	// of different lengths, client Content-Length / Content-Type present
	add("corpus", "GET", 1, reqCL, "gql-post", "gql-post-long")
	add("corpus", "GET", 1, reqCL, "gql-post-long", "gql-post-none", "gql-post")
	add("corpus", "GET", 1, reqCL, "gql-post-hf", "gql-post", "plain")
	add("corpus", "GET", 1, reqCL, "gql-post-long", "gql-get", "hf-all")
	add("corpus", "HEAD", 2, reqCL, "gql-post-none", "gql-post-long")
	add("corpus", "GET", 2, reqGqlNames, "plain", "gql-get-qf")
	add("corpus", "POST", 1, reqGqlNames, "post", "gql-get", "plain")

	// ---- the shadow factory: regular backends that replicate the body next to shadow backends
	// that would not; what the regular ones are sent must not depend on the shadow siblings
	shadow := func(m string, cc int, rq reqSpec, nreg int, names ...string) {
		add("shadow", m, cc, rq, names...)
		res[len(res)-1].shadowFrom = nreg
	}
	shadow("POST", 1, reqB, 2, "post", "put", "plain")
	shadow("POST", 1, reqB, 2, "post", "post", "head", "gql-get")
	shadow("POST", 2, reqB, 2, "gql-mut", "post", "plain")
	shadow("GET", 1, reqB, 2, "put", "plain", "plain")
	shadow("POST", 1, reqB, 3, "post", "patch", "purge", "lower-get")
	shadow("GET", 1, reqA, 2, "plain", "hf", "post")
	shadow("POST", 1, reqBadBody, 2, "gql-mut", "post", "gql-post")

	// ---- exhaustive small scope: singles and ordered pairs
	ccs := []int{1, 2}
	for _, s := range shapes {
		for _, cc := range []int{1, 2, 3} {
			if raceMode && cc == 1 {
				continue // one goroutine: nothing for the detector
			}
			add("single", "GET", cc, reqA, s.name)
			if !raceMode || cfg.Thorough() {
				add("single", "POST", cc, reqB, s.name)
			}
		}
	}
	for i, s1 := range shapes {
		for j, s2 := range shapes {
			for _, cc := range ccs {
				if raceMode && !cfg.Thorough() && ((cc == 2 && (i+j)%4 != 0) || (cc == 1 && (i+2*j)%3 != 0)) {
					continue
				}
				if s1.b.gql != nil && s2.b.gql != nil && !s1.b.gql.get {
					add("pair", "GET", cc, reqCL, s1.name, s2.name)
				}
				add("pair", "GET", cc, reqA, s1.name, s2.name)
				if (i*7+j*3+cc)%6 == 0 || cfg.Thorough() {
					add("pair", "GET", cc, reqB, s1.name, s2.name) // a GET client request that carries a body
				}
				if (i+j+cc)%3 == 0 || cfg.Thorough() {
					add("pair", "POST", cc, reqB, s1.name, s2.name)
				}
			}
		}
	}

	// ---- structured random
	nrand := 400
	if raceMode {
		nrand = 120
	}
	if cfg.Thorough() {
		nrand *= 12
	}
	hdrPool := []string{"X-A", "X-B", "User-Agent", "Accept", "Content-Type", "X-C"}
	qPool := []string{"x", "y", "z", "query", "variables"}
	for i := 0; i < nrand; i++ {
		n := 1 + r.Intn(4)
		sc := scenario{name: "random", epMethod: []string{"GET", "GET", "POST", "OPTIONS", "HEAD"}[r.Intn(5)], cc: 1 + r.Intn(3)}
		if r.Chance(1, 2) {
			sc.cc = 1
		}
		perBackendCC := r.Chance(1, 4)
		for k := 0; k < n; k++ {
			b := beSpec{pattern: fmt.Sprintf("/r%d", k)}
			if r.Chance(1, 2) {
				b.pattern += "/{id}"
			}
			b.method = []string{"", "", "GET", "GET", "HEAD", "HEAD", "POST", "PUT", "DELETE", "OPTIONS", "OPTIONS", "TRACE", "PATCH", "CONNECT", "PURGE", "get", "Head", "options", "post"}[r.Intn(19)]
			for j, m := 0, r.Intn(4); j < m && r.Chance(2, 3); j++ {
				b.hdrs = append(b.hdrs, r.Pick(hdrPool))
			}
			if r.Chance(1, 8) {
				b.hdrs = append([]string(nil), hdrPool...)
			}
			for j, m := 0, r.Intn(4); j < m && r.Chance(2, 3); j++ {
				b.qs = append(b.qs, r.Pick(qPool))
			}
			if r.Chance(2, 5) {
				b.gql = &gqlSpec{get: r.Bool(), mutation: r.Chance(1, 3), vars: []string{"none", "param", "static"}[r.Intn(3)], long: r.Bool()}
			}
			sc.bs = append(sc.bs, b)
			if perBackendCC {
				sc.ccEach = append(sc.ccEach, 1+r.Intn(3))
			}
		}
		rq := reqSpec{hdr: map[string][]string{}, qry: map[string][]string{}, par: map[string]string{"Id": []string{"42", "x_y", "A"}[r.Intn(3)]}}
		for j, m := 0, r.Intn(5); j < m; j++ {
			h := r.Pick(hdrPool)
			if r.Chance(1, 4) {
				h = "Content-Length"
				rq.hdr[h] = []string{fmt.Sprint(r.Intn(300))}
				continue
			}
			rq.hdr[h] = append(rq.hdr[h], fmt.Sprintf("h%d", r.Intn(100)))
		}
		for j, m := 0, r.Intn(4); j < m; j++ {
			q := r.Pick(qPool)
			rq.qry[q] = append(rq.qry[q], []string{"1", "a b", "ü&=", ""}[r.Intn(4)])
		}
		if sc.epMethod == "POST" || r.Chance(1, 2) {
			rq.body = sp([]string{`{"v":2}`, `{"id":"zz","deep":{"a":[1,2]}}`, `oops`, ``, `{}`}[r.Intn(5)])
		}
		sc.req = rq
		res = append(res, sc)
	}
	return res
}

// ---------------------------------------------------------------- instance reuse

// consecutive requests differ in exactly what the property speaks of: header names and
// values, query names and values, params, body (present / other length / invalid / absent)
var reuseSeq = []reqSpec{
	{hdr: map[string][]string{"X-A": {"1"}, "X-B": {"2"}, "User-Agent": {"ua1"}, "Content-Length": {"7"}, "Content-Type": {"text/plain"}}, qry: map[string][]string{"x": {"1"}, "y": {"2"}}, par: map[string]string{"Id": "42"}, body: sp(`{"v":1}`)},
	{hdr: map[string][]string{"X-C": {"9"}, "X-B": {"3", "4"}}, qry: map[string][]string{"y": {"5"}, "z": {"1"}}, par: map[string]string{"Id": "7"}, body: sp(`{"v":22222,"w":"longer body"}`)},
	{hdr: map[string][]string{}, qry: map[string][]string{}, par: map[string]string{"Id": "a-b"}},
	{hdr: map[string][]string{"X-A": {"only"}, "Accept": {"*/*"}}, qry: map[string][]string{"x": {"8", "9"}, "variables": {"client"}}, par: map[string]string{"Id": "42"}, body: sp(`not json`)},
	{hdr: map[string][]string{"X-A": {"1"}, "X-B": {"2"}, "User-Agent": {"ua1"}, "Content-Length": {"7"}, "Content-Type": {"text/plain"}}, qry: map[string][]string{"x": {"1"}, "y": {"2"}}, par: map[string]string{"Id": "42"}, body: sp(`{"v":1}`)},
}

func reuseScenarios(cfg out.Config, r *rng.R, raceMode bool) (seqs, concs []scenario) {
	hfPartial := beSpec{pattern: "/hfp/{id}", hdrs: []string{"X-A", "X-C"}}
	qfPartial := beSpec{pattern: "/qfp", qs: []string{"x", "z"}}
	mk := func(name, m string, cc int, bs ...beSpec) scenario {
		return scenario{name: name, epMethod: m, cc: cc, bs: bs, seq: reuseSeq}
	}
	corpus := []scenario{
		mk("reuse", "GET", 1, hfPartial, qfPartial, shape("gql-get"), shape("plain")),
		mk("reuse", "GET", 2, hfPartial, shape("gql-get-qf"), shape("plain")),
		mk("reuse", "POST", 1, shape("gql-mut"), shape("post"), shape("qf-hf"), hfPartial),
		mk("reuse", "POST", 2, shape("gql-mut-get"), shape("put"), qfPartial),
		mk("reuse", "GET", 1, shape("gql-post"), shape("gql-get"), shape("gql-post-none")),
		mk("reuse", "GET", 1, shape("gql-post"), shape("gql-post-long"), shape("gql-post-hf")),
		mk("reuse", "GET", 3, hfPartial),
		mk("reuse", "GET", 2, qfPartial),
		mk("reuse", "POST", 3, shape("gql-mut")),
		mk("reuse", "GET", 1, shape("qf-hf"), shape("hf"), shape("qf")),
		mk("reuse", "POST", 1, shape("post"), shape("head"), shape("gql-get-qf")),
	}
	seqs = append(seqs, corpus...)
	nrand := 30
	if raceMode {
		nrand = 10
	}
	if cfg.Thorough() {
		nrand *= 6
	}
	hdrPool := []string{"X-A", "X-B", "X-C", "User-Agent", "Accept"}
	qPool := []string{"x", "y", "z", "variables"}
	for i := 0; i < nrand; i++ {
		n := 1 + r.Intn(3)
		sc := scenario{name: "reuse-random", epMethod: []string{"GET", "POST"}[r.Intn(2)], cc: 1 + r.Intn(3)}
		for k := 0; k < n; k++ {
			b := beSpec{pattern: fmt.Sprintf("/u%d/{id}", k), method: []string{"", "GET", "POST", "PUT", "OPTIONS", "HEAD", "TRACE"}[r.Intn(7)]}
			for j, m := 0, 1+r.Intn(3); j < m; j++ {
				b.hdrs = append(b.hdrs, r.Pick(hdrPool))
			}
			if r.Chance(1, 2) {
				for j, m := 0, 1+r.Intn(2); j < m; j++ {
					b.qs = append(b.qs, r.Pick(qPool))
				}
			}
			if r.Chance(1, 3) {
				b.gql = &gqlSpec{get: r.Bool(), mutation: r.Chance(1, 3), vars: []string{"none", "param", "static"}[r.Intn(3)]}
			}
			sc.bs = append(sc.bs, b)
		}
		p := r.Perm(len(reuseSeq))
		for _, j := range p[:4] {
			sc.seq = append(sc.seq, reuseSeq[j])
		}
		seqs = append(seqs, sc)
	}
	// concurrent reuse: the corpus endpoints, four distinct requests each
	for _, c := range corpus {
		c.name = "reuse-conc"
		c.seq = reuseSeq[:4]
		concs = append(concs, c)
	}
	return seqs, concs
}
