package main

import (
	"fmt"

	"verif/harness/internal/out"
	"verif/harness/internal/rng"
)

func sp(s string) *string { return &s }

var shapes = []struct {
	name string
	b    beSpec
}{
	{"plain", beSpec{pattern: "/p/{id}"}},
	{"hf", beSpec{pattern: "/hf", hdrs: []string{"X-A"}}},
	{"hf-all", beSpec{pattern: "/hfall", hdrs: []string{"X-A", "X-B", "User-Agent", "Accept", "Content-Type"}}},
	{"qf", beSpec{pattern: "/qf/{id}", qs: []string{"x"}}},
	{"qf-hf", beSpec{pattern: "/qfhf", qs: []string{"y", "nope"}, hdrs: []string{"X-B", "X-Missing"}}},
	{"post", beSpec{pattern: "/post", method: "POST"}},
	{"put", beSpec{pattern: "/put/{id}", method: "PUT"}},
	{"head", beSpec{pattern: "/head", method: "HEAD"}},
	{"gql-post", beSpec{pattern: "/g1", gql: &gqlSpec{vars: "param"}}},
	{"gql-get", beSpec{pattern: "/g2", gql: &gqlSpec{get: true, vars: "param"}}},
	{"gql-get-qf", beSpec{pattern: "/g3", qs: []string{"x"}, hdrs: []string{"X-A"}, gql: &gqlSpec{get: true, vars: "static"}}},
	{"gql-mut", beSpec{pattern: "/g4", method: "POST", gql: &gqlSpec{mutation: true, vars: "static"}}},
	{"gql-mut-get", beSpec{pattern: "/g5", method: "POST", gql: &gqlSpec{mutation: true, get: true, vars: "none"}}},
	{"gql-post-none", beSpec{pattern: "/g6/{id}", gql: &gqlSpec{vars: "none"}}},
}

func shape(name string) beSpec {
	for _, s := range shapes {
		if s.name == name {
			return s.b
		}
	}
	panic("no shape " + name)
}

var reqA = reqSpec{
	hdr: map[string][]string{"X-A": {"1"}, "X-B": {"2", "3"}, "User-Agent": {"ua"}},
	qry: map[string][]string{"x": {"1"}, "y": {"2", "2b"}},
	par: map[string]string{"Id": "42"},
}
var reqB = reqSpec{
	hdr:  map[string][]string{"X-A": {"only"}},
	qry:  map[string][]string{},
	par:  map[string]string{"Id": "a-b"},
	body: sp(`{"v":1,"id":"from-body"}`),
}
var reqBadBody = reqSpec{
	hdr:  map[string][]string{"Content-Type": {"text/plain"}, "X-B": {"b"}},
	qry:  map[string][]string{"x": {"9"}, "variables": {"client"}},
	par:  map[string]string{"Id": "7"},
	body: sp(`not json`),
}

func scenarios(cfg out.Config, r *rng.R, raceMode bool) []scenario {
	var res []scenario
	add := func(name, m string, cc int, rq reqSpec, names ...string) {
		sc := scenario{name: name, epMethod: m, cc: cc, req: rq}
		for _, n := range names {
			sc.bs = append(sc.bs, shape(n))
		}
		res = append(res, sc)
	}
	// ---- regression corpus: the shapes of the repaired defect F-C03 and their neighbours
	add("corpus", "GET", 1, reqA, "gql-post", "gql-post", "plain")
	add("corpus", "GET", 1, reqA, "gql-get", "plain")
	add("corpus", "GET", 2, reqA, "gql-get", "plain")
	add("corpus", "GET", 2, reqA, "gql-get")
	add("corpus", "GET", 3, reqA, "gql-post")
	add("corpus", "POST", 1, reqB, "gql-mut", "post")
	add("corpus", "POST", 2, reqB, "gql-mut", "gql-get", "plain")
	add("corpus", "POST", 1, reqBadBody, "gql-mut", "post", "gql-mut-get")
	add("corpus", "GET", 1, reqA, "gql-get-qf", "qf", "hf", "plain")
	add("corpus", "POST", 3, reqB, "post", "put", "qf-hf")
	add("corpus", "GET", 1, reqB, "post", "gql-get")
	add("corpus", "GET", 2, reqB, "put", "gql-post", "head")

	// ---- exhaustive small scope: singles and ordered pairs
	ccs := []int{1, 2}
	for _, s := range shapes {
		for _, cc := range []int{1, 2, 3} {
			if raceMode && cc == 1 {
				continue // one goroutine: nothing for the detector
			}
			add("single", "GET", cc, reqA, s.name)
			if !raceMode || cfg.Thorough() {
				add("single", "POST", cc, reqB, s.name)
			}
		}
	}
	for i, s1 := range shapes {
		for j, s2 := range shapes {
			for _, cc := range ccs {
				if raceMode && !cfg.Thorough() && cc == 2 && (i+j)%3 != 0 {
					continue
				}
				add("pair", "GET", cc, reqA, s1.name, s2.name)
				if (i+j+cc)%2 == 0 || cfg.Thorough() {
					add("pair", "POST", cc, reqB, s1.name, s2.name)
				}
			}
		}
	}

	// ---- structured random
	nrand := 700
	if raceMode {
		nrand = 150
	}
	if cfg.Thorough() {
		nrand *= 12
	}
	hdrPool := []string{"X-A", "X-B", "User-Agent", "Accept", "Content-Type", "X-C"}
	qPool := []string{"x", "y", "z", "query", "variables"}
	for i := 0; i < nrand; i++ {
		n := 1 + r.Intn(4)
		sc := scenario{name: "random", epMethod: []string{"GET", "GET", "POST"}[r.Intn(3)], cc: 1 + r.Intn(3)}
		if r.Chance(1, 2) {
			sc.cc = 1
		}
		perBackendCC := r.Chance(1, 4)
		for k := 0; k < n; k++ {
			b := beSpec{pattern: fmt.Sprintf("/r%d", k)}
			if r.Chance(1, 2) {
				b.pattern += "/{id}"
			}
			b.method = []string{"", "", "GET", "POST", "PUT", "HEAD", "DELETE"}[r.Intn(7)]
			for j, m := 0, r.Intn(4); j < m && r.Chance(2, 3); j++ {
				b.hdrs = append(b.hdrs, r.Pick(hdrPool))
			}
			if r.Chance(1, 8) {
				b.hdrs = append([]string(nil), hdrPool...)
			}
			for j, m := 0, r.Intn(4); j < m && r.Chance(2, 3); j++ {
				b.qs = append(b.qs, r.Pick(qPool))
			}
			if r.Chance(2, 5) {
				b.gql = &gqlSpec{get: r.Bool(), mutation: r.Chance(1, 3), vars: []string{"none", "param", "static"}[r.Intn(3)]}
			}
			sc.bs = append(sc.bs, b)
			if perBackendCC {
				sc.ccEach = append(sc.ccEach, 1+r.Intn(3))
			}
		}
		rq := reqSpec{hdr: map[string][]string{}, qry: map[string][]string{}, par: map[string]string{"Id": []string{"42", "x_y", "A"}[r.Intn(3)]}}
		for j, m := 0, r.Intn(5); j < m; j++ {
			h := r.Pick(hdrPool)
			rq.hdr[h] = append(rq.hdr[h], fmt.Sprintf("h%d", r.Intn(100)))
		}
		for j, m := 0, r.Intn(4); j < m; j++ {
			q := r.Pick(qPool)
			rq.qry[q] = append(rq.qry[q], []string{"1", "a b", "ü&=", ""}[r.Intn(4)])
		}
		if sc.epMethod == "POST" || r.Chance(1, 4) {
			rq.body = sp([]string{`{"v":2}`, `{"id":"zz","deep":{"a":[1,2]}}`, `oops`, ``, `{}`}[r.Intn(5)])
		}
		sc.req = rq
		res = append(res, sc)
	}
	return res
}
