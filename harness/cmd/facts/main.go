// Command facts re-reads the lura sources (go/ast, standard library only) and prints
// coq/Generated/SourceFacts.v: the constants, orders, channel capacities, context
// derivations and lock bracketing the Coq models were written against.
//
// The facts are SEMANTIC summaries, not source text, so that a behaviour-preserving rewrite
// (renamed locals, extracted helpers, defer instead of explicit unlocks, swapped select cases,
// functions moved to another file of the package) regenerates the same facts, while a change of
// what the theorems rest on (a factor, an order, an unbuffered channel, a context derived from
// Background, an access outside its lock) changes them.  A pattern that is not found at all is
// emitted as "Unknown" / -1 and the obligation in Generated/Facts_<topic>.v stops compiling.
package main

import (
	"fmt"
	"go/ast"
	"go/parser"
	"go/printer"
	"go/token"
	"os"
	"path/filepath"
	"regexp"
	"sort"
	"strconv"
	"strings"
)

var fset = token.NewFileSet()
var root string

// ---------------------------------------------------------------------------------------
// parsing helpers

var pkgCache = map[string][]*ast.File{}

// all non-test, non-instrumentation files of a package directory
func pkgFiles(dir string) []*ast.File {
	if fs, ok := pkgCache[dir]; ok {
		return fs
	}
	var res []*ast.File
	ents, _ := os.ReadDir(filepath.Join(root, dir))
	var names []string
	for _, e := range ents {
		n := e.Name()
		if e.IsDir() || !strings.HasSuffix(n, ".go") || strings.HasSuffix(n, "_test.go") || strings.HasPrefix(n, "verif_") {
			continue
		}
		names = append(names, n)
	}
	sort.Strings(names)
	for _, n := range names {
		f, err := parser.ParseFile(fset, filepath.Join(root, dir, n), nil, 0)
		if err == nil {
			res = append(res, f)
		}
	}
	pkgCache[dir] = res
	return res
}

func parseFile(rel string) *ast.File {
	f, err := parser.ParseFile(fset, filepath.Join(root, rel), nil, 0)
	if err != nil {
		return &ast.File{Name: ast.NewIdent("missing")}
	}
	return f
}

func src(n ast.Node) string {
	var b strings.Builder
	printer.Fprint(&b, fset, n)
	return strings.Join(strings.Fields(b.String()), " ")
}

func recvName(fd *ast.FuncDecl) string {
	if fd.Recv != nil && len(fd.Recv.List) > 0 {
		return strings.TrimPrefix(src(fd.Recv.List[0].Type), "*")
	}
	return ""
}

// function or method `name` (receiver type recv, "" for a plain function; "*" for any) anywhere
// in the package directory
func findFunc(dir, recv, name string) *ast.FuncDecl {
	for _, f := range pkgFiles(dir) {
		for _, d := range f.Decls {
			fd, ok := d.(*ast.FuncDecl)
			if !ok || fd.Name.Name != name || fd.Body == nil {
				continue
			}
			if recv == "*" || recvName(fd) == recv {
				return fd
			}
		}
	}
	return nil
}

func coqStr(s string) string { return "\"" + strings.ReplaceAll(s, "\"", "\"\"") + "\"" }

func coqStrList(l []string) string {
	q := make([]string, len(l))
	for i, s := range l {
		q[i] = coqStr(s)
	}
	return "[" + strings.Join(q, "; ") + "]"
}

func coqZList(l []string) string {
	q := make([]string, len(l))
	for i, s := range l {
		q[i] = "(" + s + ")%Z"
	}
	return "[" + strings.Join(q, "; ") + "]"
}

func coqPairList(l [][2]string) string {
	q := make([]string, len(l))
	for i, p := range l {
		q[i] = "(" + coqStr(p[0]) + ", " + coqStr(p[1]) + ")"
	}
	return "[" + strings.Join(q, "; ") + "]"
}

// ---------------------------------------------------------------------------------------
// middleware order: the constructors wrapped around p, in program order (innermost first)

func stackOrder(fn string) []string {
	fd := findFunc("proxy", "defaultFactory", fn)
	if fd == nil {
		return []string{"Unknown"}
	}
	// a constructor is a method of the factory (pf.x) or a New... function; its application
	// C(args)(p) is recorded AFTER whatever p evaluates to (so nested compositions come out
	// innermost first), and the arguments of the constructor itself are not searched
	isCtor := func(e ast.Expr) bool {
		name := src(e)
		if strings.HasPrefix(name, "New") {
			return true
		}
		if sel, ok := e.(*ast.SelectorExpr); ok {
			if id, ok := sel.X.(*ast.Ident); ok && fd.Recv != nil && len(fd.Recv.List) == 1 &&
				len(fd.Recv.List[0].Names) == 1 && id.Name == fd.Recv.List[0].Names[0].Name {
				return true
			}
		}
		return false
	}
	var order []string
	var visit func(n ast.Node)
	visit = func(n ast.Node) {
		if n == nil {
			return
		}
		ast.Inspect(n, func(m ast.Node) bool {
			call, ok := m.(*ast.CallExpr)
			if !ok {
				return true
			}
			if inner, ok := call.Fun.(*ast.CallExpr); ok && isCtor(inner.Fun) {
				// C(args)(p): p first, then C
				for _, a := range call.Args {
					visit(a)
				}
				order = append(order, src(inner.Fun))
				return false
			}
			if isCtor(call.Fun) {
				// a bare constructor: pf.backendFactory(b), pf.newStack(b), or a middleware value
				// handed to a local helper that applies it (wrap(NewX(...)))
				order = append(order, src(call.Fun))
				return false
			}
			return true
		})
	}
	visit(fd.Body)
	if len(order) == 0 {
		return []string{"Unknown"}
	}
	return order
}

// ---------------------------------------------------------------------------------------
// integer literals that make up the value assigned to a variable in a function; a call of a
// same-package helper is followed one level (its arguments and its body)

func litsOf(dir string, e ast.Expr, depth int) []int {
	var res []int
	ast.Inspect(e, func(m ast.Node) bool {
		switch x := m.(type) {
		case *ast.BasicLit:
			if x.Kind == token.INT {
				if v, err := strconv.Atoi(x.Value); err == nil {
					res = append(res, v)
				}
			}
		case *ast.CallExpr:
			if id, ok := x.Fun.(*ast.Ident); ok && depth < 2 {
				if callee := findFunc(dir, "", id.Name); callee != nil {
					ast.Inspect(callee.Body, func(k ast.Node) bool {
						if r, ok := k.(*ast.ReturnStmt); ok {
							for _, rr := range r.Results {
								res = append(res, litsOf(dir, rr, depth+1)...)
							}
						}
						if as, ok := k.(*ast.AssignStmt); ok {
							for _, rr := range as.Rhs {
								res = append(res, litsOf(dir, rr, depth+1)...)
							}
						}
						return true
					})
				}
			}
		}
		return true
	})
	return res
}

func assignLits(dir, fn, variable string) []string {
	fd := findFunc(dir, "*", fn)
	if fd == nil {
		return []string{"-1"}
	}
	var lits []int
	found := false
	seen := map[int]bool{}
	ast.Inspect(fd.Body, func(n ast.Node) bool {
		as, ok := n.(*ast.AssignStmt)
		if !ok || len(as.Lhs) < 1 || len(as.Rhs) < 1 {
			return true
		}
		// every assignment to the variable contributes (e.g. `scale := len(ws); if scale < 100 { scale = 100 }`)
		if id, ok := as.Lhs[0].(*ast.Ident); ok && id.Name == variable {
			for _, v := range litsOf(dir, as.Rhs[0], 0) {
				if !seen[v] {
					seen[v] = true
					lits = append(lits, v)
				}
			}
			found = true
		}
		return true
	})
	if !found || len(lits) == 0 {
		return []string{"-1"}
	}
	sort.Ints(lits)
	out := make([]string, len(lits))
	for i, v := range lits {
		out[i] = strconv.Itoa(v)
	}
	return out
}

// ---------------------------------------------------------------------------------------
// channels made in a function: the class of each capacity
//   "unbuffered" | "lit:<n>" | "expr:<canonical text>"   (a local bound once to an expression
//   is replaced by that expression, so `n := remote.ConcurrentCalls; make(chan T, n)` and
//   `make(chan T, remote.ConcurrentCalls)` give the same fact)

func localBindings(fd *ast.FuncDecl) map[string]string {
	b := map[string]string{}
	count := map[string]int{}
	ast.Inspect(fd.Body, func(n ast.Node) bool {
		as, ok := n.(*ast.AssignStmt)
		if !ok || len(as.Lhs) != 1 || len(as.Rhs) != 1 {
			return true
		}
		if id, ok := as.Lhs[0].(*ast.Ident); ok {
			count[id.Name]++
			b[id.Name] = src(as.Rhs[0])
		}
		return true
	})
	for k := range b {
		if count[k] != 1 {
			delete(b, k)
		}
	}
	return b
}

func chanCaps(dir, fn string) []string {
	fd := findFunc(dir, "*", fn)
	if fd == nil {
		return []string{"Unknown"}
	}
	bind := localBindings(fd)
	var res []string
	ast.Inspect(fd.Body, func(n ast.Node) bool {
		call, ok := n.(*ast.CallExpr)
		if !ok {
			return true
		}
		if id, ok := call.Fun.(*ast.Ident); ok && id.Name == "make" && len(call.Args) > 0 {
			if _, ok := call.Args[0].(*ast.ChanType); ok {
				if len(call.Args) == 1 {
					res = append(res, "unbuffered")
				} else if bl, ok := call.Args[1].(*ast.BasicLit); ok {
					if bl.Value == "0" {
						res = append(res, "unbuffered")
					} else {
						res = append(res, "lit:"+bl.Value)
					}
				} else {
					t := src(call.Args[1])
					if v, ok := bind[t]; ok {
						t = v
					}
					res = append(res, "expr:"+t)
				}
			}
		}
		return true
	})
	if len(res) == 0 {
		return []string{"Unknown"}
	}
	return res
}

// ---------------------------------------------------------------------------------------
// context derivations: (constructor, class of the parent) with class
//   "background" (context.Background()/TODO()) | "derived" (anything else: the incoming context
//   or a context derived from it)

func ctxClass(e ast.Expr) string {
	t := src(e)
	if t == "context.Background()" || t == "context.TODO()" {
		return "background"
	}
	return "derived"
}

func ctxDerivationsIn(n ast.Node) [][2]string {
	var res [][2]string
	ast.Inspect(n, func(n ast.Node) bool {
		call, ok := n.(*ast.CallExpr)
		if !ok {
			return true
		}
		se, ok := call.Fun.(*ast.SelectorExpr)
		if !ok || src(se.X) != "context" || len(call.Args) == 0 {
			return true
		}
		switch se.Sel.Name {
		case "WithTimeout", "WithCancel", "WithDeadline":
			res = append(res, [2]string{se.Sel.Name, ctxClass(call.Args[0])})
		}
		return true
	})
	return res
}

func ctxDerivations(dir, fn string) [][2]string {
	fd := findFunc(dir, "*", fn)
	if fd == nil {
		return [][2]string{{"Unknown", "Unknown"}}
	}
	return ctxDerivationsIn(fd.Body)
}

// cancel functions bound in a function and how often each is called (a `defer cancel()` counts)
func cancelCalls(dir, fn string) int {
	fd := findFunc(dir, "*", fn)
	if fd == nil {
		return -1
	}
	names := map[string]bool{}
	ast.Inspect(fd.Body, func(n ast.Node) bool {
		as, ok := n.(*ast.AssignStmt)
		if !ok || len(as.Lhs) != 2 || len(as.Rhs) != 1 {
			return true
		}
		if call, ok := as.Rhs[0].(*ast.CallExpr); ok {
			if se, ok := call.Fun.(*ast.SelectorExpr); ok && src(se.X) == "context" {
				if id, ok := as.Lhs[1].(*ast.Ident); ok {
					names[id.Name] = true
				}
			}
		}
		return true
	})
	c := 0
	ast.Inspect(fd.Body, func(n ast.Node) bool {
		if call, ok := n.(*ast.CallExpr); ok {
			if id, ok := call.Fun.(*ast.Ident); ok && names[id.Name] {
				c++
			}
		}
		return true
	})
	return c
}

// ---------------------------------------------------------------------------------------
// statuses the default status handler lets through.  The decision expression (after following
// one same-package predicate) must be built from comparisons of the status code with constants:
//   code != A && code != B   (reject unless ...)   or   !(code == A || code == B)   or the positive form

var httpStatus = map[string]int{"http.StatusOK": 200, "http.StatusCreated": 201, "http.StatusAccepted": 202,
	"http.StatusNonAuthoritativeInfo": 203, "http.StatusNoContent": 204, "http.StatusResetContent": 205,
	"http.StatusPartialContent": 206, "http.StatusMultiStatus": 207, "http.StatusAlreadyReported": 208, "http.StatusIMUsed": 226}

func acceptedStatuses() []string {
	dir := "transport/http/client"
	fd := findFunc(dir, "", "DefaultHTTPStatusHandler")
	if fd == nil {
		return []string{"-1"}
	}
	var cond ast.Expr
	for _, st := range fd.Body.List {
		if is, ok := st.(*ast.IfStmt); ok {
			cond = is.Cond
			break
		}
	}
	if cond == nil {
		return []string{"-1"}
	}
	var res []int
	bad := false
	var walk func(e ast.Expr, depth int)
	walk = func(e ast.Expr, depth int) {
		switch x := e.(type) {
		case *ast.ParenExpr:
			walk(x.X, depth)
		case *ast.UnaryExpr:
			if x.Op == token.NOT {
				walk(x.X, depth)
				return
			}
			bad = true
		case *ast.BinaryExpr:
			switch x.Op {
			case token.LAND, token.LOR:
				walk(x.X, depth)
				walk(x.Y, depth)
			case token.NEQ, token.EQL:
				for _, side := range []ast.Expr{x.X, x.Y} {
					if v, ok := httpStatus[src(side)]; ok {
						res = append(res, v)
						return
					}
					if bl, ok := side.(*ast.BasicLit); ok && bl.Kind == token.INT {
						v, _ := strconv.Atoi(bl.Value)
						res = append(res, v)
						return
					}
				}
				bad = true
			default:
				bad = true // ranges (<, >=) are a different rule: not summarised
			}
		case *ast.CallExpr:
			if id, ok := x.Fun.(*ast.Ident); ok && depth < 2 {
				if callee := findFunc(dir, "", id.Name); callee != nil {
					// a predicate written as `return a == X || a == Y` ...
					if len(callee.Body.List) == 1 {
						if r, ok := callee.Body.List[0].(*ast.ReturnStmt); ok && len(r.Results) == 1 {
							walk(r.Results[0], depth+1)
							return
						}
					}
					// ... or as `switch code { case X, Y: return true }; return false`
					okShape := false
					for _, st := range callee.Body.List {
						if sw, ok := st.(*ast.SwitchStmt); ok && sw.Tag != nil {
							for _, c := range sw.Body.List {
								cc := c.(*ast.CaseClause)
								if len(cc.Body) == 1 && src(cc.Body[0]) == "return true" {
									for _, e := range cc.List {
										if v, ok := httpStatus[src(e)]; ok {
											res = append(res, v)
											okShape = true
										} else if bl, ok := e.(*ast.BasicLit); ok && bl.Kind == token.INT {
											v, _ := strconv.Atoi(bl.Value)
											res = append(res, v)
											okShape = true
										} else {
											bad = true
										}
									}
								}
							}
						}
					}
					if okShape {
						return
					}
				}
			}
			bad = true
		default:
			bad = true
		}
	}
	walk(cond, 0)
	if bad || len(res) == 0 {
		return []string{"-1"}
	}
	sort.Ints(res)
	out := make([]string, len(res))
	for i, v := range res {
		out[i] = strconv.Itoa(v)
	}
	return out
}

// ---------------------------------------------------------------------------------------
// package-level constants / variables with literal values

func declValue(rel, name string) string {
	f := parseFile(rel)
	val := "Unknown"
	for _, d := range f.Decls {
		gd, ok := d.(*ast.GenDecl)
		if !ok {
			continue
		}
		for _, sp := range gd.Specs {
			vs, ok := sp.(*ast.ValueSpec)
			if !ok {
				continue
			}
			for i, n := range vs.Names {
				if n.Name == name && i < len(vs.Values) {
					val = src(vs.Values[i])
				}
			}
		}
	}
	return val
}

func unq(s string) string {
	if u, err := strconv.Unquote(s); err == nil {
		return u
	}
	return s
}

// ---------------------------------------------------------------------------------------
// the server runner: which communications its select waits on (as a sorted set: the order of
// select cases has no meaning), what Shutdown is called with, and the capacity class of the
// channel the serving goroutine reports on

func serverRunner() (selectCases []string, shutdownArg string, doneCap string) {
	fd := findFunc("transport/http/server", "", "RunServerWithLoggerFactory")
	shutdownArg, doneCap = "Unknown", "Unknown"
	if fd == nil {
		return []string{"Unknown"}, shutdownArg, doneCap
	}
	ast.Inspect(fd, func(n ast.Node) bool {
		switch x := n.(type) {
		case *ast.SelectStmt:
			for _, c := range x.Body.List {
				cc := c.(*ast.CommClause)
				switch {
				case cc.Comm == nil:
					selectCases = append(selectCases, "default")
				case strings.Contains(src(cc.Comm), ".Done()"):
					selectCases = append(selectCases, "ctx-done")
				case strings.Contains(src(cc.Comm), "<-"):
					selectCases = append(selectCases, "recv")
				default:
					selectCases = append(selectCases, "other")
				}
			}
		case *ast.CallExpr:
			if se, ok := x.Fun.(*ast.SelectorExpr); ok && se.Sel.Name == "Shutdown" && len(x.Args) == 1 {
				shutdownArg = ctxClass(x.Args[0])
			}
		}
		return true
	})
	caps := chanCaps("transport/http/server", "RunServerWithLoggerFactory")
	if len(caps) == 1 {
		doneCap = caps[0]
	}
	sort.Strings(selectCases)
	if len(selectCases) == 0 {
		selectCases = []string{"Unknown"}
	}
	return
}

// ---------------------------------------------------------------------------------------
// lock bracketing: for every function of a file that touches the shared object, every PATH
// through it (an `if ... { ...; return }` forks a path; a deferred unlock is appended to every
// path; same-receiver methods and plain functions of the package are inlined) as a list of
// events  LLock/LUnlock/LRLock/LRUnlock m | LRead o | LWrite o | LSafeCall o f

type lockCfg struct {
	dir      string
	file     string
	mutexes  map[string]bool
	data     map[string]bool
	callKind string         // how a method call on the shared object counts: LSafeCall (object locks itself), LRead, LWrite
	dataType *regexp.Regexp // declared type of the shared object: variables and fields of that type are shared objects too
}

var mutexTypeRe = regexp.MustCompile(`^[*&]?sync\.(RW)?Mutex$`)

// declared type (as text) of a value expression: T{...} -> T, &T{...} -> *T, new(T) -> *T
func valueType(e ast.Expr) string {
	switch x := e.(type) {
	case *ast.CompositeLit:
		return src(x.Type)
	case *ast.UnaryExpr:
		if x.Op == token.AND {
			if t := valueType(x.X); t != "" {
				return "*" + t
			}
		}
	case *ast.CallExpr:
		if id, ok := x.Fun.(*ast.Ident); ok && id.Name == "new" && len(x.Args) == 1 {
			return "*" + src(x.Args[0])
		}
	}
	return ""
}

// names of the package-level variables and struct fields of a package whose declared type matches
// re (an embedded field goes by its type name): locks and shared objects are found by what they
// are, not by what they are called
func namesOfType(dir string, re *regexp.Regexp) map[string]bool {
	res := map[string]bool{}
	if re == nil {
		return res
	}
	match := func(t string) bool { return t != "" && re.MatchString(strings.ReplaceAll(t, " ", "")) }
	for _, f := range pkgFiles(dir) {
		ast.Inspect(f, func(n ast.Node) bool {
			switch x := n.(type) {
			case *ast.FuncDecl:
				return false
			case *ast.ValueSpec:
				for i, name := range x.Names {
					t := ""
					if x.Type != nil {
						t = src(x.Type)
					} else if i < len(x.Values) {
						t = valueType(x.Values[i])
					}
					if match(t) {
						res[name.Name] = true
					}
				}
			case *ast.StructType:
				for _, fl := range x.Fields.List {
					t := src(fl.Type)
					if !match(t) {
						continue
					}
					if len(fl.Names) == 0 {
						res[lastName(t)] = true
					}
					for _, name := range fl.Names {
						res[name.Name] = true
					}
				}
			}
			return true
		})
	}
	return res
}

// the methods (any receiver) of a package called name
func methodsNamed(dir, name string) []*ast.FuncDecl {
	var res []*ast.FuncDecl
	for _, f := range pkgFiles(dir) {
		for _, d := range f.Decls {
			if fd, ok := d.(*ast.FuncDecl); ok && fd.Recv != nil && fd.Body != nil && fd.Name.Name == name {
				res = append(res, fd)
			}
		}
	}
	return res
}

func lastName(s string) string {
	s = strings.TrimPrefix(s, "*")
	s = strings.Trim(s, "()")
	s = strings.TrimPrefix(s, "*")
	if i := strings.LastIndex(s, "."); i >= 0 {
		return s[i+1:]
	}
	return s
}

type pathSet struct {
	open   [][]string // paths that fall through
	closed [][]string // paths that returned
}

const maxPaths = 64

type lockWalker struct {
	cfg   lockCfg
	fd    *ast.FuncDecl
	depth int
}

// events of an expression / simple statement, in evaluation order (no control flow inside)
func (w *lockWalker) events(n ast.Node) [][]string {
	// returns alternative event lists (inlined callees may fork)
	alts := [][]string{{}}
	add := func(e string) {
		for i := range alts {
			alts[i] = append(alts[i], e)
		}
	}
	rName, rType := "", ""
	if w.fd.Recv != nil && len(w.fd.Recv.List) > 0 {
		if len(w.fd.Recv.List[0].Names) > 0 {
			rName = w.fd.Recv.List[0].Names[0].Name
		}
		rType = recvName(w.fd)
	}
	var visit func(n ast.Node) bool
	inline := func(callee *ast.FuncDecl, args []ast.Expr) {
		for _, a := range args {
			ast.Inspect(a, visit)
		}
		sub := (&lockWalker{cfg: w.cfg, fd: callee, depth: w.depth + 1}).paths()
		var next [][]string
		for _, p := range alts {
			for _, q := range sub {
				if len(next) < maxPaths {
					next = append(next, append(append([]string{}, p...), q...))
				}
			}
		}
		if len(next) > 0 {
			alts = next
		}
	}
	visit = func(n ast.Node) bool {
		switch x := n.(type) {
		case *ast.FuncLit:
			return false // closures (goroutines) are separate programs
		case *ast.CallExpr:
			if id, ok := x.Fun.(*ast.Ident); ok && w.depth < 2 {
				if callee := findFunc(w.cfg.dir, "", id.Name); callee != nil && callee != w.fd {
					inline(callee, x.Args)
					return false
				}
			}
			if se, ok := x.Fun.(*ast.SelectorExpr); ok {
				base := lastName(src(se.X))
				if w.cfg.mutexes[base] {
					add("L" + se.Sel.Name + " " + coqStr(base))
					return false
				}
				if w.cfg.data[base] {
					if w.cfg.callKind == "LSafeCall" {
						add("LSafeCall " + coqStr(base) + " " + coqStr(se.Sel.Name))
					} else {
						add(w.cfg.callKind + " " + coqStr(base))
					}
				}
				if rName != "" && src(se.X) == rName && w.depth < 2 {
					if callee := findFunc(w.cfg.dir, rType, se.Sel.Name); callee != nil && callee != w.fd {
						inline(callee, x.Args)
						return false
					}
				}
				if !w.cfg.data[base] && src(se.X) != rName && w.depth < 2 {
					// a method of another value of this package (a table object that wraps the lock and
					// the map): followed when the name identifies it
					if ms := methodsNamed(w.cfg.dir, se.Sel.Name); len(ms) == 1 && ms[0] != w.fd {
						inline(ms[0], x.Args)
						return false
					}
				}
			}
		case *ast.AssignStmt:
			for _, r := range x.Rhs {
				ast.Inspect(r, visit)
			}
			for _, l := range x.Lhs {
				switch t := l.(type) {
				case *ast.StarExpr:
					if w.cfg.data[lastName(src(t.X))] {
						add("LWrite " + coqStr(lastName(src(t.X))))
					}
				case *ast.IndexExpr:
					if w.cfg.data[lastName(src(t.X))] {
						add("LWrite " + coqStr(lastName(src(t.X))))
					}
				case *ast.SelectorExpr, *ast.Ident:
					if w.cfg.data[lastName(src(t))] {
						add("LWrite " + coqStr(lastName(src(t))))
					}
				}
			}
			return false
		case *ast.IndexExpr:
			if w.cfg.data[lastName(src(x.X))] {
				add("LRead " + coqStr(lastName(src(x.X))))
			}
		case *ast.StarExpr:
			if w.cfg.data[lastName(src(x.X))] {
				add("LRead " + coqStr(lastName(src(x.X))))
			}
		}
		return true
	}
	ast.Inspect(n, visit)
	return alts
}

func cross(ps [][]string, alts [][]string) [][]string {
	var res [][]string
	for _, p := range ps {
		for _, a := range alts {
			if len(res) < maxPaths {
				res = append(res, append(append([]string{}, p...), a...))
			}
		}
	}
	return res
}

func (w *lockWalker) block(stmts []ast.Stmt, in [][]string) pathSet {
	ps := pathSet{open: in}
	for _, st := range stmts {
		if len(ps.open) == 0 {
			break
		}
		switch x := st.(type) {
		case *ast.DeferStmt:
			if se, ok := x.Call.Fun.(*ast.SelectorExpr); ok && w.cfg.mutexes[lastName(src(se.X))] {
				// a marker in the path: only the paths that pass the defer statement run it
				ps.open = cross(ps.open, [][]string{{"DEFER!L" + se.Sel.Name + " " + coqStr(lastName(src(se.X)))}})
				continue
			}
			ps.open = cross(ps.open, w.events(x.Call))
		case *ast.ReturnStmt:
			out := ps.open
			for _, r := range x.Results {
				out = cross(out, w.events(r))
			}
			ps.closed = append(ps.closed, out...)
			ps.open = nil
		case *ast.BlockStmt:
			sub := w.block(x.List, ps.open)
			ps.open, ps.closed = sub.open, append(ps.closed, sub.closed...)
		case *ast.IfStmt:
			start := ps.open
			if x.Init != nil {
				start = cross(start, w.events(x.Init))
			}
			start = cross(start, w.events(x.Cond))
			thenP := w.block(x.Body.List, start)
			var elseP pathSet
			switch e := x.Else.(type) {
			case nil:
				elseP = pathSet{open: start}
			case *ast.BlockStmt:
				elseP = w.block(e.List, start)
			default:
				elseP = w.block([]ast.Stmt{e}, start)
			}
			ps.open = append(thenP.open, elseP.open...)
			ps.closed = append(append(ps.closed, thenP.closed...), elseP.closed...)
		case *ast.ForStmt:
			start := ps.open
			if x.Init != nil {
				start = cross(start, w.events(x.Init))
			}
			if x.Cond != nil {
				start = cross(start, w.events(x.Cond))
			}
			body := w.block(x.Body.List, start) // the body once, or not at all
			ps.open = append(start, body.open...)
			ps.closed = append(ps.closed, body.closed...)
		case *ast.RangeStmt:
			start := ps.open
			if w.cfg.data[lastName(src(x.X))] {
				start = cross(start, [][]string{{"LRead " + coqStr(lastName(src(x.X)))}})
			} else {
				start = cross(start, w.events(x.X))
			}
			body := w.block(x.Body.List, start)
			ps.open = append(start, body.open...)
			ps.closed = append(ps.closed, body.closed...)
		case *ast.SwitchStmt:
			start := ps.open
			if x.Init != nil {
				start = cross(start, w.events(x.Init))
			}
			if x.Tag != nil {
				start = cross(start, w.events(x.Tag))
			}
			var open [][]string
			hasDefault := false
			for _, c := range x.Body.List {
				cc := c.(*ast.CaseClause)
				if cc.List == nil {
					hasDefault = true
				}
				s := start
				for _, e := range cc.List {
					s = cross(s, w.events(e))
				}
				sub := w.block(cc.Body, s)
				open = append(open, sub.open...)
				ps.closed = append(ps.closed, sub.closed...)
			}
			if !hasDefault {
				open = append(open, start...)
			}
			ps.open = open
		default:
			ps.open = cross(ps.open, w.events(st))
		}
		if len(ps.open) > maxPaths {
			ps.open = ps.open[:maxPaths]
		}
	}
	return ps
}

// all complete paths of the function, deferred unlocks appended
func (w *lockWalker) paths() [][]string {
	ps := w.block(w.fd.Body.List, [][]string{{}})
	all := append(ps.closed, ps.open...)
	seen := map[string]bool{}
	var res [][]string
	for _, p := range all {
		var q, deferred []string
		for _, e := range p {
			if strings.HasPrefix(e, "DEFER!") {
				deferred = append([]string{strings.TrimPrefix(e, "DEFER!")}, deferred...) // LIFO
			} else {
				q = append(q, e)
			}
		}
		if w.depth > 0 {
			// an inlined callee: its deferred calls run when IT returns
			q = append(q, deferred...)
		} else {
			q = append(q, deferred...)
		}
		if q == nil {
			q = []string{}
		}
		k := strings.Join(q, ";")
		if !seen[k] {
			seen[k] = true
			res = append(res, q)
		}
	}
	if len(res) > maxPaths {
		res = res[:maxPaths]
	}
	return res
}

func lockFacts(pkg string, cfg lockCfg) [][2]string {
	var res [][2]string
	mutexes, data := map[string]bool{}, map[string]bool{}
	for k := range cfg.mutexes {
		mutexes[k] = true
	}
	for k := range namesOfType(cfg.dir, mutexTypeRe) {
		mutexes[k] = true
	}
	for k := range cfg.data {
		data[k] = true
	}
	for k := range namesOfType(cfg.dir, cfg.dataType) {
		data[k] = true
	}
	cfg.mutexes, cfg.data = mutexes, data
	for _, f := range pkgFiles(cfg.dir) {
		if cfg.file != "" && filepath.Base(fset.Position(f.Pos()).Filename) != cfg.file {
			continue
		}
		for _, d := range f.Decls {
			fd, ok := d.(*ast.FuncDecl)
			if !ok || fd.Body == nil {
				continue
			}
			paths := (&lockWalker{cfg: cfg, fd: fd}).paths()
			touches := false
			var ps []string
			for _, p := range paths {
				if len(p) > 0 {
					touches = true
				}
				ps = append(ps, "["+strings.Join(p, "; ")+"]")
			}
			if !touches {
				continue
			}
			name := fd.Name.Name
			if r := recvName(fd); r != "" {
				name = r + "." + name
			}
			res = append(res, [2]string{pkg + "." + name, "[" + strings.Join(ps, "; ") + "]"})
		}
	}
	sort.Slice(res, func(i, j int) bool { return res[i][0] < res[j][0] })
	return res
}

// ---------------------------------------------------------------------------------------

func main() {
	root = "/repo"
	if len(os.Args) > 1 {
		root = os.Args[1]
	}
	p := fmt.Println
	pf := fmt.Printf
	p("(* GENERATED by harness/cmd/facts from the lura sources on every check. Do not edit. *)")
	p("From Coq Require Import List String ZArith.")
	p("Require Import Verif.Common.LockEv.")
	p("Import ListNotations.")
	p("Open Scope string_scope.")
	p("")
	for _, fn := range []string{"newStack", "New", "newMulti"} {
		pf("Definition stack_%s : list string := %s.\n", fn, coqStrList(stackOrder(fn)))
	}
	p("")
	pf("Definition merge_timeout_lits : list Z := %s.\n", coqZList(assignLits("proxy", "NewMergeDataMiddleware", "serviceTimeout")))
	pf("Definition concurrent_timeout_lits : list Z := %s.\n", coqZList(assignLits("proxy", "NewConcurrentMiddlewareWithLogger", "serviceTimeout")))
	pf("Definition srv_scale_lits : list Z := %s.\n", coqZList(assignLits("sd/dnssrv", "normalize", "scale")))
	p("")
	pf("Definition chans_parallelMerge : list string := %s.\n", coqStrList(chanCaps("proxy", "parallelMerge")))
	pf("Definition chans_concurrent : list string := %s.\n", coqStrList(chanCaps("proxy", "NewConcurrentMiddlewareWithLogger")))
	p("")
	for _, fc := range [][2]string{{"parallelMerge", "ctx_parallelMerge"}, {"sequentialMerge", "ctx_sequentialMerge"}, {"requestPart", "ctx_requestPart"},
		{"NewConcurrentMiddlewareWithLogger", "ctx_concurrent"}, {"processConcurrentCall", "ctx_processConcurrentCall"}} {
		pf("Definition %s : list (string * string) := %s.\n", fc[1], coqPairList(ctxDerivations("proxy", fc[0])))
	}
	// every context derivation written in proxy/shadow.go
	sh := ctxDerivationsIn(parseFile("proxy/shadow.go"))
	if len(sh) == 0 {
		sh = [][2]string{{"Unknown", "Unknown"}}
	}
	pf("Definition ctx_shadow : list (string * string) := %s.\n", coqPairList(sh))
	for _, fn := range []string{"parallelMerge", "sequentialMerge", "requestPart", "NewConcurrentMiddlewareWithLogger", "processConcurrentCall"} {
		name := fn
		if fn == "NewConcurrentMiddlewareWithLogger" {
			name = "concurrent"
		}
		pf("Definition cancel_calls_%s : Z := (%d)%%Z.\n", name, cancelCalls("proxy", fn))
	}
	p("")
	pf("Definition default_status_accepted : list Z := %s.\n", coqZList(acceptedStatuses()))
	pf("Definition hdr_complete_name : string := %s.\n", coqStr(unq(declValue("transport/http/server/server.go", "CompleteResponseHeaderName"))))
	pf("Definition hdr_complete_true : string := %s.\n", coqStr(unq(declValue("transport/http/server/server.go", "HeaderCompleteResponseValue"))))
	pf("Definition hdr_complete_false : string := %s.\n", coqStr(unq(declValue("transport/http/server/server.go", "HeaderIncompleteResponseValue"))))
	pf("Definition default_headers_to_send : string := %s.\n", coqStr(declValue("transport/http/server/server.go", "HeadersToSend")))
	pf("Definition krakend_header_name : string := %s.\n", coqStr(unq(declValue("core/version.go", "KrakendHeaderName"))))
	p("")
	sc, sa, dc := serverRunner()
	pf("Definition runserver_select : list string := %s.\nDefinition runserver_shutdown_arg : string := %s.\nDefinition runserver_done_cap : string := %s.\n", coqStrList(sc), coqStr(sa), coqStr(dc))
	p("")
	mn := map[string]bool{"mutex": true, "mu": true, "randomMu": true, "renderRegisterMu": true, "RWMutex": true}
	emitLocks := func(name string, all [][2]string) {
		pf("Definition lock_paths_%s : list (string * list (list lev)) := [\n", name)
		for i, a := range all {
			sep := ";"
			if i == len(all)-1 {
				sep = ""
			}
			pf("  (%s, %s)%s\n", coqStr(a[0]), a[1], sep)
		}
		p("].")
	}
	emitLocks("register", lockFacts("register", lockCfg{"register", "register.go", mn, map[string]bool{"data": true}, "LSafeCall", regexp.MustCompile(`^(map\[string\]interface\{\}|\*Untyped)$`)}))
	emitLocks("render", append(lockFacts("gin", lockCfg{"router/gin", "render.go", mn, map[string]bool{"renderRegister": true}, "LRead", regexp.MustCompile(`^map\[string\]Render$`)}),
		lockFacts("mux", lockCfg{"router/mux", "render.go", mn, map[string]bool{"renderRegister": true}, "LRead", regexp.MustCompile(`^map\[string\]Render$`)})...))
	emitLocks("backoff", lockFacts("backoff", lockCfg{"backoff", "backoff.go", mn, map[string]bool{"random": true}, "LWrite", regexp.MustCompile(`^\*rand\.Rand$`)}))
	emitLocks("dnssrv", lockFacts("dnssrv", lockCfg{"sd/dnssrv", "subscriber.go", mn, map[string]bool{"cache": true}, "LRead", regexp.MustCompile(`^\*sd\.FixedSubscriber$`)}))
}
