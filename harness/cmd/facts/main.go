// Command facts re-reads the lura sources (go/ast, standard library only) and prints
// coq/Generated/SourceFacts.v: the constants, tables and lock bracketing the Coq models
// were written against.  A pattern that is not found is emitted as the marker "Unknown"
// (strings) or -1 (numbers), so that Generated/FactsOK.v stops compiling.
package main

import (
	"fmt"
	"go/ast"
	"go/parser"
	"go/printer"
	"go/token"
	"os"
	"path/filepath"
	"sort"
	"strconv"
	"strings"
)

var fset = token.NewFileSet()
var root string

func parse(rel string) *ast.File {
	f, err := parser.ParseFile(fset, filepath.Join(root, rel), nil, 0)
	if err != nil {
		return &ast.File{Name: ast.NewIdent("missing")}
	}
	return f
}

func src(n ast.Node) string {
	var b strings.Builder
	printer.Fprint(&b, fset, n)
	return strings.Join(strings.Fields(b.String()), " ")
}

func findFunc(f *ast.File, recv, name string) *ast.FuncDecl {
	for _, d := range f.Decls {
		fd, ok := d.(*ast.FuncDecl)
		if !ok || fd.Name.Name != name {
			continue
		}
		r := ""
		if fd.Recv != nil && len(fd.Recv.List) > 0 {
			r = strings.TrimPrefix(src(fd.Recv.List[0].Type), "*")
		}
		if r == recv {
			return fd
		}
	}
	return nil
}

func coqStr(s string) string { return "\"" + strings.ReplaceAll(s, "\"", "\"\"") + "\"" }

func coqStrList(l []string) string {
	q := make([]string, len(l))
	for i, s := range l {
		q[i] = coqStr(s)
	}
	return "[" + strings.Join(q, "; ") + "]"
}

func coqZList(l []string) string {
	q := make([]string, len(l))
	for i, s := range l {
		q[i] = "(" + s + ")%Z"
	}
	return "[" + strings.Join(q, "; ") + "]"
}

// ---- middleware order: constructors assigned to p, in program order ----
func stackOrder(fn string) []string {
	f := parse("proxy/factory.go")
	fd := findFunc(f, "defaultFactory", fn)
	if fd == nil || fd.Body == nil {
		return []string{"Unknown"}
	}
	var order []string
	ast.Inspect(fd.Body, func(n ast.Node) bool {
		as, ok := n.(*ast.AssignStmt)
		if !ok || len(as.Lhs) < 1 || len(as.Rhs) < 1 {
			return true
		}
		id, ok := as.Lhs[0].(*ast.Ident)
		if !ok || (id.Name != "p" && id.Name != "backendProxy") {
			if ix, ok2 := as.Lhs[0].(*ast.IndexExpr); !ok2 || src(ix.X) != "backendProxy" {
				return true
			}
		}
		call, ok := as.Rhs[0].(*ast.CallExpr)
		if !ok {
			return true
		}
		inner := call
		if c2, ok := call.Fun.(*ast.CallExpr); ok {
			inner = c2
		}
		name := src(inner.Fun)
		if name == "make" {
			return true
		}
		// guarded by an if: record the condition
		order = append(order, name)
		return true
	})
	if len(order) == 0 {
		return []string{"Unknown"}
	}
	return order
}

// ---- integer literals of the expression assigned to a variable in a function ----
func assignLits(rel, recv, fn, variable string) ([]string, string) {
	f := parse(rel)
	var lits []string
	expr := "Unknown"
	var scope ast.Node = f
	if fn != "" {
		fd := findFunc(f, recv, fn)
		if fd == nil || fd.Body == nil {
			return []string{"-1"}, expr
		}
		scope = fd.Body
	}
	done := false
	ast.Inspect(scope, func(n ast.Node) bool {
		as, ok := n.(*ast.AssignStmt)
		if !ok || done || len(as.Lhs) < 1 {
			return true
		}
		if id, ok := as.Lhs[0].(*ast.Ident); ok && id.Name == variable {
			ast.Inspect(as.Rhs[0], func(m ast.Node) bool {
				if bl, ok := m.(*ast.BasicLit); ok && bl.Kind == token.INT {
					lits = append(lits, bl.Value)
				}
				return true
			})
			expr = src(as.Rhs[0])
			done = true
		}
		return true
	})
	if !done {
		return []string{"-1"}, expr
	}
	return lits, expr
}

// ---- channels made in a function: (variable, capacity expression) ----
func chanCaps(rel, recv, fn string) [][2]string {
	f := parse(rel)
	fd := findFunc(f, recv, fn)
	if fd == nil || fd.Body == nil {
		return [][2]string{{"Unknown", "Unknown"}}
	}
	var res [][2]string
	ast.Inspect(fd.Body, func(n ast.Node) bool {
		as, ok := n.(*ast.AssignStmt)
		if !ok || len(as.Rhs) < 1 {
			return true
		}
		call, ok := as.Rhs[0].(*ast.CallExpr)
		if !ok {
			return true
		}
		if id, ok := call.Fun.(*ast.Ident); ok && id.Name == "make" && len(call.Args) > 0 {
			if _, ok := call.Args[0].(*ast.ChanType); ok {
				capx := "0"
				if len(call.Args) > 1 {
					capx = src(call.Args[1])
				}
				res = append(res, [2]string{src(as.Lhs[0]), capx})
			}
		}
		return true
	})
	return res
}

// ---- context derivations in a function: (kind, parent expression, duration expression) ----
func ctxDerivations(rel, recv, fn string) []string {
	f := parse(rel)
	fd := findFunc(f, recv, fn)
	if fd == nil || fd.Body == nil {
		return []string{"Unknown"}
	}
	var res []string
	ast.Inspect(fd.Body, func(n ast.Node) bool {
		call, ok := n.(*ast.CallExpr)
		if !ok {
			return true
		}
		se, ok := call.Fun.(*ast.SelectorExpr)
		if !ok || src(se.X) != "context" {
			return true
		}
		switch se.Sel.Name {
		case "WithTimeout", "WithCancel", "WithDeadline":
			args := make([]string, len(call.Args))
			for i, a := range call.Args {
				args[i] = src(a)
			}
			res = append(res, se.Sel.Name+"("+strings.Join(args, ", ")+")")
		}
		return true
	})
	return res
}

// number of calls of `cancel()` / `defer cancel()` style in a function
func countCalls(rel, recv, fn, callee string) int {
	f := parse(rel)
	fd := findFunc(f, recv, fn)
	if fd == nil || fd.Body == nil {
		return -1
	}
	c := 0
	ast.Inspect(fd.Body, func(n ast.Node) bool {
		if call, ok := n.(*ast.CallExpr); ok && src(call.Fun) == callee {
			c++
		}
		return true
	})
	return c
}

// ---- lock bracketing of a function: Lock/Unlock/access events in program order;
//      a deferred Unlock is moved to the end; same-receiver method calls are inlined once ----
type lockCfg struct {
	rel      string
	mutexes  map[string]bool
	data     map[string]bool
	callKind string // how a method call on a shared object counts: LSafeCall (object locks itself), LRead, LWrite
}

func lastName(s string) string {
	s = strings.TrimPrefix(s, "*")
	s = strings.Trim(s, "()")
	s = strings.TrimPrefix(s, "*")
	if i := strings.LastIndex(s, "."); i >= 0 {
		return s[i+1:]
	}
	return s
}

func lockEvents(f *ast.File, cfg lockCfg, fd *ast.FuncDecl, depth int) []string {
	var evs, deferred []string
	recvName, recvType := "", ""
	if fd.Recv != nil && len(fd.Recv.List) > 0 {
		if len(fd.Recv.List[0].Names) > 0 {
			recvName = fd.Recv.List[0].Names[0].Name
		}
		recvType = strings.TrimPrefix(src(fd.Recv.List[0].Type), "*")
	}
	var visit func(n ast.Node) bool
	visit = func(n ast.Node) bool {
		switch x := n.(type) {
		case *ast.DeferStmt:
			if se, ok := x.Call.Fun.(*ast.SelectorExpr); ok && cfg.mutexes[lastName(src(se.X))] {
				deferred = append([]string{"L" + se.Sel.Name + " " + coqStr(lastName(src(se.X)))}, deferred...)
				return false
			}
		case *ast.CallExpr:
			// call of a plain function of the same file: inline its events
			if id, ok := x.Fun.(*ast.Ident); ok && depth < 2 {
				if callee := findFunc(f, "", id.Name); callee != nil && callee.Body != nil && callee != fd {
					for _, a := range x.Args {
						ast.Inspect(a, visit)
					}
					evs = append(evs, lockEvents(f, cfg, callee, depth+1)...)
					return false
				}
			}
			if se, ok := x.Fun.(*ast.SelectorExpr); ok {
				base := lastName(src(se.X))
				if cfg.mutexes[base] {
					evs = append(evs, "L"+se.Sel.Name+" "+coqStr(base))
					return false
				}
				if cfg.data[base] {
					if cfg.callKind == "LSafeCall" {
						evs = append(evs, "LSafeCall "+coqStr(base)+" "+coqStr(se.Sel.Name))
					} else {
						evs = append(evs, cfg.callKind+" "+coqStr(base))
					}
				}
				// same-receiver method call: inline
				if recvName != "" && src(se.X) == recvName && depth < 2 {
					if callee := findFunc(f, recvType, se.Sel.Name); callee != nil && callee.Body != nil {
						for _, a := range x.Args {
							ast.Inspect(a, visit)
						}
						evs = append(evs, lockEvents(f, cfg, callee, depth+1)...)
						return false
					}
				}
			}
		case *ast.AssignStmt:
			// writes: *(x.cache) = ..., x.data[k] = ...
			for _, l := range x.Lhs {
				switch t := l.(type) {
				case *ast.StarExpr:
					if cfg.data[lastName(src(t.X))] {
						evs = append(evs, "LWrite "+coqStr(lastName(src(t.X))))
					}
				case *ast.IndexExpr:
					if cfg.data[lastName(src(t.X))] {
						evs = append(evs, "LWrite "+coqStr(lastName(src(t.X))))
					}
				case *ast.SelectorExpr, *ast.Ident:
					if cfg.data[lastName(src(t))] {
						evs = append(evs, "LWrite "+coqStr(lastName(src(t))))
					}
				}
			}
			for _, r := range x.Rhs {
				ast.Inspect(r, visit)
			}
			return false
		case *ast.IndexExpr:
			if cfg.data[lastName(src(x.X))] {
				evs = append(evs, "LRead "+coqStr(lastName(src(x.X))))
			}
		case *ast.RangeStmt:
			if cfg.data[lastName(src(x.X))] {
				evs = append(evs, "LRead "+coqStr(lastName(src(x.X))))
			}
		case *ast.StarExpr:
			if cfg.data[lastName(src(x.X))] {
				evs = append(evs, "LRead "+coqStr(lastName(src(x.X))))
			}
		case *ast.FuncLit:
			return false // closures (goroutines) are separate programs
		}
		return true
	}
	ast.Inspect(fd.Body, visit)
	return append(evs, deferred...)
}

func lockFacts(pkg string, cfg lockCfg) [][2]string {
	f := parse(cfg.rel)
	var res [][2]string
	for _, d := range f.Decls {
		fd, ok := d.(*ast.FuncDecl)
		if !ok || fd.Body == nil {
			continue
		}
		evs := lockEvents(f, cfg, fd, 0)
		if len(evs) == 0 {
			continue
		}
		name := fd.Name.Name
		if fd.Recv != nil && len(fd.Recv.List) > 0 {
			name = strings.TrimPrefix(src(fd.Recv.List[0].Type), "*") + "." + name
		}
		res = append(res, [2]string{pkg + "." + name, "[" + strings.Join(evs, "; ") + "]"})
	}
	sort.Slice(res, func(i, j int) bool { return res[i][0] < res[j][0] })
	return res
}

// ---- package-level constants / variables with literal values ----
func declValue(rel, name string) string {
	f := parse(rel)
	val := "Unknown"
	for _, d := range f.Decls {
		gd, ok := d.(*ast.GenDecl)
		if !ok {
			continue
		}
		for _, sp := range gd.Specs {
			vs, ok := sp.(*ast.ValueSpec)
			if !ok {
				continue
			}
			for i, n := range vs.Names {
				if n.Name == name && i < len(vs.Values) {
					val = src(vs.Values[i])
				}
			}
		}
	}
	return val
}

func unq(s string) string {
	if u, err := strconv.Unquote(s); err == nil {
		return u
	}
	return s
}

// condition of the first if statement of a function
func firstIfCond(rel, recv, fn string) string {
	f := parse(rel)
	fd := findFunc(f, recv, fn)
	if fd == nil || fd.Body == nil {
		return "Unknown"
	}
	for _, st := range fd.Body.List {
		if is, ok := st.(*ast.IfStmt); ok {
			return src(is.Cond)
		}
	}
	return "Unknown"
}

// shape of the select in the server runner and the Shutdown argument
func serverRunner() (selectCases []string, shutdownArg string, doneCap string) {
	f := parse("transport/http/server/server.go")
	fd := findFunc(f, "", "RunServerWithLoggerFactory")
	shutdownArg, doneCap = "Unknown", "Unknown"
	if fd == nil {
		return []string{"Unknown"}, shutdownArg, doneCap
	}
	ast.Inspect(fd, func(n ast.Node) bool {
		switch x := n.(type) {
		case *ast.SelectStmt:
			for _, c := range x.Body.List {
				cc := c.(*ast.CommClause)
				if cc.Comm == nil {
					selectCases = append(selectCases, "default")
				} else {
					selectCases = append(selectCases, src(cc.Comm))
				}
			}
		case *ast.CallExpr:
			if se, ok := x.Fun.(*ast.SelectorExpr); ok && se.Sel.Name == "Shutdown" && len(x.Args) == 1 {
				shutdownArg = src(x.Args[0])
			}
			if id, ok := x.Fun.(*ast.Ident); ok && id.Name == "make" && len(x.Args) > 0 {
				if _, ok := x.Args[0].(*ast.ChanType); ok {
					doneCap = "0"
					if len(x.Args) > 1 {
						doneCap = src(x.Args[1])
					}
				}
			}
		}
		return true
	})
	if len(selectCases) == 0 {
		selectCases = []string{"Unknown"}
	}
	return
}

// statuses the default status handler accepts: the condition must be a conjunction of
// `resp.StatusCode != http.StatusX` terms; anything else yields [-1]
var httpStatus = map[string]int{"http.StatusOK": 200, "http.StatusCreated": 201, "http.StatusAccepted": 202,
	"http.StatusNonAuthoritativeInfo": 203, "http.StatusNoContent": 204, "http.StatusResetContent": 205,
	"http.StatusPartialContent": 206, "http.StatusMultiStatus": 207, "http.StatusAlreadyReported": 208, "http.StatusIMUsed": 226}

func acceptedStatuses() []string {
	f := parse("transport/http/client/status.go")
	fd := findFunc(f, "", "DefaultHTTPStatusHandler")
	if fd == nil || fd.Body == nil {
		return []string{"-1"}
	}
	var cond ast.Expr
	for _, st := range fd.Body.List {
		if is, ok := st.(*ast.IfStmt); ok {
			cond = is.Cond
			break
		}
	}
	var res []string
	bad := false
	var walk func(e ast.Expr)
	walk = func(e ast.Expr) {
		switch x := e.(type) {
		case *ast.ParenExpr:
			walk(x.X)
		case *ast.BinaryExpr:
			if x.Op == token.LAND {
				walk(x.X)
				walk(x.Y)
				return
			}
			if x.Op == token.NEQ && src(x.X) == "resp.StatusCode" {
				if v, ok := httpStatus[src(x.Y)]; ok {
					res = append(res, strconv.Itoa(v))
					return
				}
				if bl, ok := x.Y.(*ast.BasicLit); ok && bl.Kind == token.INT {
					res = append(res, bl.Value)
					return
				}
			}
			bad = true
		default:
			bad = true
		}
	}
	if cond == nil {
		return []string{"-1"}
	}
	walk(cond)
	if bad || len(res) == 0 {
		return []string{"-1"}
	}
	return res
}

func main() {
	root = "/repo"
	if len(os.Args) > 1 {
		root = os.Args[1]
	}
	p := fmt.Println
	pf := fmt.Printf
	p("(* GENERATED by harness/cmd/facts from the lura sources on every check. Do not edit. *)")
	p("From Coq Require Import List String ZArith.")
	p("Require Import Verif.Common.LockEv.")
	p("Import ListNotations.")
	p("Open Scope string_scope.")
	p("")
	for _, fn := range []string{"newStack", "New", "newMulti"} {
		pf("Definition stack_%s : list string := %s.\n", fn, coqStrList(stackOrder(fn)))
	}
	p("")
	l, e := assignLits("proxy/merging.go", "", "NewMergeDataMiddleware", "serviceTimeout")
	pf("Definition merge_timeout_lits : list Z := %s.\nDefinition merge_timeout_expr : string := %s.\n", coqZList(l), coqStr(e))
	l, e = assignLits("proxy/concurrent.go", "", "NewConcurrentMiddlewareWithLogger", "serviceTimeout")
	pf("Definition concurrent_timeout_lits : list Z := %s.\nDefinition concurrent_timeout_expr : string := %s.\n", coqZList(l), coqStr(e))
	l, e = assignLits("sd/dnssrv/subscriber.go", "", "normalize", "scale")
	pf("Definition srv_scale_lits : list Z := %s.\n", coqZList(l))
	p("")
	for _, fc := range [][3]string{{"proxy/merging.go", "parallelMerge", "chans_parallelMerge"}, {"proxy/concurrent.go", "NewConcurrentMiddlewareWithLogger", "chans_concurrent"}, {"transport/http/server/server.go", "RunServerWithLoggerFactory", "chans_runServer"}} {
		cs := chanCaps(fc[0], "", fc[1])
		q := make([]string, len(cs))
		for i, c := range cs {
			q[i] = "(" + coqStr(c[0]) + ", " + coqStr(c[1]) + ")"
		}
		pf("Definition %s : list (string * string) := [%s].\n", fc[2], strings.Join(q, "; "))
	}
	p("")
	for _, fc := range [][3]string{{"proxy/merging.go", "parallelMerge", "ctx_parallelMerge"}, {"proxy/merging.go", "sequentialMerge", "ctx_sequentialMerge"},
		{"proxy/merging.go", "requestPart", "ctx_requestPart"}, {"proxy/concurrent.go", "NewConcurrentMiddlewareWithLogger", "ctx_concurrent"},
		{"proxy/concurrent.go", "processConcurrentCall", "ctx_processConcurrentCall"}, {"proxy/shadow.go", "newContextWrapperWithTimeout", "ctx_shadow"}} {
		pf("Definition %s : list string := %s.\n", fc[2], coqStrList(ctxDerivations(fc[0], "", fc[1])))
	}
	pf("Definition cancel_calls_parallelMerge : Z := (%d)%%Z.\n", countCalls("proxy/merging.go", "", "parallelMerge", "cancel"))
	pf("Definition cancel_calls_sequentialMerge : Z := (%d)%%Z.\n", countCalls("proxy/merging.go", "", "sequentialMerge", "cancel"))
	pf("Definition cancel_calls_requestPart : Z := (%d)%%Z.\n", countCalls("proxy/merging.go", "", "requestPart", "cancel"))
	pf("Definition cancel_calls_concurrent : Z := (%d)%%Z.\n", countCalls("proxy/concurrent.go", "", "NewConcurrentMiddlewareWithLogger", "cancel"))
	pf("Definition cancel_calls_processConcurrentCall : Z := (%d)%%Z.\n", countCalls("proxy/concurrent.go", "", "processConcurrentCall", "cancel"))
	p("")
	pf("Definition default_status_accepted : list Z := %s.\n", coqZList(acceptedStatuses()))
	pf("Definition default_status_cond : string := %s.\n", coqStr(firstIfCond("transport/http/client/status.go", "", "DefaultHTTPStatusHandler")))
	pf("Definition hdr_complete_name : string := %s.\n", coqStr(unq(declValue("transport/http/server/server.go", "CompleteResponseHeaderName"))))
	pf("Definition hdr_complete_true : string := %s.\n", coqStr(unq(declValue("transport/http/server/server.go", "HeaderCompleteResponseValue"))))
	pf("Definition hdr_complete_false : string := %s.\n", coqStr(unq(declValue("transport/http/server/server.go", "HeaderIncompleteResponseValue"))))
	pf("Definition default_headers_to_send : string := %s.\n", coqStr(declValue("transport/http/server/server.go", "HeadersToSend")))
	pf("Definition krakend_header_name : string := %s.\n", coqStr(unq(declValue("core/version.go", "KrakendHeaderName"))))
	p("")
	sc, sa, dc := serverRunner()
	pf("Definition runserver_select : list string := %s.\nDefinition runserver_shutdown_arg : string := %s.\nDefinition runserver_done_cap : string := %s.\n", coqStrList(sc), coqStr(sa), coqStr(dc))
	p("")
	mn := map[string]bool{"mutex": true, "mu": true, "randomMu": true, "renderRegisterMu": true, "RWMutex": true}
	emitLocks := func(name string, all [][2]string) {
		pf("Definition lock_events_%s : list (string * list lev) := [\n", name)
		for i, a := range all {
			sep := ";"
			if i == len(all)-1 {
				sep = ""
			}
			pf("  (%s, %s)%s\n", coqStr(a[0]), a[1], sep)
		}
		p("].")
	}
	emitLocks("register", lockFacts("register", lockCfg{"register/register.go", mn, map[string]bool{"data": true}, "LSafeCall"}))
	emitLocks("render", append(lockFacts("gin", lockCfg{"router/gin/render.go", mn, map[string]bool{"renderRegister": true}, "LRead"}),
		lockFacts("mux", lockCfg{"router/mux/render.go", mn, map[string]bool{"renderRegister": true}, "LRead"})...))
	emitLocks("backoff", lockFacts("backoff", lockCfg{"backoff/backoff.go", mn, map[string]bool{"random": true}, "LWrite"}))
	emitLocks("dnssrv", lockFacts("dnssrv", lockCfg{"sd/dnssrv/subscriber.go", mn, map[string]bool{"cache": true}, "LRead"}))
}
