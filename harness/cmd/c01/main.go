// C01 generator: drives the real parallel merge (proxy.NewMergeDataMiddleware and the
// proxy built by proxy.NewDefaultFactory for a multi-backend endpoint) with gated stub
// backends.  The arrival order at the merging goroutine is imposed, not sampled: a
// backend is released only after the verif dequeue hook has reported that the previous
// message was taken out of the channel.  Also runs the accumulator and combineData alone
// (verif exports).  No sleeps, no timing assumptions: cancellation is triggered by the
// harness (parent context) once every payload that must precede it has been dequeued;
// the deadline flavour is used only with outcomes whose message does not depend on timing.
package main

import (
	"bytes"
	"context"
	"encoding/json"
	"errors"
	"fmt"
	"os"
	"os/exec"
	"sort"
	"strings"
	"sync"
	"time"

	"github.com/luraproject/lura/v2/config"
	"github.com/luraproject/lura/v2/logging"
	"github.com/luraproject/lura/v2/proxy"

	"verif/harness/internal/emit"
	"verif/harness/internal/out"
	"verif/harness/internal/rng"
)

// ---- outcomes ------------------------------------------------------------------------

const (
	kPayload = iota
	kErr
	kEmpty
	kCancel
)

type outcome struct {
	kind     int
	complete bool
	data     map[string]interface{} // nil: Data == nil
	tag      string                 // kErr
	deadline bool                   // kCancel: cancelled by the merge deadline instead of the parent
	// kErr: the error value. 0: a plain error; 1..4: an error implementing Errors() []error with
	// errKind-1 inner errors; 5: lura's own merge error (obtained from a nested merge)
	errKind int
	// kErr: the backend hands a response over together with its error (complete/data above)
	withResp bool
}

type tagErr struct{ tag string }

// an error value that is itself a collection of errors (what a nested merge pipeline or any
// multi-error library returns): still ONE failed backend, ONE entry
type multiErr struct {
	tag   string
	inner []error
}

func (m multiErr) Error() string   { return "multi error " + m.tag }
func (m multiErr) Errors() []error { return m.inner }

// lura's own mergeError, returned by a merge of one payload and two failing backends
var luraMergeErr error

const luraMergeTag = "luramerge"

func initLuraMergeErr() {
	next := []proxy.Proxy{
		func(context.Context, *proxy.Request) (*proxy.Response, error) {
			return &proxy.Response{Data: map[string]interface{}{"n": 1}, IsComplete: true}, nil
		},
		func(context.Context, *proxy.Request) (*proxy.Response, error) { return nil, tagErr{"in1"} },
		func(context.Context, *proxy.Request) (*proxy.Response, error) { return nil, tagErr{"in2"} },
	}
	_, err := proxy.NewMergeDataMiddleware(logging.NoOp, endpoint(3, time.Hour))(next...)(context.Background(), newRequest())
	if _, ok := err.(merr); !ok {
		// the nested merge no longer returns a multi-error: fall back to an equivalent value
		err = multiErr{tag: luraMergeTag, inner: []error{tagErr{"in1"}, tagErr{"in2"}}}
	}
	luraMergeErr = err
}

func (o outcome) err() error {
	switch {
	case o.errKind == 0:
		return tagErr{o.tag}
	case o.errKind == 5:
		return luraMergeErr
	}
	m := multiErr{tag: o.tag, inner: []error{}}
	for j := 0; j < o.errKind-1; j++ {
		m.inner = append(m.inner, tagErr{fmt.Sprintf("%s/in%d", o.tag, j)})
	}
	return m
}

// constructors of failing outcomes
func errMulti(k int, id string) outcome {
	return outcome{kind: kErr, errKind: k + 1, tag: fmt.Sprintf("multi%d:%s", k, id)}
}
func errLura() outcome { return outcome{kind: kErr, errKind: 5, tag: luraMergeTag} }
func (o outcome) with(complete bool, d map[string]interface{}) outcome {
	o.withResp, o.complete, o.data = true, complete, d
	return o
}

func (t tagErr) Error() string { return "backend error " + t.tag }

func deepCopy(v interface{}) interface{} {
	switch x := v.(type) {
	case map[string]interface{}:
		m := make(map[string]interface{}, len(x))
		for k, e := range x {
			m[k] = deepCopy(e)
		}
		return m
	case []interface{}:
		l := make([]interface{}, len(x))
		for i, e := range x {
			l[i] = deepCopy(e)
		}
		return l
	}
	return v
}

func copyMap(m map[string]interface{}) map[string]interface{} {
	if m == nil {
		return nil
	}
	return deepCopy(m).(map[string]interface{})
}

func (o outcome) coq() string {
	switch o.kind {
	case kPayload:
		return emit.App("OPayload", emit.Bool(o.complete), emit.OptObj(o.data))
	case kErr:
		if o.withResp {
			return emit.App("OErrWith", emit.App("EBackend", emit.Str(o.tag)), emit.Bool(o.complete), emit.OptObj(o.data))
		}
		return emit.App("OErr", emit.App("EBackend", emit.Str(o.tag)))
	case kEmpty:
		return "OEmpty"
	}
	return emit.App("OCancelled", emit.Bool(o.deadline))
}

func (o outcome) js() interface{} {
	switch o.kind {
	case kPayload:
		var d interface{}
		if o.data != nil {
			d = o.data
		}
		return map[string]interface{}{"payload": d, "complete": o.complete}
	case kErr:
		m := map[string]interface{}{"error": o.tag, "error_value": []string{"plain", "Errors() with 0 inner", "Errors() with 1 inner",
			"Errors() with 2 inner", "Errors() with 3 inner", "lura mergeError of a nested merge (2 inner)"}[o.errKind]}
		if o.withResp {
			var d interface{}
			if o.data != nil {
				d = o.data
			}
			m["returned_together_with_response"] = map[string]interface{}{"payload": d, "complete": o.complete}
		}
		return m
	case kEmpty:
		return "empty(nil,nil)"
	}
	if o.deadline {
		return "silent-until-deadline"
	}
	return "silent-until-cancelled"
}

func (o outcome) good() bool { return o.kind == kPayload && o.complete && o.data != nil }

// ---- observations --------------------------------------------------------------------

type merr interface{ Errors() []error }

func ekind(e error) (string, string) {
	var te tagErr
	if m, ok := e.(multiErr); ok { // one entry that is itself a collection
		return emit.App("EBackend", emit.Str(m.tag)), "backend:" + m.tag
	}
	if e != nil && fmt.Sprintf("%T", e) == "proxy.mergeError" {
		return emit.App("EBackend", emit.Str(luraMergeTag)), "backend:" + luraMergeTag
	}
	switch {
	case e == nil:
		return emit.App("EOther", emit.Str("<nil entry>")), "<nil entry>"
	case errors.As(e, &te):
		return emit.App("EBackend", emit.Str(te.tag)), "backend:" + te.tag
	case e == proxy.VerifErrNullResult:
		return "ENull", "null-result"
	case errors.Is(e, context.Canceled):
		return "ECancelled", "canceled"
	case errors.Is(e, context.DeadlineExceeded):
		return "EDeadline", "deadline"
	}
	return emit.App("EOther", emit.Str(e.Error())), "other:" + e.Error()
}

func obsErr(err error) (string, interface{}) {
	if err == nil {
		return "None", nil
	}
	me, ok := err.(merr)
	if !ok {
		return emit.Some(emit.List([]string{emit.App("EOther", emit.Str("<no Errors() method> "+err.Error()))})), "no-Errors-method:" + err.Error()
	}
	var cs []string
	js := []interface{}{}
	for _, e := range me.Errors() {
		c, j := ekind(e)
		cs = append(cs, c)
		js = append(js, j)
	}
	return emit.Some(emit.List(cs)), js
}

func respCoq(r *proxy.Response) string {
	return emit.App("mkresp", emit.OptObj(r.Data), emit.Bool(r.IsComplete))
}

func respJS(r *proxy.Response) interface{} {
	if r == nil {
		return nil
	}
	var d interface{}
	if r.Data != nil {
		d = r.Data
	}
	return map[string]interface{}{"data": d, "complete": r.IsComplete}
}

func obsResult(r *proxy.Response, err error, panicked string) (string, interface{}) {
	if panicked != "" {
		return emit.Pair("None", emit.Some(emit.List([]string{emit.App("EOther", emit.Str("panic: "+panicked))}))),
			map[string]interface{}{"panic": panicked}
	}
	rc := "None"
	if r != nil {
		rc = emit.Some(respCoq(r))
	}
	ec, ej := obsErr(err)
	return emit.Pair(rc, ec), map[string]interface{}{"response": respJS(r), "error_nil": err == nil, "errors": ej}
}

// ---- running the real merge under an imposed arrival order -----------------------------

var deq chan struct{} // the channel the hook of the running case signals on

type mergeOut struct {
	r        *proxy.Response
	e        error
	panicked string
}

func endpoint(n int, timeout time.Duration) *config.EndpointConfig {
	ep := &config.EndpointConfig{Endpoint: "/x", Method: "GET", Timeout: timeout}
	for i := 0; i < n; i++ {
		ep.Backend = append(ep.Backend, &config.Backend{URLPattern: fmt.Sprintf("/b%d", i), Method: "GET",
			Host: []string{"http://127.0.0.1:8081"}, Timeout: timeout})
	}
	return ep
}

func buildProxy(via int, ep *config.EndpointConfig, next []proxy.Proxy) proxy.Proxy {
	if via == 0 {
		return proxy.NewMergeDataMiddleware(logging.NoOp, ep)(next...)
	}
	bf := func(be *config.Backend) proxy.Proxy {
		for i := range next {
			if be.URLPattern == fmt.Sprintf("/b%d", i) {
				return next[i]
			}
		}
		panic("unknown backend " + be.URLPattern)
	}
	p, err := proxy.NewDefaultFactory(bf, logging.NoOp).New(ep)
	if err != nil {
		panic(err)
	}
	return p
}

// effective schedule for a requested order pi: the cancelled backends all deliver when the
// harness cancels; a payload cannot be made to arrive deterministically after the
// cancellation (requestPart selects between the two), so payloads requested after the
// first cancelled backend are moved before it.
func schedule(outs []outcome, pi []int) (before, cancels, after []int) {
	seenC := false
	for _, b := range pi {
		switch {
		case outs[b].kind == kCancel:
			seenC = true
			cancels = append(cancels, b)
		case !seenC || outs[b].kind == kPayload:
			before = append(before, b)
		default:
			after = append(after, b)
		}
	}
	return
}

const watchdog = 120 * time.Second

// A scenario travels with the request context, so that ONE proxy instance can serve many
// different scenarios (one after the other, or concurrently).
type scenario struct {
	outs  []outcome
	gates []chan struct{} // nil: ungated (the stubs answer at once)
	// when set, every stub publishes the context it was called with: requestPart cancels that
	// context right after its send, so its Done tells the harness "this backend has delivered"
	ctxCh []chan context.Context
}

type scenarioKey struct{}

func stub(i int) proxy.Proxy {
	return func(ctx context.Context, _ *proxy.Request) (*proxy.Response, error) {
		sc := ctx.Value(scenarioKey{}).(*scenario)
		o := sc.outs[i]
		if sc.ctxCh != nil {
			sc.ctxCh[i] <- ctx
		}
		if o.kind == kCancel {
			<-ctx.Done()
			return nil, ctx.Err()
		}
		if sc.gates != nil {
			<-sc.gates[i]
		}
		switch o.kind {
		case kPayload:
			return &proxy.Response{Data: copyMap(o.data), IsComplete: o.complete}, nil
		case kErr:
			if o.withResp {
				return &proxy.Response{Data: copyMap(o.data), IsComplete: o.complete}, o.err()
			}
			return nil, o.err()
		}
		return nil, nil
	}
}

// one merging proxy for n backends
type instance struct {
	via, n   int
	deadline bool
	p        proxy.Proxy
}

func newInstance(via, n int, deadline bool) *instance {
	timeout := time.Hour
	if deadline {
		timeout = 30 * time.Millisecond
	}
	return newInstanceT(via, n, deadline, timeout)
}

func newInstanceT(via, n int, deadline bool, timeout time.Duration) *instance {
	next := make([]proxy.Proxy, n)
	for i := range next {
		next[i] = stub(i)
	}
	return &instance{via: via, n: n, deadline: deadline, p: buildProxy(via, endpoint(n, timeout), next)}
}

func hasDeadline(outs []outcome) bool {
	for _, o := range outs {
		if o.kind == kCancel && o.deadline {
			return true
		}
	}
	return false
}

func newRequest() *proxy.Request {
	return &proxy.Request{Method: "GET", Params: map[string]string{}, Headers: map[string][]string{}, Query: map[string][]string{}}
}

// runMerge builds a fresh proxy and runs one scenario through it.
func runMerge(via int, outs []outcome, pi []int) (mergeOut, []int) {
	return newInstance(via, len(outs), hasDeadline(outs)).run(outs, pi)
}

// run returns what the proxy returned and the arrival order that was imposed.
func (in *instance) run(outs []outcome, pi []int) (mergeOut, []int) {
	before, cancels, after := schedule(outs, pi)
	return in.runSched(outs, before, cancels, after, false)
}

// runSched: release `before` one by one (each confirmed by the dequeue hook), cancel the caller
// when some backend waits for it (or forceCancel), then release `after` one by one.
func (in *instance) runSched(outs []outcome, before, cancels, after []int, forceCancel bool) (mergeOut, []int) {
	n := len(outs)
	deadlineMode := in.deadline
	gates := make([]chan struct{}, n)
	for i := range gates {
		gates[i] = make(chan struct{})
	}
	p := in.p
	deq = make(chan struct{}, 4*n+8)
	parent, cancel := context.WithCancel(context.WithValue(context.Background(), scenarioKey{}, &scenario{outs: outs, gates: gates}))
	done := make(chan mergeOut, 1)
	go func() {
		defer func() {
			if x := recover(); x != nil {
				done <- mergeOut{panicked: fmt.Sprint(x)}
			}
		}()
		r, e := p(parent, newRequest())
		done <- mergeOut{r: r, e: e}
	}()
	released := make([]bool, n)
	var res *mergeOut
	wd := time.NewTimer(watchdog)
	defer wd.Stop()
	// wait until the merging goroutine has dequeued one more message (or has returned)
	waitDeq := func() bool {
		if res != nil {
			return false
		}
		select {
		case <-deq:
			return true
		case o := <-done:
			res = &o
			return false
		case <-wd.C:
			fmt.Fprintln(os.Stderr, "C01 generator: watchdog: the merge neither dequeued nor returned")
			os.Exit(3)
		}
		return false
	}
	var order []int
	if deadlineMode {
		// every message is independent of timing (errors, empty results, deadline errors):
		// release everything, the arrival order is irrelevant for the compared projection
		for i := 0; i < n; i++ {
			if outs[i].kind != kCancel {
				close(gates[i])
				released[i] = true
			}
			order = append(order, i)
		}
	} else {
		for _, b := range before {
			close(gates[b])
			released[b] = true
			waitDeq()
		}
		if len(cancels) > 0 || forceCancel {
			cancel()
			for range cancels {
				waitDeq()
			}
		}
		for _, b := range after {
			close(gates[b])
			released[b] = true
			waitDeq()
		}
		order = append(append(append(order, before...), cancels...), after...)
	}
	if res == nil {
		select {
		case o := <-done:
			res = &o
		case <-wd.C:
			fmt.Fprintln(os.Stderr, "C01 generator: watchdog: the merge did not return")
			os.Exit(3)
		}
	}
	cancel()
	for i := 0; i < n; i++ {
		if !released[i] && outs[i].kind != kCancel {
			close(gates[i])
		}
	}
	return *res, order
}

// hold, when set, makes the merging goroutine wait (inside the dequeue hook) after every
// receive until the harness lets it go on: the harness can then act at an exact point of
// the collection (e.g. cancel the caller's context between the last send and the last receive).
var hold chan struct{}

// runLateCancel imposes the arrival order pi like run, and cancels the CALLER's context at an
// exact point: after the merging goroutine has received k messages (it is held there) and after
// every other backend has delivered its message into the channels.  No message can be changed
// by that cancellation, so the outcomes - and what the property demands - are the same as
// without it.  Backends that are silent until cancelled deliver after the cancellation.
func (in *instance) runLateCancel(outs []outcome, pi []int, k int) (mergeOut, []int) {
	n := len(outs)
	gates := make([]chan struct{}, n)
	ctxCh := make([]chan context.Context, n)
	for i := range gates {
		gates[i] = make(chan struct{})
		ctxCh[i] = make(chan context.Context, 1)
	}
	deq = make(chan struct{}, 4*n+8)
	h := make(chan struct{})
	hold = h
	defer func() { hold = nil }()
	parent, cancel := context.WithCancel(context.WithValue(context.Background(), scenarioKey{}, &scenario{outs: outs, gates: gates, ctxCh: ctxCh}))
	done := make(chan mergeOut, 1)
	go func() {
		defer func() {
			if x := recover(); x != nil {
				done <- mergeOut{panicked: fmt.Sprint(x)}
			}
		}()
		r, e := in.p(parent, newRequest())
		done <- mergeOut{r: r, e: e}
	}()
	var res *mergeOut
	wd := time.NewTimer(watchdog)
	defer wd.Stop()
	die := func(what string) {
		fmt.Fprintln(os.Stderr, "C01 generator: watchdog (late cancel): "+what)
		os.Exit(3)
	}
	waitDeq := func() bool { // true: one more message received, the merging goroutine is held
		if res != nil {
			return false
		}
		select {
		case <-deq:
			return true
		case o := <-done:
			res = &o
		case <-wd.C:
			die("the merge neither dequeued nor returned")
		}
		return false
	}
	resume := func() {
		if res != nil {
			return
		}
		select {
		case h <- struct{}{}:
		case o := <-done:
			res = &o
		case <-wd.C:
			die("the merging goroutine is not waiting in the hook")
		}
	}
	var seq, cancels []int
	for _, b := range pi {
		if outs[b].kind == kCancel {
			cancels = append(cancels, b)
		} else {
			seq = append(seq, b)
		}
	}
	if k > len(seq) {
		k = len(seq)
	}
	released := make([]bool, n)
	received := 0
	for j := 0; j < k; j++ {
		close(gates[seq[j]])
		released[seq[j]] = true
		if !waitDeq() {
			break
		}
		received++
		if j < k-1 {
			resume()
		}
	}
	if res == nil {
		// the merging goroutine is held after its k-th receive: let every other backend deliver
		for _, b := range seq[k:] {
			close(gates[b])
			released[b] = true
			var c context.Context
			select {
			case c = <-ctxCh[b]:
			case <-wd.C:
				die("a backend was never called")
			}
			select {
			case <-c.Done(): // requestPart has sent its message and cancelled the backend's context
			case o := <-done:
				res = &o
			case <-wd.C:
				die("a released backend did not deliver")
			}
		}
		cancel() // the caller goes away now
		resume()
		for received < n && res == nil {
			if !waitDeq() {
				break
			}
			received++
			resume()
		}
	}
	if res == nil {
		select {
		case o := <-done:
			res = &o
		case <-wd.C:
			die("the merge did not return")
		}
	}
	cancel()
	for i := 0; i < n; i++ {
		if !released[i] && outs[i].kind != kCancel {
			close(gates[i])
		}
	}
	return *res, append(append([]int{}, seq...), cancels...)
}

// lateCancel runs one scenario with the caller's context cancelled after k receives.
func (g *gen) lateCancel(stream string, via int, outs []outcome, pi []int, k int) {
	res, order := newInstance(via, len(outs), false).runLateCancel(outs, pi, k)
	g.record(stream, via, outs, order, res, map[string]interface{}{
		"caller_context_cancelled": fmt.Sprintf("after the merging goroutine had received %d message(s) and every other backend had delivered", k)})
}

// deadlineZero: an endpoint whose timeout is 0, so the merge context has expired before any
// backend is called.  A backend with a payload then delivers either the payload or the
// deadline error (the select of requestPart, a runtime choice): which one happened is read
// off the response (every payload carries a private marker field), and the property is
// checked for THOSE outcomes - in particular, when every payload got through, the response
// must be flagged complete although the context was done all along.
func (g *gen) deadlineZero(via int, outs []outcome) {
	n := len(outs)
	in := newInstanceT(via, n, false, 0)
	deq = make(chan struct{}, 4*n+8)
	var res mergeOut
	func() {
		defer func() {
			if x := recover(); x != nil {
				res = mergeOut{panicked: fmt.Sprint(x)}
			}
		}()
		r, e := in.p(context.WithValue(context.Background(), scenarioKey{}, &scenario{outs: outs}), newRequest())
		res = mergeOut{r: r, e: e}
	}()
	var dropped []int
	for i, o := range outs {
		if o.kind == kPayload && (res.r == nil || !hasKey(res.r.Data, fmt.Sprintf("m%d", i))) {
			dropped = append(dropped, i)
		}
	}
	g.record("deadline-zero", via, outs, identity(n), res, map[string]interface{}{"endpoint_timeout": 0, "__race": raceInfo{dropped, true},
		"note": "a payload whose private marker field m<i> is absent from the response lost the select of requestPart against the expired context"})
}

func hasKey(m map[string]interface{}, k string) bool { _, ok := m[k]; return ok }

// cancelRace: the caller's context is cancelled after the first k backends (order pi) have
// been received; the remaining ones are then released one by one.  A payload released after
// the cancellation is delivered as itself or as context.Canceled (the select of requestPart,
// a runtime choice - LSendC of the goroutine model): which one is read off the response.
func (g *gen) cancelRace(stream string, via int, outs []outcome, pi []int, k int) {
	var before, cancels, after []int
	for _, b := range pi {
		switch {
		case outs[b].kind == kCancel:
			cancels = append(cancels, b)
		case len(before) < k:
			before = append(before, b)
		default:
			after = append(after, b)
		}
	}
	res, order := newInstance(via, len(outs), false).runSched(outs, before, cancels, after, true)
	var dropped []int
	for _, i := range after {
		if outs[i].kind == kPayload && (res.r == nil || !hasKey(res.r.Data, fmt.Sprintf("m%d", i))) {
			dropped = append(dropped, i)
		}
	}
	sort.Ints(dropped)
	g.record(stream, via, outs, order, res, map[string]interface{}{"caller_cancelled_before": fmt.Sprintf("backends %v were released", after),
		"__race": raceInfo{dropped, false}})
}

// ---- case emission ---------------------------------------------------------------------

func intsStr(xs []int) string {
	s := make([]string, len(xs))
	for i, x := range xs {
		s[i] = fmt.Sprint(x)
	}
	return strings.Join(s, ",")
}

func canonOuts(outs []outcome) string {
	var b strings.Builder
	for _, o := range outs {
		b.WriteString(o.coq())
		b.WriteByte('|')
	}
	return b.String()
}

func nontrivial(outs []outcome) bool {
	seen := map[string]bool{}
	for _, o := range outs {
		if !o.good() {
			return true
		}
		for k := range o.data {
			if seen[k] {
				return true
			}
			seen[k] = true
		}
	}
	return false
}

var kindNames = []string{"payload", "error", "empty", "cancelled"}

type gen struct {
	w    *out.Writer
	seen map[string]bool
}

// mergeCase runs one scenario and records it; returns false when the effective schedule
// had already been run (several requested orders collapse when backends are cancelled).
func (g *gen) mergeCase(stream string, via int, outs []outcome, pi []int) bool {
	if g.seen != nil {
		b, c, a := schedule(outs, pi)
		key := fmt.Sprintf("%d|%s|%s|%s|%s", via, canonOuts(outs), intsStr(b), intsStr(c), intsStr(a))
		if g.seen[key] {
			return false
		}
		g.seen[key] = true
	}
	res, order := runMerge(via, outs, pi)
	g.record(stream, via, outs, order, res, nil)
	return true
}

// record emits one observed run of a merging proxy as a case.
func (g *gen) record(stream string, via int, outs []outcome, order []int, res mergeOut, extra map[string]interface{}) {
	oc, oj := obsResult(res.r, res.e, res.panicked)
	var ol []string
	var ojs []interface{}
	for _, o := range outs {
		ol = append(ol, o.coq())
		ojs = append(ojs, o.js())
		switch {
		case o.kind == kPayload && o.data == nil:
			g.w.Count("outcome:payload-null-data")
		case o.kind == kPayload && o.complete:
			g.w.Count("outcome:payload-complete")
		case o.kind == kPayload:
			g.w.Count("outcome:payload-incomplete")
		case o.kind == kErr && o.withResp:
			g.w.Count("outcome:error-with-response")
		case o.kind == kErr && o.errKind > 0:
			g.w.Count("outcome:error-multi")
		default:
			g.w.Count("outcome:" + kindNames[o.kind])
		}
	}
	term := emit.App("CMerge", emit.Nat(via), emit.List(ol), emit.NatList(order), oc)
	if ri, ok := extra["__race"].(raceInfo); ok {
		// what the backends returned + whose payload lost the select against the cancellation
		term = emit.App("CRace", emit.Nat(via), emit.List(ol), emit.NatList(ri.dropped), emit.Bool(ri.deadline), emit.NatList(order), oc)
		g.w.Count(fmt.Sprintf("race:payloads-dropped:%d", len(ri.dropped)))
	} else if stream != "reuse-concurrent" && !hasDeadline(outs) && res.panicked == "" {
		g.measure(outs, order, res)
	}
	js := map[string]interface{}{"level": "merge", "stream": stream, "via": []string{"NewMergeDataMiddleware", "DefaultFactory"}[via],
		"backends": ojs, "imposed_arrival_order": order, "observed": oj}
	suffix := ""
	for k, v := range extra {
		if k == "__race" {
			ri := v.(raceInfo)
			js["payloads_dropped_for_the_context_error"] = ri.dropped
			suffix += fmt.Sprintf("|dropped=%s", intsStr(ri.dropped))
			continue
		}
		js[k] = v
		if k == "caller_context_cancelled" || k == "endpoint_timeout" || k == "caller_cancelled_before" {
			suffix += fmt.Sprintf("|%s=%v", k, v)
		}
	}
	g.w.Count("level:merge")
	g.w.Count("stream:" + stream)
	g.w.Count(fmt.Sprintf("backends:%d", len(outs)))
	// branch of the accumulator taken by the first arrival
	if len(order) > 0 {
		first := outs[order[0]]
		switch {
		case first.kind != kPayload:
			g.w.Count("first-arrival:error")
		case first.data == nil:
			g.w.Count("first-arrival:null-data")
		default:
			g.w.Count("first-arrival:payload")
		}
	}
	g.w.Add(term, js, "", fmt.Sprintf("M|%d|%s|%s%s", via, canonOuts(outs), intsStr(order), suffix), nontrivial(outs))
}

type raceInfo struct {
	dropped  []int
	deadline bool
}

// measure records (never fails on) two things the property leaves open and the model
// states: the error entries in arrival order (C01_errors_in_arrival_order) and a nil Data
// map exactly for a lone null-data payload (C01_data_nil_iff).
func (g *gen) measure(outs []outcome, order []int, res mergeOut) {
	var want []string
	payloads, nullPayloads := 0, 0
	for _, i := range order {
		switch o := outs[i]; o.kind {
		case kPayload:
			payloads++
			if o.data == nil {
				nullPayloads++
			}
		case kErr:
			want = append(want, "backend:"+o.tag)
		case kEmpty:
			want = append(want, "null-result")
		default:
			want = append(want, map[bool]string{false: "canceled", true: "deadline"}[o.deadline])
		}
	}
	var got []string
	if me, ok := res.e.(merr); ok {
		for _, e := range me.Errors() {
			_, j := ekind(e)
			got = append(got, j)
		}
	}
	if len(want) > 1 {
		if strings.Join(want, "\x00") == strings.Join(got, "\x00") {
			g.w.Count("measured:error-entries-in-arrival-order")
		} else {
			g.w.Count("measured:error-entries-in-another-order")
		}
	}
	if res.r != nil {
		if (res.r.Data == nil) == (payloads == 1 && nullPayloads == 1) {
			g.w.Count("measured:nil-data-as-the-model")
		} else {
			g.w.Count("measured:nil-data-differs-from-the-model")
		}
	}
}

// ---- instance reuse ----------------------------------------------------------------------

// sequence drives several different scenarios, one after the other, through ONE proxy
// instance (arrival orders imposed as usual); every step is an ordinary case.
func (g *gen) sequence(stream string, via int, steps [][]outcome, orders [][]int) {
	in := newInstance(via, len(steps[0]), false)
	for k, outs := range steps {
		res, order := in.run(outs, orders[k])
		g.record(stream, via, outs, order, res, map[string]interface{}{"reuse": "sequential", "step": k, "of": len(steps)})
	}
}

// canonical form of an observation, insensitive to what the schedule may change
func canonObs(res mergeOut) string {
	if res.panicked != "" {
		return "panic:" + res.panicked
	}
	var b strings.Builder
	if res.r == nil {
		b.WriteString("nil|")
	} else {
		d, _ := json.Marshal(res.r.Data)
		fmt.Fprintf(&b, "%v|%s|", res.r.IsComplete, d)
	}
	_, ej := obsErr(res.e)
	var es []string
	if l, ok := ej.([]interface{}); ok {
		for _, e := range l {
			es = append(es, fmt.Sprint(e))
		}
		sort.Strings(es)
		b.WriteString("errs:" + strings.Join(es, ","))
	} else {
		fmt.Fprintf(&b, "err:%v", ej)
	}
	return b.String()
}

// The concurrent batch hits ONE proxy instance from several goroutines with a small set of
// distinct scenarios (ungated stubs, disjoint fields inside a scenario so that the
// observation does not depend on the arrival order).  Every distinct (scenario,
// observation) pair is emitted once: without interference, one case per scenario.
// It runs in a child process of the generator, because what shared state typically causes
// under concurrency ("fatal error: concurrent map writes") cannot be recovered from and
// would take the cases of every other stream down with it.
type concLine struct {
	J        int                    `json:"j"`
	Nil      bool                   `json:"nil"`
	Complete bool                   `json:"complete"`
	DataNil  bool                   `json:"data_nil"`
	Data     map[string]interface{} `json:"data"`
	ErrNil   bool                   `json:"err_nil"`
	NoMethod string                 `json:"no_errors_method"`
	Errs     []string               `json:"errs"`
	Panic    string                 `json:"panic"`
}

func concInputs(n int) [][]outcome {
	P := func(complete bool, d map[string]interface{}) outcome {
		return outcome{kind: kPayload, complete: complete, data: d}
	}
	var inputs [][]outcome
	for j := 0; j < 10; j++ {
		outs := make([]outcome, n)
		for i := range outs {
			key := fmt.Sprintf("s%dk%d", j, i)
			switch (j + i*(j%3+1)) % 5 {
			case 0, 1:
				outs[i] = P(true, map[string]interface{}{key: j*10 + i})
			case 2:
				outs[i] = P(false, map[string]interface{}{key: j*10 + i, key + "x": "v"})
			case 3:
				outs[i] = outcome{kind: kErr, tag: fmt.Sprintf("e%d-%d", j, i)}
			default:
				outs[i] = outcome{kind: kEmpty}
			}
		}
		switch j {
		case 0: // everything complete
			for i := range outs {
				outs[i] = P(true, map[string]interface{}{fmt.Sprintf("s0k%d", i): i})
			}
		case 1: // nobody answers, one of them cancelled (no payload next to it)
			for i := range outs {
				outs[i] = outcome{kind: kErr, tag: fmt.Sprintf("e1-%d", i)}
			}
			outs[0] = outcome{kind: kCancel}
		case 2:
			outs[0] = P(true, nil)
		}
		inputs = append(inputs, outs)
	}
	return inputs
}

// child side: run the batch, print one JSON line per distinct (scenario, observation)
func concurrentChild(via, n, goroutines, calls int) {
	proxy.SetVerifOnDequeue(nil)
	inputs := concInputs(n)
	in := newInstance(via, n, false)
	per := make([]map[string]concLine, goroutines)
	start := make(chan struct{})
	var wg sync.WaitGroup
	for w := 0; w < goroutines; w++ {
		per[w] = map[string]concLine{}
		wg.Add(1)
		go func(w int) {
			defer wg.Done()
			<-start
			for k := 0; k < calls; k++ {
				j := (w*5 + k) % len(inputs)
				outs := inputs[j]
				ctx, cancel := context.WithCancel(context.WithValue(context.Background(), scenarioKey{}, &scenario{outs: outs}))
				for _, o := range outs {
					if o.kind == kCancel {
						cancel() // only used next to outcomes that do not depend on timing
					}
				}
				var res mergeOut
				func() {
					defer func() {
						if x := recover(); x != nil {
							res = mergeOut{panicked: fmt.Sprint(x)}
						}
					}()
					r, e := in.p(ctx, newRequest())
					res = mergeOut{r: r, e: e}
				}()
				cancel()
				key := fmt.Sprintf("%03d|%s", j, canonObs(res))
				if _, ok := per[w][key]; !ok {
					l := concLine{J: j, Nil: res.r == nil, ErrNil: res.e == nil, Panic: res.panicked}
					if res.r != nil {
						l.Complete, l.DataNil, l.Data = res.r.IsComplete, res.r.Data == nil, copyMap(res.r.Data)
					}
					if res.e != nil {
						if me, ok := res.e.(merr); ok {
							for _, e := range me.Errors() {
								_, js := ekind(e)
								l.Errs = append(l.Errs, js)
							}
						} else {
							l.NoMethod = res.e.Error()
						}
					}
					per[w][key] = l
				}
			}
		}(w)
	}
	close(start)
	wg.Wait()
	all := map[string]concLine{}
	for w := 0; w < goroutines; w++ {
		for k, v := range per[w] {
			if _, ok := all[k]; !ok {
				all[k] = v
			}
		}
	}
	keys := make([]string, 0, len(all))
	for k := range all {
		keys = append(keys, k)
	}
	sort.Strings(keys)
	enc := json.NewEncoder(os.Stdout)
	for _, k := range keys {
		enc.Encode(all[k])
	}
}

type rebuiltErr struct{ es []error }

func (r rebuiltErr) Error() string   { return "merge error (rebuilt from the child's report)" }
func (r rebuiltErr) Errors() []error { return r.es }

func (l concLine) mergeOut() mergeOut {
	if l.Panic != "" {
		return mergeOut{panicked: l.Panic}
	}
	var res mergeOut
	if !l.Nil {
		res.r = &proxy.Response{IsComplete: l.Complete}
		if !l.DataNil {
			res.r.Data = l.Data
			if res.r.Data == nil {
				res.r.Data = map[string]interface{}{}
			}
		}
	}
	switch {
	case l.ErrNil:
	case l.NoMethod != "":
		res.e = errors.New(l.NoMethod)
	default:
		re := rebuiltErr{es: []error{}}
		for _, k := range l.Errs {
			switch {
			case strings.HasPrefix(k, "backend:"):
				re.es = append(re.es, tagErr{strings.TrimPrefix(k, "backend:")})
			case k == "null-result":
				re.es = append(re.es, proxy.VerifErrNullResult)
			case k == "canceled":
				re.es = append(re.es, context.Canceled)
			case k == "deadline":
				re.es = append(re.es, context.DeadlineExceeded)
			case k == "<nil entry>":
				re.es = append(re.es, nil)
			default:
				re.es = append(re.es, errors.New(strings.TrimPrefix(k, "other:")))
			}
		}
		res.e = re
	}
	return res
}

// parent side
func (g *gen) concurrentBatch(cfg out.Config, via, n, goroutines, calls int) {
	inputs := concInputs(n)
	extra := map[string]interface{}{"reuse": "concurrent", "goroutines": goroutines, "calls_each": calls,
		"note": "arrival order not imposed (identity recorded); the compared projection does not depend on it"}
	cmd := exec.Command(os.Args[0], "--out", cfg.Dir, "--tier", cfg.Tier, "--seed", fmt.Sprint(cfg.Seed),
		"--extra", fmt.Sprintf("conc-child:%d:%d:%d:%d", via, n, goroutines, calls))
	var stdout, stderr bytes.Buffer
	cmd.Stdout, cmd.Stderr = &stdout, &stderr
	if err := cmd.Run(); err != nil {
		// the batch did not survive: a concrete failing case naming the crash
		msg := strings.TrimSpace(stderr.String())
		if i := strings.IndexByte(msg, '\n'); i >= 0 {
			msg = msg[:i]
		}
		if len(msg) > 200 {
			msg = msg[:200]
		}
		extra["crash"] = stderr.String()[:min(len(stderr.String()), 3000)]
		g.record("reuse-concurrent", via, inputs[0], identity(n),
			mergeOut{panicked: fmt.Sprintf("concurrent batch on one proxy instance crashed (%v): %s", err, msg)}, extra)
		return
	}
	d := json.NewDecoder(&stdout)
	d.UseNumber()
	for {
		var l concLine
		if err := d.Decode(&l); err != nil {
			break
		}
		if l.J < 0 || l.J >= len(inputs) {
			continue
		}
		g.record("reuse-concurrent", via, inputs[l.J], identity(n), l.mergeOut(), extra)
	}
}

func perms(n int) [][]int {
	if n == 0 {
		return [][]int{{}}
	}
	var res [][]int
	for _, p := range perms(n - 1) {
		for i := 0; i <= len(p); i++ {
			q := append(append(append([]int{}, p[:i]...), n-1), p[i:]...)
			res = append(res, q)
		}
	}
	sort.Slice(res, func(a, b int) bool {
		for i := range res[a] {
			if res[a][i] != res[b][i] {
				return res[a][i] < res[b][i]
			}
		}
		return false
	})
	return res
}

// the outcome kinds of the small-scope enumeration, for backend i.  Field "a" is shared
// by every non-empty payload (value tagged by the backend, so the winner is visible),
// "b" by the incomplete ones, "k<i>" is private.
const smallKinds = 12

// 2 backends: all twelve kinds; 3 backends: eight of them in the quick tier (the six the
// property names + error with a response attached + empty multi-error), all in thorough;
// 4 backends: the six outcomes the property names
func smallKindsFor(n int, thorough bool) []int {
	switch {
	case n == 2 || (n == 3 && thorough):
		return []int{0, 1, 2, 3, 4, 5, 6, 7, 8, 9, 10, 11}
	case n == 3:
		return []int{0, 1, 2, 5, 6, 7, 8, 10}
	}
	return []int{0, 1, 2, 5, 6, 7}
}

func smallOutcome(kind, i int) outcome {
	switch kind {
	case 0:
		return outcome{kind: kPayload, complete: true, data: map[string]interface{}{"a": fmt.Sprintf("v%d", i), fmt.Sprintf("k%d", i): i}}
	case 1:
		return outcome{kind: kPayload, complete: false, data: map[string]interface{}{"a": fmt.Sprintf("w%d", i), "b": i}}
	case 2:
		return outcome{kind: kPayload, complete: true, data: nil}
	case 3:
		return outcome{kind: kPayload, complete: false, data: nil}
	case 4:
		return outcome{kind: kPayload, complete: true, data: map[string]interface{}{}}
	case 5:
		return outcome{kind: kErr, tag: fmt.Sprintf("e%d", i)}
	case 6:
		return outcome{kind: kEmpty}
	case 8: // fails, but hands a complete response over with the error
		return outcome{kind: kErr, tag: fmt.Sprintf("r%d", i)}.with(true, map[string]interface{}{"a": fmt.Sprintf("x%d", i), fmt.Sprintf("p%d", i): i})
	case 9:
		return outcome{kind: kErr, tag: fmt.Sprintf("q%d", i)}.with(false, map[string]interface{}{"a": fmt.Sprintf("y%d", i)})
	case 10: // the error is an empty collection of errors
		return errMulti(0, fmt.Sprint(i))
	case 11:
		return errMulti(2, fmt.Sprint(i))
	}
	return outcome{kind: kCancel}
}

var keyPool = []string{"a", "b", "c", "id", "", "data", "kéy", "x.y", "A", "\x00\xffz", "collection", "b "}

func randValue(r *rng.R, depth int, by int) interface{} {
	switch r.Intn(9) {
	case 0:
		return nil
	case 1:
		return r.Bool()
	case 2:
		return fmt.Sprintf("s%d-%d", by, r.Intn(5))
	case 3:
		return by
	case 4:
		return float64(r.Intn(1000)) / 8
	case 5:
		if depth > 0 {
			n := r.Intn(3)
			l := make([]interface{}, n)
			for i := range l {
				l[i] = randValue(r, depth-1, by)
			}
			return l
		}
		return "leaf"
	case 6:
		if depth > 0 {
			m := map[string]interface{}{}
			for i, n := 0, r.Intn(3); i < n; i++ {
				m[keyPool[r.Intn(len(keyPool))]] = randValue(r, depth-1, by)
			}
			return m
		}
		return map[string]interface{}{}
	case 7:
		return map[string]interface{}{"by": by}
	}
	return "same" // a value several backends may offer identically
}

func randData(r *rng.R, by int) map[string]interface{} {
	m := map[string]interface{}{}
	for i, n := 0, r.Intn(7); i < n; i++ {
		m[keyPool[r.Intn(len(keyPool))]] = randValue(r, 2, by)
	}
	return m
}

func randOutcome(r *rng.R, i int, allowCancel bool) outcome {
	x := r.Intn(25)
	switch {
	case x < 8:
		return outcome{kind: kPayload, complete: true, data: randData(r, i)}
	case x < 11:
		return outcome{kind: kPayload, complete: false, data: randData(r, i)}
	case x < 13:
		return outcome{kind: kPayload, complete: r.Bool(), data: nil}
	case x < 16:
		return outcome{kind: kErr, tag: fmt.Sprintf("e%d", r.Intn(3))} // tags may repeat: multiset with duplicates
	case x < 18:
		return outcome{kind: kEmpty}
	case x < 20:
		if allowCancel {
			return outcome{kind: kCancel}
		}
		return outcome{kind: kEmpty}
	case x < 23: // an error whose value is a collection of 0..3 errors, or lura's own merge error
		o := errMulti(r.Intn(4), fmt.Sprint(r.Intn(2)))
		if r.Chance(1, 4) {
			o = errLura()
		}
		if r.Chance(1, 3) {
			o = o.with(r.Bool(), randData(r, i))
		}
		return o
	}
	// a plain error together with a response
	o := outcome{kind: kErr, tag: fmt.Sprintf("e%d", r.Intn(3))}
	if r.Chance(1, 5) {
		return o.with(r.Bool(), nil)
	}
	return o.with(r.Bool(), randData(r, i))
}

func identity(n int) []int {
	p := make([]int, n)
	for i := range p {
		p[i] = i
	}
	return p
}

// ---- unit level ------------------------------------------------------------------------

type call struct {
	kind int // 0 resp, 1 nil, 2 err
	resp outcome
	tag  string
}

func (c call) coq() string {
	switch c.kind {
	case 0:
		return emit.App("KResp", emit.App("mkresp", emit.OptObj(c.resp.data), emit.Bool(c.resp.complete)))
	case 1:
		return "KNil"
	}
	return emit.App("KErr", emit.App("EBackend", emit.Str(c.tag)))
}

func (c call) js() interface{} {
	switch c.kind {
	case 0:
		return c.resp.js()
	case 1:
		return "Merge(nil,nil)"
	}
	return map[string]interface{}{"error": c.tag}
}

func (g *gen) accCase(total int, calls []call) {
	var oc string
	var oj interface{}
	func() {
		defer func() {
			if x := recover(); x != nil {
				oc, oj = obsResult(nil, nil, fmt.Sprint(x))
			}
		}()
		a := proxy.VerifNewAccumulator(total)
		for _, c := range calls {
			switch c.kind {
			case 0:
				a.Merge(&proxy.Response{Data: copyMap(c.resp.data), IsComplete: c.resp.complete}, nil)
			case 1:
				a.Merge(nil, nil)
			default:
				a.Merge(nil, c.resp.err())
			}
		}
		r, e := a.Result()
		oc, oj = obsResult(r, e, "")
	}()
	var cl []string
	var cj []interface{}
	canon := fmt.Sprintf("A|%d|", total)
	for _, c := range calls {
		cl = append(cl, c.coq())
		cj = append(cj, c.js())
		canon += c.coq() + "|"
	}
	term := emit.App("CAcc", emit.Z(int64(total)), emit.List(cl), oc)
	js := map[string]interface{}{"level": "accumulator", "total": total, "calls": cj, "observed": oj}
	g.w.Count("level:accumulator")
	g.w.Add(term, js, "", canon, len(calls) > 0)
}

func (g *gen) combineCase(total int, parts []*outcome) {
	var in []*proxy.Response
	var pl []string
	var pj []interface{}
	canon := fmt.Sprintf("C|%d|", total)
	for _, p := range parts {
		if p == nil {
			in = append(in, nil)
			pl = append(pl, "None")
			pj = append(pj, nil)
			canon += "nil|"
			continue
		}
		in = append(in, &proxy.Response{Data: copyMap(p.data), IsComplete: p.complete})
		t := emit.Some(emit.App("mkresp", emit.OptObj(p.data), emit.Bool(p.complete)))
		pl = append(pl, t)
		pj = append(pj, p.js())
		canon += t + "|"
	}
	var oc string
	var oj interface{}
	func() {
		defer func() {
			if x := recover(); x != nil {
				oc = emit.App("mkresp", "None", "false")
				oj = map[string]interface{}{"panic": fmt.Sprint(x)}
			}
		}()
		r := proxy.VerifCombineData(total, in)
		if r == nil {
			oc = emit.App("mkresp", "None", "false")
			oj = "nil response"
			return
		}
		oc = respCoq(r)
		oj = respJS(r)
	}()
	term := emit.App("CCombine", emit.Z(int64(total)), emit.List(pl), oc)
	js := map[string]interface{}{"level": "combineData", "total": total, "parts": pj, "observed": oj}
	g.w.Count("level:combineData")
	g.w.Add(term, js, "", canon, len(parts) > 0)
}

// ---- main ------------------------------------------------------------------------------

func main() {
	cfg := out.ParseFlags("C01")
	initLuraMergeErr() // before the dequeue hook is installed
	if strings.HasPrefix(cfg.Extra, "conc-child:") {
		var via, n, goroutines, calls int
		fmt.Sscanf(cfg.Extra, "conc-child:%d:%d:%d:%d", &via, &n, &goroutines, &calls)
		concurrentChild(via, n, goroutines, calls)
		return
	}
	r := rng.New(cfg.Seed)
	w := out.NewWriter(cfg, "Verif.Corr.C01", 400)
	g := &gen{w: w}
	proxy.SetVerifOnDequeue(func(site string) {
		if site == "merge" {
			deq <- struct{}{}
			if h := hold; h != nil {
				<-h
			}
		}
	})

	P := func(complete bool, d map[string]interface{}) outcome {
		return outcome{kind: kPayload, complete: complete, data: d}
	}
	E := func(tag string) outcome { return outcome{kind: kErr, tag: tag} }
	obj := func(kv ...interface{}) map[string]interface{} {
		m := map[string]interface{}{}
		for i := 0; i+1 < len(kv); i += 2 {
			m[kv[i].(string)] = kv[i+1]
		}
		return m
	}

	// 1. regression corpus: the order-sensitive paths of the accumulator
	corpus := []struct {
		outs []outcome
		pi   []int
	}{
		// an error seen before the first payload / after it
		{[]outcome{P(true, obj("a", 1)), E("x")}, []int{1, 0}},
		{[]outcome{P(true, obj("a", 1)), E("x")}, []int{0, 1}},
		// null data first: i.data aliases a response with a nil map
		{[]outcome{P(true, nil), P(true, obj("a", 1))}, []int{0, 1}},
		{[]outcome{P(true, nil), P(true, obj("a", 1))}, []int{1, 0}},
		{[]outcome{P(true, nil), E("x")}, []int{0, 1}},
		{[]outcome{P(true, nil), P(true, nil)}, []int{0, 1}},
		{[]outcome{P(true, nil), {kind: kCancel}}, []int{0, 1}},
		// 3 backends with overlap
		{[]outcome{P(true, obj("a", 1, "b", 1)), P(true, obj("b", 2, "c", 2)), P(true, obj("c", 3, "a", 3))}, []int{2, 0, 1}},
		// incomplete in the middle, empty result, cancelled
		{[]outcome{P(true, obj("a", 1)), P(false, obj("b", 2)), P(true, obj("c", 3))}, []int{0, 1, 2}},
		{[]outcome{P(true, obj("a", 1)), {kind: kEmpty}, P(true, obj("c", 3))}, []int{1, 0, 2}},
		{[]outcome{P(true, obj("a", 1)), {kind: kCancel}, P(true, obj("c", 3))}, []int{0, 2, 1}},
		{[]outcome{E("x"), E("x"), {kind: kEmpty}}, []int{0, 1, 2}},
		{[]outcome{{kind: kCancel}, {kind: kCancel}}, []int{0, 1}},
		{[]outcome{{kind: kCancel}, E("late"), {kind: kEmpty}}, []int{0, 1, 2}},
		// the merge deadline instead of the parent's cancellation
		{[]outcome{{kind: kCancel, deadline: true}, E("x")}, []int{0, 1}},
		{[]outcome{{kind: kCancel, deadline: true}, {kind: kCancel, deadline: true}, {kind: kEmpty}}, []int{0, 1, 2}},
		// the same field holding two different objects: the value must be one of them, not a blend
		{[]outcome{P(true, obj("o", map[string]interface{}{"x": 1})), P(true, obj("o", map[string]interface{}{"y": 2}))}, []int{0, 1}},
		// a backend that fails but hands a response over with its error (the concurrent middleware,
		// a nested merge): one failed backend, one entry, and every OTHER backend still counts
		{[]outcome{E("boom").with(false, obj("partial", true)), P(true, obj("b", 1))}, []int{0, 1}},
		{[]outcome{E("boom").with(false, obj("partial", true)), P(true, obj("b", 1))}, []int{1, 0}},
		{[]outcome{E("boom").with(true, obj("partial", true)), P(true, obj("b", 1)), P(true, obj("c", 2))}, []int{0, 1, 2}},
		{[]outcome{E("boom").with(true, obj("b", 0)), P(true, obj("b", 1)), P(true, obj("c", 2))}, []int{1, 0, 2}},
		{[]outcome{errLura().with(false, obj("n", 1)), P(true, obj("b", 1))}, []int{0, 1}},
		{[]outcome{E("boom").with(true, nil), {kind: kEmpty}}, []int{0, 1}},
		// an error VALUE that is a collection of 0..3 errors is still one entry
		{[]outcome{errMulti(0, "a"), P(true, obj("a", 1))}, []int{0, 1}},
		{[]outcome{errMulti(0, "a"), P(true, obj("a", 1))}, []int{1, 0}},
		{[]outcome{errMulti(2, "a"), P(true, obj("a", 1))}, []int{0, 1}},
		{[]outcome{errMulti(3, "a"), errMulti(1, "b"), P(true, obj("a", 1))}, []int{0, 1, 2}},
		{[]outcome{errLura(), errMulti(0, "z")}, []int{0, 1}},
		{[]outcome{errLura(), P(true, obj("a", 1)), E("x")}, []int{1, 0, 2}},
		// nested values and odd keys
		{[]outcome{P(true, obj("", nil, "kéy", []interface{}{1, "x", map[string]interface{}{"z": true}})), P(true, obj("", map[string]interface{}{"n": 1.5}))}, []int{1, 0}},
	}
	for _, c := range corpus {
		for via := 0; via < 2; via++ {
			g.mergeCase("corpus", via, c.outs, c.pi)
		}
	}

	// 1b. instance reuse, sequential: ONE proxy serves a sequence of different scenarios;
	// consecutive steps differ in exactly what the property speaks of (fields, completeness,
	// error entries, nil response), so anything kept from an earlier request shows
	C := outcome{kind: kCancel}
	N := outcome{kind: kEmpty}
	telling := [][][]outcome{
		{ // complete -> incomplete with an error -> nobody answers -> complete with other fields
			{P(true, obj("a", 1)), P(true, obj("b", 2))},
			{P(true, obj("c", 3)), E("x")},
			{E("y"), N},
			{P(true, obj("d", 4)), P(true, obj("e", 5))},
			{P(false, obj("f", 6)), P(true, obj("g", 7))},
			{P(true, obj("h", 8)), P(true, obj("i", 9))},
		},
		{ // failure first, then clean answers
			{E("x"), C},
			{P(true, obj("a", 1)), P(true, obj("a", 2))},
			{P(true, nil), P(true, obj("b", 1))},
			{P(true, obj("c", 1)), P(true, obj("d", 2))},
		},
		{
			{P(true, obj("a", 1)), P(true, obj("b", 2)), P(true, obj("c", 3))},
			{P(true, obj("d", 1)), C, E("x")},
			{N, N, N},
			{P(true, obj("e", 1)), P(true, obj("f", 2)), P(true, obj("g", 3))},
			{P(true, obj("e", 4)), P(false, obj("f", 5)), P(true, nil)},
			{P(true, obj("h", 1)), P(true, obj("i", 2)), P(true, obj("j", 3))},
		},
	}
	for _, steps := range telling {
		n := len(steps[0])
		for via := 0; via < 2; via++ {
			for _, pi := range [][]int{identity(n), perms(n)[len(perms(n))-1]} {
				orders := make([][]int, len(steps))
				for k := range orders {
					orders[k] = pi
				}
				g.sequence("reuse-sequential-corpus", via, steps, orders)
			}
		}
	}
	nSeq, concCalls := 40, 40
	if cfg.Thorough() {
		nSeq, concCalls = 400, 400
	}
	for c := 0; c < nSeq; c++ {
		n := 2 + r.Intn(4)
		steps := make([][]outcome, 3+r.Intn(4))
		orders := make([][]int, len(steps))
		for k := range steps {
			steps[k] = make([]outcome, n)
			for i := range steps[k] {
				steps[k][i] = randOutcome(r, i, true)
			}
			orders[k] = r.Perm(n)
		}
		g.sequence("reuse-sequential-random", r.Intn(2), steps, orders)
	}
	// 1c. instance reuse, concurrent: the same proxy hit from 12 goroutines (child process)
	for _, n := range []int{2, 3, 4} {
		for via := 0; via < 2; via++ {
			g.concurrentBatch(cfg, via, n, 12, concCalls)
		}
	}

	// 1d. the caller's context is cancelled late: after every backend has delivered, between
	// the receives of the merging goroutine or after its last one.  Nothing a backend did
	// changes, so the response must be what it would have been (complete when all were).
	lateCorpus := [][]outcome{
		{P(true, obj("a", 1)), P(true, obj("b", 2))},
		{P(true, obj("a", 1)), P(true, obj("b", 2)), P(true, obj("c", 3))},
		{P(true, obj("a", 1)), P(false, obj("b", 2))},
		{P(true, obj("a", 1)), E("x"), P(true, obj("c", 3))},
		{P(true, obj("a", 1)), C, P(true, obj("c", 3))},
		{P(true, nil), P(true, obj("c", 3))},
	}
	for _, outs := range lateCorpus {
		n := len(outs)
		for via := 0; via < 2; via++ {
			for k := 1; k <= n; k++ {
				g.lateCancel("late-cancel-corpus", via, outs, identity(n), k)
			}
		}
	}
	for v := 0; v < smallKinds*smallKinds; v++ {
		outs := []outcome{smallOutcome(v%smallKinds, 0), smallOutcome(v/smallKinds, 1)}
		if outs[0].kind == kCancel && outs[1].kind == kCancel {
			continue
		}
		for _, pi := range perms(2) {
			for k := 1; k <= 2; k++ {
				if (outs[0].kind == kCancel || outs[1].kind == kCancel) && (k == 2 || pi[0] != 0) {
					continue // one message besides the cancelled backend: a single schedule
				}
				g.lateCancel("late-cancel-n2", 0, outs, pi, k)
			}
		}
	}
	nLate, nZero := 250, 48
	if cfg.Thorough() {
		nLate, nZero = 3000, 600
	}
	for c := 0; c < nLate; c++ {
		n := 2 + r.Intn(5)
		outs := make([]outcome, n)
		live := 0
		for i := range outs {
			outs[i] = randOutcome(r, i, true)
			if outs[i].kind != kCancel {
				live++
			}
		}
		if live == 0 {
			outs[0] = P(true, randData(r, 0))
			live = 1
		}
		g.lateCancel("late-cancel-random", r.Intn(2), outs, r.Perm(n), 1+r.Intn(live))
	}
	// 1e. endpoint timeout 0: the merge context is done from the start
	for c := 0; c < nZero; c++ {
		n := 2 + r.Intn(2)
		outs := make([]outcome, n)
		for i := range outs {
			switch x := r.Intn(10); {
			case x < 7:
				outs[i] = P(true, obj(fmt.Sprintf("m%d", i), i, "shared", i))
			case x < 8:
				outs[i] = P(false, obj(fmt.Sprintf("m%d", i), i))
			case x < 9:
				outs[i] = E(fmt.Sprintf("e%d", i))
			default:
				outs[i] = N
			}
		}
		g.deadlineZero(c%2, outs)
	}

	// 1f. payloads racing with the caller's cancellation (requestPart's select; LSendC in
	// the goroutine model): the cancellation comes after k receives, the other backends are
	// released afterwards; every payload carries a private marker field m<i>
	raceKind := func(kind, i int) outcome {
		mk := fmt.Sprintf("m%d", i)
		switch kind {
		case 0:
			return P(true, obj(mk, i, "a", fmt.Sprintf("v%d", i)))
		case 1:
			return P(false, obj(mk, i))
		case 2:
			return E(fmt.Sprintf("e%d", i))
		case 3:
			return N
		case 4:
			return E(fmt.Sprintf("r%d", i)).with(true, obj("a", fmt.Sprintf("x%d", i)))
		}
		return C
	}
	for v := 0; v < 36; v++ {
		outs := []outcome{raceKind(v%6, 0), raceKind(v/6, 1)}
		for _, pi := range perms(2) {
			for k := 0; k <= 1; k++ {
				g.cancelRace("cancel-race-n2", 0, outs, pi, k)
			}
		}
	}
	for _, k := range []int{0, 1, 2} {
		for via := 0; via < 2; via++ {
			g.cancelRace("cancel-race-corpus", via, []outcome{raceKind(0, 0), raceKind(0, 1), raceKind(0, 2)}, []int{2, 0, 1}, k)
			g.cancelRace("cancel-race-corpus", via, []outcome{raceKind(0, 0), raceKind(2, 1), raceKind(1, 2)}, []int{0, 1, 2}, k)
		}
	}
	nRace := 250
	if cfg.Thorough() {
		nRace = 3000
	}
	for c := 0; c < nRace; c++ {
		n := 2 + r.Intn(4)
		outs := make([]outcome, n)
		for i := range outs {
			outs[i] = raceKind([]int{0, 0, 0, 1, 2, 3, 4, 5}[r.Intn(8)], i)
		}
		g.cancelRace("cancel-race-random", r.Intn(2), outs, r.Perm(n), r.Intn(n))
	}

	// 2. exhaustive small scope: every outcome vector x every arrival order
	g.seen = map[string]bool{}
	maxN := 3
	if cfg.Thorough() {
		maxN = 4
	}
	for n := 2; n <= maxN; n++ {
		kinds := smallKindsFor(n, cfg.Thorough())
		total := 1
		for i := 0; i < n; i++ {
			total *= len(kinds)
		}
		ps := perms(n)
		for v := 0; v < total; v++ {
			outs := make([]outcome, n)
			x := v
			for i := 0; i < n; i++ {
				outs[i] = smallOutcome(kinds[x%len(kinds)], i)
				x /= len(kinds)
			}
			for _, pi := range ps {
				g.mergeCase(fmt.Sprintf("exhaustive-n%d", n), 0, outs, pi)
				if n == 2 {
					g.mergeCase("exhaustive-n2", 1, outs, pi)
				}
			}
		}
	}
	g.seen = nil

	// 3. structured random: up to 8 backends, overlapping fields, nested values
	nRandom, nDeadline, nAcc, nComb := 800, 10, 500, 200
	if cfg.Thorough() {
		nRandom, nDeadline, nAcc, nComb = 12000, 100, 6000, 1500
	}
	for c := 0; c < nRandom; c++ {
		n := 2 + r.Intn(7)
		outs := make([]outcome, n)
		for i := range outs {
			outs[i] = randOutcome(r, i, true)
		}
		g.mergeCase("random", r.Intn(2), outs, r.Perm(n))
	}
	// deadline flavour: only outcomes whose message does not depend on timing
	for c := 0; c < nDeadline; c++ {
		n := 2 + r.Intn(4)
		outs := make([]outcome, n)
		for i := range outs {
			switch r.Intn(3) {
			case 0:
				outs[i] = outcome{kind: kCancel, deadline: true}
			case 1:
				outs[i] = E(fmt.Sprintf("e%d", i))
			default:
				outs[i] = outcome{kind: kEmpty}
			}
		}
		outs[r.Intn(n)] = outcome{kind: kCancel, deadline: true}
		g.mergeCase("deadline", r.Intn(2), outs, identity(n))
	}

	// 4. the accumulator and combineData alone (no goroutines), arbitrary call sequences
	// (total = number of calls, as in a parallel merge: what happens with answers still
	// pending belongs to the sequential merge, C02)
	for c := 0; c < nAcc; c++ {
		n := 2 + r.Intn(11) // the accumulator serves endpoints with at least two backends
		calls := make([]call, n)
		for i := range calls {
			switch x := r.Intn(10); {
			case x < 7:
				o := randOutcome(r, i, false)
				if o.kind != kPayload {
					o = outcome{kind: kPayload, complete: r.Chance(3, 4), data: randData(r, i)}
				}
				calls[i] = call{kind: 0, resp: o}
			default:
				o := outcome{kind: kErr, tag: fmt.Sprintf("e%d", r.Intn(3))}
				switch r.Intn(4) {
				case 0:
					o = errMulti(r.Intn(4), fmt.Sprint(r.Intn(2)))
				case 1:
					if r.Bool() {
						o = errLura()
					}
				}
				calls[i] = call{kind: 2, tag: o.tag, resp: o}
			}
		}
		g.accCase(n, calls)
	}
	// combineData as the accumulator calls it: combineData(2, [accumulated, new])
	for c := 0; c < nComb; c++ {
		n := 2
		parts := make([]*outcome, n)
		for i := range parts {
			switch x := r.Intn(10); {
			case x < 3:
				parts[i] = &outcome{kind: kPayload, complete: r.Bool(), data: nil}
			default:
				parts[i] = &outcome{kind: kPayload, complete: r.Chance(3, 4), data: randData(r, i)}
			}
		}
		g.combineCase(n, parts)
	}

	w.Meta["imposed_orders"] = "arrival order imposed through proxy.SetVerifOnDequeue (site merge) and per-backend gates; cancelled backends deliver when the harness cancels the parent context"
	w.Close(fmt.Sprintf("corpus of order-sensitive scenarios (both constructions); the caller's context cancelled at an exact late point (after k receives, every other message already delivered: corpus, all 12x12 vectors for 2 backends, random) endpoints with timeout 0 and payloads released after the caller's cancellation (the select of requestPart decides; whose payload was dropped is read off private marker fields; case kind CRace); instance reuse: one proxy serving sequences of 3-6 different scenarios (telling corpus + random) and 10 scenarios from 12 goroutines at once (each distinct (scenario, observation) pair once); every vector of %d outcome kinds (incl. error together with a response, errors implementing Errors() with 0/2 inner errors; 8 of them for 3 backends in quick, 6 for 4 backends) x every arrival order for 2..%d backends (orders that collapse because cancelled backends deliver together are run once; n=2 also through DefaultFactory); %d random scenarios with 2..8 backends, overlapping fields, nested values; %d deadline scenarios; %d accumulator call sequences (2..12 calls, total = number of calls) and %d combineData(2, [a, b]) calls; nontrivial = some backend is not a complete non-null payload or two payloads share a field",
		smallKinds, maxN, nRandom, nDeadline, nAcc, nComb), true)
}
