// C09 generator: endpoint path parameters reach the backend path under every router.
// Drives config.ServiceConfig.Init, the five router adapters (built through their own
// factories with a capturing RunServer) and the default proxy stack down to the HTTP
// executor, and records the URL path the executor was handed.  Also records what the
// two library casers (x/text cases.Title, textproto.CanonicalMIMEHeaderKey) do, so that
// the ASCII models of them are validated on every run.
package main

import (
	"context"
	"encoding/json"
	"errors"
	"fmt"
	"io"
	"net/http"
	"net/http/httptest"
	"net/textproto"
	"os"
	"os/exec"
	"sort"
	"strings"
	"sync"
	"time"

	"github.com/gin-gonic/gin"
	chiengine "github.com/go-chi/chi/v5"
	"github.com/luraproject/lura/v2/config"
	"github.com/luraproject/lura/v2/logging"
	"github.com/luraproject/lura/v2/proxy"
	krakendchi "github.com/luraproject/lura/v2/router/chi"
	krakendgin "github.com/luraproject/lura/v2/router/gin"
	krakendgorilla "github.com/luraproject/lura/v2/router/gorilla"
	krakendtreemux "github.com/luraproject/lura/v2/router/httptreemux"
	"github.com/luraproject/lura/v2/router/mux"
	krakendnegroni "github.com/luraproject/lura/v2/router/negroni"
	"golang.org/x/text/cases"
	"golang.org/x/text/language"

	"verif/harness/internal/emit"
	"verif/harness/internal/out"
	"verif/harness/internal/rng"
)

// ---------------------------------------------------------------------------------------
// tokens

type tok struct {
	ph bool
	s  string
}

func lit(s string) tok { return tok{false, s} }
func ph(s string) tok  { return tok{true, s} }

func render(ts []tok) string {
	var b strings.Builder
	for _, t := range ts {
		if t.ph {
			b.WriteString("{" + t.s + "}")
		} else {
			b.WriteString(t.s)
		}
	}
	return b.String()
}

func toksCoq(ts []tok) string {
	xs := make([]string, len(ts))
	for i, t := range ts {
		if t.ph {
			xs[i] = emit.App("Ph", emit.Str(t.s))
		} else {
			xs[i] = emit.App("Lit", emit.Str(t.s))
		}
	}
	return emit.List(xs)
}

func toksJS(ts []tok) []interface{} {
	xs := make([]interface{}, len(ts))
	for i, t := range ts {
		if t.ph {
			xs[i] = map[string]interface{}{"param": t.s}
		} else {
			xs[i] = t.s
		}
	}
	return xs
}

// an endpoint is a list of segments: "/" + seg + "/" + seg ...
func epToks(segs []tok) []tok { return segs }

func renderEp(segs []tok) string {
	var b strings.Builder
	for _, s := range segs {
		b.WriteString("/" + render([]tok{s}))
	}
	return b.String()
}

func params(ts []tok) []string {
	var ps []string
	for _, t := range ts {
		if t.ph {
			ps = append(ps, t.s)
		}
	}
	return ps
}

// ---------------------------------------------------------------------------------------
// adapters

type adapter struct {
	name  string
	colon bool
}

var adapters = []adapter{{"Gin", true}, {"Chi", false}, {"Gorilla", false}, {"Treemux", true}, {"Negroni", false}}

// ginPlain: build the gin adapter on a bare gin.New() engine instead of krakendgin.NewEngine
var ginPlain bool

func setMode(colon bool) {
	if colon {
		config.RoutingPattern = config.ColonRouterPatternBuilder
	} else {
		config.RoutingPattern = config.BracketsRouterPatternBuilder
	}
}

type capture struct {
	mu    sync.Mutex
	paths []string
	hosts []string
}

func (c *capture) reset() { c.mu.Lock(); c.paths, c.hosts = nil, nil; c.mu.Unlock() }
func (c *capture) get() []string {
	c.mu.Lock()
	defer c.mu.Unlock()
	return append([]string(nil), c.paths...)
}

// byHost: the paths of the calls that went to one backend host
func (c *capture) byHost(host string) []string {
	c.mu.Lock()
	defer c.mu.Unlock()
	var res []string
	for i, h := range c.hosts {
		if h == host {
			res = append(res, c.paths[i])
		}
	}
	return res
}

// calledWith: what the backend is called with - the path and, when there is one, "?" and the
// raw query (a url_pattern may carry placeholders in its query part)
func calledWith(req *http.Request) string {
	if req.URL.RawQuery != "" {
		return req.URL.Path + "?" + req.URL.RawQuery
	}
	return req.URL.Path
}

func (c *capture) backendFactory() proxy.BackendFactory {
	exec := func(_ context.Context, req *http.Request) (*http.Response, error) {
		c.mu.Lock()
		c.paths = append(c.paths, calledWith(req))
		c.hosts = append(c.hosts, req.URL.Host)
		c.mu.Unlock()
		return &http.Response{StatusCode: 200, Header: http.Header{"Content-Type": []string{"application/json"}},
			Body: io.NopCloser(strings.NewReader(`{"ok":true}`))}, nil
	}
	return func(be *config.Backend) proxy.Proxy {
		return proxy.NewHTTPProxyWithHTTPExecutor(be, exec, be.Decoder)
	}
}

// buildHandler registers the endpoints of an initialised service configuration in the
// adapter's router through the adapter's own factory and returns the http.Handler the
// factory would have served.
func buildHandler(ad string, sc config.ServiceConfig, pf proxy.Factory) (h http.Handler, perr interface{}) {
	defer func() {
		if r := recover(); r != nil {
			perr = r
		}
	}()
	run := func(_ context.Context, _ config.ServiceConfig, hh http.Handler) error { h = hh; return nil }
	switch ad {
	case "Gin":
		// the engine lura itself builds (NewEngine: redirects, recovery, the parameter checker
		// that refuses encoded values), or a bare gin engine as DefaultFactory's gin.Default()
		engine := gin.New()
		if !ginPlain {
			engine = krakendgin.NewEngine(sc, krakendgin.EngineOptions{Logger: logging.NoOp, Writer: io.Discard})
		}
		krakendgin.NewFactory(krakendgin.Config{Engine: engine, Middlewares: []gin.HandlerFunc{}, HandlerFactory: krakendgin.EndpointHandler,
			ProxyFactory: pf, Logger: logging.NoOp, RunServer: run}).New().Run(sc)
	case "Chi":
		krakendchi.NewFactory(krakendchi.Config{Engine: chiengine.NewRouter(), Middlewares: chiengine.Middlewares{}, HandlerFactory: krakendchi.NewEndpointHandler,
			ProxyFactory: pf, Logger: logging.NoOp, RunServer: run}).New().Run(sc)
	case "Gorilla":
		cfg := krakendgorilla.DefaultConfig(pf, logging.NoOp)
		cfg.RunServer = run
		mux.NewFactory(cfg).New().Run(sc)
	case "Treemux":
		cfg := krakendtreemux.DefaultConfig(pf, logging.NoOp)
		cfg.RunServer = run
		mux.NewFactory(cfg).New().Run(sc)
	case "Negroni":
		cfg := krakendnegroni.DefaultConfig(pf, logging.NoOp, nil)
		cfg.RunServer = run
		mux.NewFactory(cfg).New().Run(sc)
	default:
		panic("adapter " + ad)
	}
	return h, nil
}

func newService(eps []*config.EndpointConfig) config.ServiceConfig {
	return config.ServiceConfig{Version: config.ConfigVersion, Timeout: 20 * time.Second, Host: []string{"http://127.0.0.1:8081"}, Endpoints: eps}
}

// two backends on their own hosts (h0.test, h1.test), merged in parallel
func newEndpoint2(ep, be, be2 string) *config.EndpointConfig {
	return &config.EndpointConfig{Endpoint: ep, Method: "GET", Backend: []*config.Backend{
		{URLPattern: be, Host: []string{"http://h0.test"}}, {URLPattern: be2, Host: []string{"http://h1.test"}, Group: "second"}}}
}

func newEndpoint(ep, be string) *config.EndpointConfig {
	return &config.EndpointConfig{Endpoint: ep, Method: "GET", Backend: []*config.Backend{{URLPattern: be}}}
}

// initOne runs Init on a one-endpoint service. -> accepted, error kind, endpoint after init
func initOne(colon bool, ep, be string) (accepted bool, kind string, e *config.EndpointConfig) {
	return initOneSeq(colon, false, ep, be)
}

// initOneSeq: the same with the endpoint's sequential-merge flag set or not
func initOneSeq(colon, sequential bool, ep, be string) (accepted bool, kind string, e *config.EndpointConfig) {
	setMode(colon)
	e = newEndpoint(ep, be)
	if sequential {
		e.ExtraConfig = config.ExtraConfig{proxy.Namespace: map[string]interface{}{"sequential": true}}
	}
	sc := newService([]*config.EndpointConfig{e})
	var err error
	func() {
		defer func() {
			if r := recover(); r != nil {
				err = fmt.Errorf("panic: %v", r)
				kind = "panic"
			}
		}()
		err = sc.Init()
	}()
	if err == nil {
		return true, "none", e
	}
	if kind == "panic" {
		return false, kind, e
	}
	var e1 *config.WrongNumberOfParamsError
	var e2 *config.UndefinedOutputParamError
	var e3 *config.EndpointPathError
	switch {
	case errors.As(err, &e1):
		kind = "wrong_number_of_params"
	case errors.As(err, &e2):
		kind = "undefined_output_param"
	case errors.As(err, &e3):
		kind = "endpoint_path"
	case strings.Contains(err.Error(), "differ only in the case"):
		// config.AmbiguousParamsError (not named here: the harness must still build against a
		// tree that does not have the type)
		kind = "ambiguous_params"
	default:
		kind = "other: " + err.Error()
	}
	return false, kind, e
}

// ---------------------------------------------------------------------------------------
// route cases

type routeSpec struct {
	segs []tok      // endpoint segments after the unique prefix segment
	be   []tok      // backend url_pattern tokens
	be2  []tok      // url_pattern of a second backend of the same endpoint (nil: one backend)
	more [][]string // further value vectors sent on the same route through the same router instance
	vals []string   // one value per parameter of the endpoint, in order
	tag  string
	// query strings: the endpoint's and the backend's own input_query_strings, and the raw
	// queries of the requests (one per step, cycled); hasQS: emit CRouteQ
	hasQS   bool
	epQS    []string
	beQS    []string
	queries [][][2]string
}

func (s routeSpec) queryOf(step int) [][2]string {
	if len(s.queries) == 0 {
		return nil
	}
	return s.queries[step%len(s.queries)]
}

func rawQuery(q [][2]string) string {
	var parts []string
	for _, kv := range q {
		parts = append(parts, kv[0]+"="+kv[1])
	}
	return strings.Join(parts, "&")
}

func queryCoq(q [][2]string) string {
	xs := make([]string, len(q))
	for i, kv := range q {
		xs[i] = emit.Pair(emit.Str(kv[0]), emit.Str(kv[1]))
	}
	return emit.List(xs)
}

type gen struct {
	w   *out.Writer
	cfg out.Config
}

func robsCoq(paths []string, status int, panicked bool) (string, interface{}) {
	if panicked {
		return "OPanic", "panic"
	}
	if len(paths) == 1 {
		return emit.App("OPath", emit.Str(paths[0])), map[string]interface{}{"backend_path": paths[0], "status": status}
	}
	return emit.App("ONotRouted", emit.Z(int64(status))), map[string]interface{}{"backend_calls": len(paths), "status": status}
}

// steps: the value vectors sent on the spec's route, in order (vals, then more...)
func (s routeSpec) steps() [][]string { return append([][]string{s.vals}, s.more...) }

func requestPath(prefix string, segs []tok, vals []string) string {
	path := prefix
	vi := 0
	for _, t := range segs {
		if t.ph {
			path += "/" + vals[vi]
			vi++
		} else {
			path += "/" + t.s
		}
	}
	return path
}

// buildBatch initialises one service with every accepted endpoint of the chunk (prefix /e<i>)
// and registers it in ONE router instance of the adapter.
func buildBatch(ad adapter, chunk []routeSpec, eptoks [][]tok, bf proxy.BackendFactory) (acc []bool, kinds []string, h http.Handler, perr interface{}) {
	acc = make([]bool, len(chunk))
	kinds = make([]string, len(chunk))
	var eps []*config.EndpointConfig
	for i, s := range chunk {
		acc[i], kinds[i], _ = initOne(ad.colon, renderEp(eptoks[i]), render(s.be))
		if acc[i] && s.be2 != nil {
			acc[i], kinds[i], _ = initOne(ad.colon, renderEp(eptoks[i]), render(s.be2))
		}
		if acc[i] && s.be2 != nil {
			eps = append(eps, newEndpoint2(renderEp(eptoks[i]), render(s.be), render(s.be2)))
		} else if acc[i] {
			e := newEndpoint(renderEp(eptoks[i]), render(s.be))
			e.QueryString = append([]string(nil), s.epQS...)
			e.Backend[0].QueryStringsToPass = append([]string(nil), s.beQS...)
			eps = append(eps, e)
		}
	}
	setMode(ad.colon)
	sc := newService(eps)
	if err := sc.Init(); err != nil {
		return acc, kinds, nil, err
	}
	h, perr = buildHandler(ad.name, sc, proxy.NewDefaultFactory(bf, logging.NoOp))
	return acc, kinds, h, perr
}

func chunkEpToks(chunk []routeSpec) [][]tok {
	eptoks := make([][]tok, len(chunk))
	for i, s := range chunk {
		eptoks[i] = epToks(append([]tok{lit(fmt.Sprintf("e%d", i))}, s.segs...))
	}
	return eptoks
}

// runRoutes serves every spec under every adapter (batched: ONE router instance per adapter
// and batch of endpoints) and emits the cases in spec order, adapters and then steps innermost.
// The requests go through the shared instance step-major: first vector of every route, then
// the second vector of every route that has one, ... - so consecutive requests alternate
// between routes and every route is hit again with different segment values.
func (g *gen) runRoutes(specs []routeSpec, stream string) {
	const batch = 150
	for lo := 0; lo < len(specs); lo += batch {
		hi := lo + batch
		if hi > len(specs) {
			hi = len(specs)
		}
		chunk := specs[lo:hi]
		type res struct {
			term  string
			js    interface{}
			term2 string
			js2   interface{}
		}
		results := make([][][]res, len(chunk)) // spec, adapter, step
		maxSteps := 0
		for i, s := range chunk {
			results[i] = make([][]res, len(adapters))
			for ai := range adapters {
				results[i][ai] = make([]res, len(s.steps()))
			}
			if len(s.steps()) > maxSteps {
				maxSteps = len(s.steps())
			}
		}
		eptoks := chunkEpToks(chunk)
		for ai, ad := range adapters {
			cap := &capture{}
			acc, kinds, h, perr := buildBatch(ad, chunk, eptoks, cap.backendFactory())
			for k := 0; k < maxSteps; k++ {
				for i, s := range chunk {
					st := s.steps()
					if k >= len(st) {
						continue
					}
					if !acc[i] {
						results[i][ai][k] = res{emit.App("ORejected"), map[string]interface{}{"init": kinds[i]}, emit.App("ORejected"), map[string]interface{}{"init": kinds[i]}}
						continue
					}
					if perr != nil || h == nil {
						results[i][ai][k] = res{"OPanic", map[string]interface{}{"router_build": fmt.Sprint(perr)}, "OPanic", map[string]interface{}{"router_build": fmt.Sprint(perr)}}
						continue
					}
					path := requestPath(fmt.Sprintf("/e%d", i), s.segs, st[k])
					if q := s.queryOf(k); len(q) > 0 {
						path += "?" + rawQuery(q)
					}
					cap.reset()
					rec := httptest.NewRecorder()
					panicked := false
					func() {
						defer func() {
							if r := recover(); r != nil {
								panicked = true
							}
						}()
						h.ServeHTTP(rec, httptest.NewRequest("GET", path, nil))
					}()
					if s.be2 != nil {
						t, js := robsCoq(cap.byHost("h0.test"), rec.Code, panicked)
						t2, js2 := robsCoq(cap.byHost("h1.test"), rec.Code, panicked)
						results[i][ai][k] = res{t, map[string]interface{}{"request": path, "result": js, "backend": 0, "step": k}, t2, map[string]interface{}{"request": path, "result": js2, "backend": 1, "step": k}}
						continue
					}
					t, js := robsCoq(cap.get(), rec.Code, panicked)
					results[i][ai][k] = res{t, map[string]interface{}{"request": path, "result": js, "step": k}, "", nil}
				}
			}
		}
		for i, s := range chunk {
			for ai, ad := range adapters {
				for k, vals := range s.steps() {
					r := results[i][ai][k]
					ept, bet := renderEp(eptoks[i]), render(s.be)
					term := emit.App("CRoute", ad.name, toksCoq(eptoks[i]), toksCoq(s.be), emit.Str(ept), emit.Str(bet), emit.StrList(vals), r.term)
					js := map[string]interface{}{"kind": "route", "stream": stream, "adapter": ad.name, "endpoint": ept, "url_pattern": bet,
						"values": vals, "observed": r.js, "tag": s.tag}
					if s.hasQS {
						term = emit.App("CRouteQ", ad.name, toksCoq(eptoks[i]), toksCoq(s.be), emit.Str(ept), emit.Str(bet), emit.StrList(vals),
							emit.StrList(s.epQS), emit.StrList(s.beQS), queryCoq(s.queryOf(k)), r.term)
						js["endpoint_input_query_strings"] = s.epQS
						js["backend_input_query_strings"] = s.beQS
						js["query"] = rawQuery(s.queryOf(k))
						g.w.Count("route:with-query-string")
					}
					ps := params(s.segs)
					g.w.Count("route:" + stream)
					g.w.Count(fmt.Sprintf("route:params=%d", len(ps)))
					g.w.Count("route:adapter:" + ad.name)
					if k > 0 {
						g.w.Count("route:same-instance-same-route-again")
					}
					canon := fmt.Sprintf("R|%s|%s|%s|%s", ad.name, renderEp(s.segs), bet, strings.Join(vals, "/"))
					if s.hasQS {
						canon += fmt.Sprintf("|Q|%v|%v|%s", s.epQS, s.beQS, rawQuery(s.queryOf(k)))
					}
					g.w.Add(term, js, "", canon, len(ps) > 0 && len(params(s.be)) > 0)
					if s.be2 != nil {
						bet2 := render(s.be2)
						term2 := emit.App("CRoute", ad.name, toksCoq(eptoks[i]), toksCoq(s.be2), emit.Str(ept), emit.Str(bet2), emit.StrList(vals), r.term2)
						js2 := map[string]interface{}{"kind": "route", "stream": stream, "adapter": ad.name, "endpoint": ept, "url_pattern": bet2,
							"sibling_url_pattern": bet, "values": vals, "observed": r.js2, "tag": s.tag}
						g.w.Count("route:second-backend")
						g.w.Add(term2, js2, "", canon+"|2|"+bet2, len(ps) > 0 && len(params(s.be2)) > 0)
					}
				}
			}
		}
	}
}

// ---------------------------------------------------------------------------------------
// concurrent reuse: ONE router instance per adapter hit from several goroutines.  It runs in
// a child process, because the typical failure (a map shared between requests) is a fatal
// runtime error that cannot be recovered; a crashed child is reported as OPanic cases.

func concurrentSpecs() []routeSpec {
	return []routeSpec{
		{segs: []tok{ph("userId"), ph("order-id")}, be: []tok{lit("/b/"), ph("order-id"), lit("/of/"), ph("userId")},
			vals: []string{"u1", "o1"}, more: [][]string{{"u2", "o2"}, {"o1", "u1"}, {"U-3", "o_3"}}, tag: "concurrent"},
		{segs: []tok{lit("k"), ph("userId")}, be: []tok{lit("/u/"), ph("userId"), lit("/x/"), ph("userId")},
			vals: []string{"a"}, more: [][]string{{"b"}, {"u1"}, {"~c.d"}}, tag: "concurrent"},
		{segs: []tok{ph("a"), lit("m"), ph("B_b")}, be: []tok{lit("/"), ph("B_b"), ph("a")},
			vals: []string{"1", "2"}, more: [][]string{{"2", "1"}, {"x", "y"}, {"y", "x"}}, tag: "concurrent"},
	}
}

type concObs struct {
	Adapter string `json:"adapter"`
	Spec    int    `json:"spec"`
	Step    int    `json:"step"`
	Kind    string `json:"kind"` // path | status | panic
	Path    string `json:"path"`
	Status  int    `json:"status"`
}

// echoFactory: the backend answers with the path it was called with, so that every client
// request learns what ITS backend call looked like
func echoFactory() proxy.BackendFactory {
	exec := func(_ context.Context, req *http.Request) (*http.Response, error) {
		b, _ := json.Marshal(map[string]string{"path": calledWith(req)})
		return &http.Response{StatusCode: 200, Header: http.Header{"Content-Type": []string{"application/json"}},
			Body: io.NopCloser(strings.NewReader(string(b)))}, nil
	}
	return func(be *config.Backend) proxy.Proxy {
		return proxy.NewHTTPProxyWithHTTPExecutor(be, exec, be.Decoder)
	}
}

func concurrentChild(dir string) {
	specs := concurrentSpecs()
	eptoks := chunkEpToks(specs)
	type input struct{ spec, step int }
	var inputs []input
	for i, s := range specs {
		for k := range s.steps() {
			inputs = append(inputs, input{i, k})
		}
	}
	const goroutines, iterations = 12, 40
	var all []concObs
	for _, ad := range adapters {
		acc, _, h, perr := buildBatch(ad, specs, eptoks, echoFactory())
		if perr != nil || h == nil {
			for _, in := range inputs {
				all = append(all, concObs{ad.name, in.spec, in.step, "panic", fmt.Sprint(perr), 0})
			}
			continue
		}
		seen := make([]map[concObs]bool, goroutines)
		start := make(chan struct{})
		var wg sync.WaitGroup
		for gi := 0; gi < goroutines; gi++ {
			seen[gi] = map[concObs]bool{}
			wg.Add(1)
			go func(gi int) {
				defer wg.Done()
				<-start
				for k := 0; k < iterations*len(inputs); k++ {
					in := inputs[(gi*5+k)%len(inputs)]
					if !acc[in.spec] {
						seen[gi][concObs{ad.name, in.spec, in.step, "rejected", "", 0}] = true
						continue
					}
					s := specs[in.spec]
					path := requestPath(fmt.Sprintf("/e%d", in.spec), s.segs, s.steps()[in.step])
					o := concObs{Adapter: ad.name, Spec: in.spec, Step: in.step}
					func() {
						defer func() {
							if r := recover(); r != nil {
								o.Kind = "panic"
							}
						}()
						rec := httptest.NewRecorder()
						h.ServeHTTP(rec, httptest.NewRequest("GET", path, nil))
						var body map[string]interface{}
						if p, ok := "", false; rec.Code == 200 && json.Unmarshal(rec.Body.Bytes(), &body) == nil {
							if p, ok = body["path"].(string); ok {
								o.Kind, o.Path = "path", p
							}
						}
						if o.Kind == "" {
							o.Kind, o.Status = "status", rec.Code
						}
					}()
					seen[gi][o] = true
				}
			}(gi)
		}
		close(start)
		wg.Wait()
		merged := map[concObs]bool{}
		for _, m := range seen {
			for o := range m {
				merged[o] = true
			}
		}
		var list []concObs
		for o := range merged {
			list = append(list, o)
		}
		sort.Slice(list, func(i, j int) bool {
			a, b := list[i], list[j]
			if a.Spec != b.Spec {
				return a.Spec < b.Spec
			}
			if a.Step != b.Step {
				return a.Step < b.Step
			}
			if a.Kind != b.Kind {
				return a.Kind < b.Kind
			}
			if a.Path != b.Path {
				return a.Path < b.Path
			}
			return a.Status < b.Status
		})
		all = append(all, list...)
	}
	b, _ := json.Marshal(all)
	if err := os.WriteFile(dir+"/c09_concurrent.json", b, 0o644); err != nil {
		fmt.Fprintln(os.Stderr, err)
		os.Exit(1)
	}
}

// runConcurrent starts the child, reads what it saw and emits one case per distinct
// (adapter, input, observation).
func (g *gen) runConcurrent() {
	specs := concurrentSpecs()
	eptoks := chunkEpToks(specs)
	file := g.cfg.Dir + "/c09_concurrent.json"
	os.Remove(file)
	ctx, cancel := context.WithTimeout(context.Background(), 5*time.Minute)
	defer cancel()
	cmd := exec.CommandContext(ctx, os.Args[0], "--out", g.cfg.Dir, "--tier", g.cfg.Tier, "--seed", fmt.Sprint(g.cfg.Seed), "--extra", "c09-concurrent-child")
	outb, err := cmd.CombinedOutput()
	var obs []concObs
	crash := ""
	if err != nil {
		crash = fmt.Sprintf("child: %v: %s", err, firstLines(string(outb), 6))
	} else if b, rerr := os.ReadFile(file); rerr != nil || json.Unmarshal(b, &obs) != nil {
		crash = "child wrote no result"
	}
	if crash != "" {
		// the shared instances did not survive concurrent use: one failing case per adapter and input
		obs = nil
		for _, ad := range adapters {
			for i, s := range specs {
				for k := range s.steps() {
					obs = append(obs, concObs{ad.name, i, k, "panic", crash, 0})
				}
			}
		}
	}
	for _, o := range obs {
		s := specs[o.Spec]
		vals := s.steps()[o.Step]
		var t string
		switch o.Kind {
		case "path":
			t = emit.App("OPath", emit.Str(o.Path))
		case "rejected":
			t = "ORejected"
		case "status":
			t = emit.App("ONotRouted", emit.Z(int64(o.Status)))
		default:
			t = "OPanic"
		}
		ept, bet := renderEp(eptoks[o.Spec]), render(s.be)
		term := emit.App("CRoute", o.Adapter, toksCoq(eptoks[o.Spec]), toksCoq(s.be), emit.Str(ept), emit.Str(bet), emit.StrList(vals), t)
		js := map[string]interface{}{"kind": "route", "stream": "concurrent-reuse", "adapter": o.Adapter, "endpoint": ept, "url_pattern": bet,
			"values": vals, "observed": o, "tag": s.tag, "goroutines": 12}
		g.w.Count("route:concurrent-reuse")
		g.w.Add(term, js, "", fmt.Sprintf("RC|%s|%s|%s|%s|%s|%s", o.Adapter, ept, bet, strings.Join(vals, "/"), o.Kind, o.Path), true)
	}
}

func firstLines(s string, n int) string {
	ls := strings.Split(s, "\n")
	if len(ls) > n {
		ls = ls[:n]
	}
	return strings.Join(ls, " | ")
}

// ---------------------------------------------------------------------------------------
// configurations with several endpoints: Init of the whole service, then one request per
// endpoint through ONE router instance

type epTemplate struct {
	segs []tok
	be   []tok
}

func (g *gen) configCase(tpls []epTemplate, stream string) {
	n := len(tpls)
	segs := make([][]tok, n)
	vals := make([][]string, n)
	for i, t := range tpls {
		segs[i] = append([]tok{lit(fmt.Sprintf("c%d", i))}, t.segs...)
		for j := range params(t.segs) {
			vals[i] = append(vals[i], fmt.Sprintf("v%d-%d", i, j))
		}
	}
	for _, ad := range adapters {
		setMode(ad.colon)
		var eps []*config.EndpointConfig
		for i, t := range tpls {
			eps = append(eps, newEndpoint(renderEp(segs[i]), render(t.be)))
		}
		sc := newService(eps)
		var err error
		func() {
			defer func() {
				if r := recover(); r != nil {
					err = fmt.Errorf("panic: %v", r)
				}
			}()
			err = sc.Init()
		}()
		accepted := err == nil
		var routes []string
		var routesJS []interface{}
		if accepted {
			cap := &capture{}
			h, perr := buildHandler(ad.name, sc, proxy.NewDefaultFactory(cap.backendFactory(), logging.NoOp))
			for i, t := range tpls {
				var term string
				var js interface{}
				if perr != nil || h == nil {
					term, js = "OPanic", map[string]interface{}{"router_build": fmt.Sprint(perr)}
				} else {
					path := requestPath(fmt.Sprintf("/c%d", i), t.segs, vals[i])
					cap.reset()
					rec := httptest.NewRecorder()
					panicked := false
					func() {
						defer func() {
							if r := recover(); r != nil {
								panicked = true
							}
						}()
						h.ServeHTTP(rec, httptest.NewRequest("GET", path, nil))
					}()
					var rj interface{}
					term, rj = robsCoq(cap.get(), rec.Code, panicked)
					js = map[string]interface{}{"request": path, "result": rj}
				}
				routes = append(routes, emit.Pair(emit.StrList(vals[i]), term))
				routesJS = append(routesJS, js)
			}
		}
		var epsCoq, texts []string
		var epsJS []interface{}
		for i, t := range tpls {
			epsCoq = append(epsCoq, emit.Pair(toksCoq(segs[i]), toksCoq(t.be)))
			texts = append(texts, emit.Pair(emit.Str(renderEp(segs[i])), emit.Str(render(t.be))))
			epsJS = append(epsJS, map[string]interface{}{"endpoint": renderEp(segs[i]), "url_pattern": render(t.be), "values": vals[i]})
		}
		term := emit.App("CConfig", ad.name, emit.List(epsCoq), emit.List(texts), emit.Bool(accepted), emit.List(routes))
		errText := "none"
		if err != nil {
			errText = err.Error()
		}
		js := map[string]interface{}{"kind": "config", "stream": stream, "adapter": ad.name, "endpoints": epsJS,
			"observed": map[string]interface{}{"accepted": accepted, "error": errText, "routes": routesJS}}
		g.w.Count("config:" + stream)
		g.w.Count(fmt.Sprintf("config:endpoints=%d", n))
		if accepted {
			g.w.Count("config:accepted")
		} else {
			g.w.Count("config:rejected")
		}
		canon := "CFG|" + ad.name
		for _, e := range epsJS {
			canon += "|" + fmt.Sprint(e)
		}
		g.w.Add(term, js, "", canon, true)
	}
}

// configStream: ordered selections of 2..maxN endpoints from a pool in which some backends use a
// parameter that only ANOTHER endpoint declares (before or after it), mixed with correct ones
func (g *gen) configStream(maxN int) {
	pool := []epTemplate{
		{segs: []tok{ph("id")}, be: []tok{lit("/o/"), ph("id")}},                                   // fine, declares id
		{segs: []tok{ph("order")}, be: []tok{lit("/o/"), ph("id")}},                                // uses id, declares order only
		{segs: []tok{ph("order"), ph("x")}, be: []tok{lit("/p/"), ph("x"), lit("/"), ph("order")}}, // fine
		{segs: []tok{lit("s")}, be: []tok{lit("/static")}},                                         // no parameter
		{segs: []tok{ph("a"), ph("b")}, be: []tok{lit("/q/"), ph("b"), lit("/"), ph("x")}},         // uses x, declared by the third only
		{segs: []tok{ph("Id")}, be: []tok{lit("/r/"), ph("Id")}},                                   // fine; Id next to another endpoint's id
	}
	var rec func(chosen []int)
	rec = func(chosen []int) {
		if len(chosen) >= 2 {
			tpls := make([]epTemplate, len(chosen))
			for i, c := range chosen {
				tpls[i] = pool[c]
			}
			g.configCase(tpls, "multi-endpoint")
		}
		if len(chosen) == maxN {
			return
		}
		for c := range pool {
			used := false
			for _, d := range chosen {
				used = used || d == c
			}
			if !used {
				rec(append(append([]int(nil), chosen...), c))
			}
		}
	}
	rec(nil)
}

// ---------------------------------------------------------------------------------------
// init cases (text level)

func (g *gen) initCase(colon bool, ep, be []tok, stream string) {
	ept, bet := renderEp(ep), render(be)
	acc, kind, e := initOne(colon, ept, bet)
	defer g.routeText(colon, ep, ept, acc, e, stream)
	term := emit.App("CInitT", emit.Bool(colon), toksCoq(ep), toksCoq(be), emit.Str(ept), emit.Str(bet), emit.Bool(acc))
	js := map[string]interface{}{"kind": "init", "stream": stream, "colon_mode": colon, "endpoint": ept, "url_pattern": bet,
		"observed": map[string]interface{}{"accepted": acc, "error": kind}}
	g.w.Count("init:" + stream)
	g.w.Count("init:error:" + strings.SplitN(kind, ":", 2)[0])
	g.w.Add(term, js, "", fmt.Sprintf("I|%v|%s|%s", colon, ept, bet), !acc)
}

// routeText: for an accepted endpoint, the route pattern Init left in EndpointConfig.Endpoint
// (what the router adapter registers); segs == nil: raw text case
func (g *gen) routeText(colon bool, segs []tok, ept string, acc bool, e *config.EndpointConfig, stream string) {
	if !acc || e == nil {
		return
	}
	var term string
	if segs == nil {
		term = emit.App("CRouteTextRaw", emit.Bool(colon), emit.Str(ept), emit.Str(e.Endpoint))
	} else {
		term = emit.App("CRouteText", emit.Bool(colon), toksCoq(segs), emit.Str(ept), emit.Str(e.Endpoint))
	}
	js := map[string]interface{}{"kind": "route_text", "stream": stream, "colon_mode": colon, "endpoint": ept, "observed": map[string]interface{}{"route": e.Endpoint}}
	g.w.Count("route_text:" + stream)
	g.w.Add(term, js, "", fmt.Sprintf("RT|%v|%s", colon, ept), colon && strings.Contains(ept, "{"))
}

func (g *gen) initCaseS(colon, sequential bool, ep, be []tok, stream string) {
	ept, bet := renderEp(ep), render(be)
	acc, kind, e := initOneSeq(colon, sequential, ept, bet)
	defer g.routeText(colon, ep, ept, acc, e, stream)
	term := emit.App("CInitS", emit.Bool(colon), emit.Bool(sequential), toksCoq(ep), toksCoq(be), emit.Str(ept), emit.Str(bet), emit.Bool(acc))
	js := map[string]interface{}{"kind": "init", "stream": stream, "colon_mode": colon, "sequential": sequential, "endpoint": ept, "url_pattern": bet,
		"observed": map[string]interface{}{"accepted": acc, "error": kind}}
	g.w.Count("init:" + stream)
	g.w.Count("init:error:" + strings.SplitN(kind, ":", 2)[0])
	g.w.Add(term, js, "", fmt.Sprintf("IS|%v|%v|%s|%s", colon, sequential, ept, bet), !acc)
}

func (g *gen) initRaw(colon bool, ept, bet string, stream string) {
	acc, kind, e := initOne(colon, ept, bet)
	defer g.routeText(colon, nil, ept, acc, e, stream)
	term := emit.App("CInit", emit.Bool(colon), emit.Str(ept), emit.Str(bet), emit.Bool(acc))
	js := map[string]interface{}{"kind": "init_raw", "stream": stream, "colon_mode": colon, "endpoint": ept, "url_pattern": bet,
		"observed": map[string]interface{}{"accepted": acc, "error": kind}}
	g.w.Count("init:" + stream)
	g.w.Count("init:error:" + strings.SplitN(kind, ":", 2)[0])
	g.w.Add(term, js, "", fmt.Sprintf("IR|%v|%s|%s", colon, ept, bet), !acc)
}

// ---------------------------------------------------------------------------------------
// library casers

// capsSweep: every word of length n over alpha appended to pre, through both library casers.
// exact: the outputs themselves are handed to Coq; otherwise a 61-bit polynomial hash of them.
func (g *gen) capsSweep(alpha, pre string, n int, exact bool) {
	title := cases.Title(language.Und)
	var tb, mb strings.Builder
	count := 0
	var rec func(p string, d int)
	rec = func(p string, d int) {
		if d == 0 {
			tb.WriteString(title.String(p) + "|")
			mb.WriteString(textproto.CanonicalMIMEHeaderKey(p) + "|")
			count++
			return
		}
		for i := 0; i < len(alpha); i++ {
			rec(p+alpha[i:i+1], d-1)
		}
	}
	rec(pre, n)
	var term string
	if exact {
		term = emit.App("CCaps", emit.Str(alpha), emit.Str(pre), emit.Nat(n), emit.Str(tb.String()), emit.Str(mb.String()))
	} else {
		term = emit.App("CCapsH", emit.Str(alpha), emit.Str(pre), emit.Nat(n), emit.N(hashStr(tb.String())), emit.N(hashStr(mb.String())))
	}
	js := map[string]interface{}{"kind": "caps", "alphabet": alpha, "prefix": pre, "suffix_len": n, "count": count, "exact": exact}
	g.w.Count("caps:sweeps")
	g.w.Meta["caps_names"] = g.w.Meta["caps_names"].(int) + count
	g.w.Add(term, js, "", fmt.Sprintf("C|%s|%s|%d", alpha, pre, n), true)
}

// hashStr: h := (h*257 + byte + 1) mod 2^61, the same fold as Corr.C09.hash_str
func hashStr(s string) uint64 {
	const mask = 1<<61 - 1
	var h uint64
	for i := 0; i < len(s); i++ {
		h = (h*257 + uint64(s[i]) + 1) & mask
	}
	return h
}

func allNames(alpha string, maxLen int) []string {
	var res []string
	var rec func(p string, d int)
	rec = func(p string, d int) {
		if len(p) > 0 {
			res = append(res, p)
		}
		if d == 0 {
			return
		}
		for i := 0; i < len(alpha); i++ {
			rec(p+alpha[i:i+1], d-1)
		}
	}
	rec("", maxLen)
	sort.SliceStable(res, func(i, j int) bool { return len(res[i]) < len(res[j]) })
	return res
}

const grammar = "abcdefghijklmnopqrstuvwxyzABCDEFGHIJKLMNOPQRSTUVWXYZ0123456789-_"
const unreserved = "abcdefghijklmnopqrstuvwxyzABCDEFGHIJKLMNOPQRSTUVWXYZ0123456789-._~"

func randFrom(r *rng.R, alpha string, n int) string {
	b := make([]byte, n)
	for i := range b {
		b[i] = alpha[r.Intn(len(alpha))]
	}
	return string(b)
}

func randValue(r *rng.R) string {
	for {
		v := randFrom(r, unreserved, 1+r.Intn(6))
		if r.Chance(1, 8) {
			// unreserved values with dots inside (not the dot-segments "." and "..")
			v = randFrom(r, unreserved, r.Intn(3)) + r.Pick([]string{"..", ".", "...", "-..", ".~."}) + randFrom(r, unreserved, 1+r.Intn(3))
		}
		if v != "." && v != ".." {
			return v
		}
	}
}

var corpusNames = []string{"id", "userId", "user-id", "user_id", "1abc", "A", "a", "a1", "-a", "_a", "a-", "ID", "9", "a--b", "x-Y_z9",
	"UserID", "iD", "z", "Z", "0", "-", "_", "--", "a-b-c", "aB-cD", "resp0_x", "JWT", "param", "P-1_q", "user-Id"}

// longName: a grammar name of exactly n characters (the grammar has no length bound)
func longName(n int) string {
	const unit = "nameWith-Long_tail0123456789"
	b := make([]byte, n)
	for i := range b {
		b[i] = unit[i%len(unit)]
	}
	return string(b)
}

var longLengths = []int{20, 26, 27, 28, 29, 32, 33, 64, 65, 80}

func permutations(xs []string) [][]string {
	if len(xs) <= 1 {
		return [][]string{append([]string(nil), xs...)}
	}
	var res [][]string
	for i := range xs {
		rest := append(append([]string(nil), xs[:i]...), xs[i+1:]...)
		for _, p := range permutations(rest) {
			res = append(res, append([]string{xs[i]}, p...))
		}
	}
	return res
}

func main() {
	cfg := out.ParseFlags("C09")
	if cfg.Extra == "c09-concurrent-child" {
		if devnull, err := os.OpenFile(os.DevNull, os.O_WRONLY, 0); err == nil {
			os.Stdout = devnull
		}
		gin.SetMode(gin.ReleaseMode)
		concurrentChild(cfg.Dir)
		return
	}
	if devnull, err := os.OpenFile(os.DevNull, os.O_WRONLY, 0); err == nil {
		os.Stdout = devnull // negroni.Classic logs every request to stdout
	}
	gin.SetMode(gin.ReleaseMode)
	r := rng.New(cfg.Seed)
	w := out.NewWriter(cfg, "Verif.Corr.C09", 300)
	w.Meta["caps_names"] = 0
	g := &gen{w: w, cfg: cfg}

	// ---- 1. regression corpus -----------------------------------------------------------
	var specs []routeSpec
	for _, l := range longLengths {
		corpusNames = append(corpusNames, longName(l))
	}
	for _, n := range corpusNames {
		specs = append(specs, routeSpec{segs: []tok{ph(n)}, be: []tok{lit("/b/"), ph(n), lit("/y")}, vals: []string{"VAL"}, tag: "corpus-name"})
	}
	specs = append(specs,
		routeSpec{segs: []tok{lit("u"), ph("userId"), lit("o"), ph("order-id")}, be: []tok{lit("/b/"), ph("order-id"), lit("/"), ph("userId")}, vals: []string{"u1", "o2"}, tag: "two-swapped"},
		routeSpec{segs: []tok{ph("a"), ph("b"), ph("c"), ph("d")}, be: []tok{lit("/"), ph("d"), ph("c"), lit("-"), ph("b"), lit("."), ph("a"), lit("/"), ph("a")}, vals: []string{"1", "2", "3", "4"}, tag: "four-adjacent-repeated"},
		routeSpec{segs: []tok{ph("a")}, be: []tok{lit("/static")}, vals: []string{"v"}, tag: "unused-param"},
		routeSpec{segs: []tok{lit("s")}, be: []tok{lit("/static")}, vals: nil, tag: "no-param"},
		routeSpec{segs: []tok{ph("ab"), ph("a")}, be: []tok{lit("/"), ph("a"), lit("/"), ph("ab")}, vals: []string{"X", "Y"}, tag: "prefix-names"},
		routeSpec{segs: []tok{ph("a"), ph("A1")}, be: []tok{lit("/"), ph("a"), lit("/"), ph("A1")}, vals: []string{"X", "Y"}, tag: "caps-distinct"},
		routeSpec{segs: []tok{ph("x")}, be: []tok{lit("/b/"), ph("x")}, vals: []string{"~a.b-c_d"}, tag: "unreserved-value"},
		routeSpec{segs: []tok{ph("x"), ph("y")}, be: []tok{lit("/b/"), ph("x"), lit("/"), ph("y")}, vals: []string{"X", "x"}, tag: "value-looks-like-key"},
		// parameters that differ only in the case of the first character (caps collide)
		routeSpec{segs: []tok{ph("id"), ph("Id")}, be: []tok{lit("/b/"), ph("id"), lit("/"), ph("Id")}, vals: []string{"1", "2"}, tag: "caps-collide"},
		routeSpec{segs: []tok{ph("a"), lit("k"), ph("A")}, be: []tok{lit("/b/"), ph("A")}, vals: []string{"1", "2"}, tag: "caps-collide"},
		routeSpec{segs: []tok{ph("user-id"), ph("User-id")}, be: []tok{lit("/b")}, vals: []string{"1", "2"}, tag: "caps-collide-unused"},
	)
	specs = append(specs,
		routeSpec{segs: []tok{ph("userId"), ph("order-id")}, be: []tok{lit("/users/"), ph("userId")}, be2: []tok{lit("/orders/"), ph("order-id"), lit("/of/"), ph("userId")}, vals: []string{"u1", "o2"}, tag: "two-backends"},
		routeSpec{segs: []tok{ph("a"), ph("b")}, be: []tok{lit("/x/"), ph("b")}, be2: []tok{lit("/x/"), ph("a")}, vals: []string{"1", "2"}, tag: "two-backends"},
	)
	g.runRoutes(specs, "corpus")
	// the same names once more with the gin adapter on a bare engine
	ginPlain = true
	g.runRoutes(specs[:len(corpusNames)], "corpus-bare-gin-engine")
	ginPlain = false

	// ---- 1a. a first-character-case pair among 3-4 parameters, in every order, with parameters
	// that sort between / around the pair in byte order ('Id' < 'cat' < 'id'); and controls
	specs = nil
	for _, set := range [][]string{{"id", "cat", "Id"}, {"a", "B", "A"}, {"iD", "cat", "Id"}, {"Id", "cat", "dog", "id"}, {"x-1", "M", "X-1", "0"},
		{longName(40), "m", strings.ToUpper(longName(40)[:1]) + longName(40)[1:]}} {
		for _, perm := range permutations(set) {
			var segs, be []tok
			var vals []string
			be = append(be, lit("/b"))
			for j, n := range perm {
				segs = append(segs, ph(n))
				vals = append(vals, fmt.Sprintf("%d", j+1))
				be = append(be, lit("/"), ph(n))
			}
			specs = append(specs, routeSpec{segs: segs, be: be, vals: vals, tag: "case-pair-orders"})
		}
	}
	g.runRoutes(specs, "case-pair-orders")
	for _, perm := range permutations([]string{"id", "cat", "Id"}) {
		for _, colon := range []bool{true, false} {
			g.initCase(colon, epToks([]tok{lit("x"), ph(perm[0]), ph(perm[1]), ph(perm[2])}), []tok{lit("/b/"), ph("id"), lit("/"), ph("cat"), lit("/"), ph("Id")}, "corpus")
		}
	}

	// ---- 1a'. names in the neighbourhood of the sequential-merge reference syntax
	// (resp<digits>_<x>, JWT.<x>): declared and used, and used without being declared; Init with
	// the sequential flag off and on
	near := []string{"Resp0_id", "resp0_id", "RESP0_id", "rESP0_id", "rEsp0_id", "respx", "resp0", "Resp_0", "resp_0", "resp0_", "Resp0_", "resp00_ab", "Resp12_a",
		"xresp0_x", "resp0x_y", "Resp0x_y", "JWT", "JWTx", "JWT_a", "jwt_a", "Jwt-a"}
	nearBE := []string{"JWT.a", "jwt.a", "Jwt.a", "JWT.", "xJWT.a", "Resp0_a.b", "resp0_a.b", "RESP1_a/b"}
	specs = nil
	for _, n := range near {
		specs = append(specs,
			routeSpec{segs: []tok{ph(n)}, be: []tok{lit("/b/"), ph(n)}, vals: []string{"v1"}, tag: "near-seq-declared"},
			routeSpec{segs: []tok{ph("a")}, be: []tok{lit("/b/"), ph(n), lit("/"), ph("a")}, vals: []string{"v1"}, tag: "near-seq-undeclared"})
	}
	for _, n := range nearBE {
		specs = append(specs, routeSpec{segs: []tok{ph("a")}, be: []tok{lit("/b/"), ph(n), lit("/"), ph("a")}, vals: []string{"v1"}, tag: "near-seq-undeclared"})
	}
	g.runRoutes(specs, "near-seq")
	for _, sequential := range []bool{false, true} {
		for ci, colon := range []bool{true, false} {
			for ni, n := range near {
				if (ni+ci)%2 == 0 || cfg.Thorough() {
					g.initCaseS(colon, sequential, epToks([]tok{lit("u"), ph(n)}), []tok{lit("/b/"), ph(n)}, "near-seq")
				}
				g.initCaseS(colon, sequential, epToks([]tok{lit("u"), ph("a")}), []tok{lit("/b/"), ph(n)}, "near-seq")
			}
			for _, n := range nearBE {
				g.initCaseS(colon, sequential, epToks([]tok{lit("u"), ph("a")}), []tok{lit("/b/"), ph(n)}, "near-seq")
			}
		}
	}

	// ---- 1a''. query strings: the endpoint lets keys through that the backend's own
	// input_query_strings drops (the backend stack then rebuilds the request) - the path that
	// reaches the backend must not change
	specs = nil
	type qsCfg struct{ ep, be []string }
	qsCfgs := []qsCfg{
		{[]string{"keep", "drop"}, []string{"keep"}}, {[]string{"*"}, []string{"keep"}}, {[]string{"keep", "drop"}, []string{"other"}},
		{[]string{"keep", "drop"}, nil}, {[]string{"keep"}, []string{"keep", "drop"}}, {nil, []string{"keep"}}, {[]string{"*"}, []string{"*"}},
	}
	queries := [][][2]string{{{"keep", "1"}, {"drop", "2"}}, {{"drop", "2"}}, {{"keep", "1"}}, nil, {{"drop", "x"}, {"zzz", "y"}, {"keep", "k"}}}
	for ci, c := range qsCfgs {
		specs = append(specs,
			routeSpec{segs: []tok{ph("userId"), lit("x"), ph("n")}, be: []tok{lit("/b/"), ph("userId"), lit("/x/"), ph("n")}, vals: []string{"Ab-c", "42"},
				more: [][]string{{"u2", "7"}, {"u3", "8"}, {"u4", "9"}, {"u5", "10"}}, hasQS: true, epQS: c.ep, beQS: c.be, queries: queries, tag: "query-strings"},
			routeSpec{segs: []tok{ph("id")}, be: []tok{lit("/o/"), ph("id")}, vals: []string{fmt.Sprintf("i%d", ci)},
				more: [][]string{{"j"}, {"k"}}, hasQS: true, epQS: c.ep, beQS: c.be, queries: queries[ci%len(queries):], tag: "query-strings"})
	}
	g.runRoutes(specs, "query-strings")

	// placeholders in the QUERY part of the url_pattern, with and without a forwarded client query
	// of the same name
	specs = nil
	qq := [][][2]string{{{"q", "go"}}, {{"q", "go"}, {"category", "admin"}}, nil, {{"category", "x"}}, {{"zz", "1"}}}
	for _, c := range []qsCfg{{[]string{"category", "q"}, nil}, {[]string{"*"}, nil}, {nil, nil}, {[]string{"category", "q"}, []string{"q"}}} {
		specs = append(specs,
			routeSpec{segs: []tok{lit("shop"), ph("category")}, be: []tok{lit("/search?category="), ph("category")}, vals: []string{"books"},
				more: [][]string{{"toys"}, {"b-1"}, {"books"}, {"Zz"}}, hasQS: true, epQS: c.ep, beQS: c.be, queries: qq, tag: "placeholder-in-query-part"},
			routeSpec{segs: []tok{ph("a"), ph("b")}, be: []tok{lit("/p/"), ph("b"), lit("?x="), ph("a"), lit("&y="), ph("b"), lit("&fixed=1")}, vals: []string{"1", "2"},
				more: [][]string{{"2", "1"}, {"u", "v"}}, hasQS: true, epQS: c.ep, beQS: c.be, queries: [][][2]string{nil, {{"x", "9"}}, {{"q", "1"}, {"y", "8"}}}, tag: "placeholder-in-query-part"})
	}
	specs = append(specs,
		routeSpec{segs: []tok{lit("shop"), ph("category")}, be: []tok{lit("/search?category="), ph("category")}, vals: []string{"books"}, more: [][]string{{"toys"}}, tag: "placeholder-in-query-part"},
		routeSpec{segs: []tok{ph("param")}, be: []tok{lit("/url-params?p="), ph("param")}, vals: []string{"v1"}, tag: "placeholder-in-query-part"})
	// unreserved values with dots inside, under every adapter
	specs = append(specs, routeSpec{segs: []tok{lit("r"), ph("name")}, be: []tok{lit("/files/"), ph("name")}, vals: []string{"report..final"},
		more: [][]string{{"a.b"}, {"x.."}, {"..x"}, {"..."}, {"a..b..c"}, {".hidden"}, {"v1.2.3"}, {"~.."}}, tag: "dots-inside-value"})
	g.runRoutes(specs, "query-part")

	// ---- 1b. instance reuse: ONE router instance per adapter serves the whole sequence -------
	// (step-major: every route once, then every route again with other values, ...)
	specs = []routeSpec{
		{segs: []tok{ph("userId")}, be: []tok{lit("/b/"), ph("userId"), lit("/y")}, vals: []string{"A"}, more: [][]string{{"B"}, {"A"}, {"C-c"}, {"UserId"}}, tag: "reuse-same-route"},
		{segs: []tok{ph("userId"), ph("order-id")}, be: []tok{lit("/b/"), ph("order-id"), lit("/"), ph("userId")}, vals: []string{"u1", "o2"}, more: [][]string{{"o2", "u1"}, {"u1", "u1"}, {"x", "y"}}, tag: "reuse-swapped-values"},
		// same parameter names and same url_pattern on two routes: a cache keyed by the pattern shows
		{segs: []tok{lit("p"), ph("id")}, be: []tok{lit("/b/"), ph("id")}, vals: []string{"p1"}, more: [][]string{{"p2"}, {"p3"}}, tag: "reuse-twin-routes"},
		{segs: []tok{lit("q"), ph("id")}, be: []tok{lit("/b/"), ph("id")}, vals: []string{"q1"}, more: [][]string{{"q2"}, {"q3"}}, tag: "reuse-twin-routes"},
		{segs: []tok{ph("a"), ph("b")}, be: []tok{lit("/x/"), ph("b")}, be2: []tok{lit("/x/"), ph("a"), ph("b")}, vals: []string{"1", "2"}, more: [][]string{{"2", "1"}, {"3", "4"}}, tag: "reuse-two-backends"},
		{segs: []tok{ph("a"), lit("s")}, be: []tok{lit("/static")}, vals: []string{"v"}, more: [][]string{{"w"}}, tag: "reuse-unused-param"},
		{segs: []tok{ph("a"), lit("t")}, be: []tok{lit("/"), ph("a"), ph("a")}, vals: []string{"long-value-0123456789"}, more: [][]string{{"s"}, {"long-value-0123456789"}, {"_"}}, tag: "reuse-long-then-short"},
	}
	g.runRoutes(specs, "reuse")
	g.runConcurrent()

	// ---- 1c. several endpoints in one configuration ---------------------------------------
	// corpus: the offending endpoint after / before the endpoint that declares the parameter
	g.configCase([]epTemplate{{segs: []tok{ph("id")}, be: []tok{lit("/o/"), ph("id")}}, {segs: []tok{ph("order")}, be: []tok{lit("/o/"), ph("id")}}}, "corpus")
	g.configCase([]epTemplate{{segs: []tok{ph("order")}, be: []tok{lit("/o/"), ph("id")}}, {segs: []tok{ph("id")}, be: []tok{lit("/o/"), ph("id")}}}, "corpus")
	g.configCase([]epTemplate{{segs: []tok{ph("id")}, be: []tok{lit("/o/"), ph("id")}}, {segs: []tok{ph("order")}, be: []tok{lit("/o/"), ph("order")}}}, "corpus")
	if cfg.Thorough() {
		g.configStream(4)
	} else {
		g.configStream(3)
	}

	for _, colon := range []bool{true, false} {
		g.initCase(colon, epToks([]tok{lit("u"), ph("userId")}), []tok{lit("/b/"), ph("userId")}, "corpus")
		g.initCase(colon, epToks([]tok{lit("u"), ph("userId")}), []tok{lit("/b/"), ph("userid")}, "corpus")
		g.initCase(colon, epToks([]tok{lit("u"), ph("userId")}), []tok{lit("/b/"), ph("UserId")}, "corpus")
		g.initCase(colon, epToks([]tok{lit("u")}), []tok{lit("/b/"), ph("x")}, "corpus")
		g.initCase(colon, epToks([]tok{lit("u"), ph("a")}), []tok{lit("/b/"), ph("a"), ph("b")}, "corpus")
		g.initCase(colon, epToks([]tok{lit("u"), ph("a"), ph("b")}), []tok{lit("/b/"), ph("a"), lit("/"), ph("c")}, "corpus")
		g.initCase(colon, epToks([]tok{lit("u"), ph("id"), ph("Id")}), []tok{lit("/b/"), ph("id")}, "corpus")
		g.initCase(colon, epToks([]tok{lit("u"), ph("id"), ph("id")}), []tok{lit("/b/"), ph("id")}, "corpus")
		// sequential-merge references are not parameters: accepted although undeclared
		g.initCase(colon, epToks([]tok{lit("u"), ph("a")}), []tok{lit("/b/"), ph("resp0_x")}, "corpus")
		g.initCase(colon, epToks([]tok{lit("u"), ph("a")}), []tok{lit("/b/"), ph("JWT.sub")}, "corpus")
		g.initCase(colon, epToks([]tok{lit("u"), ph("a")}), []tok{lit("/b/"), ph("resp_x")}, "corpus")
		g.initCase(colon, epToks([]tok{lit("u"), ph("a")}), []tok{lit("/b/"), ph("resp1_")}, "corpus")
		g.initCase(colon, epToks([]tok{lit("u"), ph("a")}), []tok{lit("/b/"), ph("JWT.")}, "corpus")
		for _, raw := range [][2]string{
			{"/u/x{a}", "/b/{a}"}, {"/u/{a}", "/b/{{a}}"}, {"/u/{a}", "/b/{}"}, {"/u/{a}", "/b/{a"}, {"/u/{a}", "/b/a}"},
			{"/u/{a}", "/b/{{.A}}"}, {"/u/{a.b}", "/b/{a.b}"}, {"/u/{a}/{b}", "/b/{a}{b}{a}"}, {"u/{a}", "b/{a}"}, {"/u/{a}", "/b/{a/b}"},
			{"/u/{a}?x={b}", "/b/{a}"}, {"/u/{a}", "/b/{b}{a}"}, {"/u/{}", "/b"}, {"/u/{a}{b}", "/b/{a}"}, {"/u/{a}{b}", "/b/{b}"},
			{"/u/{é}", "/b"}, {"/u/{a}", "/b/{é}"}, {"/u/*x", "/b"}, {"/__debug/x", "/b"},
		} {
			g.initRaw(colon, raw[0], raw[1], "corpus-raw")
		}
	}

	// ---- 2. library casers against the ASCII models -----------------------------------
	capLen := 4
	if cfg.Thorough() {
		capLen = 5
	}
	const capAlpha = "abAB01-_zZ9"
	for n := 1; n <= 3; n++ {
		g.capsSweep(capAlpha, "", n, n <= 2)
	}
	for _, p := range allNames(capAlpha, capLen-3) {
		if len(p) == capLen-3 || len(p) == 1 {
			g.capsSweep(capAlpha, p, 3, false)
		}
	}
	{
		// every single byte (the code slices k[:1]: a byte, not a rune)
		title := cases.Title(language.Und)
		var rows []string
		for b := 0; b < 256; b++ {
			s := string([]byte{byte(b)})
			rows = append(rows, emit.Tuple(emit.N(uint64(b)), emit.Str(title.String(s)), emit.Str(textproto.CanonicalMIMEHeaderKey(s))))
		}
		w.Count("caps:bytes")
		w.Add(emit.App("CBytes", emit.List(rows)), map[string]interface{}{"kind": "caps_bytes", "count": 256}, "", "CB", true)
	}

	// ---- 3. exhaustive small scope ----------------------------------------------------
	nameLen := 4
	if cfg.Thorough() {
		nameLen = 6
	}
	specs = nil
	small := allNames("aB1-_", nameLen)
	for i := 0; i < len(small); {
		n := small[i]
		if len(n) <= 2 {
			specs = append(specs, routeSpec{segs: []tok{ph(n)}, be: []tok{lit("/b/"), ph(n)}, vals: []string{randValue(r)}, tag: "name"})
			i++
			continue
		}
		// three distinct names per endpoint, used by the backend in a rotated order
		k := 3
		if i+k > len(small) {
			k = len(small) - i
		}
		grp := small[i : i+k]
		i += k
		var segs, be []tok
		var vals []string
		rot := r.Intn(k)
		for j := range grp {
			segs = append(segs, ph(grp[j]))
			vals = append(vals, randValue(r))
			be = append(be, lit("/"), ph(grp[(j+rot)%k]))
		}
		specs = append(specs, routeSpec{segs: segs, be: be, vals: vals, tag: "names3"})
	}
	g.runRoutes(specs, "exhaustive-names")

	// number and order of parameters: k declared parameters, every sequence of uses of length <= 3
	specs = nil
	pn := []string{"p", "qQ", "r-1", "S_s"}
	for k := 0; k <= 4; k++ {
		var segs []tok
		var vals []string
		for j := 0; j < k; j++ {
			segs = append(segs, ph(pn[j]))
			vals = append(vals, fmt.Sprintf("v%d", j))
			if j%2 == 1 {
				segs = append(segs, lit("m"))
			}
		}
		if k == 0 {
			segs = []tok{lit("s")}
		}
		maxUse := 3
		var rec func(use []int)
		rec = func(use []int) {
			var be []tok
			be = append(be, lit("/b"))
			for _, u := range use {
				be = append(be, lit("/"), ph(pn[u]))
			}
			specs = append(specs, routeSpec{segs: segs, be: be, vals: vals, tag: "orders"})
			if len(use) == maxUse {
				return
			}
			for u := 0; u < k; u++ {
				rec(append(append([]int(nil), use...), u))
			}
		}
		rec(nil)
	}
	if !cfg.Thorough() {
		// quick tier: keep every third of the longer sequences
		var kept []routeSpec
		for i, s := range specs {
			if len(params(s.be)) < 3 || i%3 == int(cfg.Seed%3) {
				kept = append(kept, s)
			}
		}
		specs = kept
	}
	g.runRoutes(specs, "exhaustive-orders")

	// init: declared set x used set over {a, A, b, ab} (accepted iff every used one is declared)
	univ := []string{"a", "A", "b", "ab"}
	for _, colon := range []bool{true, false} {
		for d := 0; d < 16; d++ {
			var segs []tok
			segs = append(segs, lit("u"))
			for j, n := range univ {
				if d&(1<<j) != 0 {
					segs = append(segs, ph(n))
				}
			}
			for u := 0; u < 16; u++ {
				be := []tok{lit("/b")}
				for j := len(univ) - 1; j >= 0; j-- {
					if u&(1<<j) != 0 {
						be = append(be, lit("/"), ph(univ[j]))
					}
				}
				g.initCase(colon, epToks(segs), be, "exhaustive-sets")
			}
		}
	}

	// ---- 4. structured random -----------------------------------------------------------
	nRand := 160
	if cfg.Thorough() {
		nRand = 4000
	}
	specs = nil
	lits := []string{"x", "v1", "api", "a.b", "k_9", "~t", "Z-z"}
	for i := 0; i < nRand; i++ {
		k := 1 + r.Intn(4)
		var names []string
		seen := map[string]bool{}
		for len(names) < k {
			var n string
			switch r.Intn(5) {
			case 4:
				// no length bound in the grammar: 20..80 characters, often at a power-of-two boundary
				l := 20 + r.Intn(61)
				if r.Bool() {
					l = longLengths[r.Intn(len(longLengths))]
				}
				n = randFrom(r, "abcXYZ", 1) + randFrom(r, grammar, l-1)
			case 0:
				n = randFrom(r, grammar, 1+r.Intn(3))
			case 1:
				n = randFrom(r, "abcXYZ", 1+r.Intn(3)) + randFrom(r, grammar, r.Intn(10))
			case 2:
				n = r.Pick(corpusNames)
			default:
				n = randFrom(r, "aA-_0", 1+r.Intn(5))
			}
			key := strings.ToUpper(n[:1]) + n[1:]
			if seen[key] && !r.Chance(1, 12) {
				continue // colliding capitalisations only now and then
			}
			seen[key] = true
			dup := false
			for _, m := range names {
				dup = dup || m == n
			}
			if !dup {
				names = append(names, n)
			}
		}
		var segs []tok
		var vals []string
		for _, n := range names {
			if r.Chance(1, 3) {
				segs = append(segs, lit(r.Pick(lits)))
			}
			segs = append(segs, ph(n))
			vals = append(vals, randValue(r))
		}
		if r.Chance(1, 4) {
			segs = append(segs, lit(r.Pick(lits)))
		}
		be := []tok{lit("/")}
		nuse := r.Intn(6)
		for j := 0; j < nuse; j++ {
			switch r.Intn(5) {
			case 0:
				be = append(be, lit(r.Pick(lits)))
			case 1:
				be = append(be, lit("/"))
			default:
				be = append(be, ph(names[r.Intn(len(names))]))
				if r.Chance(2, 3) {
					be = append(be, lit("/"))
				}
			}
		}
		extra := r.Chance(1, 15)
		if extra {
			be = append(be, lit("/"), ph(randFrom(r, grammar, 1+r.Intn(3)))) // most likely undeclared
		}
		var be2 []tok
		if i%5 == 4 && !extra {
			be2 = []tok{lit("/two")}
			for j := r.Intn(4); j > 0; j-- {
				be2 = append(be2, lit("/"), ph(names[r.Intn(len(names))]))
			}
		}
		var more [][]string
		if i%4 == 0 {
			// the same route again, through the same router instance, with other values
			for j := 2 + r.Intn(3); j > 0; j-- {
				vs := make([]string, len(vals))
				for x := range vs {
					if r.Chance(1, 4) {
						vs[x] = vals[(x+1)%len(vals)] // a value another parameter had before
					} else {
						vs[x] = randValue(r)
					}
				}
				more = append(more, vs)
			}
		}
		specs = append(specs, routeSpec{segs: segs, be: be, be2: be2, vals: vals, more: more, tag: "random"})
	}
	g.runRoutes(specs, "random")

	// random init cases: names close to each other (case variants, prefixes)
	nInit := 300
	if cfg.Thorough() {
		nInit = 6000
	}
	for i := 0; i < nInit; i++ {
		base := randFrom(r, "abAB1-_", 1+r.Intn(3))
		variants := []string{base, strings.ToUpper(base), strings.ToLower(base), base + "x", strings.ToUpper(base[:1]) + base[1:], "x" + base,
			"resp0_" + base, "JWT." + base, "resp" + base, base + ".y"}
		var segs []tok
		segs = append(segs, lit("u"))
		nd := r.Intn(3)
		for j := 0; j < nd; j++ {
			segs = append(segs, ph(variants[r.Intn(5)]))
		}
		be := []tok{lit("/b")}
		nu := r.Intn(4)
		for j := 0; j < nu; j++ {
			be = append(be, lit("/"), ph(r.Pick(variants)))
		}
		g.initCase(r.Bool(), epToks(segs), be, "random")
	}

	// ---- 5. malformed stream (raw text through Init only) -----------------------------
	nRaw := 200
	if cfg.Thorough() {
		nRaw = 4000
	}
	pieces := []string{"/", "{", "}", "a", "A", "b", "{a}", "{b}", "{A}", "/{a}", "/{b}", ".", ":", "-", "_", "?", "{{", "}}", "{{.A}}", "resp0_", "JWT.", "1"}
	for i := 0; i < nRaw; i++ {
		mk := func(n int) string {
			s := "/"
			for j := 0; j < n; j++ {
				s += r.Pick(pieces)
			}
			return s
		}
		g.initRaw(r.Bool(), mk(1+r.Intn(6)), mk(1+r.Intn(6)), "malformed")
	}

	w.Close("corpus (40 names incl. lengths 20..80 x 5 adapters, every order of 3-4 parameters containing a first-character-case pair, names next to the resp<N>_/JWT. reference syntax declared and undeclared with the sequential flag off/on, endpoint/backend input_query_strings x client queries with dropped keys, placeholders in the query part of the url_pattern with forwarded client queries of the same name, values with dots inside, collisions, raw patterns) -> several endpoints per configuration (every ordered selection of 2-3 (thorough 4) of 6 endpoints, some using a parameter only another endpoint declares; Init of the whole, then every endpoint routed) and instance reuse (one router instance per adapter: 3-5 different value vectors per route, routes alternating; 12 goroutines x 40 rounds over 12 inputs per adapter, distinct (input, observation) pairs) -> library casers vs ASCII models (all names of length <= 4 (thorough 5) over abAB01-_zZ9, all 256 single bytes) -> every name of length <= 4 (thorough 6) over {a,B,1,-,_} routed under each of the 5 adapters; 0..4 parameters with every sequence of <= 3 uses; declared x used subsets of {a,A,b,ab} through Init in both routing modes -> random names over the whole grammar, 1-4 parameters, random url_pattern shapes, unreserved values -> malformed raw patterns through Init; nontrivial = a parameter is declared and used (route) / Init rejects (init)", true)
}
