// C18 generator: drives the real static middleware, the real modifier-plugin middlewares
// (endpoint and backend flavour) and the stack built by proxy.DefaultFactory with
// in-process registered modifiers that log their invocation and fail on command, around
// stub proxies with scripted results, and records the call log and the result.
package main

import (
	"context"
	"encoding/json"
	"errors"
	"fmt"
	"net/url"
	"sort"
	"strings"
	"time"

	"github.com/luraproject/lura/v2/config"
	"github.com/luraproject/lura/v2/logging"
	"github.com/luraproject/lura/v2/proxy"
	"github.com/luraproject/lura/v2/proxy/plugin"

	"verif/harness/internal/emit"
	"verif/harness/internal/out"
	"verif/harness/internal/rng"
)

// ---------------------------------------------------------------- inner (stub) results

type inner struct {
	kind     int // 0: nil response, 1: Data nil, 2: Data empty, 3..: Data = dataSets[kind-3]
	complete bool
	errMsg   string // "": no error
}

var innerData = []map[string]interface{}{
	{"a": json.Number("1"), "b": "inner"},
	{"a": map[string]interface{}{"n": []interface{}{json.Number("1"), nil, true}}, "k\x00é": "v", "": json.Number("0")},
	// used by the instance-reuse streams only
	{"c": "third", "s": "inner-s"},
	{"d": []interface{}{json.Number("4")}, "a": "fourth"},
}

func (in inner) data() map[string]interface{} {
	if in.kind < 3 {
		return nil
	}
	return innerData[in.kind-3]
}

func cloneJSON(v interface{}) interface{} {
	switch x := v.(type) {
	case map[string]interface{}:
		m := make(map[string]interface{}, len(x))
		for k, e := range x {
			m[k] = cloneJSON(e)
		}
		return m
	case []interface{}:
		l := make([]interface{}, len(x))
		for i, e := range x {
			l[i] = cloneJSON(e)
		}
		return l
	}
	return v
}

type innerErr struct{ msg string }

func (e innerErr) Error() string { return e.msg }

func (in inner) result() (*proxy.Response, error) {
	var err error
	if in.errMsg != "" {
		err = innerErr{in.errMsg}
	}
	switch in.kind {
	case 0:
		return nil, err
	case 1:
		return &proxy.Response{IsComplete: in.complete}, err
	case 2:
		return &proxy.Response{Data: map[string]interface{}{}, IsComplete: in.complete}, err
	}
	return &proxy.Response{Data: cloneJSON(in.data()).(map[string]interface{}), IsComplete: in.complete}, err
}

func respCoq(nilResp, nilData bool, data map[string]interface{}, complete bool) string {
	if nilResp {
		return "None"
	}
	d := "None"
	if !nilData {
		d = emit.Some(emit.Obj(data))
	}
	return emit.Some(fmt.Sprintf("{| r_data := %s; r_complete := %s |}", d, emit.Bool(complete)))
}

func (in inner) coqResp() string {
	return respCoq(in.kind == 0, in.kind == 1, in.data(), in.complete)
}

func (in inner) coqErr() string {
	if in.errMsg == "" {
		return "ENone"
	}
	return emit.App("EInner", emit.Str(in.errMsg))
}

func (in inner) js() map[string]interface{} {
	m := map[string]interface{}{"error": in.errMsg}
	switch in.kind {
	case 0:
		m["response"] = nil
	case 1:
		m["response"] = map[string]interface{}{"data": nil, "complete": in.complete}
	default:
		d := in.data()
		if d == nil {
			d = map[string]interface{}{}
		}
		m["response"] = map[string]interface{}{"data": d, "complete": in.complete}
	}
	return m
}

func (in inner) key() string { return fmt.Sprintf("%d/%v/%s", in.kind, in.complete, in.errMsg) }

// every inner outcome: nil / Data nil / empty / non-empty, complete or not, with or without error
func allInner(nData int) []inner {
	var l []inner
	for _, e := range []string{"", "boom"} {
		l = append(l, inner{0, false, e})
		for k := 1; k < 3+nData; k++ {
			for _, c := range []bool{true, false} {
				l = append(l, inner{k, c, e})
			}
		}
	}
	return l
}

// ---------------------------------------------------------------- observations

type modErr struct {
	lv  string
	pos int
}

func (e modErr) Error() string { return fmt.Sprintf("modifier %s#%d failed", e.lv, e.pos) }

func lvCoq(lv string) string {
	if lv == "E" {
		return "LEndpoint"
	}
	return "LBackend"
}

type event struct {
	kind string // req | resp | backend | odd
	lv   string
	pos  int
	seen []string // the trace the modifier / the backend saw (value cases)
}

func (e event) coq() string {
	switch e.kind {
	case "req":
		return emit.App("EvReq", lvCoq(e.lv), emit.Nat(e.pos))
	case "resp":
		return emit.App("EvResp", lvCoq(e.lv), emit.Nat(e.pos))
	case "backend":
		return "EvBackend"
	}
	// a modifier invoked with something that is neither wrapper: shows as a disagreement
	return emit.App("EvReq", lvCoq(e.lv), emit.Nat(1000000+e.pos))
}

func (e event) String() string {
	if e.kind == "backend" {
		return "BACKEND"
	}
	return fmt.Sprintf("%s:%s#%d", e.kind, e.lv, e.pos)
}

type observed struct {
	log      []event
	panicked string
	resp     *proxy.Response
	err      error
}

func (o observed) outcomeCoq() string {
	if o.panicked != "" {
		return "OPanic"
	}
	r := "None"
	if o.resp != nil {
		r = respCoq(false, o.resp.Data == nil, o.resp.Data, o.resp.IsComplete)
	}
	e := "ENone"
	if o.err != nil {
		var me modErr
		var ie innerErr
		switch {
		case errors.As(o.err, &me):
			e = emit.App("EMod", lvCoq(me.lv), emit.Nat(me.pos))
		case errors.As(o.err, &ie):
			e = emit.App("EInner", emit.Str(ie.msg))
		default:
			e = emit.App("EOther", emit.Str(o.err.Error()))
		}
	}
	return emit.App("ORet", r, e)
}

func (o observed) compCoq() string {
	evs := make([]string, len(o.log))
	for i, e := range o.log {
		evs[i] = e.coq()
	}
	return emit.Pair(emit.List(evs), o.outcomeCoq())
}

func (o observed) js() map[string]interface{} {
	m := map[string]interface{}{}
	if o.log != nil {
		l := make([]string, len(o.log))
		for i, e := range o.log {
			l[i] = e.String()
		}
		m["log"] = strings.Join(l, " ")
	}
	if o.panicked != "" {
		m["panic"] = o.panicked
		return m
	}
	if o.resp == nil {
		m["response"] = nil
	} else {
		var d interface{}
		if o.resp.Data != nil {
			d = o.resp.Data
		}
		m["response"] = map[string]interface{}{"data": d, "complete": o.resp.IsComplete}
	}
	if o.err != nil {
		m["error"] = o.err.Error()
	} else {
		m["error"] = ""
	}
	return m
}

// ---------------------------------------------------------------- modifiers

// registrations, process wide, done once
var pool = []struct{ name, reg string }{
	{"rq0", "req"}, {"rq1", "req"}, {"rq2", "req"}, {"", "req"}, {"x y/ü", "req"},
	{"rs0", "resp"}, {"rs1", "resp"}, {"rs2", "resp"}, {"R\x00s", "resp"},
	{"bo0", "both"}, {"bo1", "both2"},
	{"un0", ""}, {"RQ0", ""}, {"rq0 ", ""}, {"rs", ""},
}

var regOf = map[string]string{}
var namesOf = map[string][]string{}

// state of one configured middleware (one level of one case), handed to the factories
// inside the plugin configuration map itself
type lvState struct {
	lv      string
	entries []entry
	claimed map[string]int
	log     *[]event
}

type entry struct {
	str  bool   // false: the array element is not a string
	name string // when str
	beh  string // ok | fail | fail-same | fail-mod | fail-junk | ignored | nilfactory
}

// the ways a modifier can fail: every one returns an error, next to nil / its input wrapper /
// a modified wrapper / a value that is no wrapper.  All of them are the model's BFail.
var failShapes = []string{"fail", "fail-same", "fail-mod", "fail-junk"}

func isFail(b string) bool { return strings.HasPrefix(b, "fail") }

var failRotation int

// the next failure shape, in rotation (deterministic in generation order)
func nextFail() string {
	failRotation++
	return failShapes[failRotation%len(failShapes)]
}

// wrappers a failing (or any) modifier can hand back instead of its input
type modReq struct{ proxy.RequestWrapper }

func (m modReq) Method() string { return "MODIFIED" }
func (m modReq) Context() context.Context {
	if c, ok := m.RequestWrapper.(interface{ Context() context.Context }); ok {
		return c.Context()
	}
	return nil
}

type modResp struct{ proxy.ResponseWrapper }

func (m modResp) StatusCode() int { return 299 }
func (m modResp) Context() context.Context {
	if c, ok := m.ResponseWrapper.(interface{ Context() context.Context }); ok {
		return c.Context()
	}
	return nil
}

func modified(in interface{}) interface{} {
	switch x := in.(type) {
	case proxy.RequestWrapper:
		return modReq{x}
	case proxy.ResponseWrapper:
		return modResp{x}
	}
	return in
}

func behCoq(b string) string {
	if isFail(b) {
		return "BFail"
	}
	switch b {
	case "modify":
		return "BModify"
	case "strip":
		return "BStrip"
	case "ignored":
		return "BIgnored"
	case "nilfactory":
		return "BNilFactory"
	}
	return "BOk"
}

// position of the k-th occurrence (k = number of earlier factory calls for that name)
func (st *lvState) claim(name string) int {
	k := st.claimed[name]
	st.claimed[name] = k + 1
	for i, e := range st.entries {
		if e.str && e.name == name {
			if k == 0 {
				return i
			}
			k--
		}
	}
	return 100000 + st.claimed[name] // a factory call the configuration does not account for
}

func factory(name string) func(map[string]interface{}) func(interface{}) (interface{}, error) {
	return func(cfg map[string]interface{}) func(interface{}) (interface{}, error) {
		st, _ := cfg["verif_state"].(*lvState)
		if st == nil {
			return nil
		}
		pos := st.claim(name)
		beh := "ok"
		if pos < len(st.entries) {
			beh = st.entries[pos].beh
		}
		if beh == "nilfactory" {
			return nil
		}
		return func(in interface{}) (interface{}, error) {
			// instance reuse: the behaviour of this call and its log travel in the context
			// the wrappers expose; otherwise the instance-level state is used
			b := beh
			var cs *callState
			if c, ok := in.(interface{ Context() context.Context }); ok && c.Context() != nil {
				cs, _ = c.Context().Value(ctxKey{}).(*callState)
			}
			if cs != nil {
				if bb := cs.beh[st.lv]; pos < len(bb) {
					b = bb[pos]
				}
			}
			kind := "odd"
			switch in.(type) {
			case proxy.RequestWrapper:
				kind = "req"
			case proxy.ResponseWrapper:
				kind = "resp"
			}
			ev := event{kind: kind, lv: st.lv, pos: pos, seen: seenOf(in)}
			if cs != nil {
				cs.add(ev)
			} else if st.log != nil {
				*st.log = append(*st.log, ev)
			}
			switch b {
			case "modify":
				return withTag(in, fmt.Sprintf("%s:%d", st.lv, pos)), nil
			case "strip":
				return stripped(in), nil
			case "fail":
				return nil, modErr{st.lv, pos}
			case "fail-same":
				return in, modErr{st.lv, pos}
			case "fail-mod":
				return modified(in), modErr{st.lv, pos}
			case "fail-junk":
				return "not a wrapper", modErr{st.lv, pos}
			case "ignored":
				return "not a wrapper", nil
			}
			return in, nil
		}
	}
}

func registerPool() {
	for _, p := range pool {
		regOf[p.name] = p.reg
		switch p.reg {
		case "req":
			plugin.RegisterModifier(p.name, factory(p.name), true, false)
			namesOf["req"] = append(namesOf["req"], p.name)
		case "resp":
			plugin.RegisterModifier(p.name, factory(p.name), false, true)
			namesOf["resp"] = append(namesOf["resp"], p.name)
		case "both":
			plugin.RegisterModifier(p.name, factory(p.name), true, true)
			namesOf["both"] = append(namesOf["both"], p.name)
		case "both2": // two registrations, response side first
			plugin.RegisterModifier(p.name, factory(p.name), false, true)
			plugin.RegisterModifier(p.name, factory(p.name), true, false)
			regOf[p.name] = "both"
			namesOf["both"] = append(namesOf["both"], p.name)
		default:
			namesOf["none"] = append(namesOf["none"], p.name)
		}
	}
}

// ---------------------------------------------------------------- plugin config shapes

type pshape struct {
	kind    string // nons | nsnotmap | noname | namenotlist | names
	variant int
	entries []entry
}

func (p pshape) coq() string {
	switch p.kind {
	case "nons":
		return "PNoNamespace"
	case "nsnotmap":
		return "PNamespaceNotMap"
	case "noname":
		return "PNoName"
	case "namenotlist":
		return "PNameNotList"
	}
	xs := make([]string, len(p.entries))
	for i, e := range p.entries {
		c := "CNotString"
		if e.str {
			c = emit.App("CStr", emit.Str(e.name))
		}
		xs[i] = emit.Pair(c, behCoq(e.beh))
	}
	return emit.App("PNames", emit.List(xs))
}

func (p pshape) String() string {
	if p.kind != "names" {
		return p.kind
	}
	xs := make([]string, len(p.entries))
	for i, e := range p.entries {
		if e.str {
			xs[i] = fmt.Sprintf("%q(%s):%s", e.name, regOf[e.name], e.beh)
		} else {
			xs[i] = "<non-string>"
		}
	}
	return "[" + strings.Join(xs, " ") + "]"
}

// the extra_config of the endpoint/backend for this shape
func (p pshape) extra(st *lvState, ec config.ExtraConfig) {
	switch p.kind {
	case "nons":
	case "nsnotmap":
		ec[plugin.Namespace] = []interface{}{"rq0", "x", map[int]int{}}[p.variant%3]
	case "noname":
		ec[plugin.Namespace] = map[string]interface{}{"verif_state": st, "names": []interface{}{"rq0"}}
	case "namenotlist":
		ec[plugin.Namespace] = map[string]interface{}{"verif_state": st,
			"name": []interface{}{[]string{"rq0", "rs0"}, "rq0", nil, map[string]interface{}{"rq0": true}}[p.variant%4]}
	default:
		l := make([]interface{}, len(p.entries))
		for i, e := range p.entries {
			if e.str {
				l[i] = e.name
			} else {
				l[i] = []interface{}{json.Number("7"), nil, true, []interface{}{"rq0"}, 3.5}[(i+p.variant)%5]
			}
		}
		ec[plugin.Namespace] = map[string]interface{}{"verif_state": st, "name": l}
	}
}

// registry restricted to the names the case uses (truthful: taken from the pool)
func registryCoq(shapes ...pshape) string {
	seen := map[string]bool{}
	var names []string
	for _, p := range shapes {
		for _, e := range p.entries {
			if e.str && !seen[e.name] {
				seen[e.name] = true
				names = append(names, e.name)
			}
		}
	}
	sort.Strings(names)
	var xs []string
	for _, n := range names {
		switch regOf[n] {
		case "req":
			xs = append(xs, emit.Pair(emit.Str(n), "RReq"))
		case "resp":
			xs = append(xs, emit.Pair(emit.Str(n), "RResp"))
		case "both":
			xs = append(xs, emit.Pair(emit.Str(n), "RBoth"))
		}
	}
	return emit.List(xs)
}

// ---------------------------------------------------------------- static config shapes

type sshape struct {
	kind     string // nons | nsnotmap | nostatic | staticnotmap | datanotmap | ok
	variant  int
	data     map[string]interface{}
	strategy *string // nil: absent
	stOther  bool    // strategy present but not a string
}

func (s sshape) svalCoq() string {
	if s.stOther {
		return "VOther"
	}
	if s.strategy == nil {
		return "VAbsent"
	}
	return emit.App("VStr", emit.Str(*s.strategy))
}

func (s sshape) coq() string {
	switch s.kind {
	case "nons":
		return "ShNoNamespace"
	case "nsnotmap":
		return "ShNamespaceNotMap"
	case "nostatic":
		return "ShNoStatic"
	case "staticnotmap":
		return "ShStaticNotMap"
	case "datanotmap":
		return emit.App("ShDataNotMap", s.svalCoq())
	}
	return emit.App("ShOk", emit.Obj(s.data), s.svalCoq())
}

func (s sshape) js() map[string]interface{} {
	m := map[string]interface{}{"shape": s.kind}
	if s.kind == "ok" {
		m["data"] = s.data
	}
	if s.stOther {
		m["strategy"] = "<non-string>"
	} else if s.strategy != nil {
		m["strategy"] = *s.strategy
	} else {
		m["strategy"] = nil
	}
	return m
}

func (s sshape) key() string {
	b, _ := json.Marshal(s.js())
	return string(b)
}

func (s sshape) extra(ec config.ExtraConfig) {
	st := map[string]interface{}{}
	if s.stOther {
		st["strategy"] = []interface{}{json.Number("1"), true, []interface{}{"errored"}}[s.variant%3]
	} else if s.strategy != nil {
		st["strategy"] = *s.strategy
	}
	switch s.kind {
	case "nons":
	case "nsnotmap":
		ec[proxy.Namespace] = []interface{}{"static", []interface{}{}, json.Number("1")}[s.variant%3]
	case "nostatic":
		ec[proxy.Namespace] = map[string]interface{}{"Static": map[string]interface{}{"data": map[string]interface{}{"s": 1}}, "sequential": true}
	case "staticnotmap":
		ec[proxy.Namespace] = map[string]interface{}{"static": []interface{}{"data", []interface{}{}, nil}[s.variant%3]}
	case "datanotmap":
		switch s.variant % 3 {
		case 0:
		case 1:
			st["data"] = "s"
		case 2:
			st["data"] = []interface{}{map[string]interface{}{"s": 1}}
		}
		ec[proxy.Namespace] = map[string]interface{}{"static": st}
	default:
		st["data"] = cloneJSON(s.data)
		ec[proxy.Namespace] = map[string]interface{}{"static": st}
	}
}

var staticData = []map[string]interface{}{
	{"s": json.Number("1")},
	{},
	{"a": "static-wins"},
	{"a": json.Number("1")},
	{"a": nil, "s": map[string]interface{}{"deep": []interface{}{json.Number("1.50"), "x", map[string]interface{}{}}}, "t": false},
	{"b": "inner", "z": []interface{}{}},
	{"": "empty-key", "k\x00é": json.Number("-0"), "A": "case"},
	{"s1": "1", "s2": "2", "s3": "3", "s4": "4", "s5": "5", "s6": "6", "s7": "7", "s8": "8"},
}

func sp(s string) *string { return &s }

var strategies = []struct {
	s     *string
	other bool
}{
	{nil, false}, {sp("always"), false}, {sp("success"), false}, {sp("errored"), false}, {sp("complete"), false},
	{sp("incomplete"), false}, {sp("whatever"), false}, {sp(""), false}, {sp("Success"), false}, {sp("complete "), false},
	{sp("error"), false}, {sp("incomplet"), false}, {nil, true},
}

// ---------------------------------------------------------------- running the real code

func request() *proxy.Request {
	u, _ := url.Parse("http://h/x")
	return &proxy.Request{Method: "GET", URL: u, Path: "/x", Query: url.Values{}, Headers: map[string][]string{}, Params: map[string]string{}}
}

func call(p proxy.Proxy, log *[]event) (o observed) {
	defer func() {
		if r := recover(); r != nil {
			o.panicked = fmt.Sprint(r)
		}
		if log != nil {
			o.log = append([]event{}, (*log)...)
			if o.log == nil {
				o.log = []event{}
			}
		}
	}()
	ctx, cancel := context.WithCancel(context.Background())
	defer cancel()
	o.resp, o.err = p(ctx, request())
	return
}

func stub(in inner, log *[]event) proxy.Proxy {
	return func(context.Context, *proxy.Request) (*proxy.Response, error) {
		if log != nil {
			*log = append(*log, event{kind: "backend"})
		}
		return in.result()
	}
}

func build(f func() proxy.Proxy) (p proxy.Proxy, panicked string) {
	defer func() {
		if r := recover(); r != nil {
			panicked = fmt.Sprint(r)
		}
	}()
	return f(), ""
}

func runStatic(s sshape, in inner) observed {
	ec := config.ExtraConfig{}
	s.extra(ec)
	p, pan := build(func() proxy.Proxy {
		return proxy.NewStaticMiddleware(logging.NoOp, &config.EndpointConfig{Endpoint: "/x", ExtraConfig: ec})(stub(in, nil))
	})
	if pan != "" {
		return observed{panicked: "build: " + pan}
	}
	return call(p, nil)
}

func runPlugin(lv string, ps pshape, in inner) observed {
	log := []event{}
	st := &lvState{lv: lv, entries: ps.entries, claimed: map[string]int{}, log: &log}
	ec := config.ExtraConfig{}
	ps.extra(st, ec)
	p, pan := build(func() proxy.Proxy {
		if lv == "E" {
			return proxy.NewPluginMiddleware(logging.NoOp, &config.EndpointConfig{Endpoint: "/x", ExtraConfig: ec})(stub(in, &log))
		}
		return proxy.NewBackendPluginMiddleware(logging.NoOp, &config.Backend{URLPattern: "/b", ExtraConfig: ec})(stub(in, &log))
	})
	if pan != "" {
		return observed{panicked: "build: " + pan, log: []event{}}
	}
	return call(p, &log)
}

func runStack(s sshape, pe, pb pshape, in inner) observed {
	log := []event{}
	ste := &lvState{lv: "E", entries: pe.entries, claimed: map[string]int{}, log: &log}
	stb := &lvState{lv: "B", entries: pb.entries, claimed: map[string]int{}, log: &log}
	eec, bec := config.ExtraConfig{}, config.ExtraConfig{}
	s.extra(eec)
	pe.extra(ste, eec)
	pb.extra(stb, bec)
	ep := &config.EndpointConfig{Endpoint: "/x", Method: "GET", ExtraConfig: eec,
		Backend: []*config.Backend{{URLPattern: "/b", ExtraConfig: bec}}}
	sc := config.ServiceConfig{Version: config.ConfigVersion, Timeout: 5 * time.Second, Host: []string{"http://127.0.0.1:8081"},
		Endpoints: []*config.EndpointConfig{ep}}
	if err := sc.Init(); err != nil {
		panic(err)
	}
	p, pan := build(func() proxy.Proxy {
		q, err := proxy.NewDefaultFactory(func(*config.Backend) proxy.Proxy { return stub(in, &log) }, logging.NoOp).New(ep)
		if err != nil {
			panic(err)
		}
		return q
	})
	if pan != "" {
		return observed{panicked: "build: " + pan, log: []event{}}
	}
	return call(p, &log)
}

// ---------------------------------------------------------------- main

func main() {
	cfg := out.ParseFlags("C18")
	registerPool()
	if strings.HasPrefix(cfg.Extra, "conc:") {
		concChild(cfg) // child process of the concurrent instance-reuse stream
		return
	}
	r := rng.New(cfg.Seed)
	w := out.NewWriter(cfg, "Verif.Corr.C18", 400)
	if cfg.Only >= 0 {
		// replay of one case: the writer may have no sample to report (JSON null otherwise)
		w.Meta["samples"] = []interface{}{}
	}

	reuseCorpus(w)

	// ---- static middleware
	staticCase := func(s sshape, in inner) {
		o := runStatic(s, in)
		term := emit.App("CStatic", s.coq(), in.coqResp(), in.coqErr(), o.outcomeCoq())
		js := map[string]interface{}{"kind": "static", "config": s.js(), "inner": in.js(), "observed": o.js()}
		w.Count("static:shape:" + s.kind)
		if s.kind == "ok" {
			if s.strategy != nil {
				w.Count("static:strategy:" + *s.strategy)
			} else {
				w.Count("static:strategy:<none>")
			}
		}
		w.Count("inner:" + in.key())
		w.Add(term, js, "", "S|"+s.key()+"|"+in.key(), s.kind == "ok" && len(s.data) > 0)
	}
	inners := allInner(2)
	// regression corpus: the two outcomes static_test.go uses, plus the corner cases
	for _, st := range []string{"incomplete", "complete", "errored"} {
		staticCase(sshape{kind: "ok", data: staticData[2], strategy: sp(st)}, inner{0, false, ""})
		staticCase(sshape{kind: "ok", data: staticData[2], strategy: sp(st)}, inner{1, true, ""})
		staticCase(sshape{kind: "ok", data: staticData[2], strategy: sp(st)}, inner{3, true, "boom"})
	}
	// exhaustive: every strategy value x every inner outcome x data sets
	nd := 4
	if cfg.Thorough() {
		nd = len(staticData)
	}
	for si, st := range strategies {
		for _, in := range inners {
			for d := 0; d < nd; d++ {
				di := d
				if !cfg.Thorough() && d == 3 {
					di = 3 + r.Intn(len(staticData)-3)
				}
				staticCase(sshape{kind: "ok", variant: si + d, data: staticData[di], strategy: st.s, stOther: st.other}, in)
			}
		}
	}
	// configurations that are no static configuration
	for v := 0; v < 3; v++ {
		for _, k := range []string{"nons", "nsnotmap", "nostatic", "staticnotmap", "datanotmap"} {
			for _, in := range inners {
				if k == "nons" && v > 0 {
					continue
				}
				s := sshape{kind: k, variant: v}
				if k == "datanotmap" {
					st := strategies[(v+in.kind)%len(strategies)]
					s.strategy, s.stOther = st.s, st.other
				}
				staticCase(s, in)
			}
		}
	}

	// ---- modifier middlewares
	pluginInners := []inner{{3, true, ""}, {0, false, ""}, {3, false, "boom"}, {0, false, "boom"}, {1, false, ""}, {4, true, ""}, {2, true, "boom"}}
	pluginCase := func(lv string, ps pshape, in inner) {
		o := runPlugin(lv, ps, in)
		term := emit.App("CPlugin", lvCoq(lv), registryCoq(ps), ps.coq(), in.coqResp(), in.coqErr(), o.compCoq())
		js := map[string]interface{}{"kind": "plugin", "level": lv, "config": ps.String(), "inner": in.js(), "observed": o.js()}
		w.Count("plugin:level:" + lv)
		w.Count("plugin:shape:" + ps.kind)
		w.Count(fmt.Sprintf("plugin:len:%d", len(ps.entries)))
		w.Add(term, js, "", "P|"+lv+"|"+ps.String()+fmt.Sprint(ps.variant)+"|"+in.key(), len(ps.entries) > 0)
	}
	// letters of the small alphabet / the full alphabet
	type letter struct{ reg, beh string }
	small := []letter{{"req", "ok"}, {"req", "fail"}, {"resp", "ok"}, {"resp", "fail"}}
	var full []letter
	for _, g := range []string{"req", "resp", "both"} {
		for _, b := range []string{"ok", "fail", "ignored", "nilfactory"} {
			full = append(full, letter{g, b})
		}
	}
	full = append(full, letter{"none", "ok"}, letter{"nonstring", "ok"})
	mk := func(ls []letter, pick func(reg string, i int) string) pshape {
		ps := pshape{kind: "names", entries: []entry{}}
		for i, l := range ls {
			if l.reg == "nonstring" {
				ps.entries = append(ps.entries, entry{str: false, beh: l.beh})
				continue
			}
			b := l.beh
			if b == "fail" {
				b = nextFail() // every generated failure takes the next shape
			}
			ps.entries = append(ps.entries, entry{str: true, name: pick(l.reg, i), beh: b})
		}
		return ps
	}
	byPos := func(reg string, i int) string { return namesOf[reg][i%3%len(namesOf[reg])] }
	byPosName := byPos
	byRng := func(reg string, i int) string { return namesOf[reg][r.Intn(len(namesOf[reg]))] }
	var enum func(alpha []letter, n int, f func([]letter))
	enum = func(alpha []letter, n int, f func([]letter)) {
		idx := make([]int, n)
		for {
			ls := make([]letter, n)
			for i, k := range idx {
				ls[i] = alpha[k]
			}
			f(ls)
			i := n - 1
			for i >= 0 {
				idx[i]++
				if idx[i] < len(alpha) {
					break
				}
				idx[i] = 0
				i--
			}
			if i < 0 {
				return
			}
		}
	}
	// regression corpus (DESIGN 7, C18 "tried in round 0")
	corpus := [][]letter{
		{{"resp", "ok"}, {"req", "ok"}, {"resp", "ok"}, {"req", "ok"}},
		{{"req", "ok"}, {"req", "fail"}, {"req", "ok"}, {"resp", "ok"}},
		{{"req", "ok"}, {"resp", "ok"}, {"resp", "fail"}, {"resp", "ok"}},
		{{"both", "ok"}, {"both", "fail"}},
		{{"none", "ok"}, {"nonstring", "ok"}},
		{{"resp", "ok"}},
		{{"req", "nilfactory"}, {"resp", "nilfactory"}, {"both", "nilfactory"}},
	}
	for _, lv := range []string{"E", "B"} {
		for _, c := range corpus {
			for _, in := range pluginInners[:4] {
				pluginCase(lv, mk(c, byPos), in)
			}
		}
	}
	// shapes that configure nothing
	for _, lv := range []string{"E", "B"} {
		for v := 0; v < 4; v++ {
			for _, k := range []string{"nons", "nsnotmap", "noname", "namenotlist"} {
				if k == "nons" && v > 0 {
					continue
				}
				pluginCase(lv, pshape{kind: k, variant: v}, pluginInners[v%len(pluginInners)])
				pluginCase(lv, pshape{kind: k, variant: v}, pluginInners[(v+1)%len(pluginInners)])
			}
		}
	}
	// corpus: a failure that comes with a usable wrapper / a modified wrapper / junk must
	// abort exactly like (nil, err), on both sides
	keep := func(ls []letter) pshape {
		ps := pshape{kind: "names", entries: []entry{}}
		for i, l := range ls {
			ps.entries = append(ps.entries, entry{str: true, name: byPosName(l.reg, i), beh: l.beh})
		}
		return ps
	}
	for _, lv := range []string{"E", "B"} {
		for _, sh := range failShapes {
			pluginCase(lv, keep([]letter{{"req", "ok"}, {"req", sh}, {"req", "ok"}, {"resp", "ok"}}), pluginInners[0])
			pluginCase(lv, keep([]letter{{"req", "ok"}, {"resp", "ok"}, {"resp", sh}, {"resp", "ok"}}), pluginInners[0])
			pluginCase(lv, keep([]letter{{"both", sh}, {"resp", "ok"}}), pluginInners[0])
		}
	}
	// exhaustive over the failure shapes: every sequence over {req,resp} x {ok, 4 failure shapes}
	maxShapes := 2
	if cfg.Thorough() {
		maxShapes = 3
	}
	var shapeAlpha []letter
	for _, g := range []string{"req", "resp"} {
		shapeAlpha = append(shapeAlpha, letter{g, "ok"})
		for _, sh := range failShapes {
			shapeAlpha = append(shapeAlpha, letter{g, sh})
		}
	}
	for _, lv := range []string{"E", "B"} {
		for n := 1; n <= maxShapes; n++ {
			enum(shapeAlpha, n, func(ls []letter) {
				pluginCase(lv, keep(ls), pluginInners[0])
				pluginCase(lv, keep(ls), pluginInners[2])
			})
		}
	}
	// exhaustive: all sequences over {req,resp} x {ok,fail} up to maxSmall, every failing subset
	// (each generated failure takes the next failure shape in rotation)
	maxSmall, nIn, maxFull := 4, 4, 2
	if cfg.Thorough() {
		maxSmall, nIn, maxFull = 6, 5, 3
	}
	for _, lv := range []string{"E", "B"} {
		for n := 0; n <= maxSmall; n++ {
			enum(small, n, func(ls []letter) {
				for k := 0; k < nIn; k++ {
					if n > 4 && k >= 2 {
						continue
					}
					pluginCase(lv, mk(ls, byPos), pluginInners[k])
				}
			})
		}
		for n := 1; n <= maxFull; n++ {
			enum(full, n, func(ls []letter) {
				pluginCase(lv, mk(ls, byPos), pluginInners[0])
				pluginCase(lv, mk(ls, byPos), pluginInners[1+r.Intn(len(pluginInners)-1)])
			})
		}
	}
	// random: long lists over the full alphabet, duplicate names, every inner outcome
	nRand := 700
	if cfg.Thorough() {
		nRand = 15000
	}
	randShape := func(maxLen int) pshape {
		n := r.Intn(maxLen + 1)
		ls := make([]letter, n)
		failBias := r.Intn(4)
		for i := range ls {
			ls[i] = full[r.Intn(len(full))]
			if failBias == 0 && isFail(ls[i].beh) && r.Chance(2, 3) {
				ls[i].beh = "ok"
			}
		}
		ps := mk(ls, byRng)
		ps.variant = r.Intn(5)
		return ps
	}
	for i := 0; i < nRand; i++ {
		lv := []string{"E", "B"}[r.Intn(2)]
		pluginCase(lv, randShape(9), inners[r.Intn(len(inners))])
	}

	// ---- the stack of DefaultFactory: static o endpoint plugin o ... o backend plugin o backend
	stackCase := func(s sshape, pe, pb pshape, in inner) {
		o := runStack(s, pe, pb, in)
		term := emit.App("CStack", s.coq(), registryCoq(pe, pb), pe.coq(), pb.coq(), in.coqResp(), in.coqErr(), o.compCoq())
		js := map[string]interface{}{"kind": "stack", "static": s.js(), "endpoint_plugins": pe.String(), "backend_plugins": pb.String(), "inner": in.js(), "observed": o.js()}
		w.Count("stack")
		w.Count("stack:static:" + s.kind)
		w.Add(term, js, "", "K|"+s.key()+"|"+pe.String()+"|"+pb.String()+"|"+in.key(), true)
	}
	none := pshape{kind: "nons"}
	eShapes := []pshape{
		none,
		mk([]letter{{"req", "ok"}, {"resp", "ok"}}, byPos),
		mk([]letter{{"req", "fail"}, {"resp", "ok"}}, byPos),
		mk([]letter{{"resp", "ok"}, {"resp", "fail"}}, byPos),
		mk([]letter{{"resp", "ok"}, {"req", "ok"}, {"resp", "ok"}, {"req", "ok"}}, byPos),
		mk([]letter{{"req", "ok"}, {"req", "fail"}}, byPos),
	}
	bShapes := []pshape{
		none,
		mk([]letter{{"resp", "ok"}, {"req", "ok"}}, byPos),
		mk([]letter{{"req", "ok"}, {"req", "fail"}, {"resp", "ok"}}, byPos),
		mk([]letter{{"resp", "fail"}}, byPos),
		mk([]letter{{"both", "ok"}, {"resp", "ok"}, {"resp", "ok"}}, byPos),
	}
	stackInners := []inner{{3, true, ""}, {0, false, ""}, {3, false, "boom"}, {0, false, "boom"}, {2, false, ""}}
	stackStrategies := []int{0, 2, 3, 4, 5, 6}
	nsd := 1
	if cfg.Thorough() {
		nsd = 3
	}
	for _, si := range stackStrategies {
		for d := 0; d < nsd; d++ {
			for _, pe := range eShapes {
				for _, pb := range bShapes {
					for _, in := range stackInners {
						stackCase(sshape{kind: "ok", data: staticData[[]int{2, 0, 4}[d]], strategy: strategies[si].s}, pe, pb, in)
					}
				}
			}
		}
	}
	for _, pe := range eShapes {
		for _, pb := range bShapes[:3] {
			stackCase(sshape{kind: "nons"}, pe, pb, stackInners[0])
			stackCase(sshape{kind: "datanotmap", variant: 1, strategy: sp("always")}, pe, pb, stackInners[2])
		}
	}
	nRandStack := 500
	if cfg.Thorough() {
		nRandStack = 8000
	}
	for i := 0; i < nRandStack; i++ {
		st := strategies[r.Intn(len(strategies))]
		s := sshape{kind: "ok", variant: r.Intn(3), data: staticData[r.Intn(len(staticData))], strategy: st.s, stOther: st.other}
		if r.Chance(1, 12) {
			s = sshape{kind: []string{"nons", "nsnotmap", "nostatic", "staticnotmap", "datanotmap"}[r.Intn(5)], variant: r.Intn(3)}
		}
		pe, pb := randShape(5), randShape(5)
		if r.Chance(1, 8) {
			pe = pshape{kind: []string{"nons", "nsnotmap", "noname", "namenotlist"}[r.Intn(4)], variant: r.Intn(4)}
		}
		if r.Chance(1, 8) {
			pb = pshape{kind: []string{"nons", "nsnotmap", "noname", "namenotlist"}[r.Intn(4)], variant: r.Intn(4)}
		}
		stackCase(s, pe, pb, inners[r.Intn(len(inners))])
	}

	reuseStreams(cfg, w, r)
	threadStreams(cfg, w, r)

	w.Close(fmt.Sprintf("values (CThread): modifiers that append their tag to a trace header of the request / a metadata header of the response, hand their input on, return a non-wrapper or fail; compared: the trace every modifier and the backend saw and the trace of the returned response - every sequence up to length 3 (thorough 4) over {request,response} x {ok,modify,non-wrapper,fail} through both middleware constructors, endpoint x backend lists through DefaultFactory, random, and sequences through one instance; failing modifiers are realised in 4 shapes - (nil | input wrapper | modified wrapper | non-wrapper value, err) - in rotation everywhere, plus every sequence up to length 2 (thorough 3) over {request,response} x {ok, 4 shapes} and a corpus; instance reuse: one static / plugin / DefaultFactory proxy serving sequences of 5-7 different inner outcomes and failing-modifier choices (each step a normal case), and the same instances hit by 12 goroutines over 12 distinct inputs (each distinct (input, observation) once); static middleware: %d strategy values (5 names, absent, non-string, unknown/misspelt) x %d inner outcomes (nil / Data nil / empty / non-empty, complete or not, with or without error) x data sets (empty, disjoint, overriding, nested, odd keys) + every non-configuration shape; "+
		"plugin middlewares (endpoint and backend constructor): every sequence over {request,response}x{ok,fail} of length <= %d (every failing subset) x %d inner outcomes, every sequence of length <= %d over the 14-letter alphabet (request/response/both x ok/fail/non-wrapper result/nil factory, unknown name, non-string), random lists up to 9 with duplicate names; "+
		"DefaultFactory stack with one backend: 6 strategies x 6 endpoint x 5 backend modifier lists x 5 backend results + random; nontrivial = static data non-empty / at least one configured name / stack case",
		len(strategies), len(inners), maxSmall, nIn, maxFull), true)
}
