// Value cases (CThread): what each modifier and the backend SEE.  The request value is
// observed through a trace header, the response value through a metadata header; a
// "modify" modifier returns a new wrapper whose trace is its input's plus its own tag, "ok"
// returns its input, "ignored" returns a non-wrapper, failures as everywhere else.
package main

import (
	"context"
	"fmt"
	"strconv"
	"strings"

	"github.com/luraproject/lura/v2/proxy"

	"verif/harness/internal/emit"
	"verif/harness/internal/out"
	"verif/harness/internal/rng"
)

const traceKey = "X-Verif-Trace"

type traceReq struct {
	proxy.RequestWrapper
	h map[string][]string
}

func (t traceReq) Headers() map[string][]string { return t.h }
func (t traceReq) Context() context.Context {
	if c, ok := t.RequestWrapper.(interface{ Context() context.Context }); ok {
		return c.Context()
	}
	return nil
}

type traceResp struct {
	proxy.ResponseWrapper
	h map[string][]string
}

func (t traceResp) Headers() map[string][]string { return t.h }
func (t traceResp) Context() context.Context {
	if c, ok := t.ResponseWrapper.(interface{ Context() context.Context }); ok {
		return c.Context()
	}
	return nil
}

// wrappers whose header / param maps are nil: the modifier removed everything
type stripReq struct{ proxy.RequestWrapper }

func (t stripReq) Headers() map[string][]string { return nil }
func (t stripReq) Params() map[string]string    { return nil }
func (t stripReq) Context() context.Context {
	if c, ok := t.RequestWrapper.(interface{ Context() context.Context }); ok {
		return c.Context()
	}
	return nil
}

type stripResp struct{ proxy.ResponseWrapper }

func (t stripResp) Headers() map[string][]string { return nil }
func (t stripResp) Context() context.Context {
	if c, ok := t.ResponseWrapper.(interface{ Context() context.Context }); ok {
		return c.Context()
	}
	return nil
}

func stripped(in interface{}) interface{} {
	switch x := in.(type) {
	case proxy.RequestWrapper:
		return stripReq{x}
	case proxy.ResponseWrapper:
		return stripResp{x}
	}
	return in
}

func headersOf(in interface{}) map[string][]string {
	switch x := in.(type) {
	case proxy.RequestWrapper:
		return x.Headers()
	case proxy.ResponseWrapper:
		return x.Headers()
	}
	return nil
}

func seenOf(in interface{}) []string { return append([]string{}, headersOf(in)[traceKey]...) }

// a new wrapper: the input's headers (copied) with the tag appended to the trace
func withTag(in interface{}, tag string) interface{} {
	h := map[string][]string{}
	for k, v := range headersOf(in) {
		h[k] = append([]string{}, v...)
	}
	h[traceKey] = append(h[traceKey], tag)
	switch x := in.(type) {
	case proxy.RequestWrapper:
		return traceReq{x, h}
	case proxy.ResponseWrapper:
		return traceResp{x, h}
	}
	return in
}

func traceCoq(t []string) string {
	xs := make([]string, len(t))
	for i, s := range t {
		lv, n := "LEndpoint", 0
		if parts := strings.SplitN(s, ":", 2); len(parts) == 2 {
			if parts[0] == "B" {
				lv = "LBackend"
			}
			n, _ = strconv.Atoi(parts[1])
		} else {
			n = 999999 // not a tag of ours: shows as a disagreement
		}
		xs[i] = emit.Pair(lv, emit.Nat(n))
	}
	return emit.List(xs)
}

func (e event) vcoq() string {
	switch e.kind {
	case "req":
		return emit.App("VReq", lvCoq(e.lv), emit.Nat(e.pos), traceCoq(e.seen))
	case "resp":
		return emit.App("VResp", lvCoq(e.lv), emit.Nat(e.pos), traceCoq(e.seen))
	case "backend":
		return emit.App("VBackend", traceCoq(e.seen))
	}
	return emit.App("VReq", lvCoq(e.lv), emit.Nat(1000000+e.pos), "[]")
}

type threadIn struct {
	v0   []string
	t0   []string
	t0ok bool
}

var threadIns = []threadIn{
	{[]string{}, []string{}, true},
	{[]string{"E:77"}, []string{"B:99"}, true},
	{[]string{"E:77", "B:5"}, nil, false},
	{[]string{}, []string{"B:99", "E:3"}, true},
}

// one call through `si` (a plugin or stack instance); the behaviours come from the shapes
func threadCall(w *out.Writer, tag string, si *sharedInst, pe, pb pshape, ti threadIn) {
	beh := func(ps pshape) []string {
		l := make([]string, len(ps.entries))
		for i, e := range ps.entries {
			l[i] = e.beh
		}
		return l
	}
	cs := &callState{thread: true, v0: ti.v0, t0: ti.t0, t0ok: ti.t0ok, beh: map[string][]string{"E": beh(pe), "B": beh(pb)}}
	via := 2
	if si.enc != "" {
		via = 3
	}
	if si.kind == "plugin" {
		if si.lv == "E" {
			via = 0
		} else {
			via = 1
		}
	}
	o := callShared(si.p, cs)
	evs := make([]string, 0, len(o.log)+1)
	hum := make([]string, 0, len(o.log))
	for _, e := range o.log {
		evs = append(evs, e.vcoq())
		hum = append(hum, fmt.Sprintf("%s%v", e.String(), e.seen))
	}
	res, resJS := "VNone", interface{}(nil)
	if o.panicked != "" {
		evs = append(evs, "(VBackend [(LBackend, 888888%nat)])") // a panic is never expected here
		resJS = "panic: " + o.panicked
	} else if o.resp != nil && o.err == nil {
		t := append([]string{}, o.resp.Metadata.Headers[traceKey]...)
		res = emit.App("VRet", traceCoq(t))
		resJS = t
	} else if o.err != nil {
		resJS = "error: " + o.err.Error()
	}
	t0 := "None"
	if ti.t0ok {
		t0 = emit.Some(traceCoq(ti.t0))
	}
	term := emit.App("CThread", emit.Nat(via), registryCoq(pe, pb), pe.coq(), pb.coq(), traceCoq(ti.v0), t0, emit.Pair(emit.List(evs), res))
	js := map[string]interface{}{"kind": "values", "via": []string{"NewPluginMiddleware", "NewBackendPluginMiddleware", "DefaultFactory", "DefaultFactory, output_encoding no-op"}[via],
		"endpoint_plugins": pe.String(), "backend_plugins": pb.String(), "request_trace": ti.v0, "backend_response_trace": ti.t0, "backend_ok": ti.t0ok,
		"observed": map[string]interface{}{"saw": strings.Join(hum, " "), "result_trace": resJS}, "stream": tag}
	w.Count("values:via:" + fmt.Sprint(via))
	w.Add(term, js, "", fmt.Sprintf("V|%s|%d|%s|%s|%v|%v|%v", tag, via, pe.String(), pb.String(), ti.v0, ti.t0, ti.t0ok), true)
}

// the instance for a pair of shapes reached through `via`
func threadInst(via int, pe, pb pshape) *sharedInst {
	switch via {
	case 0:
		return sharedPlugin("E", pe)
	case 1:
		return sharedPlugin("B", pb)
	}
	if via == 3 {
		return sharedStackEnc(sshape{kind: "nons"}, pe, pb, "no-op")
	}
	return sharedStack(sshape{kind: "nons"}, pe, pb)
}

type vletter struct{ reg, beh string }

func vshape(ls []vletter, pick func(reg string, i int) string) pshape {
	ps := pshape{kind: "names", entries: []entry{}}
	for i, l := range ls {
		if l.reg == "nonstring" {
			ps.entries = append(ps.entries, entry{str: false, beh: "ok"})
			continue
		}
		b := l.beh
		if b == "fail" {
			b = nextFail()
		}
		ps.entries = append(ps.entries, entry{str: true, name: pick(l.reg, i), beh: b})
	}
	return ps
}

func threadStreams(cfg out.Config, w *out.Writer, r *rng.R) {
	none := pshape{kind: "nons"}
	byPos := func(reg string, i int) string { return namesOf[reg][i%3%len(namesOf[reg])] }
	byRng := func(reg string, i int) string { return namesOf[reg][r.Intn(len(namesOf[reg]))] }
	one := func(tag string, via int, pe, pb pshape, ti threadIn) {
		threadCall(w, tag, threadInst(via, pe, pb), pe, pb, ti)
	}
	// corpus: modify / hand on / non-wrapper / modify on both sides; a failure after a modification
	corpus := [][]vletter{
		{{"req", "modify"}, {"req", "ok"}, {"req", "ignored"}, {"req", "modify"}, {"resp", "modify"}, {"resp", "ignored"}, {"resp", "modify"}},
		{{"resp", "modify"}, {"req", "modify"}, {"resp", "ok"}, {"req", "modify"}},
		{{"req", "modify"}, {"req", "fail"}, {"req", "modify"}, {"resp", "modify"}},
		{{"req", "modify"}, {"resp", "modify"}, {"resp", "fail"}, {"resp", "modify"}},
		{{"both", "modify"}, {"none", "modify"}, {"nonstring", "ok"}, {"resp", "modify"}},
		// a modifier that strips every header / param (nil maps), last and in the middle
		{{"req", "modify"}, {"req", "strip"}, {"resp", "modify"}, {"resp", "strip"}},
		{{"req", "strip"}, {"req", "modify"}, {"resp", "strip"}, {"resp", "modify"}},
		{{"req", "ok"}, {"req", "strip"}, {"req", "ignored"}},
	}
	for _, c := range corpus {
		for k, ti := range threadIns {
			one("corpus", 0, vshape(c, byPos), none, ti)
			one("corpus", 1, none, vshape(c, byPos), ti)
			one("corpus", 2, vshape(c, byPos), vshape(corpus[(k+1)%len(corpus)], byPos), ti)
			one("corpus", 3, vshape(c, byPos), vshape(corpus[(k+2)%len(corpus)], byPos), ti)
		}
	}
	// exhaustive small scope
	alpha := []vletter{}
	for _, g := range []string{"req", "resp"} {
		for _, b := range []string{"ok", "modify", "ignored", "fail"} {
			alpha = append(alpha, vletter{g, b})
		}
	}
	maxN := 3
	if cfg.Thorough() {
		maxN = 4
	}
	k := 0
	for n := 0; n <= maxN; n++ {
		idx := make([]int, n)
		for {
			ls := make([]vletter, n)
			for i, j := range idx {
				ls[i] = alpha[j]
			}
			for via := 0; via < 2; via++ {
				ps := vshape(ls, byPos)
				if via == 0 {
					one("exhaustive", 0, ps, none, threadIns[k%len(threadIns)])
				} else {
					one("exhaustive", 1, none, ps, threadIns[k%len(threadIns)])
				}
				k++
			}
			i := n - 1
			for i >= 0 {
				idx[i]++
				if idx[i] < len(alpha) {
					break
				}
				idx[i] = 0
				i--
			}
			if i < 0 {
				break
			}
		}
	}
	// every sequence up to length 2 over {request,response} x {ok, modify, strip, ignored, fail}
	alpha2 := []vletter{}
	for _, g := range []string{"req", "resp"} {
		for _, b := range []string{"ok", "modify", "strip", "ignored", "fail"} {
			alpha2 = append(alpha2, vletter{g, b})
		}
	}
	for _, a := range alpha2 {
		for via := 0; via < 2; via++ {
			for _, ls := range append([][]vletter{{a}}, func() [][]vletter {
				var x [][]vletter
				for _, b := range alpha2 {
					x = append(x, []vletter{a, b})
				}
				return x
			}()...) {
				if !strings.Contains(fmt.Sprint(ls), "strip") {
					continue // covered above
				}
				ps := vshape(ls, byPos)
				if via == 0 {
					one("exhaustive-strip", 0, ps, none, threadIns[1+k%3])
				} else {
					one("exhaustive-strip", 1, none, ps, threadIns[1+k%3])
				}
				k++
			}
		}
	}
	// DefaultFactory: endpoint lists x backend lists
	lists := [][]vletter{
		{},
		{{"req", "modify"}, {"resp", "modify"}},
		{{"resp", "modify"}, {"req", "modify"}, {"resp", "modify"}, {"req", "ok"}},
		{{"req", "ignored"}, {"req", "modify"}, {"resp", "ignored"}, {"resp", "modify"}},
		{{"req", "modify"}, {"req", "fail"}},
		{{"resp", "modify"}, {"resp", "fail"}, {"resp", "modify"}},
		{{"req", "modify"}, {"req", "strip"}, {"resp", "strip"}},
	}
	for i, le := range lists {
		for j, lb := range lists {
			for q := 0; q < 2; q++ {
				one("factory", 2+q, vshape(le, byPos), vshape(lb, byPos), threadIns[(i+j+q)%len(threadIns)])
			}
		}
	}
	// random
	full := []vletter{{"none", "ok"}, {"nonstring", "ok"}}
	for _, g := range []string{"req", "resp", "both"} {
		for _, b := range []string{"ok", "modify", "modify", "strip", "ignored", "fail", "nilfactory"} {
			full = append(full, vletter{g, b})
		}
	}
	randList := func(max int) []vletter {
		n := r.Intn(max + 1)
		ls := make([]vletter, n)
		noFail := r.Chance(1, 2)
		for i := range ls {
			ls[i] = full[r.Intn(len(full))]
			if noFail && ls[i].beh == "fail" {
				ls[i].beh = "modify"
			}
		}
		return ls
	}
	nRand := 300
	if cfg.Thorough() {
		nRand = 6000
	}
	for i := 0; i < nRand; i++ {
		ti := threadIns[r.Intn(len(threadIns))]
		switch r.Intn(4) {
		case 0:
			one("random", 0, vshape(randList(8), byRng), none, ti)
		case 1:
			one("random", 1, none, vshape(randList(8), byRng), ti)
		case 2:
			one("random", 2, vshape(randList(6), byRng), vshape(randList(6), byRng), ti)
		default:
			one("random", 3, vshape(randList(6), byRng), vshape(randList(6), byRng), ti)
		}
	}
	// one instance, a sequence of calls with different behaviours and values: a wrapper or a
	// trace kept from an earlier call would show in a later one
	seqShape := func(behs ...string) pshape {
		names := []struct{ reg string }{{"req"}, {"resp"}, {"req"}, {"resp"}, {"both"}}
		ps := pshape{kind: "names", entries: []entry{}}
		for i, n := range names {
			ps.entries = append(ps.entries, entry{str: true, name: byPos(n.reg, i), beh: behs[i]})
		}
		return ps
	}
	steps := [][]string{
		{"modify", "modify", "modify", "modify", "modify"},
		{"ok", "ok", "ok", "ok", "ok"},
		{"modify", "ignored", "fail-same", "modify", "modify"},
		{"ignored", "modify", "modify", "fail-mod", "ok"},
		{"modify", "modify", "ok", "modify", "modify"},
		{"ok", "modify", "ignored", "ok", "modify"},
		{"modify", "ok", "strip", "strip", "ok"},
		{"modify", "modify", "modify", "modify", "modify"},
	}
	for via := 0; via < 4; via++ {
		pe, pb := seqShape(steps[0]...), seqShape(steps[0]...)
		if via == 0 {
			pb = none
		} else if via == 1 {
			pe = none
		}
		si := threadInst(via, pe, pb)
		for i, st := range steps {
			e, b := seqShape(st...), seqShape(steps[(i+2)%len(steps)]...)
			if via == 0 {
				b = none
			} else if via == 1 {
				e, b = none, seqShape(st...)
			}
			threadCall(w, fmt.Sprintf("one-instance-%d", via), si, e, b, threadIns[i%len(threadIns)])
		}
	}
}
