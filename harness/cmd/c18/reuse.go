// Instance reuse: ONE static middleware / plugin middleware / DefaultFactory proxy serves a
// sequence of different inner outcomes and failing-modifier choices (sequential stream), and
// the same instance is hit from several goroutines (concurrent stream).  What differs from
// call to call travels in the request context: the stub reads its result from it, the
// modifiers read their behaviour for this call from it (the wrappers expose Context()), and
// both append to the call's own log.  Every step is emitted as a normal case.
package main

import (
	"bytes"
	"context"
	"encoding/json"
	"fmt"
	"os"
	"os/exec"
	"sort"
	"strings"
	"sync"
	"time"

	"github.com/luraproject/lura/v2/config"
	"github.com/luraproject/lura/v2/logging"
	"github.com/luraproject/lura/v2/proxy"

	"verif/harness/internal/emit"
	"verif/harness/internal/out"
	"verif/harness/internal/rng"
)

type ctxKey struct{}

// what one call through a shared instance is scripted to meet
type callState struct {
	in     inner
	beh    map[string][]string // level -> behaviour per configured position (this call)
	mu     sync.Mutex
	log    []event
	handed *proxy.Response // the response the stub handed in for this call
	thread bool            // value case: traces travel in the request header / response metadata
	v0     []string        // initial request trace
	t0     []string        // trace of the backend's response
	t0ok   bool            // false: the backend fails
}

func (cs *callState) add(e event) {
	cs.mu.Lock()
	cs.log = append(cs.log, e)
	cs.mu.Unlock()
}

// the innermost proxy of a shared instance
func ctxStub(ctx context.Context, rq *proxy.Request) (*proxy.Response, error) {
	cs, _ := ctx.Value(ctxKey{}).(*callState)
	if cs == nil {
		return nil, innerErr{"no call state in the context"}
	}
	if cs.thread {
		cs.add(event{kind: "backend", seen: append([]string{}, rq.Headers[traceKey]...)})
		if !cs.t0ok {
			return nil, innerErr{"backend failed"}
		}
		return &proxy.Response{Data: map[string]interface{}{"a": json.Number("1")}, IsComplete: true,
			Metadata: proxy.Metadata{Headers: map[string][]string{traceKey: append([]string{}, cs.t0...)}}}, nil
	}
	cs.add(event{kind: "backend"})
	r, err := cs.in.result()
	cs.mu.Lock()
	cs.handed = r
	cs.mu.Unlock()
	return r, err
}

func callShared(p proxy.Proxy, cs *callState) (o observed) {
	defer func() {
		if r := recover(); r != nil {
			o.panicked = fmt.Sprint(r)
		}
		cs.mu.Lock()
		o.log = append([]event{}, cs.log...)
		cs.mu.Unlock()
	}()
	ctx, cancel := context.WithCancel(context.WithValue(context.Background(), ctxKey{}, cs))
	defer cancel()
	rq := request()
	if cs.thread {
		rq.Headers[traceKey] = append([]string{}, cs.v0...)
	}
	o.resp, o.err = p(ctx, rq)
	return
}

// ---- shared instances

type sharedInst struct {
	kind   string // static | plugin | stack
	lv     string // plugin: E | B
	s      sshape
	pe, pb pshape // plugin: pe is the list
	p      proxy.Proxy
	id     string
	fresh  func() *sharedInst // another instance of the same configuration
	enc    string             // stack: output_encoding of the endpoint ("" = default)
}

func newState(lv string, ps pshape) *lvState {
	return &lvState{lv: lv, entries: ps.entries, claimed: map[string]int{}}
}

func sharedStatic(s sshape) *sharedInst {
	ec := config.ExtraConfig{}
	s.extra(ec)
	p := proxy.NewStaticMiddleware(logging.NoOp, &config.EndpointConfig{Endpoint: "/x", ExtraConfig: ec})(ctxStub)
	return &sharedInst{kind: "static", s: s, p: p, id: "static|" + s.key(), fresh: func() *sharedInst { return sharedStatic(s) }}
}

func sharedPlugin(lv string, ps pshape) *sharedInst {
	ec := config.ExtraConfig{}
	ps.extra(newState(lv, ps), ec)
	var p proxy.Proxy
	if lv == "E" {
		p = proxy.NewPluginMiddleware(logging.NoOp, &config.EndpointConfig{Endpoint: "/x", ExtraConfig: ec})(ctxStub)
	} else {
		p = proxy.NewBackendPluginMiddleware(logging.NoOp, &config.Backend{URLPattern: "/b", ExtraConfig: ec})(ctxStub)
	}
	return &sharedInst{kind: "plugin", lv: lv, pe: ps, p: p, id: "plugin|" + lv + "|" + names(ps), fresh: func() *sharedInst { return sharedPlugin(lv, ps) }}
}

func sharedStack(s sshape, pe, pb pshape) *sharedInst { return sharedStackEnc(s, pe, pb, "") }

// the stack DefaultFactory builds for an endpoint with this output_encoding
func sharedStackEnc(s sshape, pe, pb pshape, enc string) *sharedInst {
	eec, bec := config.ExtraConfig{}, config.ExtraConfig{}
	s.extra(eec)
	pe.extra(newState("E", pe), eec)
	pb.extra(newState("B", pb), bec)
	ep := &config.EndpointConfig{Endpoint: "/x", Method: "GET", ExtraConfig: eec, OutputEncoding: enc,
		Backend: []*config.Backend{{URLPattern: "/b", ExtraConfig: bec}}}
	sc := config.ServiceConfig{Version: config.ConfigVersion, Timeout: 5 * time.Second, Host: []string{"http://127.0.0.1:8081"},
		Endpoints: []*config.EndpointConfig{ep}}
	if err := sc.Init(); err != nil {
		panic(err)
	}
	if enc != "" && ep.OutputEncoding != enc {
		panic("output encoding rewritten by Init: " + ep.OutputEncoding)
	}
	p, err := proxy.NewDefaultFactory(func(*config.Backend) proxy.Proxy { return ctxStub }, logging.NoOp).New(ep)
	if err != nil {
		panic(err)
	}
	return &sharedInst{kind: "stack", s: s, pe: pe, pb: pb, p: p, enc: enc, id: "stack" + enc + "|" + s.key() + "|" + names(pe) + "|" + names(pb),
		fresh: func() *sharedInst { return sharedStackEnc(s, pe, pb, enc) }}
}

func names(ps pshape) string {
	xs := make([]string, len(ps.entries))
	for i, e := range ps.entries {
		xs[i] = fmt.Sprintf("%q/%v", e.name, e.str)
		if e.beh == "nilfactory" {
			xs[i] += "/nil"
		}
	}
	return strings.Join(xs, ",")
}

// one call's input: the inner outcome and which configured positions fail / return a non-wrapper
type step struct {
	in       inner
	eb, bb   map[int]string // position -> behaviour other than ok, endpoint / backend level
	describe string
}

// the configuration as this call meets it: behaviours of the call filled in (a nil factory is
// part of the instance, not of the call)
func withBeh(ps pshape, b map[int]string) (pshape, []string) {
	q := pshape{kind: ps.kind, variant: ps.variant, entries: make([]entry, len(ps.entries))}
	l := make([]string, len(ps.entries))
	for i, e := range ps.entries {
		if e.beh != "nilfactory" {
			e.beh = "ok"
			if v, ok := b[i]; ok {
				e.beh = v
			}
		}
		q.entries[i] = e
		l[i] = e.beh
	}
	return q, l
}

func (si *sharedInst) run(st step, scribble bool) (term string, js map[string]interface{}, canon string) {
	defer func() {
		_ = recover() // scribbling never fails a case
	}()
	pe, le := withBeh(si.pe, st.eb)
	pb, lb := withBeh(si.pb, st.bb)
	cs := &callState{in: st.in, beh: map[string][]string{"E": le, "B": lb}}
	if si.kind == "plugin" {
		cs.beh = map[string][]string{si.lv: le}
	}
	o := callShared(si.p, cs)
	if scribble {
		// after the observation has been rendered (below), the harness - as the consumer of
		// the result, like merge / flatmap / in-place modifiers downstream - writes into the
		// returned response and into the response the stub handed in: later calls through the
		// same instance must not see any of it
		defer func() {
			scribbleOn(o.resp)
			cs.mu.Lock()
			h := cs.handed
			cs.mu.Unlock()
			scribbleOn(h)
		}()
	}
	switch si.kind {
	case "static":
		term = emit.App("CStatic", si.s.coq(), st.in.coqResp(), st.in.coqErr(), o.outcomeCoq())
		js = map[string]interface{}{"kind": "static", "config": si.s.js(), "inner": st.in.js(), "observed": o.js()}
		canon = si.id + "|" + st.in.key()
	case "plugin":
		term = emit.App("CPlugin", lvCoq(si.lv), registryCoq(pe), pe.coq(), st.in.coqResp(), st.in.coqErr(), o.compCoq())
		js = map[string]interface{}{"kind": "plugin", "level": si.lv, "config": pe.String(), "inner": st.in.js(), "observed": o.js()}
		canon = si.id + "|" + pe.String() + "|" + st.in.key()
	default:
		if si.enc != "" {
			term = emit.App("CStackEnc", emit.Str(si.enc), si.s.coq(), registryCoq(pe, pb), pe.coq(), pb.coq(), st.in.coqResp(), st.in.coqErr(), o.compCoq())
		} else {
			term = emit.App("CStack", si.s.coq(), registryCoq(pe, pb), pe.coq(), pb.coq(), st.in.coqResp(), st.in.coqErr(), o.compCoq())
		}
		js = map[string]interface{}{"kind": "stack", "output_encoding": si.enc, "static": si.s.js(), "endpoint_plugins": pe.String(), "backend_plugins": pb.String(), "inner": st.in.js(), "observed": o.js()}
		canon = si.id + "|" + pe.String() + "|" + pb.String() + "|" + st.in.key()
	}
	if scribble {
		js = cloneJSON(js).(map[string]interface{}) // the record must not alias what is scribbled on
	}
	return
}

// top level only: add a junk key, delete the first key, overwrite the others, flip the flag
// (nested values of the static data are shared by reference by the code as it is)
func scribbleOn(r *proxy.Response) {
	if r == nil {
		return
	}
	r.IsComplete = !r.IsComplete
	if r.Data == nil {
		return
	}
	keys := make([]string, 0, len(r.Data))
	for k := range r.Data {
		keys = append(keys, k)
	}
	sort.Strings(keys)
	for i, k := range keys {
		if i == 0 {
			delete(r.Data, k)
		} else {
			r.Data[k] = "scribbled-by-consumer"
		}
	}
	r.Data["verif-junk"] = "never configured"
}

// sequential reuse: every step a case, in order
func (si *sharedInst) sequence(w *out.Writer, tag string, steps []step) {
	for i, st := range steps {
		term, js, canon := si.run(st, true)
		js["reuse"] = fmt.Sprintf("%s: step %d of %d through one %s instance", tag, i+1, len(steps), si.kind)
		w.Count("reuse:seq:" + si.kind)
		w.Add(term, js, "", "RS|"+tag+"|"+canon+fmt.Sprint(i), true)
	}
}

// concurrent reuse: g goroutines released by a gate, each running `iters` calls over the
// steps; every distinct (input, observation) pair is emitted once, sorted.  The goroutines
// run in a child process (this binary with --extra conc:<tag>): state shared between
// in-flight requests can be an unsynchronised map, which kills a Go process instead of
// panicking; the parent then records the crash as an observation of the first input.
type concRec struct {
	Key   string                 `json:"key"`
	Term  string                 `json:"term"`
	JS    map[string]interface{} `json:"js"`
	Canon string                 `json:"canon"`
}

type concBatch struct {
	tag   string
	mk    func() *sharedInst
	steps []step
}

func concSizes(cfg out.Config) (g, iters int) {
	if cfg.Thorough() {
		return 16, 5000
	}
	return 12, 300
}

func concBatches() []concBatch {
	staticSteps := []step{}
	for _, in := range []inner{okIn(3), okIn(2), {0, false, ""}, {5, false, "boom"}, {0, false, "boom"}, okIn(1), okIn(6), {4, false, ""}, {3, true, "boom"}, okIn(5), {6, false, ""}, {1, false, "boom"}} {
		staticSteps = append(staticSteps, step{in: in})
	}
	plugSteps := append(append([]step{}, pluginSeq...), step{in: okIn(6), eb: f(4), bb: f(0)}, step{in: inner{5, false, ""}, eb: f(3), bb: f(1)})
	var bs []concBatch
	for _, st := range []string{"always", "complete", "errored", "incomplete"} {
		st := st
		bs = append(bs, concBatch{"conc-static-" + st, func() *sharedInst { return sharedStatic(okStatic(0, st)) }, staticSteps})
	}
	bs = append(bs,
		concBatch{"conc-plugin-E", func() *sharedInst { return sharedPlugin("E", seqList()) }, plugSteps},
		concBatch{"conc-plugin-B", func() *sharedInst { return sharedPlugin("B", seqList()) }, plugSteps},
		concBatch{"conc-stack-errored", func() *sharedInst { return sharedStack(okStatic(2, "errored"), seqList(), shortList()) }, plugSteps},
		concBatch{"conc-stack-always", func() *sharedInst { return sharedStack(okStatic(0, "always"), shortList(), seqList()) }, plugSteps})
	return bs
}

// child process: run one batch, print the distinct records as JSON lines
func concChild(cfg out.Config) {
	tag := strings.TrimPrefix(cfg.Extra, "conc:")
	for _, b := range concBatches() {
		if b.tag != tag {
			continue
		}
		g, iters := concSizes(cfg)
		si := b.mk()
		res := make([]map[string]concRec, g)
		start := make(chan struct{})
		var wg sync.WaitGroup
		for k := 0; k < g; k++ {
			res[k] = map[string]concRec{}
			wg.Add(1)
			go func(k int) {
				defer wg.Done()
				<-start
				for it := 0; it < iters; it++ {
					j := (k*5 + it) % len(b.steps)
					term, js, canon := si.run(b.steps[j], false)
					key := fmt.Sprintf("%03d|%s", j, term)
					if _, ok := res[k][key]; !ok {
						res[k][key] = concRec{key, term, js, canon}
					}
				}
			}(k)
		}
		close(start)
		wg.Wait()
		all := map[string]concRec{}
		for k := 0; k < g; k++ {
			for key, v := range res[k] {
				all[key] = v
			}
		}
		keys := make([]string, 0, len(all))
		for key := range all {
			keys = append(keys, key)
		}
		sort.Strings(keys)
		enc := json.NewEncoder(os.Stdout)
		for _, key := range keys {
			if err := enc.Encode(all[key]); err != nil {
				fmt.Fprintln(os.Stderr, err)
				os.Exit(3)
			}
		}
		return
	}
	fmt.Fprintln(os.Stderr, "unknown batch", tag)
	os.Exit(2)
}

func (b concBatch) run(cfg out.Config, w *out.Writer) {
	si := b.mk()
	g, _ := concSizes(cfg)
	// warm-up, sequentially, twice over the inputs: each step is a case; when the used
	// instance already answers differently from a fresh one, state is kept between calls -
	// the cases just emitted show it, and the goroutines are not started
	leaks := false
	for round := 0; round < 2; round++ {
		for j, st := range b.steps {
			term, js, canon := si.run(st, true)
			ft, _, _ := si.fresh().run(st, false)
			if ft != term {
				leaks = true
			}
			js["reuse"] = fmt.Sprintf("%s: warm-up round %d input %03d through the shared %s instance", b.tag, round, j, si.kind)
			w.Count("reuse:warmup:" + si.kind)
			w.Add(term, js, "", fmt.Sprintf("RW|%s|%s|%d|%d", b.tag, canon, round, j), true)
		}
	}
	if leaks {
		w.Count("reuse:conc:skipped-after-sequential-leak")
		return
	}
	ctx, cancel := context.WithTimeout(context.Background(), 5*time.Minute)
	defer cancel()
	cmd := exec.CommandContext(ctx, os.Args[0], "--tier", cfg.Tier, "--seed", fmt.Sprint(cfg.Seed), "--out", cfg.Dir, "--extra", "conc:"+b.tag)
	var stdout, stderr bytes.Buffer
	cmd.Stdout, cmd.Stderr = &stdout, &stderr
	err := cmd.Run()
	var recs []concRec
	if err == nil {
		dec := json.NewDecoder(&stdout)
		dec.UseNumber()
		for dec.More() {
			var r concRec
			if err = dec.Decode(&r); err != nil {
				break
			}
			recs = append(recs, r)
		}
	}
	if err != nil {
		// the process died (or its output is unusable): an observation of its own
		msg := stderr.String()
		if len(msg) > 1500 {
			msg = msg[:1500]
		}
		term, js, canon := si.crashed(b.steps[0], fmt.Sprintf("%v: %s", err, msg))
		js["reuse"] = fmt.Sprintf("%s: one %s instance shared by %d goroutines: the process died; reported against the first input of the batch", b.tag, si.kind, g)
		w.Count("reuse:conc:crashed")
		w.Add(term, js, "", "RX|"+b.tag+"|"+canon, true)
		return
	}
	for _, v := range recs {
		v.JS["reuse"] = fmt.Sprintf("%s: one %s instance shared by %d goroutines, input %s", b.tag, si.kind, g, v.Key[:3])
		w.Count("reuse:conc:" + si.kind)
		w.Add(v.Term, v.JS, "", "RC|"+b.tag+"|"+v.Canon+"|"+v.Key[:3], true)
	}
}

// the case recorded when the concurrent child died: the input of `st`, observation Panic
func (si *sharedInst) crashed(st step, msg string) (term string, js map[string]interface{}, canon string) {
	pe, _ := withBeh(si.pe, st.eb)
	pb, _ := withBeh(si.pb, st.bb)
	o := observed{panicked: "process died: " + msg, log: []event{}}
	switch si.kind {
	case "static":
		term = emit.App("CStatic", si.s.coq(), st.in.coqResp(), st.in.coqErr(), o.outcomeCoq())
		js = map[string]interface{}{"kind": "static", "config": si.s.js(), "inner": st.in.js(), "observed": o.js()}
	case "plugin":
		term = emit.App("CPlugin", lvCoq(si.lv), registryCoq(pe), pe.coq(), st.in.coqResp(), st.in.coqErr(), o.compCoq())
		js = map[string]interface{}{"kind": "plugin", "level": si.lv, "config": pe.String(), "inner": st.in.js(), "observed": o.js()}
	default:
		if si.enc != "" {
			term = emit.App("CStackEnc", emit.Str(si.enc), si.s.coq(), registryCoq(pe, pb), pe.coq(), pb.coq(), st.in.coqResp(), st.in.coqErr(), o.compCoq())
		} else {
			term = emit.App("CStack", si.s.coq(), registryCoq(pe, pb), pe.coq(), pb.coq(), st.in.coqResp(), st.in.coqErr(), o.compCoq())
		}
		js = map[string]interface{}{"kind": "stack", "output_encoding": si.enc, "static": si.s.js(), "endpoint_plugins": pe.String(), "backend_plugins": pb.String(), "inner": st.in.js(), "observed": o.js()}
	}
	return term, js, si.id + "|crashed"
}

// ---- the sequences

func okIn(k int) inner { return inner{k, true, ""} }

// consecutive inner outcomes differ in what the strategies look at: documents, completeness,
// presence of a response, presence of an error
var staticSeqs = [][]step{
	{{in: okIn(3)}, {in: okIn(2)}, {in: inner{0, false, ""}}, {in: inner{5, false, "boom"}}, {in: inner{0, false, "boom"}}, {in: okIn(1)}, {in: okIn(6)}},
	{{in: inner{0, false, "boom"}}, {in: okIn(5)}, {in: inner{4, false, ""}}, {in: okIn(2)}, {in: inner{3, true, "boom"}}, {in: inner{0, false, ""}}, {in: okIn(6)}},
	{{in: inner{1, false, ""}}, {in: okIn(6)}, {in: okIn(1)}, {in: inner{3, false, ""}}, {in: inner{2, true, "boom"}}, {in: okIn(5)}},
}

// a failure at pos, its shape chosen by the position (all four shapes occur in pluginSeq)
func f(pos int) map[int]string { return map[int]string{pos: failShapes[(pos+1)%len(failShapes)]} }

// for a list [0:req 1:resp 2:req 3:resp 4:both 5:resp(nil factory)]
var pluginSeq = []step{
	{in: okIn(3)},
	{in: okIn(5), eb: f(2), bb: f(2)},
	{in: okIn(6)},
	{in: okIn(3), eb: f(3), bb: f(3)},
	{in: okIn(5)},
	{in: inner{0, false, ""}, eb: f(1), bb: f(1)},
	{in: inner{4, false, "boom"}},
	{in: okIn(6), eb: map[int]string{0: "ignored", 1: "fail-same"}, bb: map[int]string{0: "ignored", 1: "fail-mod"}},
	{in: okIn(3), eb: f(0), bb: f(4)},
	{in: okIn(5)},
}

func seqList() pshape {
	return pshape{kind: "names", entries: []entry{
		{true, "rq0", "ok"}, {true, "rs0", "ok"}, {true, "rq1", "ok"}, {true, "rs1", "ok"}, {true, "bo0", "ok"}, {true, "rs2", "nilfactory"}}}
}

func shortList() pshape {
	return pshape{kind: "names", entries: []entry{{true, "rs1", "ok"}, {true, "rq0", "ok"}, {true, "rs0", "ok"}}}
}

func okStatic(d int, st string) sshape {
	return sshape{kind: "ok", data: staticData[d], strategy: sp(st)}
}

// the most telling orders, at the head of the case list
func reuseCorpus(w *out.Writer) {
	// a matching call with a rich document, then matching calls with smaller / no documents:
	// anything kept from the earlier call shows as an extra field
	sharedStatic(okStatic(0, "always")).sequence(w, "corpus-static-always", staticSeqs[0])
	// complete -> incomplete -> error -> complete: a decision kept from an earlier call shows
	sharedStatic(okStatic(2, "complete")).sequence(w, "corpus-static-complete", staticSeqs[1])
	// a modifier that failed in one call must run (and may succeed) in the next one
	sharedPlugin("E", seqList()).sequence(w, "corpus-plugin-E", pluginSeq)
	sharedPlugin("B", seqList()).sequence(w, "corpus-plugin-B", pluginSeq)
	sharedStack(okStatic(2, "errored"), seqList(), shortList()).sequence(w, "corpus-stack", pluginSeq)
	// a no-op endpoint gets its modifiers and its static data like any other
	sharedStackEnc(okStatic(0, "always"), seqList(), shortList(), "no-op").sequence(w, "corpus-stack-no-op", pluginSeq)
}

func reuseStreams(cfg out.Config, w *out.Writer, r *rng.R) {
	// ---- sequential
	for _, st := range []string{"always", "success", "errored", "complete", "incomplete", "whatever"} {
		for di, d := range []int{0, 2, 4} {
			for qi, seq := range staticSeqs {
				if !cfg.Thorough() && (di+qi)%3 != 0 {
					continue
				}
				sharedStatic(okStatic(d, st)).sequence(w, fmt.Sprintf("static-%s-%d-%d", st, d, qi), seq)
			}
		}
	}
	sharedStatic(sshape{kind: "nostatic"}).sequence(w, "static-unconfigured", staticSeqs[0])
	randSteps := func(n, lenE, lenB int) []step {
		steps := make([]step, n)
		for i := range steps {
			st := step{in: inner{r.Intn(7), r.Bool(), []string{"", "", "boom"}[r.Intn(3)]}, eb: map[int]string{}, bb: map[int]string{}}
			for _, m := range []struct {
				b map[int]string
				n int
			}{{st.eb, lenE}, {st.bb, lenB}} {
				if m.n > 0 && r.Chance(1, 2) {
					m.b[r.Intn(m.n)] = []string{"fail", "fail-same", "fail-mod", "fail-junk", "ignored"}[r.Intn(5)]
				}
			}
			steps[i] = st
		}
		return steps
	}
	nRand := 12
	if cfg.Thorough() {
		nRand = 200
	}
	for i := 0; i < nRand; i++ {
		lv := []string{"E", "B"}[i%2]
		sharedPlugin(lv, seqList()).sequence(w, fmt.Sprintf("plugin-rand-%d", i), randSteps(5, 6, 0))
	}
	for _, st := range []string{"always", "success", "errored", "complete", "incomplete"} {
		sharedStack(okStatic(2, st), shortList(), seqList()).sequence(w, "stack-"+st, pluginSeq)
		sharedStackEnc(okStatic(0, st), seqList(), shortList(), "no-op").sequence(w, "stack-no-op-"+st, pluginSeq)
		sharedStackEnc(okStatic(4, st), pshape{kind: "nons"}, pshape{kind: "nons"}, "no-op").sequence(w, "stack-no-op-static-only-"+st, staticSeqs[0])
	}
	for i := 0; i < nRand; i++ {
		s := okStatic([]int{0, 2, 4}[i%3], []string{"always", "success", "errored", "complete", "incomplete"}[r.Intn(5)])
		sharedStack(s, seqList(), shortList()).sequence(w, fmt.Sprintf("stack-rand-%d", i), randSteps(6, 6, 3))
	}

	// ---- concurrent: 12 distinct inputs per instance
	for _, b := range concBatches() {
		b.run(cfg, w)
	}
}
