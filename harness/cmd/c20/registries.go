package main

import (
	"context"
	"io"
	"net/http"
	"net/http/httptest"
	"strings"
	"sync/atomic"
	"time"

	"github.com/gin-gonic/gin"
	"github.com/luraproject/lura/v2/config"
	"github.com/luraproject/lura/v2/encoding"
	"github.com/luraproject/lura/v2/proxy"
	"github.com/luraproject/lura/v2/register"
	krakendgin "github.com/luraproject/lura/v2/router/gin"
	"github.com/luraproject/lura/v2/router/mux"
	"github.com/luraproject/lura/v2/sd"
)

// registry is the uniform face the harness puts on every registry named by the property:
// values are identified by integers (the registered component answers with its number).
type registry interface {
	reg(k string, v int64)
	get(k string) (int64, bool) // false: absent (the registry's fallback)
	clone() map[string]int64    // nil: the registry has no snapshot operation
}

var registryNames = []string{"untyped", "namespaced", "combiner", "decoder", "sd", "gin-render", "mux-render",
	"gin-render-handler", "mux-render-handler", "gin-render-negotiate"}

// newRegistry returns an adapter. Registries that are process-wide (combiner, decoder, sd,
// renders) are shared by every adapter of that kind: scenarios use their own key prefixes.
func newRegistry(kind string) registry {
	switch kind {
	case "untyped":
		return &untypedReg{register.NewUntyped()}
	case "namespaced":
		return &namespacedReg{register.New()}
	case "combiner":
		return &combinerReg{proxy.NewRegister()}
	case "decoder":
		return &decoderReg{encoding.GetRegister()}
	case "sd":
		return &sdReg{sd.GetRegister()}
	case "gin-render":
		return ginRenderReg{}
	case "mux-render":
		return muxRenderReg{}
	case "gin-render-handler":
		return ginRenderReg{viaHandler: true}
	case "mux-render-handler":
		return muxRenderReg{viaHandler: true}
	case "gin-render-negotiate":
		return ginNegotiateReg{}
	}
	panic("unknown registry " + kind)
}

type untypedReg struct{ u *register.Untyped }

func (r *untypedReg) reg(k string, v int64) { r.u.Register(k, v) }
func (r *untypedReg) get(k string) (int64, bool) {
	v, ok := r.u.Get(k)
	if !ok {
		return 0, false
	}
	return v.(int64), true
}
func (r *untypedReg) clone() map[string]int64 {
	res := map[string]int64{}
	for k, v := range r.u.Clone() {
		res[k] = v.(int64)
	}
	return res
}

// keys are "namespace|name"
type namespacedReg struct{ n *register.Namespaced }

func splitNs(k string) (string, string) {
	i := strings.IndexByte(k, '|')
	if i < 0 {
		return "default", k
	}
	return k[:i], k[i+1:]
}
func (r *namespacedReg) reg(k string, v int64) {
	ns, name := splitNs(k)
	r.n.Register(ns, name, v)
}
func (r *namespacedReg) get(k string) (int64, bool) {
	ns, name := splitNs(k)
	u, ok := r.n.Get(ns)
	if !ok {
		return 0, false
	}
	v, ok := u.Get(name)
	if !ok {
		return 0, false
	}
	return v.(int64), true
}
func (r *namespacedReg) clone() map[string]int64 { return nil }

type combinerReg struct{ r *proxy.Register }

func (c *combinerReg) reg(k string, v int64) {
	// both entry points end in the same register
	if v%2 == 0 {
		c.r.SetResponseCombiner(k, func(int, []*proxy.Response) *proxy.Response {
			return &proxy.Response{Data: map[string]interface{}{"id": v}}
		})
		return
	}
	proxy.RegisterResponseCombiner(k, func(int, []*proxy.Response) *proxy.Response {
		return &proxy.Response{Data: map[string]interface{}{"id": v}}
	})
}
func (c *combinerReg) get(k string) (int64, bool) {
	rc, ok := c.r.GetResponseCombiner(k)
	if !ok {
		return 0, false
	}
	// the built-in combiner (registered under "default") is a component like any other, but it does
	// not answer with a number: it counts as "no registration of ours"
	resp := rc(0, nil)
	if resp == nil {
		return 0, false
	}
	id, ok := resp.Data["id"].(int64)
	return id, ok
}
func (c *combinerReg) clone() map[string]int64 { return nil }

type decoderReg struct{ r *encoding.DecoderRegister }

func (d *decoderReg) reg(k string, v int64) {
	_ = d.r.Register(k, func(bool) func(io.Reader, *map[string]interface{}) error {
		return func(_ io.Reader, m *map[string]interface{}) error {
			*m = map[string]interface{}{"id": v}
			return nil
		}
	})
}
func (d *decoderReg) get(k string) (int64, bool) {
	var m map[string]interface{}
	// an unknown name falls back to the JSON decoder, which reads this document
	if err := d.r.Get(k)(false)(strings.NewReader(`{"fallback":true}`), &m); err != nil {
		return 0, false
	}
	id, ok := m["id"].(int64)
	return id, ok
}
func (d *decoderReg) clone() map[string]int64 { return nil }

type sdReg struct{ r *sd.Register }

type idSubscriber int64

func (i idSubscriber) Hosts() ([]string, error) { return nil, nil }

func (s *sdReg) reg(k string, v int64) {
	_ = s.r.Register(k, func(*config.Backend) sd.Subscriber { return idSubscriber(v) })
}
func (s *sdReg) get(k string) (int64, bool) {
	sub := s.r.Get(k)(&config.Backend{Host: []string{"fallback"}})
	id, ok := sub.(idSubscriber)
	return int64(id), ok
}
func (s *sdReg) clone() map[string]int64 { return nil }

// viaHandler: look the render up the way the routers do - build an endpoint handler (the
// factory calls getRender, which resolves the backend encoding and the output encoding) and serve
// one request through it; otherwise through the exported getWithFallback wrapper.
type ginRenderReg struct{ viaHandler bool }

func stubProxyFor(resp *proxy.Response) proxy.Proxy {
	return func(context.Context, *proxy.Request) (*proxy.Response, error) { return resp, nil }
}

func renderCfg(k string, n int) *config.EndpointConfig {
	cfg := &config.EndpointConfig{Endpoint: "/x", Method: "GET", Timeout: 10 * time.Second,
		Backend: []*config.Backend{{URLPattern: "/b", Encoding: "json"}}}
	if n%2 == 0 {
		cfg.OutputEncoding = k // two lookups: backend encoding, then output encoding
	} else {
		cfg.Backend[0].Encoding = k // one lookup: the backend encoding is the fallback
	}
	return cfg
}

var handlerLookups int64

func (ginRenderReg) reg(k string, v int64) {
	krakendgin.RegisterRender(k, func(_ *gin.Context, r *proxy.Response) { r.Data["id"] = v })
}
func (g ginRenderReg) get(k string) (int64, bool) {
	resp := &proxy.Response{Data: map[string]interface{}{"x": 1}, IsComplete: true}
	if g.viaHandler {
		n := int(atomic.AddInt64(&handlerLookups, 1))
		h := krakendgin.EndpointHandler(renderCfg(k, n), stubProxyFor(resp))
		c, _ := gin.CreateTestContext(httptest.NewRecorder())
		c.Request = httptest.NewRequest("GET", "/x", nil)
		h(c)
	} else {
		r, ok := krakendgin.VerifC20GetRender(k)
		if !ok {
			return 0, false
		}
		r(nil, resp)
	}
	id, ok := resp.Data["id"].(int64)
	return id, ok
}
func (ginRenderReg) clone() map[string]int64 { return nil }

type muxRenderReg struct{ viaHandler bool }

func (muxRenderReg) reg(k string, v int64) {
	mux.RegisterRender(k, func(_ http.ResponseWriter, r *proxy.Response) { r.Data["id"] = v })
}
func (m muxRenderReg) get(k string) (int64, bool) {
	resp := &proxy.Response{Data: map[string]interface{}{"x": 1}, IsComplete: true}
	if m.viaHandler {
		n := int(atomic.AddInt64(&handlerLookups, 1))
		h := mux.EndpointHandler(renderCfg(k, n), stubProxyFor(resp))
		h(httptest.NewRecorder(), httptest.NewRequest("GET", "/x", nil))
	} else {
		r, ok := mux.VerifC20GetRender(k)
		if !ok {
			return 0, false
		}
		r(nil, resp)
	}
	id, ok := resp.Data["id"].(int64)
	return id, ok
}
func (muxRenderReg) clone() map[string]int64 { return nil }

// the negotiated render looks the built-in names xml / yaml / json up at request time: lookups go
// through an endpoint whose output encoding is "negotiate", the Accept header selects the name
type ginNegotiateReg struct{}

var negotiateKeys = []string{"xml", "yaml", "json"}

func (ginNegotiateReg) reg(k string, v int64) { ginRenderReg{}.reg(k, v) }
func (ginNegotiateReg) get(k string) (int64, bool) {
	accept := map[string]string{"xml": gin.MIMEXML, "yaml": gin.MIMEYAML, "json": gin.MIMEJSON}[k]
	resp := &proxy.Response{Data: map[string]interface{}{"x": 1}, IsComplete: true}
	cfg := &config.EndpointConfig{Endpoint: "/x", Method: "GET", Timeout: 10 * time.Second, OutputEncoding: krakendgin.NEGOTIATE,
		Backend: []*config.Backend{{URLPattern: "/b", Encoding: "json"}}}
	h := krakendgin.EndpointHandler(cfg, stubProxyFor(resp))
	c, _ := gin.CreateTestContext(httptest.NewRecorder())
	c.Request = httptest.NewRequest("GET", "/x", nil)
	c.Request.Header.Set("Accept", accept)
	h(c)
	id, ok := resp.Data["id"].(int64)
	return id, ok
}
func (ginNegotiateReg) clone() map[string]int64 { return nil }
