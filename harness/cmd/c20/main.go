// C20 generator: drives the real back-off functions and the real registries of lura.
//
//	(no --extra)     back-off delays for every strategy and attempt (the jittered ones with the
//	                 package's random source replaced by a seeded one, so that the draw is known);
//	                 every registry from one goroutine against the sequential model; and, in child
//	                 processes, every registry from many goroutines with recorded histories, the
//	                 first-registration stress of the namespaced register, concurrent jitter.
//	--extra race     (race-detector build) one child process per concurrent scenario; the parent
//	                 reads the race logs the child left: one case per scenario, observed_race.
//	--extra child:.. internal.
package main

import (
	"bytes"
	"encoding/json"
	"fmt"
	"math/rand"
	"os"
	"os/exec"
	"path/filepath"
	"regexp"
	"sort"
	"strconv"
	"strings"

	"github.com/luraproject/lura/v2/backoff"

	"verif/harness/internal/emit"
	"verif/harness/internal/out"
	"verif/harness/internal/rng"
)

func rmapCoq(m map[string]int64) string {
	ks := make([]string, 0, len(m))
	for k := range m {
		ks = append(ks, k)
	}
	sort.Strings(ks)
	xs := make([]string, len(ks))
	for i, k := range ks {
		xs[i] = emit.Pair(emit.Str(k), emit.Z(m[k]))
	}
	return emit.List(xs)
}

func ropCoq(o hOp) string {
	switch o.Kind {
	case "reg":
		return emit.App("RReg", emit.Str(o.Key), emit.Z(o.Val))
	case "get":
		if o.Found {
			return emit.App("RGet", emit.Str(o.Key), emit.Some(emit.Z(o.Val)))
		}
		return emit.App("RGet", emit.Str(o.Key), "None")
	}
	m := o.Snap
	if m == nil {
		m = map[string]int64{}
	}
	return emit.App("RClone", rmapCoq(m))
}

func tail(s string, n int) string {
	if len(s) > n {
		return s[len(s)-n:]
	}
	return s
}

// runChild re-executes this binary for one group of concurrent scenarios.
func runChild(cfg out.Config, what string, env ...string) (stdout, stderr string, err error) {
	self, e := os.Executable()
	if e != nil {
		panic(e)
	}
	cmd := exec.Command(self, "--tier", cfg.Tier, "--seed", strconv.FormatUint(cfg.Seed, 10), "--out", cfg.Dir, "--extra", "child:"+what)
	cmd.Env = append(os.Environ(), env...)
	var so, se bytes.Buffer
	cmd.Stdout, cmd.Stderr = &so, &se
	err = cmd.Run()
	return so.String(), se.String(), err
}

func crashCase(w *out.Writer, scenario, msg string) {
	w.Count("crash")
	w.Add(emit.App("CCrash", emit.Str(scenario), emit.Str(tail(msg, 600))),
		map[string]interface{}{"level": "crash", "scenario": scenario, "observed": map[string]interface{}{"stderr_tail": tail(msg, 3000)}},
		"", "crash|"+scenario, true)
}

func stratOf(name string) (string, bool) { // Coq constructor, jittered?
	switch strings.ToLower(name) {
	case "linear":
		return "SLinear", false
	case "exponential":
		return "SExponential", false
	case "linear-jitter":
		return "JLinear", true
	case "exponential-jitter":
		return "JExponential", true
	}
	return "SDefault", false
}

func histCase(w *out.Writer, ctor string, h histOut) {
	var evs []string
	nreg, nget, nclone := 0, 0, 0
	for _, o := range h.Events {
		switch o.Kind {
		case "reg":
			nreg++
		case "get":
			nget++
		default:
			nclone++
		}
		if ctor == "CSeq" {
			evs = append(evs, ropCoq(o))
		} else {
			evs = append(evs, emit.Tuple(ropCoq(o), emit.Z(o.Inv), emit.Z(o.Ret)))
		}
	}
	term := emit.App(ctor, emit.Str(h.Registry), rmapCoq(h.Init), emit.List(evs), rmapCoq(h.Final))
	js := map[string]interface{}{"level": strings.ToLower(ctor[1:]), "registry": h.Registry, "scenario": h.Scenario, "goroutines": h.G,
		"init": h.Init, "observed": map[string]interface{}{"events": h.Events, "final": h.Final}}
	w.Count("registry:" + h.Registry + ":" + strings.ToLower(ctor[1:]))
	w.Count(fmt.Sprintf("goroutines:%d", h.G))
	b, _ := json.Marshal(h.Events)
	w.Add(term, js, "", ctor+"|"+h.Registry+"|"+string(b), nreg > 0 && nget+nclone > 0)
}

func mainPass(cfg out.Config, w *out.Writer) {
	r := rng.New(cfg.Seed)

	// ---- non-jittered strategies: every attempt, also outside 0..30 (the model wraps like int64) ----
	names := []string{"linear", "exponential", "", "LINEAR", "Exponential", "unknown", "constant", "linear ", "eXpOnEnTiAl"}
	windows := [][2]int{{0, 31}, {-3, 80}, {28, 10}, {-1, 3}, {60, 8}}
	for _, name := range names {
		ctor, _ := stratOf(name)
		f := backoff.GetByName(name)
		for _, win := range windows {
			obs := make([]int64, win[1])
			for k := range obs {
				obs[k] = int64(f(win[0] + k))
			}
			w.Count("backoff:" + ctor)
			w.Add(emit.App("CBack", ctor, emit.Z(int64(win[0])), emit.ZList(obs)),
				map[string]interface{}{"level": "backoff", "strategy": name, "from": win[0], "observed": obs}, "",
				fmt.Sprintf("B|%s|%d|%d", ctor, win[0], win[1]), true)
		}
	}

	// ---- jittered strategies with a seeded source: the draw is known ----
	draws, chunk := 40, 40
	if cfg.Thorough() {
		draws, chunk = 1500, 100
	}
	for _, name := range []string{"linear-jitter", "exponential-jitter", "Linear-Jitter"} {
		ctor, _ := stratOf(name)
		f := backoff.GetByName(name)
		for i := 0; i <= 40; i++ {
			nd := draws
			if i > 30 || name == "Linear-Jitter" {
				nd = 10
			}
			for done := 0; done < nd; done += chunk {
				seed := int64(r.U64() >> 1)
				old := backoff.VerifC20SetRandom(rand.New(rand.NewSource(seed)))
				twin := rand.New(rand.NewSource(seed))
				arg := i
				if ctor == "JExponential" {
					arg = int(1 << uint(i))
				}
				n := 2 * (arg*1000/3 + 1)
				k := chunk
				if nd-done < k {
					k = nd - done
				}
				ps := make([]string, k)
				pj := make([][2]int64, k)
				for d := 0; d < k; d++ {
					want := int64(twin.Intn(n))
					got := int64(f(i))
					ps[d] = emit.Pair(emit.Z(want), emit.Z(got))
					pj[d] = [2]int64{want, got}
				}
				backoff.VerifC20SetRandom(old)
				w.Count("jitter:" + ctor)
				if i <= 30 {
					w.Count("jitter:in-domain")
				}
				w.Add(emit.App("CJit", ctor, emit.Z(int64(i)), emit.List(ps)),
					map[string]interface{}{"level": "jitter", "strategy": name, "attempt": i, "source_seed": seed,
						"observed": map[string]interface{}{"draw_and_delay": pj}}, "",
					fmt.Sprintf("J|%s|%d|%d", ctor, i, seed), true)
			}
		}
	}

	// ---- every registry from one goroutine: exact agreement with the sequential model ----
	nseq := 40
	if cfg.Thorough() {
		nseq = 400
	}
	for _, kind := range registryNames {
		for i := 0; i < nseq; i++ {
			func() {
				defer func() {
					if e := recover(); e != nil {
						crashCase(w, fmt.Sprintf("seq:%s:%d", kind, i), fmt.Sprint("panic: ", e))
					}
				}()
				histCase(w, "CSeq", runSeq(kind, i, cfg.Seed, 10+r.Intn(30)))
			}()
		}
	}

	// ---- every registry from many goroutines: recorded histories (child processes) ----
	for _, kind := range registryNames {
		so, se, err := runChild(cfg, "hist:"+kind)
		n := 0
		for _, line := range strings.Split(so, "\n") {
			var h histOut
			if strings.TrimSpace(line) == "" || json.Unmarshal([]byte(line), &h) != nil {
				continue
			}
			n++
			histCase(w, "CHist", h)
		}
		if err != nil || n != histScenarios(cfg.Thorough()) {
			crashCase(w, "hist:"+kind, fmt.Sprintf("child: %v after %d scenarios\n%s", err, n, se))
		}
	}

	// ---- namespaced register: concurrent first registrations ----
	{
		so, se, err := runChild(cfg, "ns")
		n := 0
		for _, line := range strings.Split(so, "\n") {
			var o nsOut
			if strings.TrimSpace(line) == "" || json.Unmarshal([]byte(line), &o) != nil {
				continue
			}
			n++
			regs := make([]string, len(o.Regs))
			for i, x := range o.Regs {
				regs[i] = emit.Tuple(emit.Str(x.Ns), emit.Str(x.Name), emit.Z(x.V))
			}
			nss := make([]string, 0, len(o.Final))
			for ns := range o.Final {
				nss = append(nss, ns)
			}
			sort.Strings(nss)
			fin := make([]string, len(nss))
			for i, ns := range nss {
				fin[i] = emit.Pair(emit.Str(ns), rmapCoq(o.Final[ns]))
			}
			w.Count(fmt.Sprintf("namespaced-stress:goroutines:%d", o.G))
			w.Add(emit.App("CNs", emit.List(regs), emit.List(fin)),
				map[string]interface{}{"level": "namespaced-stress", "batch": o.Batch, "goroutines": o.G, "trials": o.Trials,
					"with_add_namespace": o.WithAdd, "registrations": o.Regs,
					"observed": map[string]interface{}{"final": o.Final, "trials_with_lost_registration": o.Lost, "trial_reported": o.Trial}},
				"", fmt.Sprintf("N|%d|%d", o.Batch, o.G), true)
		}
		nb, _ := nsBatches(cfg.Thorough())
		if err != nil || n != nb {
			crashCase(w, "ns", fmt.Sprintf("child: %v after %d batches\n%s", err, n, se))
		}
	}

	// ---- jittered strategies from many goroutines ----
	{
		so, se, err := runChild(cfg, "jitconc")
		n := 0
		for _, line := range strings.Split(so, "\n") {
			var o jitOut
			if strings.TrimSpace(line) == "" || json.Unmarshal([]byte(line), &o) != nil {
				continue
			}
			n++
			ctor, _ := stratOf(o.Strategy)
			w.Count("jitter-concurrent:" + ctor)
			w.Add(emit.App("CJitConc", ctor, emit.Z(int64(o.Attempt)), emit.ZList(o.Obs)),
				map[string]interface{}{"level": "jitter-concurrent", "strategy": o.Strategy, "attempt": o.Attempt, "observed": o.Obs}, "",
				fmt.Sprintf("JC|%s|%d", ctor, o.Attempt), true)
		}
		if err != nil || n != 62 {
			crashCase(w, "jitconc", fmt.Sprintf("child: %v after %d results\n%s", err, n, se))
		}
	}

	w.Close("back-off: 9 strategy names x 5 windows of attempts (-3..80) compared exactly; jittered: 3 names x attempts 0..40 x "+
		strconv.Itoa(draws)+" draws (0..30) with a seeded source and the draw recomputed from a twin source; registries (untyped, namespaced, combiner, decoder, sd, gin and mux renders): "+
		strconv.Itoa(nseq)+" single-goroutine sequences each against the sequential model, "+strconv.Itoa(histScenarios(cfg.Thorough()))+
		" concurrent histories each (2..8 goroutines, 1..3 hot keys) checked for 'previous or newly registered value'; namespaced first-registration stress; concurrent jitter draws; nontrivial = case with both registrations and lookups, or any back-off case", false)
}

var luraFrame = regexp.MustCompile(`github\.com/luraproject/lura/v2/`)

func raceReports(prefix string) (int, string) {
	files, _ := filepath.Glob(prefix + ".*")
	n, first := 0, ""
	for _, f := range files {
		b, err := os.ReadFile(f)
		if err != nil {
			continue
		}
		for _, block := range strings.Split(string(b), "==================") {
			if strings.Contains(block, "WARNING: DATA RACE") && luraFrame.MatchString(block) {
				n++
				if first == "" {
					first = tail(block, 3000)
					if len(block) > 3000 {
						first = block[:3000]
					}
				}
			}
		}
	}
	return n, first
}

func racePass(cfg out.Config, w *out.Writer) {
	if !raceEnabled {
		fmt.Fprintln(os.Stderr, "--extra race needs a binary built with -race")
		os.Exit(3)
	}
	variants := 2
	if cfg.Thorough() {
		variants = 6
	}
	for _, sc := range raceScenarios {
		for v := 0; v < variants; v++ {
			name := fmt.Sprintf("%s:%d", sc, v)
			logp := filepath.Join(cfg.Dir, fmt.Sprintf("race-%s-%d", sc, v))
			gorace := "halt_on_error=0"
			for _, f := range strings.Fields(os.Getenv("GORACE")) {
				if !strings.HasPrefix(f, "log_path=") && !strings.HasPrefix(f, "halt_on_error=") {
					gorace += " " + f
				}
			}
			gorace += " log_path=" + logp
			env := []string{"GORACE=" + gorace}
			procs := []string{"", "4", "16", "2", "", "1"}[v%6]
			if procs != "" {
				env = append(env, "GOMAXPROCS="+procs)
			}
			so, se, err := runChild(cfg, "race:"+name, env...)
			nrace, first := raceReports(logp)
			var res map[string]string
			crashed := ""
			if json.Unmarshal([]byte(strings.TrimSpace(so)), &res) != nil || res["result"] != "done" {
				// exit status 66 alone is the race detector's; a missing result is a crash
				crashed = fmt.Sprintf("child: %v %q\n%s", err, tail(so, 200), tail(se, 1500))
			}
			observed := nrace > 0 || crashed != ""
			w.Count("race:" + sc)
			w.Add(emit.App("CRace", emit.Str(name), emit.Bool(observed)),
				map[string]interface{}{"level": "race", "scenario": sc, "variant": v, "gomaxprocs": procs,
					"observed": map[string]interface{}{"race_reports_with_lura_frame": nrace, "observed_race": observed,
						"first_report": first, "child_crashed": crashed}}, "", "R|"+name, true)
		}
	}
	w.Close("race-detector build: one child process per scenario and variant (goroutines 3/8/16, GOMAXPROCS default/1/2/4/16): register/lookup/snapshot mixes on register.Untyped and Namespaced, the combiner, decoder, sd, gin-render and mux-render registers while handlers are built and requests served, the five back-off strategies shared by all goroutines, the three balancers, the DNS subscriber's Hosts() during refreshes; observed_race = a report with a lura frame in the child's race log, or the child was killed", false)
}

func main() {
	cfg := out.ParseFlags("C20")
	if strings.HasPrefix(cfg.Extra, "child:") {
		childMain(cfg.Extra, cfg.Seed, cfg.Thorough())
		return
	}
	w := out.NewWriter(cfg, "Verif.Corr.C20", 100)
	if cfg.Only >= 0 {
		// replay of one case: meta.json must not carry "samples": null (the driver slices it)
		w.Meta["samples"] = []interface{}{}
	}
	if cfg.Extra == "race" {
		racePass(cfg, w)
		return
	}
	mainPass(cfg, w)
}
