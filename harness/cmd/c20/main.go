// C20 generator: drives the real back-off functions and the real registries of lura.
//
//	(no --extra)     back-off delays for every strategy and attempt (the jittered ones with the
//	                 package's random source replaced by a seeded one, so that the draw is known);
//	                 every registry from one goroutine against the sequential model; and, in child
//	                 processes, every registry from many goroutines with recorded histories, the
//	                 first-registration stress of the namespaced register, concurrent jitter.
//	--extra race     (race-detector build) one child process per concurrent scenario; the parent
//	                 reads the race logs the child left: one case per scenario, observed_race.
//	--extra child:.. internal.
package main

import (
	"bytes"
	"context"
	"encoding/json"
	"fmt"
	"os"
	"os/exec"
	"path/filepath"
	"regexp"
	"sort"
	"strconv"
	"strings"
	"time"

	"verif/harness/internal/emit"
	"verif/harness/internal/out"
)

func rmapCoq(m map[string]int64) string {
	ks := make([]string, 0, len(m))
	for k := range m {
		ks = append(ks, k)
	}
	sort.Strings(ks)
	xs := make([]string, len(ks))
	for i, k := range ks {
		xs[i] = emit.Pair(emit.Str(k), emit.Z(m[k]))
	}
	return emit.List(xs)
}

func ropCoq(o hOp) string {
	switch o.Kind {
	case "reg":
		return emit.App("RReg", emit.Str(o.Key), emit.Z(o.Val))
	case "get":
		if o.Found {
			return emit.App("RGet", emit.Str(o.Key), emit.Some(emit.Z(o.Val)))
		}
		return emit.App("RGet", emit.Str(o.Key), "None")
	}
	m := o.Snap
	if m == nil {
		m = map[string]int64{}
	}
	return emit.App("RClone", rmapCoq(m))
}

func tail(s string, n int) string {
	if len(s) > n {
		return s[len(s)-n:]
	}
	return s
}

// budgets: a child that has not finished within its budget is killed by the parent; a child in
// which nothing completes for the stall limit reports the operations in flight and exits by itself.
func childBudget(cfg out.Config) time.Duration {
	if cfg.Thorough() {
		return 6 * time.Minute
	}
	return 60 * time.Second
}

type childResult struct {
	stdout, stderr string
	err            error
	blocked        *blockedReport // non-nil: no progress (deadlock) or budget overrun
	wall           time.Duration
}

var blockedChildren int

// runChild re-executes this binary for one group of concurrent scenarios.
func runChild(cfg out.Config, what string, env ...string) childResult {
	self, e := os.Executable()
	if e != nil {
		panic(e)
	}
	ctx, cancel := context.WithTimeout(context.Background(), childBudget(cfg))
	defer cancel()
	cmd := exec.CommandContext(ctx, self, "--tier", cfg.Tier, "--seed", strconv.FormatUint(cfg.Seed, 10), "--out", cfg.Dir, "--extra", "child:"+what)
	cmd.Env = append(os.Environ(), env...)
	cmd.WaitDelay = 5 * time.Second
	var so, se bytes.Buffer
	cmd.Stdout, cmd.Stderr = &so, &se
	t0 := time.Now()
	err := cmd.Run()
	res := childResult{stdout: so.String(), stderr: se.String(), err: err, wall: time.Since(t0)}
	if i := strings.LastIndex(res.stderr, blockedMarker); i >= 0 {
		line := res.stderr[i+len(blockedMarker):]
		if j := strings.IndexByte(line, '\n'); j >= 0 {
			line = line[:j]
		}
		var rep blockedReport
		if json.Unmarshal([]byte(line), &rep) == nil {
			res.blocked = &rep
		}
	}
	if res.blocked == nil && ctx.Err() != nil {
		res.blocked = &blockedReport{Scenario: what, StallS: res.wall.Seconds(),
			InFlight: []string{fmt.Sprintf("child killed by the parent after %.0f s (budget overrun, no report from the child)", res.wall.Seconds())}}
	}
	if res.blocked != nil {
		blockedChildren++
	}
	return res
}

// after this many blocked children the remaining ones of the pass are not started (the verdict is
// settled and the generator has to end within its own budget)
const maxBlocked = 3

func skipRest(w *out.Writer, what string) bool {
	if blockedChildren >= maxBlocked {
		w.Count("child-skipped-after-" + strconv.Itoa(maxBlocked) + "-blocked")
		fmt.Fprintln(os.Stderr, "C20: skipping child", what, "after", blockedChildren, "blocked children")
		return true
	}
	return false
}

func blockedCase(w *out.Writer, scenario string, rep *blockedReport) {
	w.Count("blocked")
	infl := rep.InFlight
	if len(infl) == 0 {
		infl = []string{"(no operation in flight was recorded)"}
	}
	sc := scenario
	if rep.Scenario != "" && rep.Scenario != scenario {
		sc = scenario + " / " + rep.Scenario
	}
	w.Add(emit.App("CBlocked", emit.Str(sc), emit.StrList(infl)),
		map[string]interface{}{"level": "blocked", "scenario": sc,
			"observed": map[string]interface{}{"verdict": "no progress: operations blocked", "no_progress_for_s": rep.StallS, "operations_in_flight": infl}},
		"", "blocked|"+scenario, true)
}

func crashCase(w *out.Writer, scenario, msg string) {
	w.Count("crash")
	w.Add(emit.App("CCrash", emit.Str(scenario), emit.Str(tail(msg, 600))),
		map[string]interface{}{"level": "crash", "scenario": scenario, "observed": map[string]interface{}{"stderr_tail": tail(msg, 3000)}},
		"", "crash|"+scenario, true)
}

func skipCase(w *out.Writer, what string, why string) {
	w.Add(emit.App("CSkip", emit.Str(what)), map[string]interface{}{"level": "placeholder", "scenario": what, "observed": why}, "", "skip|"+what, false)
}

// lines of a child's output. Every child contributes exactly want+1 cases whatever happens (so
// that case indices are stable and a replay by index finds the same scenario): its results, a
// placeholder for every result it did not deliver, and one status case - finished / blocked /
// crashed.
func childLines(cfg out.Config, w *out.Writer, what string, want int, each func(line []byte) bool) {
	if skipRest(w, what) {
		for i := 0; i <= want; i++ {
			skipCase(w, what, "child not started: too many blocked children before it")
		}
		return
	}
	res := runChild(cfg, what)
	n := 0
	for _, line := range strings.Split(res.stdout, "\n") {
		if strings.TrimSpace(line) == "" || n >= want {
			continue
		}
		if each([]byte(line)) {
			n++
		}
	}
	for i := n; i < want; i++ {
		skipCase(w, what, "result not delivered by the child (see its status case)")
	}
	switch {
	case res.blocked != nil:
		blockedCase(w, what, res.blocked)
	case res.err != nil || n != want:
		crashCase(w, what, fmt.Sprintf("child: %v after %d of %d results\n%s", res.err, n, want, res.stderr))
	default:
		w.Count("child-finished")
		w.Add(emit.App("CLive", emit.Str(what), emit.Bool(true)),
			map[string]interface{}{"level": "child-status", "scenario": what,
				"observed": map[string]interface{}{"finished": true, "results": n, "wall_s": res.wall.Seconds()}}, "", "status|"+what, false)
	}
}

func stratOf(name string) (string, bool) { // Coq constructor, jittered?
	switch strings.ToLower(name) {
	case "linear":
		return "SLinear", false
	case "exponential":
		return "SExponential", false
	case "linear-jitter":
		return "JLinear", true
	case "exponential-jitter":
		return "JExponential", true
	}
	return "SDefault", false
}

func histCase(w *out.Writer, ctor string, h histOut) {
	var evs []string
	nreg, nget, nclone := 0, 0, 0
	for _, o := range h.Events {
		switch o.Kind {
		case "reg":
			nreg++
		case "get":
			nget++
		default:
			nclone++
		}
		if ctor == "CSeq" {
			evs = append(evs, ropCoq(o))
		} else {
			evs = append(evs, emit.Tuple(ropCoq(o), emit.Z(o.Inv), emit.Z(o.Ret)))
		}
	}
	term := emit.App(ctor, emit.Str(h.Registry), rmapCoq(h.Init), emit.List(evs), rmapCoq(h.Final))
	js := map[string]interface{}{"level": strings.ToLower(ctor[1:]), "registry": h.Registry, "scenario": h.Scenario, "goroutines": h.G,
		"init": h.Init, "observed": map[string]interface{}{"events": h.Events, "final": h.Final}}
	w.Count("registry:" + h.Registry + ":" + strings.ToLower(ctor[1:]))
	w.Count(fmt.Sprintf("goroutines:%d", h.G))
	b, _ := json.Marshal(h.Events)
	w.Add(term, js, "", ctor+"|"+h.Registry+"|"+string(b), nreg > 0 && nget+nclone > 0)
}

func mainPass(cfg out.Config, w *out.Writer) {
	// every call into lura happens in a child process with a watchdog (see conc.go)

	// ---- back-off: non-jittered strategies for every attempt, also outside 0..30 (the model wraps
	// like int64); jittered strategies with a seeded source: the draw is known ----
	draws, _ := jitDraws(cfg.Thorough())
	childLines(cfg, w, "backoff", backoffCount(cfg.Thorough()), func(line []byte) bool {
		var o backOut
		if json.Unmarshal(line, &o) != nil {
			return false
		}
		ctor, _ := stratOf(o.Name)
		if o.Kind == "back" {
			w.Count("backoff:" + ctor)
			w.Add(emit.App("CBack", ctor, emit.Z(int64(o.From)), emit.ZList(o.Obs)),
				map[string]interface{}{"level": "backoff", "strategy": o.Name, "from": o.From, "observed": o.Obs}, "",
				fmt.Sprintf("B|%s|%d|%d", ctor, o.From, len(o.Obs)), true)
			return true
		}
		ps := make([]string, len(o.Pairs))
		for d, p := range o.Pairs {
			ps[d] = emit.Pair(emit.Z(p[0]), emit.Z(p[1]))
		}
		w.Count("jitter:" + ctor)
		if o.Attempt <= 30 {
			w.Count("jitter:in-domain")
		}
		w.Add(emit.App("CJit", ctor, emit.Z(int64(o.Attempt)), emit.List(ps)),
			map[string]interface{}{"level": "jitter", "strategy": o.Name, "attempt": o.Attempt, "source_seed": o.Seed,
				"observed": map[string]interface{}{"draw_and_delay": o.Pairs}}, "",
			fmt.Sprintf("J|%s|%d|%d", ctor, o.Attempt, o.Seed), true)
		return true
	})

	// ---- every registry from one goroutine: exact agreement with the sequential model ----
	for _, kind := range registryNames {
		childLines(cfg, w, "seq:"+kind, seqCount(cfg.Thorough()), func(line []byte) bool {
			var h histOut
			if json.Unmarshal(line, &h) != nil {
				return false
			}
			histCase(w, "CSeq", h)
			return true
		})
	}

	// ---- every registry from many goroutines: recorded histories ----
	for _, kind := range registryNames {
		childLines(cfg, w, "hist:"+kind, histScenarios(cfg.Thorough()), func(line []byte) bool {
			var h histOut
			if json.Unmarshal(line, &h) != nil {
				return false
			}
			histCase(w, "CHist", h)
			return true
		})
	}

	// ---- render registers through the routers' own lookup path: handlers built while renders are
	// registered without pause (liveness) ----
	for _, router := range []string{"gin", "mux"} {
		childLines(cfg, w, "live:"+router, 1, func(line []byte) bool {
			var o liveOut
			if json.Unmarshal(line, &o) != nil {
				return false
			}
			w.Count("live:" + router)
			w.Add(emit.App("CLive", emit.Str(o.Scenario+":stress"), emit.Bool(true)),
				map[string]interface{}{"level": "live", "scenario": o.Scenario,
					"observed": map[string]interface{}{"handlers_built": o.Builds, "registrations_meanwhile": o.Regs, "finished": true}},
				"", "L|"+o.Scenario, true)
			return true
		})
	}

	// ---- namespaced register: concurrent first registrations ----
	nb, _ := nsBatches(cfg.Thorough())
	childLines(cfg, w, "ns", nb, func(line []byte) bool {
		var o nsOut
		if json.Unmarshal(line, &o) != nil {
			return false
		}
		regs := make([]string, len(o.Regs))
		for i, x := range o.Regs {
			regs[i] = emit.Tuple(emit.Str(x.Ns), emit.Str(x.Name), emit.Z(x.V))
		}
		nss := make([]string, 0, len(o.Final))
		for ns := range o.Final {
			nss = append(nss, ns)
		}
		sort.Strings(nss)
		fin := make([]string, len(nss))
		for i, ns := range nss {
			fin[i] = emit.Pair(emit.Str(ns), rmapCoq(o.Final[ns]))
		}
		w.Count(fmt.Sprintf("namespaced-stress:goroutines:%d", o.G))
		w.Add(emit.App("CNs", emit.List(regs), emit.List(fin)),
			map[string]interface{}{"level": "namespaced-stress", "batch": o.Batch, "goroutines": o.G, "trials": o.Trials,
				"with_add_namespace": o.WithAdd, "registrations": o.Regs,
				"observed": map[string]interface{}{"final": o.Final, "trials_with_lost_registration": o.Lost, "trial_reported": o.Trial}},
			"", fmt.Sprintf("N|%d|%d", o.Batch, o.G), true)
		return true
	})

	// ---- jittered strategies from many goroutines ----
	childLines(cfg, w, "jitconc", 64, func(line []byte) bool {
		var o jitOut
		if json.Unmarshal(line, &o) != nil {
			return false
		}
		ctor, _ := stratOf(o.Strategy)
		w.Count("jitter-concurrent:" + ctor)
		w.Add(emit.App("CJitConc", ctor, emit.Z(int64(o.Attempt)), emit.ZList(o.Obs)),
			map[string]interface{}{"level": "jitter-concurrent", "strategy": o.Strategy, "attempt": o.Attempt, "observed": o.Obs}, "",
			fmt.Sprintf("JC|%s|%d|%d", ctor, o.Attempt, len(o.Obs)), true)
		return true
	})

	w.Meta["blocked_children"] = blockedChildren
	w.Close("every call into lura runs in a child process under a watchdog (no progress for "+stallLimit(cfg.Thorough()).String()+" or budget "+childBudget(cfg).String()+": the child is ended and becomes a failing case listing the operations in flight). back-off: 9 strategy names x 5 windows of attempts (-3..80) compared exactly; jittered: 3 names x attempts 0..40 x "+
		strconv.Itoa(draws)+" draws (0..30) with a seeded source and the draw recomputed from a twin source; registries (untyped, namespaced, combiner, decoder, sd, gin and mux renders through getWithFallback and through the endpoint handler factories / getRender): "+
		strconv.Itoa(seqCount(cfg.Thorough()))+" single-goroutine sequences each against the sequential model, "+strconv.Itoa(histScenarios(cfg.Thorough()))+
		" concurrent histories each (2..8 goroutines, 1..3 hot keys) checked for 'previous or newly registered value'; handler-building vs RegisterRender liveness stress for gin and mux; namespaced first-registration stress; concurrent jitter draws; nontrivial = case with both registrations and lookups, or any back-off case", false)
}

var luraFrame = regexp.MustCompile(`github\.com/luraproject/lura/v2/`)

func raceReports(prefix string) (int, string) {
	files, _ := filepath.Glob(prefix + ".*")
	n, first := 0, ""
	for _, f := range files {
		b, err := os.ReadFile(f)
		if err != nil {
			continue
		}
		for _, block := range strings.Split(string(b), "==================") {
			if strings.Contains(block, "WARNING: DATA RACE") && luraFrame.MatchString(block) {
				n++
				if first == "" {
					first = tail(block, 3000)
					if len(block) > 3000 {
						first = block[:3000]
					}
				}
			}
		}
	}
	return n, first
}

func racePass(cfg out.Config, w *out.Writer) {
	if !raceEnabled {
		fmt.Fprintln(os.Stderr, "--extra race needs a binary built with -race")
		os.Exit(3)
	}
	variants := 2
	if cfg.Thorough() {
		variants = 6
	}
	for _, sc := range raceScenarios {
		for v := 0; v < variants; v++ {
			name := fmt.Sprintf("%s:%d", sc, v)
			logp := filepath.Join(cfg.Dir, fmt.Sprintf("race-%s-%d", sc, v))
			gorace := "halt_on_error=0"
			for _, f := range strings.Fields(os.Getenv("GORACE")) {
				if !strings.HasPrefix(f, "log_path=") && !strings.HasPrefix(f, "halt_on_error=") {
					gorace += " " + f
				}
			}
			gorace += " log_path=" + logp
			env := []string{"GORACE=" + gorace}
			procs := []string{"", "4", "16", "2", "", "1"}[v%6]
			if procs != "" {
				env = append(env, "GOMAXPROCS="+procs)
			}
			if skipRest(w, "race:"+name) {
				skipCase(w, "race:"+name, "child not started: too many blocked children before it")
				continue
			}
			cres := runChild(cfg, "race:"+name, env...)
			so, se, err := cres.stdout, cres.stderr, cres.err
			nrace, first := raceReports(logp)
			if cres.blocked != nil {
				cres.blocked.InFlight = append(cres.blocked.InFlight, fmt.Sprintf("(race reports with a lura frame before the block: %d)", nrace))
				blockedCase(w, "race:"+name, cres.blocked)
				continue
			}
			var res map[string]string
			crashed := ""
			if json.Unmarshal([]byte(strings.TrimSpace(so)), &res) != nil || res["result"] != "done" {
				// exit status 66 alone is the race detector's; a missing result is a crash
				crashed = fmt.Sprintf("child: %v %q\n%s", err, tail(so, 200), tail(se, 1500))
			}
			observed := nrace > 0 || crashed != ""
			w.Count("race:" + sc)
			w.Add(emit.App("CRace", emit.Str(name), emit.Bool(observed)),
				map[string]interface{}{"level": "race", "scenario": sc, "variant": v, "gomaxprocs": procs,
					"observed": map[string]interface{}{"race_reports_with_lura_frame": nrace, "observed_race": observed,
						"first_report": first, "child_crashed": crashed}}, "", "R|"+name, true)
		}
	}
	w.Close("race-detector build: one child process per scenario and variant (goroutines 3/8/16, GOMAXPROCS default/1/2/4/16): register/lookup/snapshot mixes on register.Untyped and Namespaced, the combiner, decoder, sd, gin-render and mux-render registers while handlers are built and requests served, the five back-off strategies shared by all goroutines, the three balancers, the DNS subscriber's Hosts() during refreshes; a child that makes no progress becomes a failing 'blocked' case; observed_race = a report with a lura frame in the child's race log, or the child was killed", false)
}

func main() {
	cfg := out.ParseFlags("C20")
	if strings.HasPrefix(cfg.Extra, "child:") {
		childMain(cfg.Extra, cfg.Seed, cfg.Thorough())
		return
	}
	w := out.NewWriter(cfg, "Verif.Corr.C20", 100)
	if cfg.Only >= 0 {
		// replay of one case: meta.json must not carry "samples": null (the driver slices it)
		w.Meta["samples"] = []interface{}{}
	}
	if cfg.Extra == "race" {
		racePass(cfg, w)
		return
	}
	mainPass(cfg, w)
}
