package main

// Concurrent scenarios. They run in child processes (the generator re-executes itself with
// --extra child:...): a mutated registry can kill the process (the runtime's "concurrent map
// writes" check is fatal), and the parent must survive to report it as a case.

import (
	"context"
	"encoding/json"
	"errors"
	"fmt"
	"math/rand"
	"net"
	"net/http"
	"net/http/httptest"
	"os"
	"runtime"
	"sort"
	"strings"
	"sync"
	"sync/atomic"
	"time"

	"github.com/gin-gonic/gin"
	"github.com/luraproject/lura/v2/backoff"
	"github.com/luraproject/lura/v2/config"
	"github.com/luraproject/lura/v2/logging"
	"github.com/luraproject/lura/v2/proxy"
	"github.com/luraproject/lura/v2/register"
	krakendgin "github.com/luraproject/lura/v2/router/gin"
	"github.com/luraproject/lura/v2/router/mux"
	"github.com/luraproject/lura/v2/sd"
	"github.com/luraproject/lura/v2/sd/dnssrv"

	"verif/harness/internal/rng"
)

// ---------------------------------------------------------------------------------------
// progress tracking: what every goroutine of the running scenario is doing. Each goroutine writes
// only its own slots (no ordering between the goroutines is introduced); the watchdog reads them.
// A child in which nothing completes for `stall` is blocked (a deadlock in the code under test):
// it reports the operations in flight and exits; the parent additionally kills a child that
// overruns its budget. The generator therefore always terminates.

type flight struct {
	scenario string
	cur      []atomic.Pointer[string]
	done     []atomic.Int64
}

var (
	curFlight  atomic.Pointer[flight]
	flightsEnd atomic.Int64
)

func newFlight(scenario string, g int) *flight {
	f := &flight{scenario: scenario, cur: make([]atomic.Pointer[string], g), done: make([]atomic.Int64, g)}
	flightsEnd.Add(1)
	curFlight.Store(f)
	return f
}
func (f *flight) begin(t int, desc *string) { f.cur[t].Store(desc) }
func (f *flight) end(t int)                 { f.cur[t].Store(nil); f.done[t].Add(1) }

func progressNow() int64 {
	p := flightsEnd.Load() << 32
	if f := curFlight.Load(); f != nil {
		for i := range f.done {
			p += f.done[i].Load()
		}
	}
	return p
}

const blockedMarker = "C20-BLOCKED "

type blockedReport struct {
	Scenario string   `json:"scenario"`
	StallS   float64  `json:"no_progress_for_s"`
	InFlight []string `json:"in_flight"`
}

func startWatchdog(stall time.Duration) {
	go func() {
		last, since := progressNow(), time.Now()
		tk := time.NewTicker(250 * time.Millisecond)
		for range tk.C {
			if p := progressNow(); p != last {
				last, since = p, time.Now()
				continue
			}
			if time.Since(since) < stall {
				continue
			}
			rep := blockedReport{StallS: time.Since(since).Seconds()}
			if f := curFlight.Load(); f != nil {
				rep.Scenario = f.scenario
				for i := range f.cur {
					if d := f.cur[i].Load(); d != nil {
						rep.InFlight = append(rep.InFlight, fmt.Sprintf("goroutine %d: %s (after %d completed operations)", i, *d, f.done[i].Load()))
					}
				}
			}
			b, _ := json.Marshal(rep)
			fmt.Fprintln(os.Stderr, blockedMarker+string(b))
			os.Exit(4)
		}
	}()
}

func stallLimit(thorough bool) time.Duration {
	if thorough {
		return 60 * time.Second
	}
	return 15 * time.Second
}

// ---------------------------------------------------------------------------------------
// recorded histories

type hOp struct {
	Kind  string           `json:"k"` // reg | get | clone
	Key   string           `json:"key,omitempty"`
	Val   int64            `json:"v,omitempty"`
	Found bool             `json:"found,omitempty"`
	Snap  map[string]int64 `json:"snap,omitempty"`
	Inv   int64            `json:"inv"`
	Ret   int64            `json:"ret"`
	G     int              `json:"g"`
	desc  string
}

type histOut struct {
	Registry string           `json:"registry"`
	Scenario int              `json:"scenario"`
	G        int              `json:"goroutines"`
	Init     map[string]int64 `json:"init"`
	Events   []hOp            `json:"events"`
	Final    map[string]int64 `json:"final"`
}

func histScenarios(thorough bool) int {
	if thorough {
		return 300
	}
	return 30
}

// plan of one history scenario, a function of (seed, registry, index) only
type histPlan struct {
	keys  []string
	init  map[string]int64
	progs [][]hOp
}

func kindIndex(kind string) int {
	for i, k := range registryNames {
		if k == kind {
			return i
		}
	}
	return 99
}

func makeHistPlan(seed uint64, kind string, idx int, canClone bool) histPlan {
	r := rng.New(seed*1000003 + uint64(kindIndex(kind))*7919 + uint64(idx)*104729 + 17)
	nk := 1 + r.Intn(3)
	g := []int{2, 2, 3, 4, 4, 8}[r.Intn(6)]
	p := histPlan{init: map[string]int64{}}
	for i := 0; i < nk; i++ {
		k := fmt.Sprintf("c20h%d.%d.k%d", seed, idx, i)
		if kind == "namespaced" {
			k = fmt.Sprintf("ns%d|n%d", i%2, i)
		}
		fixed := kind == "gin-render-negotiate" // built-in names of a process-wide register: every
		if fixed {                              // scenario starts from values it registered itself
			k = negotiateKeys[(idx+i)%3]
		}
		p.keys = append(p.keys, k)
		if fixed {
			p.init[k] = int64(1000*(idx+1) + i)
		} else if r.Chance(1, 3) {
			p.init[k] = int64(1 + i)
		}
	}
	for t := 0; t < g; t++ {
		n := 6 + r.Intn(14)
		if g == 8 {
			n = 4 + r.Intn(8)
		}
		var prog []hOp
		for j := 0; j < n; j++ {
			k := p.keys[r.Intn(nk)]
			x := r.Intn(10)
			switch {
			case x < 4:
				prog = append(prog, hOp{Kind: "reg", Key: k, Val: int64((t+1)*10000 + j), G: t})
			case x < 9 || !canClone:
				prog = append(prog, hOp{Kind: "get", Key: k, G: t})
			default:
				prog = append(prog, hOp{Kind: "clone", G: t})
			}
			o := &prog[len(prog)-1]
			o.desc = fmt.Sprintf("%s %s(%s)", kind, map[string]string{"reg": "register", "get": "lookup", "clone": "snapshot"}[o.Kind], o.Key)
		}
		p.progs = append(p.progs, prog)
	}
	return p
}

func runHist(kind string, idx int, seed uint64) histOut {
	reg := newRegistry(kind)
	canClone := reg.clone() != nil
	p := makeHistPlan(seed, kind, idx, canClone)
	for _, k := range p.keys { // initial contents, before any goroutine exists
		if v, ok := p.init[k]; ok {
			reg.reg(k, v)
		}
	}
	var tick int64
	start := make(chan struct{})
	var wg sync.WaitGroup
	fl := newFlight(fmt.Sprintf("hist:%s:%d", kind, idx), len(p.progs))
	for t := range p.progs {
		wg.Add(1)
		go func(t int, prog []hOp) {
			defer wg.Done()
			<-start
			for j := range prog {
				o := &prog[j]
				fl.begin(t, &o.desc)
				o.Inv = atomic.AddInt64(&tick, 1)
				switch o.Kind {
				case "reg":
					reg.reg(o.Key, o.Val)
				case "get":
					o.Val, o.Found = reg.get(o.Key)
				case "clone":
					o.Snap = reg.clone()
				}
				o.Ret = atomic.AddInt64(&tick, 1)
				fl.end(t)
			}
		}(t, p.progs[t])
	}
	close(start)
	wg.Wait()
	res := histOut{Registry: kind, Scenario: idx, G: len(p.progs), Init: p.init, Final: map[string]int64{}}
	for _, prog := range p.progs {
		res.Events = append(res.Events, prog...)
	}
	sort.Slice(res.Events, func(i, j int) bool { return res.Events[i].Inv < res.Events[j].Inv })
	if canClone {
		res.Final = reg.clone()
	} else {
		for _, k := range p.keys {
			if v, ok := reg.get(k); ok {
				res.Final[k] = v
			}
		}
	}
	return res
}

// one goroutine, exact comparison against the sequential model
func runSeq(kind string, idx int, seed uint64, n int) histOut {
	reg := newRegistry(kind)
	canClone := reg.clone() != nil
	r := rng.New(seed*7 + uint64(kindIndex(kind))*31 + uint64(idx)*1009 + 3)
	nk := 1 + r.Intn(4)
	res := histOut{Registry: kind, Scenario: idx, G: 1, Init: map[string]int64{}, Final: map[string]int64{}}
	var keys []string
	for i := 0; i < nk; i++ {
		k := fmt.Sprintf("c20q%d.%d.k%d", seed, idx, i)
		if kind == "namespaced" {
			k = fmt.Sprintf("ns%d|n%d", i%2, i)
		}
		if kind == "gin-render-negotiate" {
			if i >= 3 {
				break
			}
			k = negotiateKeys[(idx+i)%3]
			keys = append(keys, k)
			res.Init[k] = int64(1000*(idx+1) + i)
			reg.reg(k, res.Init[k])
			continue
		}
		keys = append(keys, k)
		if r.Chance(1, 3) {
			res.Init[k] = int64(1 + i)
			reg.reg(k, int64(1+i))
		}
	}
	fl := newFlight(fmt.Sprintf("seq:%s:%d", kind, idx), 1)
	for j := 0; j < n; j++ {
		k := keys[r.Intn(len(keys))]
		x := r.Intn(10)
		o := hOp{Key: k, Inv: int64(2*j + 1), Ret: int64(2*j + 2)}
		d := fmt.Sprintf("%s operation %d on %s (single goroutine)", kind, j, k)
		fl.begin(0, &d)
		switch {
		case x < 4:
			o.Kind, o.Val = "reg", int64(100+j)
			if r.Chance(1, 5) {
				o.Val = int64(100 + r.Intn(3)) // repeated values too
			}
			reg.reg(k, o.Val)
		case x < 9 || !canClone:
			o.Kind = "get"
			o.Val, o.Found = reg.get(k)
		default:
			o.Kind, o.Key = "clone", ""
			o.Snap = reg.clone()
		}
		fl.end(0)
		res.Events = append(res.Events, o)
	}
	if canClone {
		res.Final = reg.clone()
	} else {
		for _, k := range keys {
			if v, ok := reg.get(k); ok {
				res.Final[k] = v
			}
		}
	}
	return res
}

// ---------------------------------------------------------------------------------------
// namespaced register: first registrations of several names in one namespace at once

type nsReg struct {
	Ns   string `json:"ns"`
	Name string `json:"name"`
	V    int64  `json:"v"`
}

type nsOut struct {
	Batch   int                         `json:"batch"`
	G       int                         `json:"goroutines"`
	Trials  int                         `json:"trials"`
	Lost    int                         `json:"trials_with_lost_registration"`
	Trial   int                         `json:"trial_reported"`
	Regs    []nsReg                     `json:"registrations"`
	Final   map[string]map[string]int64 `json:"final"`
	WithAdd bool                        `json:"with_add_namespace"`
}

func nsBatches(thorough bool) (int, int) {
	if thorough {
		return 24, 20000
	}
	return 12, 6000
}

func runNsBatch(batch, trials int) nsOut {
	g := []int{2, 2, 3, 4, 8, 2}[batch%6]
	nns := 1 + (batch/6)%2
	withAdd := batch%4 == 3
	out := nsOut{Batch: batch, G: g, Trials: trials, Trial: -1, WithAdd: withAdd}
	fl := newFlight(fmt.Sprintf("ns:batch%d", batch), g)
	descs := make([]string, g)
	for i := range descs {
		descs[i] = fmt.Sprintf("Namespaced.Register(ns%d, n%d) on a fresh register", i%nns, i)
	}
	for trial := 0; trial < trials; trial++ {
		n := register.New()
		regs := make([]nsReg, g)
		for i := range regs {
			regs[i] = nsReg{Ns: fmt.Sprintf("ns%d", i%nns), Name: fmt.Sprintf("n%d", i), V: int64(trial*100 + i)}
		}
		start := make(chan struct{})
		var wg sync.WaitGroup
		for i := range regs {
			wg.Add(1)
			go func(i int, x nsReg) {
				defer wg.Done()
				<-start
				fl.begin(i, &descs[i])
				if withAdd && i%2 == 1 {
					n.AddNamespace(x.Ns)
				}
				n.Register(x.Ns, x.Name, x.V)
				fl.end(i)
			}(i, regs[i])
		}
		close(start)
		wg.Wait()
		final := map[string]map[string]int64{}
		lost := false
		for i := 0; i < nns; i++ {
			ns := fmt.Sprintf("ns%d", i)
			if u, ok := n.Get(ns); ok {
				m := map[string]int64{}
				for k, v := range u.Clone() {
					m[k] = v.(int64)
				}
				final[ns] = m
			}
		}
		for _, x := range regs {
			if v, ok := final[x.Ns][x.Name]; !ok || v != x.V {
				lost = true
			}
		}
		if lost {
			out.Lost++
		}
		if (lost && out.Lost == 1) || (out.Lost == 0 && trial == trials-1) {
			out.Trial, out.Regs, out.Final = trial, regs, final
		}
	}
	return out
}

// ---------------------------------------------------------------------------------------
// jittered back-off from many goroutines (draws unknown)

type jitOut struct {
	Strategy string  `json:"strategy"`
	Attempt  int     `json:"attempt"`
	Obs      []int64 `json:"obs"`
}

func runJitConc(thorough bool) []jitOut {
	g, per := 8, 4
	if thorough {
		g, per = 16, 25
	}
	var res []jitOut
	for _, s := range []string{"linear-jitter", "exponential-jitter"} {
		f := backoff.GetByName(s)
		obs := make([][][]int64, g)
		fl := newFlight("jitconc:"+s, g)
		desc := s + " back-off call"
		start := make(chan struct{})
		var wg sync.WaitGroup
		for t := 0; t < g; t++ {
			obs[t] = make([][]int64, 31)
			wg.Add(1)
			go func(t int) {
				defer wg.Done()
				<-start
				for k := 0; k < per; k++ {
					for i := 0; i <= 30; i++ {
						fl.begin(t, &desc)
						obs[t][i] = append(obs[t][i], int64(f(i)))
						fl.end(t)
					}
				}
			}(t)
		}
		close(start)
		wg.Wait()
		for i := 0; i <= 30; i++ {
			o := jitOut{Strategy: s, Attempt: i}
			for t := 0; t < g; t++ {
				o.Obs = append(o.Obs, obs[t][i]...)
			}
			res = append(res, o)
		}
	}
	// attempt 0 under contention: half of the goroutines keep the shared source busy while the
	// others ask for the first delay again and again (distinct values only)
	for _, s := range []string{"linear-jitter", "exponential-jitter"} {
		f := backoff.GetByName(s)
		busy := backoff.GetByName("exponential-jitter")
		n := 3000
		if thorough {
			n = 60000
		}
		seen := make([]map[int64]bool, g)
		var stop int32
		desc := s + " back-off call for attempt 0 while the source is busy"
		parallel("jitconc0:"+s, g, func(t int, fl *flight) {
			if t%2 == 1 {
				for atomic.LoadInt32(&stop) < int32((g+1)/2) {
					fl.begin(t, &desc)
					busy(10)
					fl.end(t)
				}
				return
			}
			seen[t] = map[int64]bool{}
			for k := 0; k < n; k++ {
				fl.begin(t, &desc)
				seen[t][int64(f(0))] = true
				fl.end(t)
			}
			atomic.AddInt32(&stop, 1)
		})
		all := map[int64]bool{}
		for _, m := range seen {
			for v := range m {
				all[v] = true
			}
		}
		o := jitOut{Strategy: s, Attempt: 0}
		for v := range all {
			o.Obs = append(o.Obs, v)
		}
		sort.Slice(o.Obs, func(a, b int) bool { return o.Obs[a] < o.Obs[b] })
		res = append(res, o)
	}
	return res
}

// ---------------------------------------------------------------------------------------
// race-detector scenarios: no synchronisation of our own between the goroutines besides the
// start gate and the final wait (anything more would hide races from the detector)

var raceScenarios = []string{"untyped", "namespaced", "combiner", "decoder", "sd", "gin-render", "mux-render",
	"gin-render-handler", "mux-render-handler", "backoff", "balancers", "dns-subscriber"}

func parallel(scenario string, g int, f func(t int, fl *flight)) {
	start := make(chan struct{})
	var wg sync.WaitGroup
	fl := newFlight(scenario, g)
	for t := 0; t < g; t++ {
		wg.Add(1)
		go func(t int) {
			defer wg.Done()
			<-start
			f(t, fl)
		}(t)
	}
	close(start)
	wg.Wait()
}

func stubProxy(_ context.Context, _ *proxy.Request) (*proxy.Response, error) {
	return &proxy.Response{Data: map[string]interface{}{"a": 1}, IsComplete: true}, nil
}

func isRegistryScenario(name string) bool {
	for _, k := range registryNames {
		if k == name {
			return true
		}
	}
	return false
}

// mixed use of one registry (no synchronisation of our own between the goroutines besides the start
// gate and the final wait - anything more would hide races from the detector; the progress slots
// are written by their own goroutine only)
func runRegistryMix(name string, g, iters int) {
	reg := newRegistry(name)
	keys := []string{"c20r.a", "c20r.b", "c20r.c"}
	if name == "namespaced" {
		keys = []string{"ns0|a", "ns0|b", "ns1|c"}
	}
	if name == "gin-render-negotiate" {
		keys = negotiateKeys
	}
	if name == "combiner" {
		// the name of the built-in combiner is a registration target like any other, and names
		// nobody registered are looked up too (they resolve to the fallback)
		keys = []string{"c20r.a", "default", "c20r.never-registered"}
	}
	reg.reg(keys[0], 1)
	var nsr *register.Namespaced
	if n, ok := reg.(*namespacedReg); ok {
		nsr = n.n
	}
	isGin, isMux := strings.HasPrefix(name, "gin-render"), strings.HasPrefix(name, "mux-render")
	// while the registry is being used, requests are being served through the components that read it
	var ginEngine *gin.Engine
	var muxHandler http.HandlerFunc
	epCfg := &config.EndpointConfig{Endpoint: "/x", Method: "GET", Timeout: 10 * time.Second, OutputEncoding: "negotiate",
		Backend: []*config.Backend{{URLPattern: "/b", Encoding: "json"}}}
	if isGin {
		gin.SetMode(gin.ReleaseMode)
		ginEngine = gin.New()
		ginEngine.GET("/x", krakendgin.EndpointHandler(epCfg, stubProxy))
	}
	if isMux {
		muxHandler = mux.EndpointHandler(epCfg, stubProxy)
	}
	dReg, dGet, dClone, dExtra := name+" register", name+" lookup", name+" snapshot", name+" lookup while a request is served / a handler is built"
	parallel("mix:"+name, g, func(t int, fl *flight) {
		for j := 0; j < iters; j++ {
			k := keys[(t+j)%len(keys)]
			switch (t + j) % 4 {
			case 0:
				fl.begin(t, &dReg)
				if k == "c20r.never-registered" {
					k = "default"
				}
				reg.reg(k, int64(t*100000+j))
			case 1, 2:
				fl.begin(t, &dGet)
				reg.get(k)
				if j%16 == 0 {
					fl.begin(t, &dClone)
					reg.clone()
				}
			case 3:
				fl.begin(t, &dExtra)
				switch {
				case name == "namespaced":
					nsr.AddNamespace(fmt.Sprintf("ns%d", j%3))
				case name == "combiner":
					// building a merging proxy looks the combiner up
					cfg := &config.EndpointConfig{Timeout: time.Second,
						Backend:     []*config.Backend{{}, {}},
						ExtraConfig: config.ExtraConfig{proxy.Namespace: map[string]interface{}{"combiner": k}}}
					mw := proxy.NewMergeDataMiddleware(logging.NoOp, cfg)
					_ = mw(proxy.NoopProxy, proxy.NoopProxy)
				case isGin:
					rec := httptest.NewRecorder()
					ginEngine.ServeHTTP(rec, httptest.NewRequest("GET", "/x", nil))
					_ = krakendgin.EndpointHandler(renderCfg(k, j), stubProxy)
				case isMux:
					rec := httptest.NewRecorder()
					muxHandler(rec, httptest.NewRequest("GET", "/x", nil))
					_ = mux.EndpointHandler(renderCfg(k, j), stubProxy)
				default:
					reg.get(k)
				}
			}
			fl.end(t)
		}
	})
}

func runRaceScenario(name string, variant int, thorough bool) string {
	g := []int{8, 3, 16}[variant%3]
	iters := 300
	if thorough {
		iters = 1500
	}
	switch {
	case isRegistryScenario(name):
		runRegistryMix(name, g, iters)
	case name == "backoff":
		names := []string{"linear", "linear-jitter", "exponential", "exponential-jitter", "fallback"}
		shared := make([]backoff.TimeToWaitBeforeRetry, len(names))
		for i, n := range names {
			shared[i] = backoff.GetByName(n) // one function shared by every goroutine, as in async agents
		}
		bad := int64(0)
		desc := "back-off call"
		descName := "back-off GetByName"
		spellings := []string{"Exponential-Jitter", "LINEAR", "Linear-Jitter", "", "unknown", "eXponential", "linear", "EXPONENTIAL-JITTER"}
		parallel("backoff", g, func(t int, fl *flight) {
			for j := 0; j < iters; j++ {
				for i := 0; i <= 30; i++ {
					f := shared[(t+j+i)%len(shared)]
					fl.begin(t, &desc)
					if f(i) < 0 {
						atomic.AddInt64(&bad, 1)
					}
					fl.end(t)
				}
				// strategies are also resolved by name while others compute delays: every spelling a
				// configuration may use (case variants, unknown names, the empty name), first seen here
				sp := spellings[(t+j)%len(spellings)]
				if j%3 == 0 {
					sp = fmt.Sprintf("%s#%d.%d", sp, t, j)
				}
				fl.begin(t, &descName)
				if backoff.GetByName(sp)(3) < 0 {
					atomic.AddInt64(&bad, 1)
				}
				fl.end(t)
			}
		})
		if bad != 0 {
			return fmt.Sprintf("negative delays: %d", bad)
		}
	case name == "balancers":
		hosts := sd.FixedSubscriber{"http://a", "http://b", "http://c"}
		bs := []sd.Balancer{sd.NewRoundRobinLB(hosts), sd.NewRandomLB(hosts), sd.NewBalancer(hosts),
			sd.NewRoundRobinLB(sd.SubscriberFunc(func() ([]string, error) { return []string{"http://a", "http://b"}, nil }))}
		desc := "balancer Host()"
		parallel("balancers", g, func(t int, fl *flight) {
			for j := 0; j < iters*10; j++ {
				fl.begin(t, &desc)
				_, _ = bs[(t+j)%len(bs)].Host()
				fl.end(t)
			}
		})
	case name == "dns-subscriber":
		var calls int64
		lookup := func(_, _, _ string) (string, []*net.SRV, error) {
			c := atomic.AddInt64(&calls, 1)
			if c%5 == 4 {
				return "", nil, errors.New("lookup failed")
			}
			n := 1 + int(c%4)
			srvs := make([]*net.SRV, n)
			for i := range srvs {
				srvs[i] = &net.SRV{Target: fmt.Sprintf("h%d.example", (int(c)+i)%7), Port: uint16(8000 + i), Weight: uint16(1 + i)}
			}
			return "", srvs, nil
		}
		sub := dnssrv.NewDetailed("svc", lookup, time.Millisecond)
		lb := sd.NewRoundRobinLB(sub)
		target := int64(6)
		if thorough {
			target = 20
		}
		desc := "DNS subscriber Hosts() / balancer Host()"
		parallel("dns-subscriber", g, func(t int, fl *flight) {
			// read until the refresh goroutine has looked the name up `target` more times
			for j := 0; atomic.LoadInt64(&calls) < target || j < iters; j++ {
				fl.begin(t, &desc)
				hs, _ := sub.Hosts()
				for i := range hs {
					hs[i] = "scribbled" // the caller owns the slice it was given
				}
				_, _ = lb.Host()
				fl.end(t)
				if j%64 == 0 {
					runtime.Gosched()
				}
			}
		})
	default:
		return "unknown scenario " + name
	}
	return "done"
}

// ---------------------------------------------------------------------------------------
// liveness stress of the render registers through the routers' own lookup path: handlers are built
// (getRender) by several goroutines while others register renders without pause

type liveOut struct {
	Scenario string `json:"scenario"`
	Builds   int64  `json:"handlers_built"`
	Regs     int64  `json:"registrations"`
}

func runLive(router string, thorough bool) liveOut {
	builders, n := 4, 40000
	if thorough {
		builders, n = 6, 400000
	}
	res := liveOut{Scenario: "live:" + router}
	var stop int32
	dBuild := router + " endpoint handler factory (getRender: backend encoding, then output encoding)"
	dReg := router + " RegisterRender"
	key := "c20live." + router
	parallel("live:"+router, builders+2, func(t int, fl *flight) {
		if t >= builders { // registrars
			var c int64
			for j := 0; atomic.LoadInt32(&stop) < int32(builders); j++ {
				fl.begin(t, &dReg)
				if router == "gin" {
					ginRenderReg{}.reg(key, int64(j))
				} else {
					muxRenderReg{}.reg(key, int64(j))
				}
				fl.end(t)
				c++
				if j%256 == 0 {
					runtime.Gosched()
				}
			}
			atomic.AddInt64(&res.Regs, c)
			return
		}
		for j := 0; j < n; j++ {
			fl.begin(t, &dBuild)
			if router == "gin" {
				_ = krakendgin.EndpointHandler(renderCfg(key, j), stubProxy)
			} else {
				_ = mux.EndpointHandler(renderCfg(key, j), stubProxy)
			}
			fl.end(t)
		}
		atomic.AddInt64(&res.Builds, int64(n))
		atomic.AddInt32(&stop, 1)
	})
	return res
}

// ---------------------------------------------------------------------------------------
// back-off, in-process but in a child (a mutated jitter could block on its own lock)

type backOut struct {
	Kind    string     `json:"kind"` // back | jit
	Name    string     `json:"name"`
	From    int        `json:"from,omitempty"`
	Obs     []int64    `json:"obs,omitempty"`
	Attempt int        `json:"attempt,omitempty"`
	Seed    int64      `json:"seed,omitempty"`
	Pairs   [][2]int64 `json:"pairs,omitempty"`
}

func jitDraws(thorough bool) (int, int) {
	if thorough {
		return 1500, 100
	}
	return 40, 40
}

func runBackoff(seed uint64, thorough bool, emit func(backOut)) {
	r := rng.New(seed)
	fl := newFlight("backoff-sequential", 1)
	names := []string{"linear", "exponential", "", "LINEAR", "Exponential", "unknown", "constant", "linear ", "eXpOnEnTiAl"}
	windows := [][2]int{{0, 31}, {-3, 80}, {28, 10}, {-1, 3}, {60, 8}}
	for _, name := range names {
		f := backoff.GetByName(name)
		d := "back-off " + name
		for _, win := range windows {
			obs := make([]int64, win[1])
			for k := range obs {
				fl.begin(0, &d)
				obs[k] = int64(f(win[0] + k))
				fl.end(0)
			}
			emit(backOut{Kind: "back", Name: name, From: win[0], Obs: obs})
		}
	}
	draws, chunk := jitDraws(thorough)
	for _, name := range []string{"linear-jitter", "exponential-jitter", "Linear-Jitter"} {
		f := backoff.GetByName(name)
		d := "back-off " + name
		for i := 0; i <= 40; i++ {
			nd := draws
			if i > 30 || name == "Linear-Jitter" {
				nd = 10
			}
			for done := 0; done < nd; done += chunk {
				seed := int64(r.U64() >> 1)
				old := backoff.VerifC20SetRandom(rand.New(rand.NewSource(seed)))
				twin := rand.New(rand.NewSource(seed))
				arg := i
				if strings.HasPrefix(strings.ToLower(name), "exponential") {
					arg = int(1 << uint(i))
				}
				n := 2 * (arg*1000/3 + 1)
				k := chunk
				if nd-done < k {
					k = nd - done
				}
				pj := make([][2]int64, k)
				for x := 0; x < k; x++ {
					want := int64(twin.Intn(n))
					fl.begin(0, &d)
					got := int64(f(i))
					fl.end(0)
					pj[x] = [2]int64{want, got}
				}
				backoff.VerifC20SetRandom(old)
				emit(backOut{Kind: "jit", Name: name, Attempt: i, Seed: seed, Pairs: pj})
			}
		}
	}
}

// number of cases runBackoff emits
func backoffCount(thorough bool) int {
	draws, chunk := jitDraws(thorough)
	n := 9 * 5
	for _, name := range []string{"linear-jitter", "exponential-jitter", "Linear-Jitter"} {
		for i := 0; i <= 40; i++ {
			nd := draws
			if i > 30 || name == "Linear-Jitter" {
				nd = 10
			}
			n += (nd + chunk - 1) / chunk
		}
	}
	return n
}

func seqCount(thorough bool) int {
	if thorough {
		return 400
	}
	return 40
}

// ---------------------------------------------------------------------------------------

func childMain(extra string, seed uint64, thorough bool) {
	parts := strings.Split(extra, ":")
	enc := json.NewEncoder(os.Stdout)
	startWatchdog(stallLimit(thorough))
	switch parts[1] {
	case "backoff":
		runBackoff(seed, thorough, func(o backOut) { enc.Encode(o) })
	case "seq":
		kind := parts[2]
		r := rng.New(seed*13 + uint64(kindIndex(kind)))
		for i := 0; i < seqCount(thorough); i++ {
			enc.Encode(runSeq(kind, i, seed, 10+r.Intn(30)))
		}
	case "hist":
		kind := parts[2]
		for i := 0; i < histScenarios(thorough); i++ {
			enc.Encode(runHist(kind, i, seed))
		}
	case "ns":
		nb, trials := nsBatches(thorough)
		for b := 0; b < nb; b++ {
			enc.Encode(runNsBatch(b, trials))
		}
	case "jitconc":
		for _, o := range runJitConc(thorough) {
			enc.Encode(o)
		}
	case "live":
		enc.Encode(runLive(parts[2], thorough))
	case "race":
		v := 0
		fmt.Sscanf(parts[3], "%d", &v)
		enc.Encode(map[string]string{"result": runRaceScenario(parts[2], v, thorough)})
	}
}
