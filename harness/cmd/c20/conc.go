package main

// Concurrent scenarios. They run in child processes (the generator re-executes itself with
// --extra child:...): a mutated registry can kill the process (the runtime's "concurrent map
// writes" check is fatal), and the parent must survive to report it as a case.

import (
	"context"
	"encoding/json"
	"errors"
	"fmt"
	"net"
	"net/http"
	"net/http/httptest"
	"os"
	"runtime"
	"sort"
	"strings"
	"sync"
	"sync/atomic"
	"time"

	"github.com/gin-gonic/gin"
	"github.com/luraproject/lura/v2/backoff"
	"github.com/luraproject/lura/v2/config"
	"github.com/luraproject/lura/v2/logging"
	"github.com/luraproject/lura/v2/proxy"
	"github.com/luraproject/lura/v2/register"
	krakendgin "github.com/luraproject/lura/v2/router/gin"
	"github.com/luraproject/lura/v2/router/mux"
	"github.com/luraproject/lura/v2/sd"
	"github.com/luraproject/lura/v2/sd/dnssrv"

	"verif/harness/internal/rng"
)

// ---------------------------------------------------------------------------------------
// recorded histories

type hOp struct {
	Kind  string           `json:"k"` // reg | get | clone
	Key   string           `json:"key,omitempty"`
	Val   int64            `json:"v,omitempty"`
	Found bool             `json:"found,omitempty"`
	Snap  map[string]int64 `json:"snap,omitempty"`
	Inv   int64            `json:"inv"`
	Ret   int64            `json:"ret"`
	G     int              `json:"g"`
}

type histOut struct {
	Registry string           `json:"registry"`
	Scenario int              `json:"scenario"`
	G        int              `json:"goroutines"`
	Init     map[string]int64 `json:"init"`
	Events   []hOp            `json:"events"`
	Final    map[string]int64 `json:"final"`
}

func histScenarios(thorough bool) int {
	if thorough {
		return 300
	}
	return 30
}

// plan of one history scenario, a function of (seed, registry, index) only
type histPlan struct {
	keys  []string
	init  map[string]int64
	progs [][]hOp
}

func kindIndex(kind string) int {
	for i, k := range registryNames {
		if k == kind {
			return i
		}
	}
	return 99
}

func makeHistPlan(seed uint64, kind string, idx int, canClone bool) histPlan {
	r := rng.New(seed*1000003 + uint64(kindIndex(kind))*7919 + uint64(idx)*104729 + 17)
	nk := 1 + r.Intn(3)
	g := []int{2, 2, 3, 4, 4, 8}[r.Intn(6)]
	p := histPlan{init: map[string]int64{}}
	for i := 0; i < nk; i++ {
		k := fmt.Sprintf("c20h%d.%d.k%d", seed, idx, i)
		if kind == "namespaced" {
			k = fmt.Sprintf("ns%d|n%d", i%2, i)
		}
		p.keys = append(p.keys, k)
		if r.Chance(1, 3) {
			p.init[k] = int64(1 + i)
		}
	}
	for t := 0; t < g; t++ {
		n := 6 + r.Intn(14)
		if g == 8 {
			n = 4 + r.Intn(8)
		}
		var prog []hOp
		for j := 0; j < n; j++ {
			k := p.keys[r.Intn(nk)]
			x := r.Intn(10)
			switch {
			case x < 4:
				prog = append(prog, hOp{Kind: "reg", Key: k, Val: int64((t+1)*10000 + j), G: t})
			case x < 9 || !canClone:
				prog = append(prog, hOp{Kind: "get", Key: k, G: t})
			default:
				prog = append(prog, hOp{Kind: "clone", G: t})
			}
		}
		p.progs = append(p.progs, prog)
	}
	return p
}

func runHist(kind string, idx int, seed uint64) histOut {
	reg := newRegistry(kind)
	canClone := reg.clone() != nil
	p := makeHistPlan(seed, kind, idx, canClone)
	for _, k := range p.keys { // initial contents, before any goroutine exists
		if v, ok := p.init[k]; ok {
			reg.reg(k, v)
		}
	}
	var tick int64
	start := make(chan struct{})
	var wg sync.WaitGroup
	for t := range p.progs {
		wg.Add(1)
		go func(prog []hOp) {
			defer wg.Done()
			<-start
			for j := range prog {
				o := &prog[j]
				o.Inv = atomic.AddInt64(&tick, 1)
				switch o.Kind {
				case "reg":
					reg.reg(o.Key, o.Val)
				case "get":
					o.Val, o.Found = reg.get(o.Key)
				case "clone":
					o.Snap = reg.clone()
				}
				o.Ret = atomic.AddInt64(&tick, 1)
			}
		}(p.progs[t])
	}
	close(start)
	wg.Wait()
	res := histOut{Registry: kind, Scenario: idx, G: len(p.progs), Init: p.init, Final: map[string]int64{}}
	for _, prog := range p.progs {
		res.Events = append(res.Events, prog...)
	}
	sort.Slice(res.Events, func(i, j int) bool { return res.Events[i].Inv < res.Events[j].Inv })
	if canClone {
		res.Final = reg.clone()
	} else {
		for _, k := range p.keys {
			if v, ok := reg.get(k); ok {
				res.Final[k] = v
			}
		}
	}
	return res
}

// one goroutine, exact comparison against the sequential model
func runSeq(kind string, idx int, seed uint64, n int) histOut {
	reg := newRegistry(kind)
	canClone := reg.clone() != nil
	r := rng.New(seed*7 + uint64(kindIndex(kind))*31 + uint64(idx)*1009 + 3)
	nk := 1 + r.Intn(4)
	res := histOut{Registry: kind, Scenario: idx, G: 1, Init: map[string]int64{}, Final: map[string]int64{}}
	var keys []string
	for i := 0; i < nk; i++ {
		k := fmt.Sprintf("c20q%d.%d.k%d", seed, idx, i)
		if kind == "namespaced" {
			k = fmt.Sprintf("ns%d|n%d", i%2, i)
		}
		keys = append(keys, k)
		if r.Chance(1, 3) {
			res.Init[k] = int64(1 + i)
			reg.reg(k, int64(1+i))
		}
	}
	for j := 0; j < n; j++ {
		k := keys[r.Intn(nk)]
		x := r.Intn(10)
		o := hOp{Key: k, Inv: int64(2*j + 1), Ret: int64(2*j + 2)}
		switch {
		case x < 4:
			o.Kind, o.Val = "reg", int64(100+j)
			if r.Chance(1, 5) {
				o.Val = int64(100 + r.Intn(3)) // repeated values too
			}
			reg.reg(k, o.Val)
		case x < 9 || !canClone:
			o.Kind = "get"
			o.Val, o.Found = reg.get(k)
		default:
			o.Kind, o.Key = "clone", ""
			o.Snap = reg.clone()
		}
		res.Events = append(res.Events, o)
	}
	if canClone {
		res.Final = reg.clone()
	} else {
		for _, k := range keys {
			if v, ok := reg.get(k); ok {
				res.Final[k] = v
			}
		}
	}
	return res
}

// ---------------------------------------------------------------------------------------
// namespaced register: first registrations of several names in one namespace at once

type nsReg struct {
	Ns   string `json:"ns"`
	Name string `json:"name"`
	V    int64  `json:"v"`
}

type nsOut struct {
	Batch   int                         `json:"batch"`
	G       int                         `json:"goroutines"`
	Trials  int                         `json:"trials"`
	Lost    int                         `json:"trials_with_lost_registration"`
	Trial   int                         `json:"trial_reported"`
	Regs    []nsReg                     `json:"registrations"`
	Final   map[string]map[string]int64 `json:"final"`
	WithAdd bool                        `json:"with_add_namespace"`
}

func nsBatches(thorough bool) (int, int) {
	if thorough {
		return 24, 20000
	}
	return 12, 6000
}

func runNsBatch(batch, trials int) nsOut {
	g := []int{2, 2, 3, 4, 8, 2}[batch%6]
	nns := 1 + (batch/6)%2
	withAdd := batch%4 == 3
	out := nsOut{Batch: batch, G: g, Trials: trials, Trial: -1, WithAdd: withAdd}
	for trial := 0; trial < trials; trial++ {
		n := register.New()
		regs := make([]nsReg, g)
		for i := range regs {
			regs[i] = nsReg{Ns: fmt.Sprintf("ns%d", i%nns), Name: fmt.Sprintf("n%d", i), V: int64(trial*100 + i)}
		}
		start := make(chan struct{})
		var wg sync.WaitGroup
		for i := range regs {
			wg.Add(1)
			go func(i int, x nsReg) {
				defer wg.Done()
				<-start
				if withAdd && i%2 == 1 {
					n.AddNamespace(x.Ns)
				}
				n.Register(x.Ns, x.Name, x.V)
			}(i, regs[i])
		}
		close(start)
		wg.Wait()
		final := map[string]map[string]int64{}
		lost := false
		for i := 0; i < nns; i++ {
			ns := fmt.Sprintf("ns%d", i)
			if u, ok := n.Get(ns); ok {
				m := map[string]int64{}
				for k, v := range u.Clone() {
					m[k] = v.(int64)
				}
				final[ns] = m
			}
		}
		for _, x := range regs {
			if v, ok := final[x.Ns][x.Name]; !ok || v != x.V {
				lost = true
			}
		}
		if lost {
			out.Lost++
		}
		if (lost && out.Lost == 1) || (out.Lost == 0 && trial == trials-1) {
			out.Trial, out.Regs, out.Final = trial, regs, final
		}
	}
	return out
}

// ---------------------------------------------------------------------------------------
// jittered back-off from many goroutines (draws unknown)

type jitOut struct {
	Strategy string  `json:"strategy"`
	Attempt  int     `json:"attempt"`
	Obs      []int64 `json:"obs"`
}

func runJitConc(thorough bool) []jitOut {
	g, per := 8, 4
	if thorough {
		g, per = 16, 25
	}
	var res []jitOut
	for _, s := range []string{"linear-jitter", "exponential-jitter"} {
		f := backoff.GetByName(s)
		obs := make([][][]int64, g)
		start := make(chan struct{})
		var wg sync.WaitGroup
		for t := 0; t < g; t++ {
			obs[t] = make([][]int64, 31)
			wg.Add(1)
			go func(t int) {
				defer wg.Done()
				<-start
				for k := 0; k < per; k++ {
					for i := 0; i <= 30; i++ {
						obs[t][i] = append(obs[t][i], int64(f(i)))
					}
				}
			}(t)
		}
		close(start)
		wg.Wait()
		for i := 0; i <= 30; i++ {
			o := jitOut{Strategy: s, Attempt: i}
			for t := 0; t < g; t++ {
				o.Obs = append(o.Obs, obs[t][i]...)
			}
			res = append(res, o)
		}
	}
	return res
}

// ---------------------------------------------------------------------------------------
// race-detector scenarios: no synchronisation of our own between the goroutines besides the
// start gate and the final wait (anything more would hide races from the detector)

var raceScenarios = []string{"untyped", "namespaced", "combiner", "decoder", "sd", "gin-render", "mux-render",
	"backoff", "balancers", "dns-subscriber"}

func parallel(g int, f func(t int)) {
	start := make(chan struct{})
	var wg sync.WaitGroup
	for t := 0; t < g; t++ {
		wg.Add(1)
		go func(t int) {
			defer wg.Done()
			<-start
			f(t)
		}(t)
	}
	close(start)
	wg.Wait()
}

func stubProxy(_ context.Context, _ *proxy.Request) (*proxy.Response, error) {
	return &proxy.Response{Data: map[string]interface{}{"a": 1}, IsComplete: true}, nil
}

func runRaceScenario(name string, variant int, thorough bool) string {
	g := []int{8, 3, 16}[variant%3]
	iters := 300
	if thorough {
		iters = 1500
	}
	switch name {
	case "untyped", "namespaced", "combiner", "decoder", "sd", "gin-render", "mux-render":
		reg := newRegistry(name)
		keys := []string{"c20r.a", "c20r.b", "c20r.c"}
		if name == "namespaced" {
			keys = []string{"ns0|a", "ns0|b", "ns1|c"}
		}
		reg.reg(keys[0], 1)
		var nsr *register.Namespaced
		if n, ok := reg.(*namespacedReg); ok {
			nsr = n.n
		}
		// while the registry is being used, requests are being served through the components
		// that read it
		var ginEngine *gin.Engine
		var muxHandler http.HandlerFunc
		epCfg := &config.EndpointConfig{Endpoint: "/x", Method: "GET", Timeout: time.Second, OutputEncoding: "negotiate",
			Backend: []*config.Backend{{URLPattern: "/b", Encoding: "json"}}}
		if name == "gin-render" {
			gin.SetMode(gin.ReleaseMode)
			ginEngine = gin.New()
			ginEngine.GET("/x", krakendgin.EndpointHandler(epCfg, stubProxy))
		}
		if name == "mux-render" {
			muxHandler = mux.EndpointHandler(epCfg, stubProxy)
		}
		parallel(g, func(t int) {
			for j := 0; j < iters; j++ {
				k := keys[(t+j)%len(keys)]
				switch (t + j) % 4 {
				case 0:
					reg.reg(k, int64(t*100000+j))
				case 1, 2:
					reg.get(k)
					if j%16 == 0 {
						reg.clone()
					}
				case 3:
					switch name {
					case "namespaced":
						nsr.AddNamespace(fmt.Sprintf("ns%d", j%3))
					case "combiner":
						// building a merging proxy looks the combiner up
						cfg := &config.EndpointConfig{Timeout: time.Second,
							Backend:     []*config.Backend{{}, {}},
							ExtraConfig: config.ExtraConfig{proxy.Namespace: map[string]interface{}{"combiner": k}}}
						mw := proxy.NewMergeDataMiddleware(logging.NoOp, cfg)
						_ = mw(proxy.NoopProxy, proxy.NoopProxy)
					case "gin-render":
						rec := httptest.NewRecorder()
						ginEngine.ServeHTTP(rec, httptest.NewRequest("GET", "/x", nil))
						_ = krakendgin.EndpointHandler(&config.EndpointConfig{Endpoint: "/y", Method: "GET", Timeout: time.Second, OutputEncoding: k,
							Backend: []*config.Backend{{URLPattern: "/b", Encoding: "json"}}}, stubProxy)
					case "mux-render":
						rec := httptest.NewRecorder()
						muxHandler(rec, httptest.NewRequest("GET", "/x", nil))
						_ = mux.EndpointHandler(&config.EndpointConfig{Endpoint: "/y", Method: "GET", Timeout: time.Second, OutputEncoding: k,
							Backend: []*config.Backend{{URLPattern: "/b", Encoding: "json"}}}, stubProxy)
					default:
						reg.get(k)
					}
				}
			}
		})
	case "backoff":
		names := []string{"linear", "linear-jitter", "exponential", "exponential-jitter", "fallback"}
		shared := make([]backoff.TimeToWaitBeforeRetry, len(names))
		for i, n := range names {
			shared[i] = backoff.GetByName(n) // one function shared by every goroutine, as in async agents
		}
		bad := int64(0)
		parallel(g, func(t int) {
			for j := 0; j < iters; j++ {
				for i := 0; i <= 30; i++ {
					f := shared[(t+j+i)%len(shared)]
					if f(i) < 0 {
						atomic.AddInt64(&bad, 1)
					}
				}
			}
		})
		if bad != 0 {
			return fmt.Sprintf("negative delays: %d", bad)
		}
	case "balancers":
		hosts := sd.FixedSubscriber{"http://a", "http://b", "http://c"}
		bs := []sd.Balancer{sd.NewRoundRobinLB(hosts), sd.NewRandomLB(hosts), sd.NewBalancer(hosts),
			sd.NewRoundRobinLB(sd.SubscriberFunc(func() ([]string, error) { return []string{"http://a", "http://b"}, nil }))}
		parallel(g, func(t int) {
			for j := 0; j < iters*10; j++ {
				_, _ = bs[(t+j)%len(bs)].Host()
			}
		})
	case "dns-subscriber":
		var calls int64
		lookup := func(_, _, _ string) (string, []*net.SRV, error) {
			c := atomic.AddInt64(&calls, 1)
			if c%5 == 4 {
				return "", nil, errors.New("lookup failed")
			}
			n := 1 + int(c%4)
			srvs := make([]*net.SRV, n)
			for i := range srvs {
				srvs[i] = &net.SRV{Target: fmt.Sprintf("h%d.example", (int(c)+i)%7), Port: uint16(8000 + i), Weight: uint16(1 + i)}
			}
			return "", srvs, nil
		}
		sub := dnssrv.NewDetailed("svc", lookup, time.Millisecond)
		lb := sd.NewRoundRobinLB(sub)
		target := int64(6)
		if thorough {
			target = 20
		}
		parallel(g, func(t int) {
			// read until the refresh goroutine has looked the name up `target` more times
			for j := 0; atomic.LoadInt64(&calls) < target || j < iters; j++ {
				hs, _ := sub.Hosts()
				for i := range hs {
					hs[i] = "scribbled" // the caller owns the slice it was given
				}
				_, _ = lb.Host()
				if j%64 == 0 {
					runtime.Gosched()
				}
			}
		})
	default:
		return "unknown scenario " + name
	}
	return "done"
}

// ---------------------------------------------------------------------------------------

func childMain(extra string, seed uint64, thorough bool) {
	parts := strings.Split(extra, ":")
	enc := json.NewEncoder(os.Stdout)
	switch parts[1] {
	case "hist":
		kind := parts[2]
		for i := 0; i < histScenarios(thorough); i++ {
			enc.Encode(runHist(kind, i, seed))
		}
	case "ns":
		nb, trials := nsBatches(thorough)
		for b := 0; b < nb; b++ {
			enc.Encode(runNsBatch(b, trials))
		}
	case "jitconc":
		for _, o := range runJitConc(thorough) {
			enc.Encode(o)
		}
	case "race":
		v := 0
		fmt.Sscanf(parts[3], "%d", &v)
		enc.Encode(map[string]string{"result": runRaceScenario(parts[2], v, thorough)})
	}
}
