// C16 generator: drives proxy.NewShadowFactory(factory) next to the plain factory on the
// regular backends only, with scripted stub backends behind the real default factory
// (request builder, filters, GraphQL, load balancer, parallel merge).  Relative timing is
// imposed by gates: the regular pipeline can be held until every shadow backend has been
// reached ("shadow first"), the shadow backends can be held until the endpoint proxy has
// returned and the client's context has been cancelled ("regular first"), or the client's
// context is cancelled before the call ("cancel first").  No sleeps: the only timers are
// the contexts under test and watchdogs that turn a dead-lock into an observation.  Time
// comparisons are one-sided or bracketed by instants the harness itself measured.
package main

import (
	"bytes"
	"context"
	"crypto/sha1"
	"encoding/json"
	"errors"
	"fmt"
	"io"
	"net/url"
	"os"
	"os/exec"
	"path/filepath"
	"reflect"
	"sort"
	"strconv"
	"strings"
	"sync"
	"sync/atomic"
	"time"

	"github.com/luraproject/lura/v2/config"
	"github.com/luraproject/lura/v2/logging"
	"github.com/luraproject/lura/v2/proxy"
	"github.com/luraproject/lura/v2/transport/http/client/graphql"

	"verif/harness/internal/emit"
	"verif/harness/internal/out"
	"verif/harness/internal/rng"
)

// ---- configuration values ------------------------------------------------------------

type nsCfg struct {
	kind string // absent | notmap | map
	flag string // absent | notbool-str | notbool-num | true | false
	tmo  string // absent | notstring | str
	text string // tmo == str
}

func (n nsCfg) put(ec config.ExtraConfig) {
	switch n.kind {
	case "notmap":
		ec[proxy.Namespace] = "shadow"
	case "map":
		m := map[string]interface{}{}
		switch n.flag {
		case "notbool-str":
			m["shadow"] = "true"
		case "notbool-num":
			m["shadow"] = 1.0
		case "true":
			m["shadow"] = true
		case "false":
			m["shadow"] = false
		}
		switch n.tmo {
		case "notstring":
			m["shadow_timeout"] = 5000.0
		case "str":
			m["shadow_timeout"] = n.text
		}
		ec[proxy.Namespace] = m
	}
}

func (n nsCfg) coq() string {
	switch n.kind {
	case "notmap":
		return "NsNotMap"
	case "map":
		f := "FAbsent"
		switch n.flag {
		case "notbool-str", "notbool-num":
			f = "FNotBool"
		case "true":
			f = "(FBool true)"
		case "false":
			f = "(FBool false)"
		}
		t := "TAbsent"
		switch n.tmo {
		case "notstring":
			t = "TNotString"
		case "str":
			// time.ParseDuration is standard library: its verdict is an input of the model
			if d, err := time.ParseDuration(n.text); err == nil {
				t = emit.App("TStr", emit.Some(emit.Z(int64(d))))
			} else {
				t = "(TStr None)"
			}
		}
		return emit.App("NsMap", f, t)
	}
	return "NsAbsent"
}

func (n nsCfg) String() string {
	if n.kind != "map" {
		return n.kind
	}
	return fmt.Sprintf("map{shadow:%s,shadow_timeout:%s %q}", n.flag, n.tmo, n.text)
}

// the harness's own reading of "is a shadow backend" (decides which backends the plain run
// gets; cross-checked against the model inside Coq)
func (n nsCfg) shadow() bool { return n.kind == "map" && n.flag == "true" }

func shadowNs(text string) nsCfg {
	if text == "" {
		return nsCfg{kind: "map", flag: "true", tmo: "absent"}
	}
	return nsCfg{kind: "map", flag: "true", tmo: "str", text: text}
}

// regular outcomes (as in C01)
const (
	rPayload = iota
	rIncomplete
	rNilData
	rErr
	rEmpty
	rCancelled // silent until its context is done (only used when the client cancels first)
)

var rNames = []string{"payload", "incomplete", "nil-data", "error", "empty(nil,nil)", "silent-until-cancelled"}

// shadow outcomes
const (
	sOk = iota
	sErr
	sGarbage
	sHang
)

var sNames = []string{"ok", "error", "garbage", "hang"}
var sCoq = []string{"SOk", "SErr", "SGarbage", "SHang"}

type beSpec struct {
	timeout time.Duration
	ns      nsCfg
	method  string
	gql     string // "" | "get" | "post"
	rout    int
	sout    int
}

type reqSpec struct {
	method string
	hdr    map[string][]string
	qry    map[string][]string // nil: Query == nil
	par    map[string]string
	body   *string
}

const (
	mShadowFirst = iota
	mRegularFirst
	mCancelFirst
)

var modeNames = []string{"shadow-first", "regular-first", "client-cancelled-first"}

type caseSpec struct {
	bes            []beSpec
	ep             time.Duration
	req            reqSpec
	mode           int
	fullcopy       bool
	newOnly        bool
	label          string
	clientDeadline time.Duration // > 0: the deadline of the client context (endpoint timeout on the request context)
	sequential     bool          // the endpoint's pipelines are sequential merges with propagated values
	seq            string        // instance-reuse streams: which reused instance, and the position in its sequence
	step           int
}

// ---- observations --------------------------------------------------------------------

type reqObs struct {
	method, path, url string
	hdr, qry          map[string][]string
	par               map[string]string
	body              *string
	hdrPtr, parPtr    uintptr
	hdrVals           map[string]uintptr // backing array of every non-empty header value slice
	bodyVal           io.ReadCloser
}

type regObs struct {
	calls int
	r     reqObs
}

type ctxErrObs struct {
	err string // nil | canceled | deadline | other
	at  int64
}

type shObs struct {
	calls       int
	r           reqObs
	value       bool
	hasDeadline bool
	deadline    int64
	seen        int64
	cancel      *ctxErrObs
	final       *ctxErrObs
}

type runState struct {
	mu          sync.Mutex
	spec        *caseSpec
	shadowed    bool
	regs        []regObs
	shs         []shObs
	calls       [][]int
	tBefore     time.Time
	nShadow     int
	reached     int
	allReached  chan struct{}
	clientEnded chan struct{}
	shDone      sync.WaitGroup
	watchdog    bool
	// the shadow group's branches hold private Headers/Params maps (a single shadow backend:
	// the deep clone itself; several: deep clones per branch when some method is unsafe; an
	// all-GET/HEAD fan-out shares the maps between the sibling shadows, C03's subject)
	scribble        bool
	orderNotImposed bool
	cfgModified     bool
	hold            *histHold // client-deadline stream: 18 cases, the client's context has a deadline of 2-6 ms, below the shadow timeout of 15-30 ms, with hanging shadow backends; requests carry the Content-Length header an endpoint forwards; sequential-merge stream: 12 shapes of 3..4 backends whose regular and shadow pipelines are sequential merges with propagated values x 3 timings; long-history stream: shadow stubs hang until released
}

// the shadow calls of a long history on one proxy: every stub announces itself and then hangs
// until the harness releases all of them (or its context ends; the shadow timeout is an hour)
type histHold struct {
	release chan struct{}
	entered chan struct{}
	exited  sync.WaitGroup
}

func newHold(capacity int) *histHold {
	return &histHold{release: make(chan struct{}), entered: make(chan struct{}, capacity)}
}

type tagErr struct{ tag string }

func (t tagErr) Error() string { return "backend error " + t.tag }

type ctxKey string

const clientKey ctxKey = "c16-client-key"

// a wait that can only end by the watchdog means the code under test no longer does what the
// gates expect (a mutation): after a few of those, stop waiting long
var watchdogFired int64

func watchdogWait() time.Duration {
	if atomic.LoadInt64(&watchdogFired) >= 8 {
		return 60 * time.Millisecond
	}
	return 4 * time.Second
}

// the same for the gate that holds the regular pipeline (its own counter: giving up on
// imposing an order must not shorten the waits that decide an observation)
var gateFired int64

func gateWait() time.Duration {
	if atomic.LoadInt64(&gateFired) >= 4 {
		return 30 * time.Millisecond
	}
	return 4 * time.Second
}

func (st *runState) fired() {
	atomic.AddInt64(&watchdogFired, 1)
	st.mu.Lock()
	st.watchdog = true
	st.mu.Unlock()
}

func copyMulti(m map[string][]string) map[string][]string {
	if m == nil {
		return nil
	}
	r := make(map[string][]string, len(m))
	for k, v := range m {
		r[k] = append([]string{}, v...)
	}
	return r
}

func copyStr(m map[string]string) map[string]string {
	if m == nil {
		return nil
	}
	r := make(map[string]string, len(m))
	for k, v := range m {
		r[k] = v
	}
	return r
}

func mapPtr(m interface{}) uintptr {
	v := reflect.ValueOf(m)
	if v.Kind() != reflect.Map || v.IsNil() {
		return 0
	}
	return v.Pointer()
}

func valPtrs(h map[string][]string) map[string]uintptr {
	m := map[string]uintptr{}
	for k, vs := range h {
		if len(vs) > 0 {
			m[k] = reflect.ValueOf(vs).Pointer()
		}
	}
	return m
}

// some value slice of a starts in a backing array also used by b
func sharesValues(a, b map[string]uintptr) bool {
	for _, p := range a {
		for _, q := range b {
			if p == q {
				return true
			}
		}
	}
	return false
}

func observeReq(r *proxy.Request) reqObs {
	o := reqObs{method: r.Method, path: r.Path, hdr: copyMulti(r.Headers), qry: copyMulti(r.Query), par: copyStr(r.Params),
		hdrPtr: mapPtr(r.Headers), parPtr: mapPtr(r.Params), bodyVal: r.Body, hdrVals: valPtrs(r.Headers)}
	if r.URL != nil {
		o.url = r.URL.String()
	}
	if r.Body != nil {
		b, _ := io.ReadAll(r.Body)
		s := string(b)
		o.body = &s
	}
	return o
}

func digest(o reqObs) string {
	var b strings.Builder
	ks := make([]string, 0, len(o.hdr))
	for k := range o.hdr {
		ks = append(ks, k)
	}
	sort.Strings(ks)
	for _, k := range ks {
		fmt.Fprintf(&b, "%s=%q;", k, o.hdr[k])
	}
	b.WriteString("|")
	ks = ks[:0]
	for k := range o.par {
		ks = append(ks, k)
	}
	sort.Strings(ks)
	for _, k := range ks {
		fmt.Fprintf(&b, "%s=%q;", k, o.par[k])
	}
	if o.body != nil {
		fmt.Fprintf(&b, "|body(%d)=%q", len(*o.body), *o.body)
	}
	h := sha1.Sum([]byte(b.String()))
	return fmt.Sprintf("%s %s %x", o.method, o.url, h[:8])
}

func trunc(s string, n int) string {
	if len(s) > n {
		return s[:n]
	}
	return s
}

func (st *runState) since() int64 { return int64(time.Since(st.tBefore)) }

func errName(err error) string {
	switch {
	case err == nil:
		return "nil"
	case errors.Is(err, context.Canceled):
		return "canceled"
	case errors.Is(err, context.DeadlineExceeded):
		return "deadline"
	}
	return "other"
}

func (st *runState) regularStub(i int) proxy.Proxy {
	return func(ctx context.Context, r *proxy.Request) (*proxy.Response, error) {
		o := observeReq(r)
		st.mu.Lock()
		st.regs[i].calls++
		st.regs[i].r = o
		st.mu.Unlock()
		switch st.spec.bes[i].rout {
		case rPayload, rIncomplete:
			return &proxy.Response{Data: map[string]interface{}{fmt.Sprintf("k%d", i): i, fmt.Sprintf("echo%d", i): digest(o)},
				IsComplete: st.spec.bes[i].rout == rPayload}, nil
		case rNilData:
			return &proxy.Response{IsComplete: true}, nil
		case rErr:
			return nil, tagErr{fmt.Sprintf("b%d:%s", i, digest(o))}
		case rEmpty:
			return nil, nil
		}
		select {
		case <-ctx.Done():
		case <-time.After(watchdogWait()):
			st.fired()
		}
		return nil, ctx.Err()
	}
}

func (st *runState) shadowStub(i int) proxy.Proxy {
	return func(ctx context.Context, r *proxy.Request) (*proxy.Response, error) {
		seen := st.since()
		o := observeReq(r)
		dl, has := ctx.Deadline()
		val, _ := ctx.Value(clientKey).(string)
		st.mu.Lock()
		first := st.shs[i].calls == 0
		st.shs[i].calls++
		if first {
			st.shs[i].r = o
			st.shs[i].seen = seen
			st.shs[i].hasDeadline = has
			if has {
				st.shs[i].deadline = int64(dl.Sub(st.tBefore))
			}
			st.shs[i].value = val == "client-value"
			st.reached++
			if st.reached == st.nShadow {
				close(st.allReached)
			}
		}
		st.mu.Unlock()
		if first {
			defer st.shDone.Done()
		}
		if h := st.hold; h != nil {
			h.exited.Add(1)
			defer h.exited.Done()
			h.entered <- struct{}{}
			select {
			case <-h.release:
			case <-ctx.Done():
			case <-time.After(90 * time.Second): // never: keeps the generator from hanging
			}
			return nil, ctx.Err()
		}
		sout := st.spec.bes[i].sout
		if sout == sGarbage && st.scribble {
			// a backend that scribbles over the request it was handed (its own copy)
			if r.Headers != nil {
				// rewrite the values IN PLACE first (h[k][0] = ...: the backing arrays of the value
				// slices must be the clone's own), then replace / add entries
				for _, vs := range r.Headers {
					if len(vs) > 0 {
						vs[0] = "scrubbed-in-place"
						vs[len(vs)-1] = "scrubbed-in-place"
					}
				}
				r.Headers["X-Garbage"] = []string{"shadow"}
				for k := range r.Headers {
					r.Headers[k] = append(r.Headers[k], "garbage")
				}
			}
			if r.Params != nil {
				for k := range r.Params {
					r.Params[k] = "garbage"
				}
				r.Params["Garbage"] = "shadow"
			}
			r.Method = "GARBAGE"
			r.Path = "/garbage"
		}
		if first && (st.spec.mode != mShadowFirst || sout == sHang) {
			select {
			case <-st.clientEnded:
				e := errName(ctx.Err())
				st.mu.Lock()
				st.shs[i].cancel = &ctxErrObs{e, st.since()}
				st.mu.Unlock()
			case <-time.After(watchdogWait()):
				st.fired()
			}
		}
		switch sout {
		case sOk:
			return &proxy.Response{Data: map[string]interface{}{fmt.Sprintf("shadow%d", i): "ok"}, IsComplete: true}, nil
		case sErr:
			return nil, tagErr{fmt.Sprintf("shadow%d", i)}
		case sGarbage:
			d := map[string]interface{}{"garbage": []interface{}{1, "two", nil}}
			for j := range st.spec.bes {
				d[fmt.Sprintf("k%d", j)] = "GARBAGE"
				d[fmt.Sprintf("echo%d", j)] = "GARBAGE"
			}
			return &proxy.Response{Data: d, IsComplete: i%2 == 0, Io: strings.NewReader("garbage"),
				Metadata: proxy.Metadata{StatusCode: 599, Headers: map[string][]string{"X-Krakend-Completed": {"garbage"}}}}, errors.New("garbage")
		}
		select {
		case <-ctx.Done():
			e := errName(ctx.Err())
			st.mu.Lock()
			if first {
				st.shs[i].final = &ctxErrObs{e, st.since()}
			}
			st.mu.Unlock()
		case <-time.After(watchdogWait()):
			st.fired()
		}
		return nil, ctx.Err()
	}
}

func backendIndex(be *config.Backend) int {
	var i int
	if _, err := fmt.Sscanf(be.URLPattern, "/b%d", &i); err != nil {
		return -1
	}
	return i
}

// endpoint configuration for the backends sel (indices into spec.bes)
func buildCfg(spec *caseSpec, sel []int) *config.EndpointConfig {
	ep := &config.EndpointConfig{Endpoint: "/e/{p1}", Method: "POST", Timeout: spec.ep}
	if spec.sequential {
		ep.ExtraConfig = config.ExtraConfig{proxy.Namespace: map[string]interface{}{"sequential": true}}
	}
	firstReg, firstSh := -1, -1
	for _, i := range sel {
		pat := fmt.Sprintf("/b%d/{p1}", i)
		if spec.sequential {
			// within its pipeline (regular / shadow list, in configuration order) every backend
			// but the first is called with a value of the first one's answer
			if spec.bes[i].ns.shadow() {
				if firstSh < 0 {
					firstSh = i
				} else {
					pat += fmt.Sprintf("/{resp0_shadow%d}", firstSh)
				}
			} else {
				if firstReg < 0 {
					firstReg = i
				} else {
					pat += fmt.Sprintf("/{resp0_k%d}", firstReg)
				}
			}
		}
		ep.Backend = append(ep.Backend, &config.Backend{URLPattern: pat, Method: spec.bes[i].method, Host: []string{"http://h" + out.Itoa(i)}})
	}
	if len(sel) > 0 {
		sc := config.ServiceConfig{Version: config.ConfigVersion, Timeout: spec.ep, Host: []string{"http://h"}, Endpoints: []*config.EndpointConfig{ep}}
		if err := sc.Init(); err != nil {
			panic(fmt.Sprintf("config init: %v", err))
		}
	}
	for k, i := range sel {
		b := ep.Backend[k]
		b.Timeout = spec.bes[i].timeout
		if b.ExtraConfig == nil {
			b.ExtraConfig = config.ExtraConfig{}
		}
		spec.bes[i].ns.put(b.ExtraConfig)
		if g := spec.bes[i].gql; g != "" {
			b.ExtraConfig[graphql.Namespace] = map[string]interface{}{
				"type": "query", "query": "{ hero(id: $a) { name } }", "method": g,
				"variables": map[string]interface{}{"a": "x1", "n": 7.0}, "operationName": "Op"}
		}
	}
	return ep
}

// one built endpoint proxy (plain factory or NewShadowFactory over it) that serves any number
// of requests.  The stubs and the gate find the state of the request they belong to through
// the client's context (the shadow context hands Value() to it); when that fails, the
// request currently being served sequentially.
type instance struct {
	cfgSpec  *caseSpec // the configuration (backends); outcomes, request and timing come per call
	shadowed bool
	mu       sync.Mutex
	calls    [][]int
	cur      atomic.Pointer[runState]
	p        proxy.Proxy
	newErr   string
	panicked string
	// New changed the configuration value it was given (Backend slice or a backend)
	cfgModified bool
}

const stateKey ctxKey = "c16-state-key"

func (inst *instance) state(ctx context.Context) *runState {
	if st, ok := ctx.Value(stateKey).(*runState); ok && st != nil {
		return st
	}
	return inst.cur.Load()
}

var errNoState = errors.New("c16: stub called outside any request of the harness")

func (inst *instance) factory() proxy.Factory {
	inner := proxy.NewDefaultFactory(func(be *config.Backend) proxy.Proxy {
		i := backendIndex(be)
		if i < 0 || i >= len(inst.cfgSpec.bes) {
			panic("unknown backend " + be.URLPattern)
		}
		isShadow := inst.shadowed && inst.cfgSpec.bes[i].ns.shadow()
		return func(ctx context.Context, r *proxy.Request) (*proxy.Response, error) {
			st := inst.state(ctx)
			if st == nil {
				return nil, errNoState
			}
			if isShadow {
				return st.shadowStub(i)(ctx, r)
			}
			return st.regularStub(i)(ctx, r)
		}
	}, logging.NoOp)
	return proxy.FactoryFunc(func(cfg *config.EndpointConfig) (proxy.Proxy, error) {
		var l []int
		for _, b := range cfg.Backend {
			l = append(l, backendIndex(b))
		}
		inst.mu.Lock()
		inst.calls = append(inst.calls, l)
		n := len(inst.calls)
		inst.mu.Unlock()
		p, err := inner.New(cfg)
		if err != nil || p == nil || n != 1 {
			return p, err
		}
		// the first proxy asked for is the regular pipeline: hold it when the case wants the
		// shadow side to go first
		return func(ctx context.Context, r *proxy.Request) (*proxy.Response, error) {
			st := inst.state(ctx)
			if st != nil && st.shadowed && st.spec.mode == mShadowFirst && st.nShadow > 0 {
				select {
				case <-st.allReached:
				case <-time.After(gateWait()):
					// the shadow side did not start while the regular pipeline was held (e.g. it is
					// started after the regular proxy returns): the order could not be imposed;
					// not an observation of the property
					atomic.AddInt64(&gateFired, 1)
					st.mu.Lock()
					st.orderNotImposed = true
					st.mu.Unlock()
				}
			}
			return p(ctx, r)
		}, nil
	})
}

type runResult struct {
	newErr   string // "" = nil
	called   bool
	panicked string
	resp     *proxy.Response
	err      error
	st       *runState
	reqAfter *proxy.Request
	origHdr  uintptr
	origVals map[string]uintptr
	origPar  uintptr
	origBody io.ReadCloser
}

func newErrName(err error) string {
	switch {
	case err == nil:
		return ""
	case err == proxy.ErrNoBackends:
		return "no_backends"
	}
	return "other:" + err.Error()
}

type trackedBody struct{ *bytes.Reader }

func (trackedBody) Close() error { return nil }

func mkRequest(q reqSpec) *proxy.Request {
	r := &proxy.Request{Method: q.method, Path: "/e/v1", Headers: copyMulti(q.hdr), Query: url.Values(copyMulti(q.qry)), Params: copyStr(q.par)}
	if q.qry == nil {
		r.Query = nil
	}
	r.URL, _ = url.Parse("http://client.example/e/v1")
	if q.body != nil {
		r.Body = &trackedBody{bytes.NewReader([]byte(*q.body))}
	}
	return r
}

func selFor(spec *caseSpec, shadowed bool) []int {
	var sel []int
	for i, b := range spec.bes {
		if shadowed || !b.ns.shadow() {
			sel = append(sel, i)
		}
	}
	return sel
}

func build(spec *caseSpec, shadowed bool) *instance {
	return buildFrom(spec, shadowed, buildCfg(spec, selFor(spec, shadowed)))
}

// deep snapshot of what the caller of New owns: the Backend slice (length, order, which
// backend sits where) and every backend's fields the factories read
func snapCfg(cfg *config.EndpointConfig) string {
	var b strings.Builder
	fmt.Fprintf(&b, "%s %s %v n=%d;", cfg.Endpoint, cfg.Method, cfg.Timeout, len(cfg.Backend))
	for _, be := range cfg.Backend {
		ec, _ := json.Marshal(be.ExtraConfig)
		fmt.Fprintf(&b, "%p %s %s %v %v %s;", be, be.URLPattern, be.Method, be.Timeout, be.Host, ec)
	}
	return b.String()
}

// build from a configuration value the caller keeps (and may build from again)
func buildFrom(spec *caseSpec, shadowed bool, cfg *config.EndpointConfig) *instance {
	inst := &instance{cfgSpec: spec, shadowed: shadowed}
	before := snapCfg(cfg)
	defer func() { inst.cfgModified = snapCfg(cfg) != before }()
	var f proxy.Factory = inst.factory()
	if shadowed {
		f = proxy.NewShadowFactory(f)
	}
	func() {
		defer func() {
			if r := recover(); r != nil {
				inst.panicked = fmt.Sprint("New: ", r)
			}
		}()
		var err error
		inst.p, err = f.New(cfg)
		inst.newErr = newErrName(err)
	}()
	return inst
}

// one request through the instance; spec has the instance's backends with this request's
// outcomes, body and timing.  sequential: no other request of the instance is in flight.
func (inst *instance) call(spec *caseSpec, sequential bool) (res runResult) {
	shadowed := inst.shadowed
	st := &runState{spec: spec, shadowed: shadowed, regs: make([]regObs, len(spec.bes)), shs: make([]shObs, len(spec.bes)),
		allReached: make(chan struct{}), clientEnded: make(chan struct{})}
	res.st = st
	inst.mu.Lock()
	st.calls = append([][]int{}, inst.calls...)
	inst.mu.Unlock()
	st.cfgModified = inst.cfgModified
	res.newErr, res.panicked = inst.newErr, inst.panicked
	for _, b := range spec.bes {
		if shadowed && b.ns.shadow() {
			st.nShadow++
		}
	}
	st.shDone.Add(st.nShadow)
	st.scribble = st.nShadow == 1
	for _, b := range spec.bes {
		if b.ns.shadow() && b.method != "GET" && b.method != "HEAD" {
			st.scribble = true
		}
	}
	p := inst.p
	if res.panicked != "" || res.newErr != "" || p == nil || spec.newOnly {
		return
	}
	if sequential {
		inst.cur.Store(st)
		defer inst.cur.Store(nil)
	}
	req := mkRequest(spec.req)
	res.origHdr, res.origPar, res.origBody = mapPtr(req.Headers), mapPtr(req.Params), req.Body
	res.origVals = valPtrs(req.Headers)
	base := context.WithValue(context.WithValue(context.Background(), clientKey, "client-value"), stateKey, st)
	if spec.clientDeadline > 0 {
		var stop context.CancelFunc
		base, stop = context.WithTimeout(base, spec.clientDeadline)
		defer stop()
	}
	ctx, cancel := context.WithCancel(base)
	if spec.mode == mCancelFirst {
		cancel()
	}
	st.tBefore = time.Now()
	func() {
		defer func() {
			if r := recover(); r != nil {
				res.panicked = fmt.Sprint("call: ", r)
			}
		}()
		res.resp, res.err = p(ctx, req)
		res.called = true
	}()
	cancel() // the client's request ends
	close(st.clientEnded)
	res.reqAfter = req
	// wait for the shadow goroutines (a shadow backend that is never called is found by the watchdog)
	done := make(chan struct{})
	go func() { st.shDone.Wait(); close(done) }()
	select {
	case <-done:
	case <-time.After(2 * watchdogWait()):
		st.fired()
	}
	return
}

func run(spec *caseSpec, shadowed bool) runResult { return build(spec, shadowed).call(spec, true) }

// ---- emission ------------------------------------------------------------------------

func optStrCoq(s *string) string { return emit.OptStr(s) }

func reqCoq(method, path string, hdr, qry map[string][]string, par map[string]string, body *string) string {
	if hdr == nil {
		hdr = map[string][]string{}
	}
	if qry == nil {
		qry = map[string][]string{}
	}
	if par == nil {
		par = map[string]string{}
	}
	return fmt.Sprintf("(Build_request %s %s %s %s %s %s)",
		emit.Str(method), emit.Str(path), emit.MultiMap(hdr), emit.MultiMap(qry), emit.StrMap(par), optStrCoq(body))
}

func eqMulti(a, b map[string][]string) bool {
	if len(a) != len(b) {
		return false
	}
	for k, v := range a {
		w, ok := b[k]
		if !ok || len(v) != len(w) {
			return false
		}
		for i := range v {
			if v[i] != w[i] {
				return false
			}
		}
	}
	return true
}

// an observed request: in full, or as (obs_req method path q) when everything else equals
// the client's request, which the case binds to q
func obsReqCoq(o reqObs, q reqSpec) string {
	same := eqMulti(o.hdr, q.hdr) && eqMulti(o.qry, q.qry) && len(o.par) == len(q.par) && (o.body == nil) == (q.body == nil)
	if same {
		for k, v := range o.par {
			if w, ok := q.par[k]; !ok || w != v {
				same = false
			}
		}
		if o.body != nil && *o.body != *q.body {
			same = false
		}
	}
	if same {
		return emit.App("obs_req", emit.Str(o.method), emit.Str(o.path), "q")
	}
	return reqCoq(o.method, o.path, o.hdr, o.qry, o.par, o.body)
}

func reqJS(o reqObs) map[string]interface{} {
	m := map[string]interface{}{"method": o.method, "path": o.path, "url": o.url, "headers": o.hdr, "query": o.qry, "params": o.par}
	if o.body != nil {
		m["body_len"] = len(*o.body)
		m["body"] = trunc(*o.body, 200)
	} else {
		m["body"] = nil
	}
	return m
}

type merr interface{ Errors() []error }

func errKinds(err error) []string {
	one := func(e error) string {
		var te tagErr
		switch {
		case e == nil:
			return "<nil entry>"
		case errors.As(e, &te):
			return "backend:" + te.tag
		case e == proxy.VerifErrNullResult:
			return "null-result"
		case errors.Is(e, context.Canceled):
			return "canceled"
		case errors.Is(e, context.DeadlineExceeded):
			return "deadline"
		}
		return "other:" + e.Error()
	}
	if me, ok := err.(merr); ok {
		var l []string
		for _, e := range me.Errors() {
			l = append(l, one(e))
		}
		sort.Strings(l)
		return l
	}
	return []string{one(err)}
}

func normData(v interface{}) interface{} {
	switch x := v.(type) {
	case map[string]interface{}:
		m := map[string]interface{}{}
		for k, e := range x {
			m[k] = normData(e)
		}
		return m
	case []interface{}:
		l := make([]interface{}, len(x))
		for i, e := range x {
			l[i] = normData(e)
		}
		return l
	case nil, bool, string, int, int64, float64:
		return x
	}
	return fmt.Sprintf("<%T>", v)
}

func cresCoq(r runResult) (string, interface{}) {
	resp := "None"
	var rj interface{}
	if r.resp != nil {
		var data map[string]interface{}
		if r.resp.Data != nil {
			data = normData(r.resp.Data).(map[string]interface{})
		}
		extra := ""
		if r.resp.Io != nil || r.resp.Metadata.StatusCode != 0 || len(r.resp.Metadata.Headers) != 0 {
			// not produced by the regular stubs: make it visible
			if data == nil {
				data = map[string]interface{}{}
			}
			extra = fmt.Sprintf("io=%v status=%d headers=%v", r.resp.Io != nil, r.resp.Metadata.StatusCode, r.resp.Metadata.Headers)
			data["<metadata/io>"] = extra
		}
		resp = emit.Some(emit.Pair(emit.OptObj(data), emit.Bool(r.resp.IsComplete)))
		rj = map[string]interface{}{"data": data, "complete": r.resp.IsComplete}
	}
	e := "None"
	var ej interface{}
	if r.panicked != "" {
		e = emit.Some(emit.StrList([]string{"panic:" + r.panicked}))
		ej = "panic:" + r.panicked
	} else if r.err != nil {
		ks := errKinds(r.err)
		e = emit.Some(emit.StrList(ks))
		ej = ks
	}
	return fmt.Sprintf("(Build_cres %s %s)", resp, e), map[string]interface{}{"resp": rj, "err": ej}
}

func regsCoq(spec *caseSpec, st *runState) (string, []interface{}) {
	var l []string
	var js []interface{}
	for i, b := range spec.bes {
		if b.ns.shadow() {
			continue
		}
		o := st.regs[i]
		l = append(l, fmt.Sprintf("(Build_robs %s %s %s %s)", emit.Nat(i), emit.Nat(o.calls), emit.Str(o.r.url),
			obsReqCoq(o.r, spec.req)))
		j := reqJS(o.r)
		j["id"] = i
		j["calls"] = o.calls
		js = append(js, j)
	}
	return emit.List(l), js
}

func sameBody(a, b io.ReadCloser) (eq bool) {
	defer func() {
		if recover() != nil {
			eq = false
		}
	}()
	return a == b
}

func ctxErrCoq(o *ctxErrObs) string {
	if o == nil {
		return "None"
	}
	k := "CNil"
	switch o.err {
	case "canceled":
		k = "CCanceled"
	case "deadline":
		k = "CDeadline"
	case "other":
		k = "CCanceled"
	}
	return emit.Some(emit.Pair(k, emit.Z(o.at)))
}

func shsCoq(spec *caseSpec, r runResult) (string, []interface{}, string) {
	st := r.st
	var sig strings.Builder
	var l []string
	var js []interface{}
	for i, b := range spec.bes {
		if !b.ns.shadow() || st.shs[i].calls == 0 {
			continue
		}
		o := st.shs[i]
		// own headers: its own map AND its own value slices
		privHdr := (o.r.hdrPtr == 0 || (o.r.hdrPtr != r.origHdr)) && !sharesValues(o.r.hdrVals, r.origVals)
		privPar := o.r.parPtr == 0 || (o.r.parPtr != r.origPar)
		privBody := true
		if o.r.bodyVal != nil {
			if sameBody(o.r.bodyVal, r.origBody) || (r.reqAfter != nil && sameBody(o.r.bodyVal, r.reqAfter.Body)) {
				privBody = false
			}
		}
		for j := range spec.bes {
			if spec.bes[j].ns.shadow() || st.regs[j].calls == 0 {
				continue
			}
			g := st.regs[j].r
			if (o.r.hdrPtr != 0 && o.r.hdrPtr == g.hdrPtr) || sharesValues(o.r.hdrVals, g.hdrVals) {
				privHdr = false
			}
			if o.r.parPtr != 0 && o.r.parPtr == g.parPtr {
				privPar = false
			}
			if o.r.bodyVal != nil && sameBody(o.r.bodyVal, g.bodyVal) {
				privBody = false
			}
		}
		dl := "None"
		if o.hasDeadline {
			dl = emit.Some(emit.Z(o.deadline))
		}
		l = append(l, fmt.Sprintf("(Build_sobs %s %s %s %s %s %s %s %s %s %s %s)",
			emit.Nat(i), emit.Nat(o.calls), obsReqCoq(o.r, spec.req),
			emit.Bool(privHdr), emit.Bool(privPar), emit.Bool(privBody), emit.Bool(o.value), dl, emit.Z(o.seen), ctxErrCoq(o.cancel), ctxErrCoq(o.final)))
		ce, fe := "-", "-"
		if o.cancel != nil {
			ce = o.cancel.err
		}
		if o.final != nil {
			fe = o.final.err
		}
		fmt.Fprintf(&sig, "%d|%d|%s|%v%v%v|%v|%v|%s|%s;", i, o.calls, obsReqCoq(o.r, spec.req), privHdr, privPar, privBody, o.value, o.hasDeadline, ce, fe)
		j := reqJS(o.r)
		j["id"] = i
		j["calls"] = o.calls
		j["own_headers"], j["own_params"], j["own_body"] = privHdr, privPar, privBody
		j["ctx_value_delegated"] = o.value
		if o.hasDeadline {
			j["ctx_deadline_ns_after_call"] = o.deadline
		}
		j["entered_ns_after_call"] = o.seen
		if o.cancel != nil {
			j["ctx_err_after_client_ended"] = map[string]interface{}{"err": o.cancel.err, "at_ns": o.cancel.at}
		}
		if o.final != nil {
			j["ctx_err_when_done"] = map[string]interface{}{"err": o.final.err, "at_ns": o.final.at}
		}
		js = append(js, j)
	}
	return emit.List(l), js, sig.String()
}

func besCoq(spec *caseSpec) (string, []interface{}) {
	var l []string
	var js []interface{}
	for i, b := range spec.bes {
		l = append(l, fmt.Sprintf("(Build_backend %s %s %s %s)", emit.Nat(i), emit.Z(int64(b.timeout)), b.ns.coq(), emit.Str(b.method)))
		j := map[string]interface{}{"id": i, "timeout": b.timeout.String(), "extra_config": b.ns.String(), "method": b.method}
		if b.gql != "" {
			j["graphql"] = b.gql
		}
		if b.ns.shadow() {
			j["shadow_outcome"] = sNames[b.sout]
		} else {
			j["outcome"] = rNames[b.rout]
		}
		js = append(js, j)
	}
	return emit.List(l), js
}

func callsCoq(c [][]int) string {
	var l []string
	for _, x := range c {
		l = append(l, emit.NatList(x))
	}
	return emit.List(l)
}

func optErrCoq(s string) string {
	if s == "" {
		return "None"
	}
	return emit.Some(emit.Str(s))
}

type emitted struct {
	dedup string // the observation without its clock readings (concurrent stream)
	term  string
	js    map[string]interface{}
	canon string
	keys  []string
	nontr bool
}

func evalCase(spec *caseSpec) emitted { return emitCase(spec, run(spec, false), run(spec, true)) }

func emitCase(spec *caseSpec, plain, shadowed runResult) emitted {
	bes, besJS := besCoq(spec)
	var plainIDs []int
	nsh := 0
	for i, b := range spec.bes {
		if !b.ns.shadow() {
			plainIDs = append(plainIDs, i)
		} else {
			nsh++
		}
	}
	keys := []string{fmt.Sprintf("backends:%d", len(spec.bes)), fmt.Sprintf("shadows:%d", nsh)}
	canon := fmt.Sprintf("%v|%v|%s|%s|%d|%v|%v|%d|%v", spec.clientDeadline, spec.sequential, spec.label, spec.seq, spec.step, besJS, spec.ep, spec.mode, spec.req)
	if spec.req.body != nil {
		canon += "|" + *spec.req.body
	}
	if spec.newOnly || plain.newErr != "" || shadowed.newErr != "" || !plain.called || !shadowed.called && shadowed.panicked == "" {
		term := emit.App("CNew", bes, callsCoq(shadowed.st.calls), emit.NatList(plainIDs), optErrCoq(plain.newErr+plain.panicked), optErrCoq(shadowed.newErr+shadowed.panicked))
		js := map[string]interface{}{"level": "factory", "label": spec.label, "backends": besJS,
			"observed": map[string]interface{}{"factory_calls": shadowed.st.calls, "plain_new_error": plain.newErr + plain.panicked, "shadow_new_error": shadowed.newErr + shadowed.panicked}}
		return emitted{term, term, js, "N|" + canon, append(keys, "level:factory"), nsh > 0}
	}
	pc, pj := cresCoq(plain)
	sc, sj := cresCoq(shadowed)
	pr, prj := regsCoq(spec, plain.st)
	sr, srj := regsCoq(spec, shadowed.st)
	ss, ssj, ssig := shsCoq(spec, shadowed)
	var outs []string
	for i, b := range spec.bes {
		if b.ns.shadow() {
			outs = append(outs, emit.Pair(emit.Nat(i), sCoq[b.sout]))
			keys = append(keys, "shadow-outcome:"+sNames[b.sout])
		} else {
			keys = append(keys, "regular-outcome:"+rNames[b.rout])
		}
		if b.gql != "" {
			keys = append(keys, "graphql:"+b.gql)
		}
	}
	// harness-level alarms (no clock involved): a watchdog fired, or New modified the caller's
	// configuration value
	wd := plain.st.watchdog || shadowed.st.watchdog || plain.st.cfgModified || shadowed.st.cfgModified
	q := spec.req
	// identical sub-terms are bound once (the term denotes the same value)
	scT, srT := sc, sr
	if sc == pc {
		scT = "pc"
	}
	if sr == pr {
		srT = "pr"
	}
	term := "(let q := " + reqCoq(q.method, "/e/v1", q.hdr, q.qry, q.par, q.body) + " in let pc := " + pc + " in let pr := " + pr + " in " +
		emit.App(map[bool]string{false: "CRun", true: "CSeqRun"}[spec.sequential], bes, emit.Z(int64(spec.ep)), "q", emit.Bool(spec.fullcopy),
			emit.List(outs), callsCoq(shadowed.st.calls), emit.NatList(plainIDs), emit.Bool(wd), "pc", scT, "pr", srT, ss) + ")"
	reqJ := map[string]interface{}{"method": q.method, "headers": q.hdr, "query": q.qry, "params": q.par}
	if q.body != nil {
		reqJ["body_len"] = len(*q.body)
		reqJ["body"] = trunc(*q.body, 200)
	}
	js := map[string]interface{}{"level": "call", "label": spec.label, "backends": besJS, "endpoint_timeout": spec.ep.String(), "timing": modeNames[spec.mode],
		"request": reqJ, "full_copy_expected": spec.fullcopy,
		"observed": map[string]interface{}{"factory_calls": shadowed.st.calls, "watchdog_fired": plain.st.watchdog || shadowed.st.watchdog, "caller_config_modified_by_New": plain.st.cfgModified || shadowed.st.cfgModified, "order_not_imposed": shadowed.st.orderNotImposed,
			"plain_result": pj, "with_shadows_result": sj, "regular_backends_plain_run": prj, "regular_backends_with_shadows": srj, "shadow_backends": ssj}}
	keys = append(keys, "level:call", "timing:"+modeNames[spec.mode])
	if spec.clientDeadline > 0 {
		js["client_context_deadline"] = spec.clientDeadline.String()
		keys = append(keys, "stream:client-deadline")
	}
	if spec.sequential {
		js["sequential_merge"] = true
		keys = append(keys, "stream:sequential-merge")
	}
	if spec.seq != "" {
		js["reused_instance"] = spec.seq
		js["step"] = spec.step
		keys = append(keys, "stream:"+spec.label)
	}
	if q.body == nil {
		keys = append(keys, "body:none")
	} else {
		switch n := len(*q.body); {
		case n == 0:
			keys = append(keys, "body:empty")
		case n <= 64:
			keys = append(keys, "body:1-64-bytes")
		case n <= 256:
			keys = append(keys, "body:65-256-bytes")
		default:
			keys = append(keys, "body:over-1KB")
		}
	}
	return emitted{fmt.Sprintf("%v|%s|%s|%s|%s|%s", wd, pc, sc, pr, sr, ssig), term, js, "R|" + canon, keys, nsh > 0}
}

// ---- generation ----------------------------------------------------------------------

type childCase struct {
	Dedup, Term string
	Js          map[string]interface{}
	Canon       string
	Keys        []string
	Nontr       bool
}

// run a concurrent job in a child process (same binary, same seed: it rebuilds the same jobs)
func runInChild(cfg out.Config, j int, jb job) []emitted {
	dir := filepath.Join(cfg.Dir, fmt.Sprintf("conc-%d", j))
	cmd := exec.Command(os.Args[0], "--tier", cfg.Tier, "--seed", fmt.Sprint(cfg.Seed), "--out", dir, "--extra", fmt.Sprintf("concjob=%d", j))
	outp, err := cmd.CombinedOutput()
	if err == nil {
		var cs []childCase
		b, rerr := os.ReadFile(filepath.Join(dir, "conc.json"))
		if rerr == nil && json.Unmarshal(b, &cs) == nil {
			os.RemoveAll(dir)
			var res []emitted
			for _, c := range cs {
				res = append(res, emitted{c.Dedup, c.Term, c.Js, c.Canon, c.Keys, c.Nontr})
			}
			return res
		}
		err = fmt.Errorf("no result file: %v", rerr)
	}
	// the process serving the concurrent requests died: what the callers of the shadow-factory
	// endpoint observe is a crash, whereas the plain endpoint answers.  Recorded as a case on
	// the first input of the job (plain side observed here, sequentially).
	os.RemoveAll(dir)
	st := jb.steps[0]
	plain := build(st, false).call(st, true)
	msg := string(outp)
	first := msg
	if i := strings.Index(first, "\n"); i >= 0 {
		first = first[:i]
	}
	crashed := runResult{called: true, panicked: "process died under concurrent requests: " + first, st: &runState{spec: st, shadowed: true,
		regs: make([]regObs, len(st.bes)), shs: make([]shObs, len(st.bes)), calls: plain.st.calls, watchdog: true}}
	e := emitCase(st, plain, crashed)
	e.js["child_process_error"] = err.Error()
	e.js["child_process_output"] = trunc(msg, 3000)
	return []emitted{e}
}

type job struct {
	steps             []*caseSpec
	goroutines, iters int  // > 0: concurrent reuse
	rebuild           bool // the steps are successive builds from ONE configuration value
	hist              int  // > 0: that many client calls on one proxy while every shadow call hangs
}

func (j job) run() []emitted {
	if j.goroutines > 0 {
		return j.runConcurrent()
	}
	if len(j.steps) == 1 && j.steps[0].seq == "" {
		return []emitted{evalCase(j.steps[0])}
	}
	if j.hist > 0 {
		return j.runHistory()
	}
	if j.rebuild {
		// New is called again and again on the SAME *config.EndpointConfig (an endpoint
		// registered twice, a stack rebuilt): every build must be the first one
		st0 := j.steps[0]
		pcfg, scfg := buildCfg(st0, selFor(st0, false)), buildCfg(st0, selFor(st0, true))
		var res []emitted
		for _, st := range j.steps {
			pi, si := buildFrom(st, false, pcfg), buildFrom(st, true, scfg)
			res = append(res, emitCase(st, pi.call(st, true), si.call(st, true)))
		}
		return res
	}
	// ONE plain and ONE shadow-factory instance for the whole sequence
	pi, si := build(j.steps[0], false), build(j.steps[0], true)
	var res []emitted
	for _, st := range j.steps {
		res = append(res, emitCase(st, pi.call(st, true), si.call(st, true)))
	}
	return res
}

// how long a client call may take before it counts as held back by shadow work.  On the
// unchanged code the call returns in microseconds; nothing else waits this long.
const blockedAfter = 2 * time.Second

// ONE shadow-factory instance serves j.hist client calls one after the other while every
// shadow call so far is still hung (shadow timeout: an hour; the stubs are released by the
// harness at the end).  A client call must return although all earlier shadow calls are
// pending: "blocked" = it had not returned after blockedAfter and did return once the harness
// released the hung shadow calls.  Every wait is bounded.
func (j job) runHistory() []emitted {
	spec := j.steps[0]
	pi, si := build(spec, false), build(spec, true)
	nsh := 0
	for _, b := range spec.bes {
		if b.ns.shadow() {
			nsh++
		}
	}
	bes, besJS := besCoq(spec)
	hold := newHold(j.hist*nsh + 8)
	var holds []*histHold
	pending := 0 // calls whose shadow calls are hung under the current hold
	var res []emitted
	for k := 0; k < j.hist; k++ {
		plain := pi.call(spec, true)
		st := &runState{spec: spec, shadowed: true, regs: make([]regObs, len(spec.bes)), shs: make([]shObs, len(spec.bes)),
			allReached: make(chan struct{}), clientEnded: make(chan struct{}), nShadow: nsh, hold: hold}
		st.shDone.Add(nsh)
		sh := runResult{st: st, newErr: si.newErr, panicked: si.panicked}
		alarm, blocked := false, false
		hist := pending
		if si.p != nil && sh.panicked == "" && sh.newErr == "" {
			req := mkRequest(spec.req)
			ctx, cancel := context.WithCancel(context.WithValue(context.WithValue(context.Background(), clientKey, "client-value"), stateKey, st))
			st.tBefore = time.Now()
			type ret struct {
				resp *proxy.Response
				err  error
				pan  string
			}
			done := make(chan ret, 1)
			go func() {
				var r ret
				defer func() {
					if x := recover(); x != nil {
						r.pan = fmt.Sprint("call: ", x)
					}
					done <- r
				}()
				r.resp, r.err = si.p(ctx, req)
			}()
			var r ret
			select {
			case r = <-done:
			case <-time.After(blockedAfter):
				// held back: let the hung shadow calls go and see whether that frees the caller
				blocked = true
				close(hold.release)
				select {
				case r = <-done:
				case <-time.After(10 * time.Second):
					r.pan = "the client call did not return even after the hung shadow calls were released"
					alarm = true
				}
			}
			sh.resp, sh.err, sh.panicked, sh.called = r.resp, r.err, r.pan, true
			cancel()                   // the client's request ends; the shadow calls stay hung
			for i := 0; i < nsh; i++ { // this call's shadow backends were reached
				select {
				case <-hold.entered:
				case <-time.After(watchdogWait()):
					alarm = true
					atomic.AddInt64(&watchdogFired, 1)
				}
			}
			pending++
			if blocked {
				holds = append(holds, hold)
				hold, pending = newHold(j.hist*nsh+8), 0
			}
		}
		pc, pj := cresCoq(plain)
		sc, sj := cresCoq(sh)
		term := emit.App("CHist", bes, emit.Nat(hist), emit.Bool(blocked), emit.Bool(alarm), pc, sc)
		js := map[string]interface{}{"level": "history", "label": "long-history", "reused_instance": spec.seq, "step": k, "backends": besJS,
			"hung_shadow_calls_of_earlier_requests": hist * nsh, "shadow_timeout": "1h",
			"observed": map[string]interface{}{"client_call_blocked_until_shadow_calls_released": blocked, "blocked_after": blockedAfter.String(),
				"harness_alarm": alarm, "plain_result": pj, "with_shadows_result": sj}}
		res = append(res, emitted{"", term, js, fmt.Sprintf("H|%s|%d", spec.seq, k), []string{"level:history", "stream:long-history", fmt.Sprintf("backends:%d", len(spec.bes)), fmt.Sprintf("shadows:%d", nsh)}, true})
	}
	// release everything and wait (bounded) for the stubs to leave
	holds = append(holds, hold)
	for _, h := range holds {
		select {
		case <-h.release:
		default:
			close(h.release)
		}
	}
	gone := make(chan struct{})
	go func() {
		for _, h := range holds {
			h.exited.Wait()
		}
		close(gone)
	}()
	select {
	case <-gone:
	case <-time.After(10 * time.Second):
	}
	return res
}

// ONE plain and ONE shadow-factory instance hit from several goroutines released together,
// over and over with the inputs j.steps; every distinct (input, observation) pair - clock
// readings aside - is emitted once, so a run without interference between the requests of an
// instance yields exactly one case per input
func (j job) runConcurrent() []emitted {
	pi, si := build(j.steps[0], false), build(j.steps[0], true)
	seen := make([]map[string]emitted, j.goroutines)
	start := make(chan struct{})
	var wg sync.WaitGroup
	for g := 0; g < j.goroutines; g++ {
		seen[g] = map[string]emitted{}
		wg.Add(1)
		go func(g int) {
			defer wg.Done()
			<-start
			for k := 0; k < j.iters; k++ {
				idx := (g*7 + k*3) % len(j.steps)
				st := j.steps[idx]
				e := emitCase(st, pi.call(st, false), si.call(st, false))
				key := fmt.Sprintf("%03d|%s", idx, e.dedup)
				if _, ok := seen[g][key]; !ok {
					seen[g][key] = e
				}
			}
		}(g)
	}
	close(start)
	wg.Wait()
	all := map[string]emitted{}
	for g := range seen {
		for k, e := range seen[g] {
			if _, ok := all[k]; !ok {
				all[k] = e
			}
		}
	}
	keys := make([]string, 0, len(all))
	for k := range all {
		keys = append(keys, k)
	}
	sort.Strings(keys)
	var res []emitted
	for _, k := range keys {
		res = append(res, all[k])
	}
	return res
}

func sp(s string) *string { return &s }

var bodies = []*string{nil, sp(""), sp("{id:9007199254740993,name:x}"), sp("plain text body"), sp("bin\x00\xff\"\n"), nil}

func bigBody(n int) *string {
	var b strings.Builder
	for b.Len() < n {
		fmt.Fprintf(&b, "%08d-", b.Len())
	}
	s := b.String()
	return &s
}

func defaultReq(body *string) reqSpec {
	q := reqSpec{method: "POST", hdr: map[string][]string{"Content-Type": {"application/json"}, "X-Multi": {"a", "b"}},
		qry: map[string][]string{"x": {"1"}, "y": {"2", "3"}}, par: map[string]string{"P1": "v1"}, body: body}
	withContentLength(&q)
	return q
}

// an endpoint that forwards Content-Length (input_headers "Content-Length" or "*") hands the
// proxy the client's declared body size as a request header
func withContentLength(q *reqSpec) {
	if q.body != nil && len(*q.body) > 0 && q.hdr != nil {
		q.hdr["Content-Length"] = []string{strconv.Itoa(len(*q.body))}
	}
}

const longT = time.Hour

func main() {
	cfg := out.ParseFlags("C16")
	r := rng.New(cfg.Seed)
	w := out.NewWriter(cfg, "Verif.Corr.C16", 150)
	var jobs []job
	sanitize := func(s *caseSpec) {
		var regIdx []int
		for i := range s.bes {
			if !s.bes[i].ns.shadow() {
				regIdx = append(regIdx, i)
			}
		}
		if len(regIdx) >= 2 {
			unsafe := false
			for _, i := range regIdx {
				// with the client's context already done a multi-backend merge picks between a
				// delivered payload and ctx.Done() at random: keep to outcomes whose message does
				// not depend on that choice
				if s.mode == mCancelFirst && s.bes[i].rout <= rNilData {
					s.bes[i].rout = rErr
				}
				if s.bes[i].method != "GET" && s.bes[i].method != "HEAD" {
					unsafe = true
				}
			}
			if !unsafe && s.req.body != nil {
				s.bes[regIdx[0]].method = "POST"
			}
		}
	}
	add := func(s *caseSpec) {
		sanitize(s)
		jobs = append(jobs, job{steps: []*caseSpec{s}})
	}
	// one instance serving the steps one after the other
	addSeq := func(name string, steps []*caseSpec) {
		for k, st := range steps {
			st.seq, st.step, st.label = name, k, "reuse-sequential"
			sanitize(st)
		}
		jobs = append(jobs, job{steps: steps})
	}
	// one instance hit concurrently
	addConc := func(name string, steps []*caseSpec, goroutines, iters int) {
		for k, st := range steps {
			st.seq, st.step, st.label = name, k, "reuse-concurrent"
			sanitize(st)
		}
		jobs = append(jobs, job{steps: steps, goroutines: goroutines, iters: iters})
	}
	// builds successive proxies from one configuration value; every build serves one request
	addRebuild := func(name string, proto *caseSpec, builds int) {
		var steps []*caseSpec
		for k := 0; k < builds; k++ {
			c := *proto
			c.bes = append([]beSpec{}, proto.bes...)
			c.seq, c.step, c.label = name, k, "rebuild"
			sanitize(&c)
			steps = append(steps, &c)
		}
		jobs = append(jobs, job{steps: steps, rebuild: true})
	}
	// a sequence / a set of distinct inputs for one configuration: per step the outcomes of
	// the regular and of the shadow backends (in configuration order), timing, request
	type variation struct {
		routs, souts []int
		mode         int
		req          reqSpec
	}
	mkSteps := func(cfgBes []beSpec, ep time.Duration, vs []variation) []*caseSpec {
		var steps []*caseSpec
		full := true
		for _, b := range cfgBes {
			if b.gql != "" {
				full = false
			}
		}
		for _, v := range vs {
			bes := append([]beSpec{}, cfgBes...)
			ri, si := 0, 0
			for i := range bes {
				if bes[i].ns.shadow() {
					bes[i].sout = v.souts[si%len(v.souts)]
					si++
				} else {
					bes[i].rout = v.routs[ri%len(v.routs)]
					ri++
				}
			}
			steps = append(steps, &caseSpec{bes: bes, ep: ep, req: v.req, mode: v.mode, fullcopy: full})
		}
		return steps
	}
	stepReq := func(k int, body *string) reqSpec {
		q := reqSpec{method: "POST", hdr: map[string][]string{"X-Step": {fmt.Sprintf("s%d", k)}, "X-Multi": {"a", fmt.Sprintf("b%d", k)}},
			qry: map[string][]string{"x": {fmt.Sprintf("%d", k)}}, par: map[string]string{"P1": fmt.Sprintf("v%d", k)}, body: body}
		if k%2 == 0 {
			withContentLength(&q)
		}
		return q
	}

	reg := func(method string, rout int) beSpec {
		return beSpec{timeout: 2 * time.Second, ns: nsCfg{kind: "absent"}, method: method, rout: rout}
	}
	shd := func(method, tmo string, sout int) beSpec {
		return beSpec{timeout: 2 * time.Second, ns: shadowNs(tmo), method: method, sout: sout}
	}

	// ---- 1. regression corpus ----
	for mode := 0; mode < 3; mode++ {
		// GraphQL GET shadow next to a plain regular backend: the shadow pipeline must not write
		// the Query map it shares with the regular one (seeded/C03-revert-graphql-private-maps)
		for _, g := range []string{"get", "post"} {
			s := shd("GET", "1h", sOk)
			s.gql = g
			add(&caseSpec{bes: []beSpec{reg("POST", rPayload), s}, ep: time.Hour, req: defaultReq(bodies[2]), mode: mode, label: "corpus-graphql-" + g + "-shadow"})
			add(&caseSpec{bes: []beSpec{s, reg("GET", rPayload), reg("POST", rPayload)}, ep: time.Hour, req: defaultReq(bodies[2]), mode: mode, label: "corpus-graphql-" + g + "-shadow-merge"})
			rg := reg("GET", rPayload)
			rg.gql = g
			add(&caseSpec{bes: []beSpec{rg, shd("POST", "1h", sGarbage)}, ep: time.Hour, req: defaultReq(bodies[2]), mode: mode, label: "corpus-graphql-" + g + "-regular"})
		}
		// the shapes of shadow_test.go: ok, erroring and slow shadow
		for _, so := range []int{sOk, sErr, sHang} {
			t := "1h"
			if so == sHang {
				t = "10ms"
			}
			add(&caseSpec{bes: []beSpec{shd("POST", t, so), reg("POST", rPayload)}, ep: 100 * time.Millisecond, req: defaultReq(bodies[3]), mode: mode, fullcopy: true, label: "corpus-shadow-test"})
		}
		// nil Query, nil maps, no body
		add(&caseSpec{bes: []beSpec{reg("GET", rPayload), shd("GET", "", sOk)}, ep: time.Hour, req: reqSpec{method: "GET"}, mode: mode, fullcopy: true, label: "corpus-empty-request"})
	}
	add(&caseSpec{bes: nil, ep: time.Second, newOnly: true, label: "corpus-no-backends"})
	add(&caseSpec{bes: []beSpec{shd("GET", "1s", sOk)}, ep: time.Second, newOnly: true, label: "corpus-only-shadow"})
	add(&caseSpec{bes: []beSpec{shd("GET", "1s", sOk), shd("POST", "", sErr)}, ep: time.Second, newOnly: true, label: "corpus-only-shadows"})
	add(&caseSpec{bes: []beSpec{reg("GET", rPayload)}, ep: time.Hour, req: defaultReq(nil), fullcopy: true, label: "corpus-no-shadow"})

	// one NewShadowFactory-built proxy serving several requests that differ in body, headers,
	// params and in what the backends do (state kept across requests of one instance shows here)
	{
		bA, bB, bC := sp("body-A-first-request"), sp("B"), sp("third body, C")
		addSeq("corpus-1reg-1shadow", mkSteps([]beSpec{reg("POST", 0), shd("POST", "1h", 0)}, time.Hour, []variation{
			{[]int{rPayload}, []int{sOk}, mShadowFirst, stepReq(0, bA)},
			{[]int{rIncomplete}, []int{sGarbage}, mRegularFirst, stepReq(1, bB)},
			{[]int{rEmpty}, []int{sOk}, mShadowFirst, stepReq(2, nil)},
			{[]int{rErr}, []int{sErr}, mCancelFirst, stepReq(3, bC)},
			{[]int{rPayload}, []int{sOk}, mRegularFirst, stepReq(4, bA)},
			{[]int{rNilData}, []int{sGarbage}, mShadowFirst, stepReq(5, sp(""))}}))
		g := shd("GET", "1h", 0)
		g.gql = "get"
		addSeq("corpus-graphql-shadow-merge", mkSteps([]beSpec{g, reg("GET", 0), reg("POST", 0)}, time.Hour, []variation{
			{[]int{rPayload, rPayload}, []int{sOk}, mShadowFirst, stepReq(0, bA)},
			{[]int{rIncomplete, rErr}, []int{sErr}, mShadowFirst, stepReq(1, bB)},
			{[]int{rEmpty, rPayload}, []int{sOk}, mRegularFirst, stepReq(2, nil)},
			{[]int{rPayload, rNilData}, []int{sGarbage}, mShadowFirst, stepReq(3, bC)}}))
		addSeq("corpus-hanging-shadows", mkSteps([]beSpec{reg("POST", 0), shd("POST", "10ms", 0), shd("PUT", "5ms", 0)}, time.Hour, []variation{
			{[]int{rPayload}, []int{sHang, sOk}, mRegularFirst, stepReq(0, bA)},
			{[]int{rErr}, []int{sOk, sOk}, mShadowFirst, stepReq(1, bB)},
			{[]int{rPayload}, []int{sOk, sHang}, mCancelFirst, stepReq(2, bC)},
			{[]int{rIncomplete}, []int{sGarbage, sErr}, mRegularFirst, stepReq(3, nil)},
			{[]int{rPayload}, []int{sHang, sHang}, mShadowFirst, stepReq(4, bA)}}))
	}

	// New called three times on the same configuration value: shadow listed before the regular
	// backend, before two of them, between them
	addRebuild("corpus-rebuild-S-R", &caseSpec{bes: []beSpec{shd("POST", "1h", sOk), reg("POST", rPayload)}, ep: time.Hour, req: defaultReq(bodies[3]), mode: mShadowFirst, fullcopy: true}, 3)
	addRebuild("corpus-rebuild-S-R-R", &caseSpec{bes: []beSpec{shd("GET", "1h", sErr), reg("POST", rPayload), reg("GET", rIncomplete)}, ep: time.Hour, req: defaultReq(bodies[2]), mode: mRegularFirst, fullcopy: true}, 3)
	addRebuild("corpus-rebuild-R-S-R", &caseSpec{bes: []beSpec{reg("GET", rPayload), shd("POST", "2h", sGarbage), reg("POST", rPayload)}, ep: time.Hour, req: defaultReq(bodies[3]), mode: mShadowFirst, fullcopy: true}, 3)

	// ---- 2. every shape of the extra_config entry, next to one regular backend ----
	var shapes []nsCfg
	shapes = append(shapes, nsCfg{kind: "absent"}, nsCfg{kind: "notmap"})
	tmos := []nsCfg{{tmo: "absent"}, {tmo: "notstring"}, {tmo: "str", text: "1h"}, {tmo: "str", text: "90m"}, {tmo: "str", text: "garbage"},
		{tmo: "str", text: "-5s"}, {tmo: "str", text: "0"}, {tmo: "str", text: ""}, {tmo: "str", text: "1h0.5ms"}, {tmo: "str", text: "10"}}
	for _, f := range []string{"absent", "notbool-str", "notbool-num", "true", "false"} {
		for _, t := range tmos {
			shapes = append(shapes, nsCfg{kind: "map", flag: f, tmo: t.tmo, text: t.text})
		}
	}
	for k, sh := range shapes {
		for _, bt := range []time.Duration{2 * time.Hour, 0} {
			if bt == 0 && !(sh.shadow()) {
				continue
			}
			b := beSpec{timeout: bt, ns: sh, method: "POST", sout: k % 3, rout: rPayload}
			// a zero / negative shadow timeout makes the shadow context expire at once: the
			// stub still runs; nothing waits for it
			add(&caseSpec{bes: []beSpec{reg("POST", rPayload), b}, ep: time.Hour, req: defaultReq(bodies[k%len(bodies)]), mode: k % 3, fullcopy: true, label: "extra-config-shapes"})
			add(&caseSpec{bes: []beSpec{b, reg("GET", rIncomplete), shd("GET", "30m", sOk)}, ep: time.Hour, req: defaultReq(bodies[(k+1)%len(bodies)]), mode: (k + 1) % 3, fullcopy: true, label: "extra-config-shapes"})
		}
	}

	// ---- 3. small scope: every split of n backends, every shadow outcome vector, every timing ----
	smallScope := func(n int, sample int) {
		for mask := 1; mask < (1<<n)-1; mask++ { // bit set = shadow; at least one of each
			var shIdx, regIdx []int
			for i := 0; i < n; i++ {
				if mask&(1<<i) != 0 {
					shIdx = append(shIdx, i)
				} else {
					regIdx = append(regIdx, i)
				}
			}
			total := 1
			for range shIdx {
				total *= 4
			}
			for v := 0; v < total; v++ {
				for mode := 0; mode < 3; mode++ {
					if sample > 1 && r.Intn(sample) != 0 {
						continue
					}
					bes := make([]beSpec, n)
					anyHang := false
					x := v
					souts := map[int]int{}
					for _, i := range shIdx {
						souts[i] = x % 4
						if x%4 == sHang {
							anyHang = true
						}
						x /= 4
					}
					body := bodies[r.Intn(len(bodies))]
					if r.Chance(1, 40) {
						body = bigBody(1500)
					}
					// a fan-out of two or more GET/HEAD backends shares one body reader between the
					// branches (C03: bodies are replicated only when some method is unsafe): give
					// every group of two or more an unsafe method when there is a body
					for gi, grp := range [][]int{regIdx, shIdx} {
						forced := -1
						if len(grp) >= 2 && body != nil {
							forced = grp[r.Intn(len(grp))]
						}
						for _, i := range grp {
							m := []string{"GET", "POST", "PUT", "HEAD"}[r.Intn(4)]
							if i == forced {
								m = "POST"
							}
							if gi == 0 {
								rout := r.Intn(5)
								if mode == mCancelFirst {
									// with the client's context already done a multi-backend merge picks
									// between a delivered payload and ctx.Done() at random: keep to
									// outcomes whose message does not depend on that choice
									if len(regIdx) >= 2 {
										rout = []int{rErr, rEmpty, rCancelled}[r.Intn(3)]
									} else {
										rout = r.Intn(6)
									}
								}
								bes[i] = reg(m, rout)
							} else {
								t := []string{"1h", "2h", "", "45m"}[r.Intn(4)]
								if anyHang {
									t = []string{"3ms", "8ms", "15ms", "25ms"}[r.Intn(4)]
								}
								bes[i] = shd(m, t, souts[i])
								if t == "" {
									bes[i].timeout = time.Hour + time.Duration(r.Intn(1000))*time.Second
									if anyHang {
										bes[i].timeout = time.Duration(2+r.Intn(20)) * time.Millisecond
									}
								}
							}
						}
					}
					ep := time.Hour
					if len(regIdx) == 1 && len(shIdx) >= 2 && r.Chance(1, 3) {
						// the shadow merge's own 85% bound below the shadow timeout
						ep = time.Duration(10+r.Intn(30)) * time.Millisecond
					}
					add(&caseSpec{bes: bes, ep: ep, req: defaultReq(body), mode: mode, fullcopy: true, label: fmt.Sprintf("small-scope-%d", n)})
				}
			}
		}
	}
	smallScope(2, 1)
	smallScope(3, 1)
	if cfg.Thorough() {
		smallScope(4, 1)
		for k := 0; k < 6; k++ {
			smallScope(3, 1)
		}
	} else {
		smallScope(4, 3)
	}

	// ---- 4. random stream: random requests, configuration shapes, GraphQL stages ----
	nRandom := 600
	if cfg.Thorough() {
		nRandom = 6000
	}
	names := []string{"X-A", "X-B", "Cookie", "Accept", "Content-Length", "X-Garbage", "Authorization"}
	for k := 0; k < nRandom; k++ {
		n := 2 + r.Intn(3)
		bes := make([]beSpec, n)
		var body *string
		switch r.Intn(5) {
		case 0:
		case 1:
			body = sp("")
		default:
			b := make([]byte, r.Intn(200))
			for i := range b {
				b[i] = byte(r.Intn(256))
			}
			body = sp(string(b))
		}
		mode := r.Intn(3)
		anyHang := r.Chance(1, 4)
		nreg, nsh, gqlUsed := 0, 0, false
		for i := range bes {
			isSh := r.Bool()
			if i == n-1 && nreg == 0 {
				isSh = false
			}
			m := []string{"GET", "POST", "PUT", "HEAD", "DELETE"}[r.Intn(5)]
			if isSh {
				nsh++
				so := r.Intn(3)
				if anyHang && r.Bool() {
					so = sHang
				}
				t := []string{"1h", "2h30m", "", "45m", "1000000s"}[r.Intn(5)]
				if anyHang {
					t = []string{"3ms", "8ms", "15ms", "25ms", ""}[r.Intn(5)]
				}
				bes[i] = shd(m, t, so)
				bes[i].timeout = time.Hour + time.Duration(r.Intn(1000))*time.Second
				if anyHang {
					bes[i].timeout = time.Duration(2+r.Intn(20)) * time.Millisecond
				}
			} else {
				nreg++
				bes[i] = reg(m, r.Intn(5))
				if r.Chance(1, 8) {
					bes[i].ns = shapes[r.Intn(len(shapes))]
					if bes[i].ns.shadow() {
						bes[i].ns = nsCfg{kind: "map", flag: "false", tmo: "str", text: "1h"}
					}
				}
			}
			if r.Chance(1, 6) {
				bes[i].gql = []string{"get", "post"}[r.Intn(2)]
				gqlUsed = true
			}
		}
		// same restrictions as in the small scope
		fix := func(isSh bool) {
			var grp []int
			for i := range bes {
				if bes[i].ns.shadow() == isSh {
					grp = append(grp, i)
				}
			}
			if len(grp) >= 2 && body != nil {
				bes[grp[r.Intn(len(grp))]].method = "POST"
			}
			if !isSh && mode == mCancelFirst {
				for _, i := range grp {
					if len(grp) >= 2 {
						bes[i].rout = []int{rErr, rEmpty, rCancelled}[r.Intn(3)]
					} else if r.Chance(1, 4) {
						bes[i].rout = rCancelled
					}
				}
			}
		}
		fix(false)
		fix(true)
		q := reqSpec{method: []string{"GET", "POST", "PUT"}[r.Intn(3)], body: body, par: map[string]string{"P1": fmt.Sprintf("v%d", r.Intn(100))}}
		if !r.Chance(1, 10) {
			q.hdr = map[string][]string{}
			for j := r.Intn(4); j > 0; j-- {
				vs := []string{}
				for c := r.Intn(3); c > 0; c-- {
					vs = append(vs, fmt.Sprintf("h%d", r.Intn(50)))
				}
				name := names[r.Intn(len(names))]
				if name == "Content-Length" && r.Bool() {
					// a declared size: right, wrong, zero
					vs = []string{strconv.Itoa([]int{0, 1, 7, 300}[r.Intn(4)])}
					if body != nil && r.Bool() {
						vs = []string{strconv.Itoa(len(*body))}
					}
				}
				q.hdr[name] = vs
			}
		}
		if !r.Chance(1, 6) {
			q.qry = map[string][]string{}
			for j := r.Intn(4); j > 0; j-- {
				q.qry[[]string{"x", "y", "query", "variables", "z z", "operationName"}[r.Intn(6)]] = []string{fmt.Sprintf("q%d", r.Intn(50))}
			}
		}
		ep := time.Hour
		if nreg == 1 && nsh >= 2 && r.Chance(1, 3) {
			ep = time.Duration(10+r.Intn(30)) * time.Millisecond
		}
		add(&caseSpec{bes: bes, ep: ep, req: q, mode: mode, fullcopy: !gqlUsed, label: "random"})
	}

	// ---- 5. instance reuse, sequential: every split of 2..3 backends, random sequences ----
	seqPer := 4
	if cfg.Thorough() {
		seqPer = 10
	}
	for n := 2; n <= 3; n++ {
		for mask := 1; mask < (1<<n)-1; mask++ {
			for rep := 0; rep < seqPer; rep++ {
				hang := rep%2 == 1
				cfgBes := make([]beSpec, n)
				var nreg, nsh int
				for i := 0; i < n; i++ {
					if mask&(1<<i) != 0 {
						t := []string{"1h", "2h", "45m"}[r.Intn(3)]
						if hang {
							t = []string{"4ms", "9ms", "14ms"}[r.Intn(3)]
						}
						cfgBes[i] = shd([]string{"POST", "PUT", "GET"}[r.Intn(3)], t, 0)
						nsh++
					} else {
						cfgBes[i] = reg([]string{"POST", "PUT", "GET"}[r.Intn(3)], 0)
						nreg++
					}
				}
				// bodies travel in every sequence: each group needs an unsafe method (see above)
				for _, isSh := range []bool{false, true} {
					var grp []int
					for i := range cfgBes {
						if cfgBes[i].ns.shadow() == isSh {
							grp = append(grp, i)
						}
					}
					if len(grp) >= 2 {
						cfgBes[grp[r.Intn(len(grp))]].method = "POST"
					}
				}
				var vs []variation
				for k, steps := 0, 4+r.Intn(3); k < steps; k++ {
					v := variation{mode: r.Intn(3)}
					for i := 0; i < nreg; i++ {
						v.routs = append(v.routs, r.Intn(5))
					}
					for i := 0; i < nsh; i++ {
						so := r.Intn(3)
						if hang && r.Bool() {
							so = sHang
						}
						v.souts = append(v.souts, so)
					}
					var body *string
					if r.Intn(4) != 0 {
						body = sp(fmt.Sprintf("body of step %d/%d-%d", k, mask, r.Intn(1000)))
					}
					v.req = stepReq(k, body)
					vs = append(vs, v)
				}
				addSeq(fmt.Sprintf("seq-n%d-m%d-%d", n, mask, rep), mkSteps(cfgBes, time.Hour, vs))
			}
		}
	}

	// ---- 5b. rebuild: every split of 2..4 backends (shadow before, after, between regular
	// ones), New called 3 times on the same configuration value ----
	for n := 2; n <= 4; n++ {
		for mask := 1; mask < (1<<n)-1; mask++ {
			bes := make([]beSpec, n)
			var shIdx, regIdx []int
			for i := 0; i < n; i++ {
				if mask&(1<<i) != 0 {
					bes[i] = shd([]string{"POST", "GET", "PUT"}[r.Intn(3)], []string{"1h", "2h", ""}[r.Intn(3)], r.Intn(3))
					bes[i].timeout = time.Hour
					shIdx = append(shIdx, i)
				} else {
					bes[i] = reg([]string{"POST", "GET", "PUT"}[r.Intn(3)], r.Intn(5))
					regIdx = append(regIdx, i)
				}
			}
			for _, grp := range [][]int{regIdx, shIdx} {
				if len(grp) >= 2 {
					bes[grp[r.Intn(len(grp))]].method = "POST"
				}
			}
			addRebuild(fmt.Sprintf("rebuild-n%d-m%d", n, mask), &caseSpec{bes: bes, ep: time.Hour, req: defaultReq(bodies[1+r.Intn(4)]), mode: r.Intn(3), fullcopy: true}, 3)
		}
	}

	// ---- 5e. the client's context carries a deadline EARLIER than the shadow timeout (the
	// endpoint timeout the router puts on the request context) and a shadow backend hangs: it is
	// released by the shadow timeout, not by the client's deadline and not never.  One regular
	// backend (its stub does not look at the context, so the caller's result does not depend on
	// when the client's deadline passes). ----
	for _, shape := range []string{"RS", "SR", "SRS"} {
		for mode := 0; mode < 3; mode++ {
			for v := 0; v < 2; v++ {
				bes := make([]beSpec, len(shape))
				hung := false
				for i, c := range shape {
					if c == 'S' {
						so := sHang
						if hung {
							so = []int{sOk, sHang}[v]
						}
						hung = true
						bes[i] = shd("POST", []string{"15ms", "30ms"}[v], so)
					} else {
						bes[i] = reg("POST", []int{rPayload, rIncomplete, rErr}[(mode+v)%3])
					}
				}
				add(&caseSpec{bes: bes, ep: time.Hour, req: defaultReq(bodies[2+v]), mode: mode, fullcopy: true,
					clientDeadline: []time.Duration{2 * time.Millisecond, 6 * time.Millisecond}[v], label: "client-deadline"})
			}
		}
	}

	// ---- 5d. sequential merges on both sides: the regular and the shadow pipeline each call
	// their backends one after the other and write propagated values (Resp0_...) into the
	// Params map of the request they were handed - the client's for the regular pipeline, the
	// clone's for the shadow pipeline ----
	for _, shape := range []string{"RRS", "SRR", "RSR", "RSS", "SSR", "SRS", "RRSS", "SRSR", "RSSR", "SSRR", "RRRS", "SRRR"} {
		reps := 2
		if cfg.Thorough() {
			reps = 8
		}
		for rep := 0; rep < reps; rep++ {
			for mode := 0; mode < 3; mode++ {
				bes := make([]beSpec, len(shape))
				lastSh := strings.LastIndex(shape, "S")
				for i, c := range shape {
					m := []string{"POST", "GET", "PUT"}[r.Intn(3)]
					if c == 'S' {
						so := sOk // every shadow but the last answers completely, so that the next is called
						if i == lastSh {
							so = r.Intn(3)
						}
						bes[i] = shd(m, []string{"1h", "2h"}[r.Intn(2)], so)
					} else {
						bes[i] = reg(m, []int{rPayload, rPayload, rIncomplete, rErr, rEmpty, rNilData}[r.Intn(6)])
					}
				}
				add(&caseSpec{bes: bes, ep: time.Hour, req: stepReq(rep, bodies[r.Intn(len(bodies))]), mode: mode, sequential: true, label: "sequential-merge"})
			}
		}
	}

	// ---- 5c. long history: one proxy, many client calls, every shadow call hung ----
	{
		n := 300
		if cfg.Thorough() {
			n = 1600
		}
		h1 := &caseSpec{bes: []beSpec{reg("POST", rPayload), shd("POST", "1h", sHang)}, ep: time.Hour, req: defaultReq(bodies[3]), mode: mRegularFirst, fullcopy: true,
			seq: "history-1reg-1shadow", label: "long-history"}
		h2 := &caseSpec{bes: []beSpec{shd("GET", "1h", sHang), reg("GET", rPayload), shd("POST", "2h", sHang), reg("POST", rIncomplete)}, ep: 2 * time.Hour, req: defaultReq(bodies[2]), mode: mRegularFirst, fullcopy: true,
			seq: "history-2reg-2shadow", label: "long-history"}
		jobs = append(jobs, job{steps: []*caseSpec{h1}, hist: n}, job{steps: []*caseSpec{h2}, hist: n})
	}

	// ---- 6. instance reuse, concurrent (last: the number of cases it yields is data dependent
	// only when requests of one instance interfere) ----
	{
		g, it := 12, 40
		if cfg.Thorough() {
			g, it = 16, 250
		}
		gq := shd("GET", "45m", 0)
		gq.gql = "get"
		for ci, cfgBes := range [][]beSpec{
			{reg("POST", 0), shd("POST", "1h", 0)},
			{shd("PUT", "1h", 0), reg("GET", 0), reg("POST", 0), gq},
			{reg("GET", 0), shd("POST", "2h", 0), shd("GET", "", 0)}} {
			var vs []variation
			for k := 0; k < 10; k++ {
				var body *string
				if k%4 != 3 {
					body = sp(fmt.Sprintf("concurrent body %d of configuration %d", k, ci))
				}
				vs = append(vs, variation{routs: []int{k % 5, (k + 2) % 5}, souts: []int{k % 3, (k + 1) % 3}, mode: k % 3, req: stepReq(k, body)})
			}
			addConc(fmt.Sprintf("conc-%d", ci), mkSteps(cfgBes, time.Hour, vs), g, it)
		}
	}

	// ---- run (jobs are independent: a pool of workers, results emitted in order).  A job is
	// one case, one reused instance with its sequence, or one concurrently used instance.
	// Replay (--only idx) re-runs the whole job that holds idx. ----
	if strings.HasPrefix(cfg.Extra, "concjob=") {
		var j int
		fmt.Sscanf(cfg.Extra, "concjob=%d", &j)
		var outp []childCase
		for _, e := range jobs[j].run() {
			outp = append(outp, childCase{e.dedup, e.term, e.js, e.canon, e.keys, e.nontr})
		}
		b, _ := json.Marshal(outp)
		if err := os.WriteFile(filepath.Join(cfg.Dir, "conc.json"), b, 0o644); err != nil {
			panic(err)
		}
		return
	}
	starts := make([]int, len(jobs)+1)
	for j := range jobs {
		n := len(jobs[j].steps)
		if jobs[j].hist > 0 {
			n = jobs[j].hist
		}
		if jobs[j].goroutines > 0 {
			n = 0 // unknown before it ran; these jobs come last
		}
		starts[j+1] = starts[j] + n
	}
	results := make([][]emitted, len(jobs))
	wanted := func(j int) bool {
		if cfg.Only < 0 {
			return true
		}
		if jobs[j].goroutines > 0 {
			return cfg.Only >= starts[j]
		}
		return starts[j] <= cfg.Only && cfg.Only < starts[j+1]
	}
	var wg sync.WaitGroup
	next := make(chan int, len(jobs))
	var concJobs []int
	for j := range jobs {
		if !wanted(j) {
			continue
		}
		if jobs[j].goroutines > 0 {
			concJobs = append(concJobs, j)
		} else {
			next <- j
		}
	}
	close(next)
	for wk := 0; wk < 24; wk++ {
		wg.Add(1)
		go func() {
			defer wg.Done()
			for j := range next {
				results[j] = jobs[j].run()
			}
		}()
	}
	wg.Wait()
	// concurrent jobs run one at a time, each in a child process: requests of one instance that
	// interfere can bring the Go runtime down (concurrent map writes); that must be an
	// observation, not the end of the generator
	for _, j := range concJobs {
		results[j] = runInChild(cfg, j, jobs[j])
	}
	for j := range jobs {
		if !wanted(j) {
			for k := starts[j]; k < starts[j+1]; k++ {
				w.Add("", nil, "", fmt.Sprintf("skipped-%d", k), false)
			}
			continue
		}
		for _, e := range results[j] {
			for _, k := range e.keys {
				w.Count(k)
			}
			w.Add(e.term, e.js, "", e.canon, e.nontr)
		}
	}
	w.Close("corpus (GraphQL GET/POST shadow or regular next to plain backends, the shapes of shadow_test.go, empty request, degenerate configurations); every shape of the proxy extra_config entry (namespace absent / not a map / shadow flag absent, not a bool, true, false x shadow_timeout absent, not a string, 10 strings) next to regular backends; every split of 2..4 backends into >=1 regular and >=1 shadow x every shadow outcome vector {ok,error,garbage,hang}^s x 3 imposed timings (quick: 4 backends sampled 1/3), regular outcomes as in C01 and bodies drawn per case; random stream (random requests, methods, timeouts, GraphQL stages, 85% merge bound below the shadow timeout); instance reuse: ONE plain and ONE NewShadowFactory-built proxy per configuration serving a sequence of 4-6 requests that differ in body, headers, params, regular and shadow outcomes and timing (3 corpus sequences, every split of 2..3 backends x 2 random sequences, with and without hanging shadows), and 3 configurations hit by 12 goroutines x 40 iterations over 10 distinct inputs (each distinct observation emitted once). rebuild stream: every split of 2..4 backends, NewShadowFactory(f).New called 3 times on the SAME configuration value, each resulting proxy driven, deep snapshot of the caller's configuration compared after every New. client-deadline stream: 18 cases, the client's context has a deadline of 2-6 ms, below the shadow timeout of 15-30 ms, with hanging shadow backends; requests carry the Content-Length header an endpoint forwards; sequential-merge stream: 12 shapes of 3..4 backends whose regular and shadow pipelines are sequential merges with propagated values x 3 timings; long-history stream: 2 configurations, one NewShadowFactory-built proxy serving 300 (thorough 1600) client calls while every shadow call so far is still hung, each client call must return without the hung shadow calls being released. Each case = one call of the plain factory's endpoint on the regular backends + one call of NewShadowFactory's endpoint. nontrivial = at least one shadow backend", true)
}
