// C17 generator: structured configurations through the real config parser
// (config.NewParserWithFileReader(...).Parse = json.Unmarshal + normalize + ServiceConfig.Init)
// and proxy.DefaultFactory(...).New, both under recover(); plus a re-validation stream for
// the hand-written scanners of the Coq model against the package's own compiled patterns.
package main

import (
	"encoding/json"
	"fmt"
	"net"
	"os"
	"net/textproto"
	"reflect"
	"sort"
	"strings"
	"time"

	"context"

	"github.com/luraproject/lura/v2/async"
	"github.com/luraproject/lura/v2/config"
	"github.com/luraproject/lura/v2/encoding"
	"github.com/luraproject/lura/v2/logging"
	"github.com/luraproject/lura/v2/proxy"
	"github.com/luraproject/lura/v2/sd/dnssrv"
	"golang.org/x/text/cases"
	"golang.org/x/text/language"

	"verif/harness/internal/emit"
	"verif/harness/internal/out"
	"verif/harness/internal/rng"
)

const (
	nsProxy   = "github.com/devopsfaith/krakend/proxy"
	nsGraphQL = "github.com/devopsfaith/krakend/transport/http/client/graphql"
	nsHTTP    = "github.com/devopsfaith/krakend/http"
)

// ---- mirror of the JSON format (same tags as config.parseable*), used to emit exactly
// what encoding/json hands to lura ----

type mBackend struct {
	Host     []string               `json:"host"`
	NoSan    bool                   `json:"disable_host_sanitize"`
	Method   string                 `json:"method"`
	URL      string                 `json:"url_pattern"`
	Encoding string                 `json:"encoding"`
	IsColl   bool                   `json:"is_collection"`
	SD       string                 `json:"sd"`
	Headers  []string               `json:"input_headers"`
	Allow    []string               `json:"allow"`
	Mapping  map[string]string      `json:"mapping"`
	Extra    map[string]interface{} `json:"extra_config"`
}

type mEndpoint struct {
	Endpoint string                 `json:"endpoint"`
	Method   string                 `json:"method"`
	Backend  []*mBackend            `json:"backend"`
	CC       int                    `json:"concurrent_calls"`
	Timeout  string                 `json:"timeout"`
	CacheTTL string                 `json:"cache_ttl"`
	Encoding string                 `json:"output_encoding"`
	Headers  []string               `json:"input_headers"`
	Extra    map[string]interface{} `json:"extra_config"`
}

type mAgent struct {
	Name       string `json:"name"`
	Connection struct {
		MaxRetries      int    `json:"max_retries"`
		BackoffStrategy string `json:"backoff_strategy"`
		HealthInterval  string `json:"health_interval"`
	} `json:"connection"`
	Consumer struct {
		Timeout string  `json:"timeout"`
		Workers int     `json:"workers"`
		Topic   string  `json:"topic"`
		MaxRate float64 `json:"max_rate"`
	} `json:"consumer"`
	Encoding string                 `json:"encoding"`
	Backend  []*mBackend            `json:"backend"`
	Extra    map[string]interface{} `json:"extra_config"`
}

func (a *mAgent) coq() string {
	bs := make([]string, len(a.Backend))
	for i, b := range a.Backend {
		bs[i] = b.coq()
	}
	return rec(f("a_name", emit.Str(a.Name)), f("a_timeout", emit.Z(dur(a.Consumer.Timeout))), f("a_workers", emit.Z(int64(a.Consumer.Workers))),
		f("a_health", emit.Z(dur(a.Connection.HealthInterval))), f("a_backends", emit.List(bs)), f("a_extra", obj(a.Extra)))
}

type mSvc struct {
	Agents    []*mAgent    `json:"async_agent"`
	Version   int          `json:"version"`
	Address   string       `json:"listen_ip"`
	Host      []string     `json:"host"`
	Timeout   string       `json:"timeout"`
	CacheTTL  string       `json:"cache_ttl"`
	Encoding  string       `json:"output_encoding"`
	NoREST    bool         `json:"disable_rest"`
	Endpoints []*mEndpoint `json:"endpoints"`
}

func dur(s string) int64 {
	d, err := time.ParseDuration(s)
	if err != nil {
		return 0
	}
	return int64(d)
}

func rec(fields ...string) string { return "{| " + strings.Join(fields, "; ") + " |}" }

func f(name, val string) string { return name + " := " + val }

func obj(m map[string]interface{}) string {
	if m == nil {
		return "[]"
	}
	return emit.Obj(m)
}

func strMapSorted(m map[string]string) string { return emit.StrMap(m) }

func (b *mBackend) coq() string {
	return rec(f("b_host", emit.StrList(b.Host)), f("b_nosan", emit.Bool(b.NoSan)), f("b_method", emit.Str(b.Method)),
		f("b_url", emit.Str(b.URL)), f("b_enc", emit.Str(b.Encoding)), f("b_coll", emit.Bool(b.IsColl)), f("b_sd", emit.Str(b.SD)),
		f("b_hdrs", emit.StrList(b.Headers)), f("b_allow", emit.StrList(b.Allow)), f("b_mapping", strMapSorted(b.Mapping)),
		f("b_extra", obj(b.Extra)), f("b_keys", "[]"), f("b_dec", "DNil"), f("b_timeout", "0%Z"), f("b_cc", "0%Z"))
}

func (e *mEndpoint) coq() string {
	bs := make([]string, len(e.Backend))
	for i, b := range e.Backend {
		bs[i] = b.coq()
	}
	return rec(f("e_path", emit.Str(e.Endpoint)), f("e_method", emit.Str(e.Method)), f("e_backends", emit.List(bs)),
		f("e_cc", emit.Z(int64(e.CC))), f("e_timeout", emit.Z(dur(e.Timeout))), f("e_cache", emit.Z(dur(e.CacheTTL))),
		f("e_enc", emit.Str(e.Encoding)), f("e_hdrs", emit.StrList(e.Headers)), f("e_extra", obj(e.Extra)))
}

func (s *mSvc) coq() string {
	es := make([]string, len(s.Endpoints))
	for i, e := range s.Endpoints {
		es[i] = e.coq()
	}
	ags := make([]string, len(s.Agents))
	for i, a := range s.Agents {
		ags[i] = a.coq()
	}
	bad := s.Address != "" && net.ParseIP(s.Address) == nil
	return rec(f("s_version", emit.Z(int64(s.Version))), f("s_bad_addr", emit.Bool(bad)), f("s_host", emit.StrList(s.Host)),
		f("s_timeout", emit.Z(dur(s.Timeout))), f("s_cache", emit.Z(dur(s.CacheTTL))), f("s_enc", emit.Str(s.Encoding)),
		f("s_norest", emit.Bool(s.NoREST)), f("s_endpoints", emit.List(es)), f("s_agents", emit.List(ags)))
}

// every backend of the configuration: the endpoints' and the async agents'
func (s *mSvc) backends() []*mBackend {
	var bs []*mBackend
	for _, e := range s.Endpoints {
		bs = append(bs, e.Backend...)
	}
	for _, a := range s.Agents {
		bs = append(bs, a.Backend...)
	}
	return bs
}

// ---- observation ----

var decPtr = map[uintptr]string{}

func init() {
	decPtr[reflect.ValueOf(encoding.JSONDecoder).Pointer()] = "DJson"
	decPtr[reflect.ValueOf(encoding.JSONCollectionDecoder).Pointer()] = "DJsonColl"
	decPtr[reflect.ValueOf(encoding.SafeJSONDecoder).Pointer()] = "DSafe"
	decPtr[reflect.ValueOf(encoding.StringDecoder).Pointer()] = "DString"
	decPtr[reflect.ValueOf(encoding.NoOpDecoder).Pointer()] = "DNoop"
}

func decName(d encoding.Decoder) string {
	if d == nil {
		return "DNil"
	}
	if n, ok := decPtr[reflect.ValueOf(d).Pointer()]; ok {
		return n
	}
	// an unknown, non-nil decoder: shown as a disagreement (DNil would be a property failure)
	return "DString (* unknown decoder *)"
}

type observed struct {
	kind    string // panic|err|ok
	errKind string
	text    string
	term    string
	js      interface{}
}

func errKind(msg string) string {
	if i := strings.Index(msg, "': "); i >= 0 {
		msg = msg[i+3:]
	}
	switch {
	case strings.HasPrefix(msg, "unsupported version: "):
		return "version"
	case strings.HasPrefix(msg, "invalid ip address "):
		return "address"
	case strings.HasPrefix(msg, "host ") && strings.HasSuffix(msg, "invalid host"):
		return "host"
	case strings.HasSuffix(msg, "since it is invalid!!!"):
		return "path"
	case strings.HasSuffix(msg, "differ only in the case of their first character"):
		return "ambiguous_params"
	case strings.HasSuffix(msg, "since it has 0 backends defined!"):
		return "no_backends"
	case strings.HasPrefix(msg, "can not use NoOp encoding"):
		return "noop_multi"
	case strings.HasPrefix(msg, "input and output params do not match"):
		return "wrong_number_of_params"
	case strings.HasPrefix(msg, "undefined output param"):
		return "undefined_param"
	}
	return "parse"
}

func run(data []byte) (o observed) {
	defer func() {
		if x := recover(); x != nil {
			o = observed{kind: "panic", text: fmt.Sprint(x), term: "OPanic", js: map[string]interface{}{"outcome": "panic", "panic": fmt.Sprint(x)}}
		}
	}()
	cfg, err := config.NewParserWithFileReader(func(string) ([]byte, error) { return data, nil }).Parse("c17.json")
	if err != nil {
		k := errKind(err.Error())
		return observed{kind: "err", errKind: k, text: err.Error(), term: "OErr", js: map[string]interface{}{"outcome": "error", "error_kind": k, "error": err.Error()}}
	}
	backendObs := func(list []*config.Backend) ([]string, []interface{}) {
		var bs []string
		var bjs []interface{}
		for _, b := range list {
			bs = append(bs, rec(f("ob_host", emit.StrList(b.Host)), f("ob_method", emit.Str(b.Method)), f("ob_url", emit.Str(b.URLPattern)),
				f("ob_keys", emit.StrList(b.URLKeys)), f("ob_dec", decName(b.Decoder)), f("ob_timeout", emit.Z(int64(b.Timeout))),
				f("ob_cc", emit.Z(int64(b.ConcurrentCalls))), f("ob_hdrs", emit.StrList(b.HeadersToPass))))
			bjs = append(bjs, map[string]interface{}{"host": b.Host, "method": b.Method, "url_pattern": b.URLPattern, "url_keys": b.URLKeys,
				"decoder": decName(b.Decoder), "timeout_ns": int64(b.Timeout), "concurrent_calls": b.ConcurrentCalls, "input_headers": b.HeadersToPass})
		}
		return bs, bjs
	}
	// async agents: the real AgentStarter.Start builds each agent's pipe from a synthetic endpoint
	// through the proxy factory it is given; ours is the default factory under recover()
	var aks, akTexts []string
	pf := proxy.FactoryFunc(func(e *config.EndpointConfig) (proxy.Proxy, error) {
		k, text := factory(e)
		aks = append(aks, k)
		akTexts = append(akTexts, text)
		if k != "KOk" {
			return nil, fmt.Errorf("%s", text)
		}
		return proxy.NoopProxy, nil
	})
	if len(cfg.AsyncAgents) > 0 {
		async.AgentStarter{func(context.Context, async.Options) bool { return true }}.Start(context.Background(), cfg.AsyncAgents, logging.NoOp, make(chan string, len(cfg.AsyncAgents)+1), pf)
	}
	var as []string
	var ajs []interface{}
	for i, a := range cfg.AsyncAgents {
		k, text := "KErr (* pipe not built *)", "not built"
		if i < len(aks) {
			k, text = aks[i], akTexts[i]
		}
		bs, bjs := backendObs(a.Backend)
		as = append(as, rec(f("oa_timeout", emit.Z(int64(a.Consumer.Timeout))), f("oa_workers", emit.Z(int64(a.Consumer.Workers))),
			f("oa_health", emit.Z(int64(a.Connection.HealthInterval))), f("oa_backends", emit.List(bs)), f("oa_factory", k)))
		ajs = append(ajs, map[string]interface{}{"name": a.Name, "consumer_timeout_ns": int64(a.Consumer.Timeout), "workers": a.Consumer.Workers,
			"health_interval_ns": int64(a.Connection.HealthInterval), "backends": bjs, "factory": text})
	}
	var es []string
	var ejs []interface{}
	for _, e := range cfg.Endpoints {
		fk, fkText := factory(e)
		var bs []string
		var bjs []interface{}
		for _, b := range e.Backend {
			bs = append(bs, rec(f("ob_host", emit.StrList(b.Host)), f("ob_method", emit.Str(b.Method)), f("ob_url", emit.Str(b.URLPattern)),
				f("ob_keys", emit.StrList(b.URLKeys)), f("ob_dec", decName(b.Decoder)), f("ob_timeout", emit.Z(int64(b.Timeout))),
				f("ob_cc", emit.Z(int64(b.ConcurrentCalls))), f("ob_hdrs", emit.StrList(b.HeadersToPass))))
			bjs = append(bjs, map[string]interface{}{"host": b.Host, "method": b.Method, "url_pattern": b.URLPattern, "url_keys": b.URLKeys,
				"decoder": decName(b.Decoder), "timeout_ns": int64(b.Timeout), "concurrent_calls": b.ConcurrentCalls, "input_headers": b.HeadersToPass})
		}
		es = append(es, rec(f("oe_method", emit.Str(e.Method)), f("oe_timeout", emit.Z(int64(e.Timeout))), f("oe_cc", emit.Z(int64(e.ConcurrentCalls))),
			f("oe_hdrs", emit.StrList(e.HeadersToPass)), f("oe_backends", emit.List(bs)), f("oe_factory", fk)))
		ejs = append(ejs, map[string]interface{}{"endpoint": e.Endpoint, "method": e.Method, "timeout_ns": int64(e.Timeout), "concurrent_calls": e.ConcurrentCalls,
			"input_headers": e.HeadersToPass, "backends": bjs, "factory": fkText})
	}
	return observed{kind: "ok", term: emit.App("OOk", emit.List(es), emit.List(as)), js: map[string]interface{}{"outcome": "ok", "endpoints": ejs, "async_agents": ajs}}
}

func factory(e *config.EndpointConfig) (k string, text string) {
	defer func() {
		if x := recover(); x != nil {
			k, text = "KPanic", "panic: "+fmt.Sprint(x)
		}
	}()
	if _, err := proxy.DefaultFactory(logging.NoOp).New(e); err != nil {
		return "KErr", "error: " + err.Error()
	}
	return "KOk", "ok"
}

// ---- one configuration case ----

type gen struct {
	w   *out.Writer
	uri config.URI
	// when set, cfgCase records this observation (made by the concurrent stream) instead of
	// running the configuration itself
	forced    *observed
	forcedExt map[string]interface{}
}

func (g *gen) cfgCase(svc map[string]interface{}, stream string) {
	data, err := json.Marshal(svc)
	if err != nil {
		panic(err)
	}
	var m mSvc
	if err := json.Unmarshal(data, &m); err != nil {
		// not expressible with the documented types: malformed stream
		g.malformed(data, stream)
		return
	}
	var o observed
	if g.forced != nil {
		o = *g.forced
	} else {
		o = run(data)
	}
	// tables of the two library functions the model takes as parameters
	hostSet := map[string]bool{}
	lowSet := map[string]bool{"no-op": true}
	for _, h := range m.Host {
		hostSet[h] = true
	}
	nontrivial := o.kind != "ok"
	gql, placeholders := false, false
	for _, e := range m.Endpoints {
		if len(e.Extra) > 0 {
			nontrivial = true
		}
		for _, b := range e.Backend {
			for _, h := range b.Host {
				hostSet[h] = true
			}
			lowSet[b.Encoding] = true
			if len(b.Extra) > 0 {
				nontrivial = true
			}
			if _, ok := b.Extra[nsGraphQL]; ok {
				gql = true
			}
			if strings.Contains(b.URL, "{") {
				placeholders = true
			}
		}
	}
	nontrivial = nontrivial || placeholders || len(m.Agents) > 0
	for _, a := range m.Agents {
		for _, b := range a.Backend {
			for _, h := range b.Host {
				hostSet[h] = true
			}
			lowSet[b.Encoding] = true
		}
	}
	var hs []string
	for h := range hostSet {
		hs = append(hs, h)
	}
	sort.Strings(hs)
	hostTbl := make([]string, len(hs))
	hostJS := map[string]interface{}{}
	for i, h := range hs {
		c, err := g.uri.SafeCleanHost(h)
		if err != nil {
			hostTbl[i] = emit.Pair(emit.Str(h), "None")
			hostJS[h] = nil
		} else {
			hostTbl[i] = emit.Pair(emit.Str(h), emit.Some(emit.Str(c)))
			hostJS[h] = c
		}
	}
	var ls []string
	for l := range lowSet {
		ls = append(ls, l)
	}
	sort.Strings(ls)
	var lowTbl []string
	for _, l := range ls {
		if ll := strings.ToLower(l); ll != l {
			lowTbl = append(lowTbl, emit.Pair(emit.Str(l), emit.Str(ll)))
		}
	}
	// which query_path files os.ReadFile can read right now (the model's `readable`)
	fileSet := map[string]bool{}
	for _, bl := range [][]*mBackend{m.backends()} {
		for _, b := range bl {
			if sec, ok := b.Extra[nsGraphQL].(map[string]interface{}); ok {
				if qp, ok := sec["query_path"].(string); ok && qp != "" {
					if _, err := os.ReadFile(qp); err == nil {
						fileSet[qp] = true
					} else {
						fileSet[qp] = false
					}
				}
			}
		}
	}
	var fps, readableFiles []string
	for fp := range fileSet {
		fps = append(fps, fp)
	}
	sort.Strings(fps)
	fileJS := map[string]interface{}{}
	for _, fp := range fps {
		fileJS[fp] = fileSet[fp]
		if fileSet[fp] {
			readableFiles = append(readableFiles, fp)
			g.w.Count("has:query_path-readable")
		} else {
			g.w.Count("has:query_path-unreadable")
		}
	}
	term := emit.App("CCfg", emit.List(hostTbl), emit.List(lowTbl), emit.StrList(readableFiles), m.coq(), o.term)
	var cfgJS interface{}
	json.Unmarshal(data, &cfgJS)
	js := map[string]interface{}{"stream": stream, "config": cfgJS, "config_json": string(data), "clean_host": hostJS, "query_path_readable": fileJS, "observed": o.js}
	for k, v := range g.forcedExt {
		js[k] = v
	}
	g.w.Count("stream:" + stream)
	g.w.Count("outcome:" + o.kind)
	if o.kind == "err" {
		g.w.Count("error:" + o.errKind)
	}
	if gql {
		g.w.Count("has:graphql")
	}
	if placeholders {
		g.w.Count("has:placeholders")
	}
	g.w.Count(fmt.Sprintf("endpoints:%d", len(m.Endpoints)))
	if len(m.Agents) > 0 {
		g.w.Count(fmt.Sprintf("agents:%d", len(m.Agents)))
	}
	g.w.Add(term, js, "", "cfg|"+string(data), nontrivial)
}

func (g *gen) malformed(data []byte, stream string) {
	o := run(data)
	t := "OOk []"
	if o.kind != "ok" {
		t = o.term
	}
	g.w.Count("stream:malformed")
	g.w.Count("malformed-outcome:" + o.kind)
	g.w.Add(emit.App("CMalformed", t), map[string]interface{}{"stream": "malformed", "config_json": string(data), "observed": o.js}, "", "mal|"+string(data), true)
}

// ---- validation of the scanners ----

func (g *gen) validate(s string) {
	w := g.w
	add := func(kind, term string, js map[string]interface{}) {
		js["stream"] = "validate:" + kind
		w.Count("stream:validate:" + kind)
		w.Add(term, js, "", "val|"+kind+"|"+fmt.Sprint(js), false)
	}
	strict := config.VerifC17StrictKeys(s)
	add("strict_keys", emit.App("CKeys", "true", emit.Str(s), emit.StrList(strict)), map[string]interface{}{"input": s, "observed": strict})
	simple := config.VerifC17SimpleKeys(s)
	add("simple_keys", emit.App("CKeys", "false", emit.Str(s), emit.StrList(simple)), map[string]interface{}{"input": s, "observed": simple})
	sq := config.VerifC17SeqParam(s)
	add("seq_param", emit.App("CSeq", emit.Str(s), emit.Bool(sq)), map[string]interface{}{"input": s, "observed": sq})
	iv := config.VerifC17InvalidPath(s)
	add("invalid_path", emit.App("CInvalid", emit.Str(s), emit.Bool(iv)), map[string]interface{}{"input": s, "observed": iv})
	ch := textproto.CanonicalMIMEHeaderKey(s)
	add("canon_header", emit.App("CCanon", emit.Str(s), emit.Str(ch)), map[string]interface{}{"input": s, "observed": ch})
	sp := strings.Split(s, ".")
	add("split", emit.App("CSplit", emit.Str(s), emit.StrList(sp)), map[string]interface{}{"input": s, "observed": sp})
	// every placeholder found is title-cased exactly as initBackendURLMappings does
	title := cases.Title(language.Und)
	for _, k := range simple {
		c := title.String(k[:1]) + k[1:]
		add("cap", emit.App("CCap", emit.Str(k), emit.Str(c)), map[string]interface{}{"input": k, "observed": c})
		old := "{" + k + "}"
		r := strings.ReplaceAll(s, old, "{{."+c+"}}")
		add("replace_all", emit.App("CReplace", emit.Str(s), emit.Str(old), emit.Str("{{."+c+"}}"), emit.Str(r)), map[string]interface{}{"input": s, "old": old, "observed": r})
	}
	u, n := config.VerifC17UniqueOutput(simple)
	add("unique_output", emit.App("CUnique", emit.StrList(simple), emit.StrList(u), emit.Nat(n)), map[string]interface{}{"input": simple, "observed": u, "size": n})
	for _, ps := range [][]string{strict, simple} {
		p := g.uri.GetEndpointPath(s, ps)
		add("endpoint_path", emit.App("CEndpointPath", emit.Str(s), emit.StrList(ps), emit.Str(p)), map[string]interface{}{"input": s, "params": ps, "observed": p})
	}
}

// ---- pools ----

var paths = []string{"", "/", "a", "/a", "/a/{id}", "/{id}/{Id}", "/a/{b}/{c-d}", "{x}", "/__debug", "/__debug/x", "/a/__echo", "/__health/", "/__healthx",
	"/a/*", "/a*b", "*", "//", "//a", "/a?b={id}", "/a/{id}?x=/{q}", "/a/{resp0_x}", "/a/{resp0_}", "/{JWT.sub}", "/{}", "/{a", "/a}/{", "/{a}{b}", "/{a}/{b}",
	"/ü/{id}", "/a/{i d}", "/{a.b}", "/a/{id}/{id}", "/{b}/{a}", "/{id}/x/{Id}", "/{.Foo}", "/a/{{.Foo}}", "/x/{id}/{resp1_a.b}/{JWT.x}", "/a\n/{id}",
	"/__debug/\n", "/{resp12_y}/{id}", "/{a}/{b}/{c}", "/{_}", "/{-}/{0}", "/{a}/{A}"}
var hosts = []string{"http://h", "h:80", "https://h.example:8443/", "h h", "http://", "http://h/p", "::", "", "127.0.0.1:8080", "http://a.b-c_d", "ftp://x", "http://h:1",
	"http://h:1234567", "HTTP://H", "h/", "ü", "https://", "a b c", "!!", "http://ok", "http://ok2"}
var methods = []string{"", "GET", "get", "POST", "Put", "x y", "ü"}
var encodings = []string{"", "json", "JSON", "no-op", "NO-OP", "No-Op", "safejson", "string", "STRİNG", "xml", "string ", "Safejson", "K"}
var headers = []string{"X-a", "content-type", "*", "x-B-c", "A b", "", "ü-x", "x_y-z", "ACCEPT", "a--b", "-a", "x-1a", "Host"}
var durations = []string{"", "1s", "0", "0s", "-1s", "abc", "1500ms", "2h", "1", "100ns"}
var gqlValues = []string{"", "{}", "{", "}", "{a}", "{aB}", "{-}", "{{}", "{id}", "x", "{a", "a}", "{ü}", "{}}", "{ab", "}{"}
// query_path values: empty, a readable file, a missing file, a directory, a missing directory
const filesDir = "/tmp/verif-c17-files"

var qpaths = []string{"", filesDir + "/q.graphql", filesDir + "/missing.graphql", filesDir + "/adir", "/nonexistent/verif-c17/q.graphql"}

func prepareFiles() {
	if err := os.MkdirAll(filesDir+"/adir", 0o755); err != nil {
		panic(err)
	}
	if err := os.WriteFile(filesDir+"/q.graphql", []byte("query($a:ID){x(a:$a)}\n"), 0o644); err != nil {
		panic(err)
	}
	os.Remove(filesDir + "/missing.graphql")
}

var sds = []string{"", "", "", "static", "dns", "DNS", "etcd"}

func strsUpTo(alpha []string, n int) []string {
	res := []string{""}
	last := []string{""}
	for i := 0; i < n; i++ {
		var next []string
		for _, p := range last {
			for _, a := range alpha {
				next = append(next, p+a)
			}
		}
		res = append(res, next...)
		last = next
	}
	return res
}

func pick(r *rng.R, pool []string) string { return pool[r.Intn(len(pool))] }

func list(r *rng.R, pool []string, max int) []interface{} {
	n := r.Intn(max + 1)
	l := make([]interface{}, n)
	for i := range l {
		l[i] = pick(r, pool)
	}
	return l
}

func maybe(r *rng.R, m map[string]interface{}, k string, v interface{}) {
	if r.Bool() {
		m[k] = v
	}
}

func anyValue(r *rng.R) interface{} {
	switch r.Intn(6) {
	case 0:
		return pick(r, gqlValues)
	case 1:
		return float64(r.Intn(10))
	case 2:
		return r.Bool()
	case 3:
		return nil
	case 4:
		return []interface{}{pick(r, gqlValues)}
	}
	return map[string]interface{}{"n": pick(r, gqlValues)}
}

func graphqlSection(r *rng.R, illTyped bool) interface{} {
	vars := map[string]interface{}{}
	for i := r.Intn(4); i > 0; i-- {
		k := pick(r, []string{"a", "b", "id", "Id", "", "x.y"})
		if r.Chance(3, 4) {
			vars[k] = pick(r, gqlValues)
		} else {
			vars[k] = anyValue(r)
		}
	}
	g := map[string]interface{}{"type": pick(r, []string{"query", "mutation", "Query", "", "x"}), "query": pick(r, []string{"{ q }", "", "query($a:ID){x(a:$a)}"})}
	if r.Chance(5, 6) {
		g["variables"] = vars
	}
	maybe(r, g, "method", pick(r, methods))
	maybe(r, g, "operationName", pick(r, []string{"", "op"}))
	if r.Chance(1, 4) {
		g["query_path"] = pick(r, qpaths)
		if r.Bool() {
			delete(g, "query")
		}
	}
	if illTyped {
		switch r.Intn(5) {
		case 0:
			g["variables"] = anyValue(r)
		case 1:
			g["type"] = anyValue(r)
		case 2:
			g["query"] = anyValue(r)
		case 3:
			return anyValue(r)
		case 4:
			g["method"] = anyValue(r)
		}
	}
	return g
}

func flatmapOps(r *rng.R) []interface{} {
	var ops []interface{}
	for i := r.Intn(3); i > 0; i-- {
		var args []interface{}
		for j := r.Intn(3); j > 0; j-- {
			args = append(args, pick(r, []string{"a", "a.b", "", "a.*.c"}))
		}
		if r.Chance(1, 6) {
			ops = append(ops, anyValue(r))
			continue
		}
		op := map[string]interface{}{"args": args}
		if r.Chance(5, 6) {
			op["type"] = pick(r, []string{"move", "del", "append", "x"})
		} else {
			op["type"] = float64(1)
		}
		ops = append(ops, op)
	}
	return ops
}

func extraBackend(r *rng.R, ill bool) map[string]interface{} {
	e := map[string]interface{}{}
	if r.Chance(1, 8) {
		e[nsPlugin] = pluginSection(r)
	}
	if r.Chance(2, 5) {
		e[nsGraphQL] = graphqlSection(r, ill && r.Bool())
	}
	if r.Chance(1, 4) {
		h := map[string]interface{}{}
		maybe(r, h, "return_error_details", pick(r, []string{"", "b1"}))
		maybe(r, h, "return_error_code", r.Bool())
		e[nsHTTP] = h
	}
	if r.Chance(1, 3) {
		p := map[string]interface{}{}
		maybe(r, p, "shadow", r.Bool())
		maybe(r, p, "shadow_timeout", pick(r, durations))
		if r.Bool() {
			p["flatmap_filter"] = flatmapOps(r)
		}
		if ill && r.Chance(1, 3) {
			p["flatmap_filter"] = anyValue(r)
		}
		e[nsProxy] = p
	}
	return e
}

func extraEndpoint(r *rng.R, ill bool) map[string]interface{} {
	e := map[string]interface{}{}
	if r.Chance(1, 8) {
		e[nsPlugin] = pluginSection(r)
	}
	if r.Chance(3, 5) {
		p := map[string]interface{}{}
		maybe(r, p, "sequential", r.Bool())
		if r.Bool() {
			l := list(r, []string{"resp0_a", "Resp1_b.c", "x", "", "resp9"}, 3)
			if ill && r.Bool() {
				l = append(l, anyValue(r))
			}
			p["sequential_propagated_params"] = l
		}
		if r.Chance(1, 3) {
			p["combiner"] = pick(r, []string{"default", "x", ""})
			if ill && r.Bool() {
				p["combiner"] = anyValue(r)
			}
		}
		if r.Bool() {
			st := map[string]interface{}{"data": map[string]interface{}{pick(r, []string{"a", "b"}): anyValue(r)}}
			maybe(r, st, "strategy", pick(r, []string{"always", "success", "errored", "complete", "incomplete", "zzz"}))
			if ill && r.Chance(1, 3) {
				st["data"] = anyValue(r)
			}
			p["static"] = st
		}
		if r.Chance(1, 4) {
			p["flatmap_filter"] = flatmapOps(r)
		}
		if ill && r.Chance(1, 6) {
			e[nsProxy] = anyValue(r)
		} else {
			e[nsProxy] = p
		}
	}
	return e
}

// mostly-valid pools: biased towards accepted configurations
var okPaths = []string{"/a", "/a/{id}", "/{id}/{Id}", "/a/{b}/{c-d}", "/a/{id}?x=/{q}", "/{a}/{b}", "/x/{id}/y", "/{a}/{b}/{c}", "/{_}", "/{a}/{A}"}
var okURLs = []string{"/b", "/b/{id}", "/{Id}", "/{b}/{c-d}", "/{a}/{a}", "/{b}/{a}", "/x/{resp0_x}", "/{JWT.sub}/{id}", "b/{a}", "/{resp1_a.b}", "/{c}/{b}/{a}", "/{_}/x", "/{A}"}
var okHosts = []string{"http://ok", "http://ok2", "h:80", "https://h.example:8443/", "127.0.0.1:8080"}

const nsPlugin = "github.com/devopsfaith/krakend/proxy/plugin"

// pluginSection: the modifier-plugin section of an endpoint or backend (no plugin is registered
// in the harness: the middleware must fall back without touching the outcome)
func pluginSection(r *rng.R) interface{} {
	if r.Chance(1, 5) {
		return anyValue(r)
	}
	names := []interface{}{"mod-a", "mod-b"}
	if r.Bool() {
		names = append(names, anyValue(r))
	}
	p := map[string]interface{}{"name": names}
	if r.Chance(1, 3) {
		p["name"] = anyValue(r)
	}
	maybe(r, p, "mod-a", map[string]interface{}{"k": "v"})
	return p
}

// randomAgent: an async agent with 0..3 backends
func randomAgent(r *rng.R, hp []string, valid bool, ill bool) map[string]interface{} {
	a := map[string]interface{}{}
	maybe(r, a, "name", pick(r, []string{"", "agent-1", "ü"}))
	cons := map[string]interface{}{}
	maybe(r, cons, "timeout", pick(r, durations))
	maybe(r, cons, "workers", r.Intn(5)-1)
	maybe(r, cons, "topic", "t")
	maybe(r, cons, "max_rate", 0.5)
	maybe(r, a, "consumer", cons)
	conn := map[string]interface{}{}
	maybe(r, conn, "health_interval", pick(r, durations))
	maybe(r, conn, "max_retries", r.Intn(3))
	maybe(r, conn, "backoff_strategy", pick(r, []string{"", "linear", "x"}))
	maybe(r, a, "connection", conn)
	maybe(r, a, "encoding", pick(r, encodings))
	if r.Chance(1, 3) {
		a["extra_config"] = extraEndpoint(r, ill)
	}
	nb := r.Intn(4)
	if valid {
		nb = 1 + r.Intn(3)
	}
	bs := []interface{}{}
	for ; nb > 0; nb-- {
		b := map[string]interface{}{"url_pattern": pick(r, []string{"/q", "q", "/q/{id}", "", "//x"})}
		if r.Chance(3, 4) {
			b["host"] = append(list(r, hp, 1), pick(r, okHosts))
		} else if !valid && r.Bool() {
			b["host"] = list(r, hp, 2)
		}
		maybe(r, b, "method", pick(r, methods))
		maybe(r, b, "encoding", pick(r, encodings))
		maybe(r, b, "is_collection", r.Bool())
		maybe(r, b, "input_headers", list(r, headers, 2))
		maybe(r, b, "allow", list(r, []string{"a", "a.b", ""}, 2))
		if r.Chance(1, 6) {
			b["disable_host_sanitize"] = r.Bool()
		}
		if r.Chance(1, 5) {
			b["sd"] = pick(r, sds)
		}
		if r.Chance(1, 3) {
			b["extra_config"] = extraBackend(r, ill)
		}
		bs = append(bs, b)
	}
	a["backend"] = bs
	return a
}

func randomCfg(r *rng.R, valid bool, ill bool) map[string]interface{} {
	pp, up, hp := paths, paths, hosts
	if valid {
		pp, up, hp = okPaths, okURLs, okHosts
	}
	svc := map[string]interface{}{}
	if valid || r.Chance(5, 6) {
		svc["version"] = 3
	} else {
		svc["version"] = r.Intn(5)
	}
	if valid || r.Chance(2, 3) {
		svc["host"] = list(r, hp, 2)
	}
	maybe(r, svc, "timeout", pick(r, durations))
	maybe(r, svc, "cache_ttl", pick(r, durations))
	if r.Chance(1, 4) {
		svc["output_encoding"] = pick(r, encodings)
	}
	maybe(r, svc, "disable_rest", r.Bool())
	if r.Chance(1, 10) {
		svc["listen_ip"] = pick(r, []string{"", "127.0.0.1", "::1", "999.1.1.1", "localhost"})
	}
	var eps []interface{}
	for ne := r.Intn(3) + r.Intn(2); ne > 0; ne-- {
		ep := map[string]interface{}{"endpoint": pick(r, pp)}
		maybe(r, ep, "method", pick(r, methods))
		maybe(r, ep, "concurrent_calls", r.Intn(4))
		if !valid && r.Chance(1, 15) {
			ep["concurrent_calls"] = -r.Intn(3)
		}
		maybe(r, ep, "timeout", pick(r, durations))
		maybe(r, ep, "cache_ttl", pick(r, durations))
		if r.Chance(1, 3) {
			ep["output_encoding"] = pick(r, encodings)
		}
		maybe(r, ep, "input_headers", list(r, headers, 3))
		maybe(r, ep, "input_query_strings", list(r, headers, 3))
		if r.Bool() {
			ep["extra_config"] = extraEndpoint(r, ill)
		}
		nb := r.Intn(4)
		if valid {
			nb = 1 + r.Intn(3)
		}
		var bs []interface{}
		for ; nb > 0; nb-- {
			b := map[string]interface{}{"url_pattern": pick(r, up)}
			if r.Chance(3, 4) {
				b["host"] = append(list(r, hp, 1), pick(r, okHosts))
			} else if !valid && r.Chance(1, 3) {
				b["host"] = list(r, hp, 2)
			}
			maybe(r, b, "method", pick(r, methods))
			if r.Bool() {
				b["encoding"] = pick(r, encodings)
			}
			maybe(r, b, "is_collection", r.Bool())
			maybe(r, b, "target", pick(r, []string{"", "a", "a.b"}))
			maybe(r, b, "group", pick(r, []string{"", "g"}))
			maybe(r, b, "allow", list(r, []string{"a", "a.b", "", ".", "a..b", "b."}, 3))
			maybe(r, b, "deny", list(r, []string{"a", "a.b", "", "."}, 3))
			if r.Chance(1, 3) {
				b["mapping"] = map[string]interface{}{pick(r, []string{"a", "b", ""}): pick(r, []string{"c", "c.d", "", "."})}
			}
			maybe(r, b, "input_headers", list(r, headers, 3))
			maybe(r, b, "input_query_strings", list(r, headers, 3))
			if r.Chance(1, 6) {
				b["disable_host_sanitize"] = r.Bool()
			}
			if r.Chance(1, 4) {
				b["sd"] = pick(r, sds)
			}
			if r.Chance(3, 5) {
				b["extra_config"] = extraBackend(r, ill)
			}
			bs = append(bs, b)
		}
		ep["backend"] = bs
		eps = append(eps, ep)
	}
	svc["endpoints"] = eps
	// async agents (Init handles them before the endpoints)
	if r.Chance(1, 3) {
		var ags []interface{}
		for na := 1 + r.Intn(2); na > 0; na-- {
			ags = append(ags, randomAgent(r, hp, valid, ill))
		}
		svc["async_agent"] = ags
	}
	// sections Init does not look at: they must not change the outcome
	if r.Chance(1, 6) {
		svc["plugin"] = map[string]interface{}{"folder": "/nonexistent/verif-c17/plugins/", "pattern": ".so"}
	}
	if r.Chance(1, 6) {
		svc["tls"] = map[string]interface{}{"disabled": r.Bool(), "public_key": "/nonexistent/cert.pem", "private_key": "", "min_version": pick(r, []string{"", "TLS12", "x"}),
			"cipher_suites": []interface{}{4865, 49199}, "enable_mtls": r.Bool(), "keys": []interface{}{map[string]interface{}{"public_key": "a", "private_key": "b"}}}
	}
	if r.Chance(1, 6) {
		svc["client_tls"] = map[string]interface{}{"allow_insecure_connections": r.Bool(), "ca_certs": []interface{}{"/nonexistent/ca.pem"},
			"client_certs": []interface{}{map[string]interface{}{"certificate": "c", "private_key": "k"}}}
	}
	if r.Chance(1, 8) {
		svc["extra_config"] = map[string]interface{}{"github_com/devopsfaith/krakend-gologging": map[string]interface{}{"level": "DEBUG"}, nsPlugin: pluginSection(r)}
	}
	return svc
}

func ifaces(xs []string) []interface{} {
	l := make([]interface{}, len(xs))
	for i, x := range xs {
		l[i] = x
	}
	return l
}

func pathOf(prefix string, params []string) string {
	p := prefix
	for _, k := range params {
		p += "/{" + k + "}"
	}
	return p
}

func many(eps ...map[string]interface{}) map[string]interface{} {
	var l []interface{}
	for _, e := range eps {
		l = append(l, e)
	}
	return map[string]interface{}{"version": 3, "endpoints": l}
}

func epWith(path string, bs ...map[string]interface{}) map[string]interface{} {
	var l []interface{}
	for _, b := range bs {
		l = append(l, b)
	}
	return map[string]interface{}{"endpoint": path, "backend": l}
}

func subsets(xs []string) [][]string {
	res := [][]string{nil}
	for _, x := range xs {
		for _, s := range res[:len(res):len(res)] {
			res = append(res, append(append([]string(nil), s...), x))
		}
	}
	return res
}

// names shared by path params, allowed query strings, allowed headers and backend
// placeholders, so that a placeholder can carry the name of something the endpoint lets in
// without declaring it as a path param
var paramNames = []string{"a", "b", "id", "Id", "page", "cat", "q", "X-a", "x-B-c", "Host", "resp0_x", "JWT.sub", "z", "c-d", "_"}

// randomParamsCfg: 1..3 endpoints; each backend pattern draws its placeholders from the
// endpoint's own path params, its input_query_strings, its input_headers, the params of the
// OTHER endpoints, and fresh names
func randomParamsCfg(r *rng.R) map[string]interface{} {
	ne := 1 + r.Intn(3)
	params := make([][]string, ne)
	var all []string
	for i := range params {
		for k := r.Intn(3); k > 0; k-- {
			params[i] = append(params[i], pick(r, paramNames[:7]))
		}
		all = append(all, params[i]...)
	}
	var eps []interface{}
	for i := 0; i < ne; i++ {
		var qs, hs []string
		for k := r.Intn(3); k > 0; k-- {
			qs = append(qs, pick(r, paramNames))
		}
		for k := r.Intn(3); k > 0; k-- {
			hs = append(hs, pick(r, paramNames))
		}
		ep := map[string]interface{}{"endpoint": pathOf(fmt.Sprintf("/e%d", i), params[i])}
		if len(qs) > 0 || r.Bool() {
			ep["input_query_strings"] = ifaces(qs)
		}
		if len(hs) > 0 || r.Bool() {
			ep["input_headers"] = ifaces(hs)
		}
		var bs []interface{}
		for nb := 1 + r.Intn(2); nb > 0; nb-- {
			var ph []string
			for k := r.Intn(3); k > 0; k-- {
				var src []string
				switch r.Intn(6) {
				case 0, 1:
					src = params[i]
				case 2:
					src = qs
				case 3:
					src = hs
				case 4:
					src = all
				}
				if len(src) == 0 {
					src = paramNames
				}
				ph = append(ph, pick(r, src))
			}
			b := be(pathOf("/b", ph), pick(r, okHosts))
			if r.Chance(1, 3) {
				b["input_query_strings"] = ifaces(qs)
			}
			if r.Chance(1, 3) {
				b["input_headers"] = ifaces(hs)
			}
			bs = append(bs, b)
		}
		ep["backend"] = bs
		eps = append(eps, ep)
	}
	svc := map[string]interface{}{"version": 3, "endpoints": eps}
	if r.Chance(1, 4) {
		svc["disable_rest"] = true
	}
	return svc
}

// concurrentStream: K different configurations are parsed, initialised and built AT THE SAME
// TIME (one goroutine each, released together by closing a gate), for a number of rounds.
// Initialisation must be total and consistent for every configuration whatever else the process
// is doing, so every observation made this way is compared with the model like any other.
// Two cases per configuration keep the case indices stable: the most frequent observation, and
// an observation that deviates from it when there was one (otherwise the same again).
func (g *gen) concurrentStream(rounds int) {
	words := []string{"alpha", "bravo", "charlie", "delta", "echo", "foxtrot", "golf", "hotel", "india", "juliett", "kilo", "lima",
		"mike", "november", "oscar", "papa", "quebec", "romeo", "sierra", "tango", "uniform", "victor", "whiskey", "xray"}
	const K = 8
	var cfgs []map[string]interface{}
	var datas [][]byte
	for j := 0; j < K; j++ {
		var eps []map[string]interface{}
		for e := 0; e < 3; e++ {
			ps := []string{words[(3*j+e)%len(words)], words[(3*j+e+7)%len(words)], words[(3*j+e+13)%len(words)]}
			eps = append(eps, epWith(pathOf(fmt.Sprintf("/c%d-%d", j, e), ps),
				be(pathOf("/x", ps), "http://ok"),
				be("/y/{"+ps[2]+"}/{resp0_"+ps[0]+"}/{"+ps[1]+"}", "http://ok2"),
				be("/z/{JWT."+ps[0]+"}/{"+ps[0]+"}", "h:80")))
		}
		c := many(eps...)
		d, err := json.Marshal(c)
		if err != nil {
			panic(err)
		}
		cfgs = append(cfgs, c)
		datas = append(datas, d)
	}
	type tally struct {
		count int
		obs   observed
	}
	seen := make([]map[string]*tally, K)
	for j := range seen {
		seen[j] = map[string]*tally{}
	}
	for r := 0; r < rounds; r++ {
		gate := make(chan struct{})
		res := make(chan struct {
			j int
			o observed
		}, K)
		for j := 0; j < K; j++ {
			go func(j int) {
				<-gate
				res <- struct {
					j int
					o observed
				}{j, run(datas[j])}
			}(j)
		}
		close(gate)
		for j := 0; j < K; j++ {
			x := <-res
			if tl, ok := seen[x.j][x.o.term]; ok {
				tl.count++
			} else {
				seen[x.j][x.o.term] = &tally{1, x.o}
			}
		}
	}
	for j := 0; j < K; j++ {
		var terms []string
		for term := range seen[j] {
			terms = append(terms, term)
		}
		sort.Slice(terms, func(a, b int) bool {
			ca, cb := seen[j][terms[a]].count, seen[j][terms[b]].count
			if ca != cb {
				return ca > cb
			}
			return terms[a] < terms[b]
		})
		pickT := []string{terms[0], terms[len(terms)-1]}
		for slot, term := range pickT {
			o := seen[j][term].obs
			g.forced = &o
			g.forcedExt = map[string]interface{}{"concurrent_rounds": rounds, "concurrent_configs": K, "slot": slot,
				"distinct_observations": len(terms), "times_observed": seen[j][term].count}
			g.cfgCase(cfgs[j], "concurrent")
			g.forced, g.forcedExt = nil, nil
		}
		if len(terms) > 1 {
			g.w.Count("concurrent:deviating-observations")
		}
	}
}

func one(ep map[string]interface{}, bs ...map[string]interface{}) map[string]interface{} {
	var l []interface{}
	for _, b := range bs {
		l = append(l, b)
	}
	ep["backend"] = l
	return map[string]interface{}{"version": 3, "endpoints": []interface{}{ep}}
}

func be(url string, host ...string) map[string]interface{} {
	b := map[string]interface{}{"url_pattern": url}
	if len(host) > 0 {
		hs := make([]interface{}, len(host))
		for i, h := range host {
			hs[i] = h
		}
		b["host"] = hs
	}
	return b
}

func with(m map[string]interface{}, kv ...interface{}) map[string]interface{} {
	for i := 0; i+1 < len(kv); i += 2 {
		m[kv[i].(string)] = kv[i+1]
	}
	return m
}

func gqlBackend(vars map[string]interface{}) map[string]interface{} {
	return with(be("/g", "http://ok"), "extra_config", map[string]interface{}{nsGraphQL: map[string]interface{}{"type": "query", "query": "{ q }", "variables": vars}})
}

func main() {
	cfg := out.ParseFlags("C17")
	// the dns subscriber factory is part of the default deployment; its lookups are stubbed
	// and its refresh loop parked (no network, no timing)
	dnssrv.DefaultLookup = func(string, string, string) (string, []*net.SRV, error) { return "", nil, fmt.Errorf("stubbed") }
	dnssrv.TTL = 1000 * time.Hour
	dnssrv.Register()

	prepareFiles()
	r := rng.New(cfg.Seed)
	g := &gen{w: out.NewWriter(cfg, "Verif.Corr.C17", 300), uri: config.URI(config.RoutingPattern)}
	thorough := cfg.Thorough()

	// ---- 1. regression corpus ----
	ep := func(path string) map[string]interface{} { return map[string]interface{}{"endpoint": path} }
	corpus := []map[string]interface{}{
		// F-C17 (repaired): GraphQL variables "" and "{}" used to panic inside DefaultFactory.New
		one(ep("/a"), gqlBackend(map[string]interface{}{"a": ""})),
		one(ep("/a"), gqlBackend(map[string]interface{}{"a": "{}"})),
		one(ep("/a/{id}"), gqlBackend(map[string]interface{}{"a": "{id}", "b": "{", "c": 5.0})),
		one(ep("/a"), gqlBackend(map[string]interface{}{"a": "{a}"}), gqlBackend(map[string]interface{}{"b": "{}"})),
		{"version": 2, "endpoints": []interface{}{}},
		{"version": 3},
		{"version": 3, "host": []interface{}{"h h"}},
		one(ep("/a")),
		one(ep("/__debug/x"), be("/b", "http://ok")),
		one(ep("/a/*x"), be("/b", "http://ok")),
		one(ep("a"), be("b", "http://")),
		one(with(ep("/a"), "output_encoding", "no-op"), be("/b", "http://ok"), be("/c", "http://ok")),
		one(with(ep("/a"), "output_encoding", "no-op"), be("/b", "http://ok")),
		one(ep("/a/{id}"), be("/b/{id}/{other}", "http://ok")),
		one(ep("/a/{id}"), be("/b/{other}", "http://ok")),
		one(ep("/a/{id}"), be("/b/{resp0_x}/{JWT.sub}/{id}", "http://ok")),
		one(ep("/a"), be("/b", "a b")),
		one(ep("/a"), with(be("/b", "a b"), "disable_host_sanitize", true)),
		one(ep("/a"), be("/b")),                      // no host anywhere
		one(ep("/a"), with(be("/b"), "sd", "dns")),   // dns subscriber with no host: cfg.Host[0]
		one(ep("/a"), with(be("/b", "srv.example"), "sd", "dns")),
		one(with(ep("/a"), "extra_config", map[string]interface{}{nsProxy: map[string]interface{}{"combiner": 5.0}}), be("/b", "http://ok"), be("/c", "http://ok")),
		one(with(ep("/a"), "extra_config", map[string]interface{}{nsProxy: map[string]interface{}{"combiner": 5.0}}), be("/b", "http://ok")),
		one(with(ep("/a"), "extra_config", map[string]interface{}{nsProxy: map[string]interface{}{"sequential": true, "sequential_propagated_params": []interface{}{"resp0_a", 1.0}}}), be("/b", "http://ok"), be("/c/{resp0_a}", "http://ok")),
		one(with(ep("/a"), "timeout", "-1s"), be("/b", "http://ok")),
		one(with(ep("/a"), "concurrent_calls", -1), be("/b", "http://ok")),
		one(with(ep("/a/{id}"), "input_headers", []interface{}{"x-a", "A b", "*"}), with(be("/{id}", "http://ok"), "allow", []interface{}{"", ".", "a.b"}, "mapping", map[string]interface{}{"a": "", "b": "."}, "encoding", "STRİNG")),
		with(one(ep("/x/{.Foo}"), be("/a/{{.Foo}}", "http://ok")), "disable_rest", true),
		with(one(ep("/{a.b}/{c:d}"), be("/{c:d}/{a.b}/{a.b}", "http://ok")), "disable_rest", true),
		with(one(ep("/a"), be("/b", "http://ok")), "listen_ip", "999.1.1.1"),
		// GraphQL sections whose options cannot be read (GetOptions fails): the stack is built without the stage
		one(ep("/a/{id}"), with(be("/g/{id}", "http://ok"), "extra_config", map[string]interface{}{nsGraphQL: map[string]interface{}{"type": "query", "query_path": filesDir + "/missing.graphql", "variables": map[string]interface{}{"a": "{id}"}}})),
		one(ep("/a/{id}"), with(be("/g/{id}", "http://ok"), "extra_config", map[string]interface{}{nsGraphQL: map[string]interface{}{"type": "mutation", "query_path": filesDir + "/adir"}})),
		one(ep("/a/{id}"), with(be("/g/{id}", "http://ok"), "extra_config", map[string]interface{}{nsGraphQL: map[string]interface{}{"type": "query", "query_path": filesDir + "/q.graphql", "variables": map[string]interface{}{"a": "{}", "b": ""}}})),
		one(ep("/a/{id}"), with(be("/g/{id}", "http://ok"), "extra_config", map[string]interface{}{nsGraphQL: map[string]interface{}{"type": 5.0, "query": "{ q }"}}), with(be("/h", "http://ok"), "extra_config", map[string]interface{}{nsGraphQL: "not an object"})),
		// a no-op endpoint imposes the no-op encoding/decoder on a backend that names another one
		one(with(ep("/a"), "output_encoding", "no-op"), with(be("/b", "http://ok"), "encoding", "json")),
		// async agents: defaults, invalid host, no host at all, dns without host, two backends with a bad combiner, graphql
		{"version": 3, "host": []interface{}{"http://s"}, "async_agent": []interface{}{map[string]interface{}{"backend": []interface{}{be("/q"), be("q", "h:80")}}}},
		{"version": 3, "async_agent": []interface{}{map[string]interface{}{"name": "a1", "consumer": map[string]interface{}{"timeout": "3s", "workers": 4}, "connection": map[string]interface{}{"health_interval": "100ms"}, "backend": []interface{}{be("/q", "h h")}}}},
		{"version": 3, "async_agent": []interface{}{map[string]interface{}{"backend": []interface{}{with(be("/q", "h h"), "disable_host_sanitize", true)}}}},
		{"version": 3, "async_agent": []interface{}{map[string]interface{}{"backend": []interface{}{be("/q")}}}},
		{"version": 3, "async_agent": []interface{}{map[string]interface{}{"backend": []interface{}{with(be("/q"), "sd", "dns")}}}},
		{"version": 3, "async_agent": []interface{}{map[string]interface{}{"backend": []interface{}{}}, map[string]interface{}{"consumer": map[string]interface{}{"timeout": "-1s", "workers": -2}, "backend": []interface{}{be("/q", "http://ok")}}}},
		{"version": 3, "async_agent": []interface{}{map[string]interface{}{"extra_config": map[string]interface{}{nsProxy: map[string]interface{}{"combiner": 5.0}}, "backend": []interface{}{be("/q", "http://ok"), be("/r", "http://ok")}}}},
		{"version": 3, "async_agent": []interface{}{map[string]interface{}{"backend": []interface{}{gqlBackend(map[string]interface{}{"a": "{}", "b": ""})}}}},
		with(one(ep("/__debug"), be("/b", "http://ok")), "async_agent", []interface{}{map[string]interface{}{"backend": []interface{}{be("/q", "a b")}}}),
		// a backend placeholder named like an allowed query string / header is NOT declared:
		// the routers only put path params into Request.Params
		one(with(ep("/s/{cat}"), "input_query_strings", []interface{}{"page"}), be("/s/{cat}/{page}", "http://ok")),
		one(with(ep("/s/{cat}"), "input_query_strings", []interface{}{"page", "cat"}), be("/s/{page}", "http://ok")),
		one(with(ep("/s/{cat}"), "input_headers", []interface{}{"page"}), be("/s/{cat}/{page}", "http://ok")),
		one(with(ep("/s"), "input_query_strings", []interface{}{"q"}, "input_headers", []interface{}{"q"}), with(be("/s/{q}", "http://ok"), "input_query_strings", []interface{}{"q"})),
		// a param declared by ANOTHER endpoint only, in both orders
		many(epWith("/a/{x}", be("/b/{y}", "http://ok")), epWith("/c/{y}", be("/d/{y}", "http://ok"))),
		many(epWith("/c/{y}", be("/d/{y}", "http://ok")), epWith("/a/{x}", be("/b/{y}", "http://ok"))),
		many(epWith("/a/{x}", be("/b/{x}", "http://ok")), epWith("/c/{y}", be("/d/{x}", "http://ok")), epWith("/e/{x}/{y}", be("/f/{y}/{x}", "http://ok"))),
	}
	for _, c := range corpus {
		g.cfgCase(c, "corpus")
	}

	// ---- 2. exhaustive small scope ----
	// (a) every GraphQL variable value over the alphabet { } a of length <= 3 (thorough: <= 4)
	n := 3
	if thorough {
		n = 4
	}
	for _, v := range strsUpTo([]string{"{", "}", "a"}, n) {
		g.cfgCase(one(ep("/a/{a}"), gqlBackend(map[string]interface{}{"v": v})), "exhaustive:graphql")
	}
	// (b) endpoint path x backend pattern x disable_rest, one backend
	ps, us := paths, paths
	if !thorough {
		ps, us = nil, nil
		for i, p := range paths {
			if i%3 == int(cfg.Seed%3) || i < 8 {
				ps = append(ps, p)
			}
			if i%2 == int(cfg.Seed%2) || i < 8 {
				us = append(us, p)
			}
		}
	}
	for _, p := range ps {
		for _, u := range us {
			for _, nr := range []bool{false, true} {
				g.cfgCase(with(one(ep(p), be(u, "http://ok")), "disable_rest", nr), "exhaustive:paths")
			}
		}
	}
	// (c) hosts x sanitiser switch x service/backend position
	for _, h := range hosts {
		for _, ns := range []bool{false, true} {
			g.cfgCase(one(ep("/a"), with(be("/b", h), "disable_host_sanitize", ns)), "exhaustive:hosts")
		}
		g.cfgCase(with(one(ep("/a"), be("/b")), "host", []interface{}{h}), "exhaustive:hosts")
	}
	// (d) output encodings x number of backends 0..3 x service/endpoint position
	for _, e := range encodings {
		for nb := 0; nb <= 3; nb++ {
			var bs []map[string]interface{}
			for i := 0; i < nb; i++ {
				bs = append(bs, with(be(fmt.Sprintf("/b%d", i), "http://ok"), "encoding", encodings[(i+nb)%len(encodings)], "is_collection", i%2 == 0))
			}
			g.cfgCase(one(with(ep("/a"), "output_encoding", e), bs...), "exhaustive:encodings")
			g.cfgCase(with(one(ep("/a"), bs...), "output_encoding", e), "exhaustive:encodings")
		}
	}
	// (d') a no-op endpoint (own or inherited output encoding) with ONE backend that names an encoding
	for _, e := range encodings {
		for _, coll := range []bool{false, true} {
			g.cfgCase(one(with(ep("/a"), "output_encoding", "no-op"), with(be("/b", "http://ok"), "encoding", e, "is_collection", coll)), "exhaustive:noop-backend-encoding")
		}
		g.cfgCase(with(one(ep("/a"), with(be("/b", "http://ok"), "encoding", e)), "output_encoding", "no-op"), "exhaustive:noop-backend-encoding")
	}
	// (e) durations and counts
	for _, d1 := range durations {
		for _, d2 := range durations {
			for cc := -1; cc <= 2; cc++ {
				g.cfgCase(with(one(with(ep("/a"), "timeout", d2, "concurrent_calls", cc, "cache_ttl", d1), be("/b", "http://ok")), "timeout", d1, "cache_ttl", d2), "exhaustive:durations")
			}
		}
	}
	// (i) GraphQL options in an otherwise valid configuration: query_path x type x method x variables
	// (x inline query in the thorough tier; alternating in quick)
	gTypes := []interface{}{"query", "mutation", "Query", "", "x", 5.0}
	gMethods := []interface{}{nil, "get", 5.0}
	if thorough {
		gMethods = []interface{}{nil, "get", "POST", "ü", 5.0}
	}
	gVars := []interface{}{nil, map[string]interface{}{"a": "{id}"}, map[string]interface{}{"a": "", "b": "{}"}, "str"}
	k := 0
	for _, qp := range qpaths {
		for _, ty := range gTypes {
			for _, me := range gMethods {
				for _, va := range gVars {
					inl := []bool{k%2 == 0}
					if thorough {
						inl = []bool{false, true}
					}
					k++
					for _, withQuery := range inl {
						sec := map[string]interface{}{"type": ty, "query_path": qp}
						if me != nil {
							sec["method"] = me
						}
						if va != nil {
							sec["variables"] = va
						}
						if withQuery {
							sec["query"] = "{ q }"
						}
						g.cfgCase(one(ep("/a/{id}"), with(be("/g/{id}", "http://ok"), "extra_config", map[string]interface{}{nsGraphQL: sec})), "exhaustive:graphql-options")
					}
				}
			}
		}
	}
	// (j) async agents: host pool x sanitiser switch x position (agent backend / service), and
	// consumer timeout x service timeout x workers x health interval
	for _, h := range hosts {
		for _, ns := range []bool{false, true} {
			g.cfgCase(map[string]interface{}{"version": 3, "async_agent": []interface{}{map[string]interface{}{"backend": []interface{}{with(be("/q", h), "disable_host_sanitize", ns)}}}}, "exhaustive:agents")
		}
		g.cfgCase(map[string]interface{}{"version": 3, "host": []interface{}{h}, "async_agent": []interface{}{map[string]interface{}{"backend": []interface{}{be("/q"), be("/r", "http://ok")}}}}, "exhaustive:agents")
	}
	for _, d1 := range durations {
		for _, d2 := range []string{"", "0s", "1s", "-1s", "999ms", "1500ms"} {
			for wk := -1; wk <= 2; wk++ {
				g.cfgCase(map[string]interface{}{"version": 3, "timeout": d2, "async_agent": []interface{}{map[string]interface{}{
					"consumer": map[string]interface{}{"timeout": d1, "workers": wk}, "connection": map[string]interface{}{"health_interval": d2},
					"backend":  []interface{}{with(be("/q", "http://ok"), "encoding", encodings[(wk+1+len(d1))%len(encodings)])}}}}, "exhaustive:agents")
			}
		}
	}
	// (g) where a backend placeholder's name comes from: path params x input_query_strings x
	// input_headers x placeholders of the backend pattern (0..2 names out of a b q z)
	phs := [][]string{nil}
	for i, x := range []string{"a", "b", "q", "z"} {
		phs = append(phs, []string{x})
		for _, y := range []string{"a", "b", "q", "z"}[i+1:] {
			phs = append(phs, []string{x, y})
		}
	}
	hdrSets := [][]string{nil, {"q"}}
	rests := []bool{false}
	if thorough {
		hdrSets = subsets([]string{"a", "q"})
		rests = []bool{false, true}
	}
	for _, ps := range subsets([]string{"a", "b"}) {
		for _, qs := range subsets([]string{"a", "b", "q"}) {
			for _, hs := range hdrSets {
				for _, ph := range phs {
					for _, nrest := range rests {
						e := with(ep(pathOf("/p", ps)), "input_query_strings", ifaces(qs), "input_headers", ifaces(hs))
						g.cfgCase(with(one(e, be(pathOf("/b", ph), "http://ok")), "disable_rest", nrest), "exhaustive:param-sources")
					}
				}
			}
		}
	}
	// (h) two endpoints in every order: params {a} {b} {a b} x one backend placeholder a|b each
	for _, p1 := range [][]string{{"a"}, {"b"}, {"a", "b"}} {
		for _, p2 := range [][]string{{"a"}, {"b"}, {"a", "b"}} {
			for _, o1 := range []string{"a", "b"} {
				for _, o2 := range []string{"a", "b"} {
					g.cfgCase(many(epWith(pathOf("/e1", p1), be("/x/{"+o1+"}", "http://ok")), epWith(pathOf("/e2", p2), be("/y/{"+o2+"}", "http://ok"))), "exhaustive:two-endpoints")
				}
			}
		}
	}
	// (f) versions
	for v := -1; v <= 5; v++ {
		g.cfgCase(with(one(ep("/a"), be("/b", "http://ok")), "version", v), "exhaustive:versions")
	}

	// ---- 3. validation of the scanners against the real patterns ----
	for _, p := range paths {
		g.validate(p)
		g.validate(config.URI(0).CleanPath(p))
	}
	for _, h := range headers {
		g.validate(h)
	}
	for _, s := range []string{"resp0_x", "resp0_", "resp_x", "resp12_ab", "resp1_a\nb", "JWT.sub", "JWT.", "JWT.a b", "resp0_xJWT.a", "xresp0_x", "JWT.a\n", "resp0x", "Resp0_x", "jwt.a", "resp0_x\n"} {
		g.validate(s)
	}
	alpha := []string{"/", "{", "}", "a", "*", "_", "\n", "-", ".", "?", ":", "A", "0", "__debug", "__echo/", "/__health", "resp0_", "JWT.", "{id}", "/{a}", " ", "ü"}
	nv := 300
	if thorough {
		nv = 2500
	}
	for i := 0; i < nv; i++ {
		var sb strings.Builder
		for k := r.Intn(8); k > 0; k-- {
			sb.WriteString(pick(r, alpha))
		}
		g.validate(sb.String())
	}

	// ---- 4. structured random ----
	nr := 1800
	if thorough {
		nr = 12000
	}
	for i := 0; i < nr; i++ {
		sub := r.Sub()
		switch {
		case i%10 < 4:
			g.cfgCase(randomCfg(sub, true, false), "random:mostly-valid")
		case i%10 < 6:
			g.cfgCase(randomParamsCfg(sub), "random:param-sources")
		case i%10 < 9:
			g.cfgCase(randomCfg(sub, false, false), "random:any-strings")
		default:
			g.cfgCase(randomCfg(sub, r.Bool(), true), "random:ill-typed-extra")
		}
	}

	// ---- 5. malformed stream ----
	mal := []string{``, `{`, `[]`, `{"version":"3"}`, `{"version":3,"endpoints":{}}`, `{"version":3,"endpoints":[{"endpoint":5}]}`,
		`{"version":3,"host":"h"}`, `{"version":3,"endpoints":[{"endpoint":"/a","backend":[{"url_pattern":"/b","host":[1]}]}]}`,
		`{"version":3,"endpoints":[{"endpoint":"/a","concurrent_calls":"x","backend":[]}]}`, `{"version":3,"timeout":5}`,
		`{"version":3,"endpoints":[{"endpoint":"/a","backend":[{"url_pattern":"/b","mapping":{"a":1}}]}]}`, `{"version":3.5}`, "{\"version\":3}\x00", `nul`}
	for _, m := range mal {
		g.malformed([]byte(m), "malformed")
	}
	for i := 0; i < 40; i++ {
		data, _ := json.Marshal(randomCfg(r.Sub(), true, false))
		if len(data) > 2 {
			cut := 1 + r.Intn(len(data)-1)
			g.malformed(data[:cut], "malformed")
		}
	}

	// ---- 6. concurrent initialisation (last: its case indices never shift the others) ----
	cr := 150
	if thorough {
		cr = 1000
	}
	g.concurrentStream(cr)

	g.w.Meta["compared"] = "outcome class (ok / error / panic) of Parse; per endpoint: method, timeout, concurrent_calls, input_headers, outcome class of DefaultFactory.New; per async agent: consumer timeout, workers, health interval, outcome class of the pipe built by AgentStarter.Start; per backend (endpoints' and agents'): hosts and url keys (as multisets), method, url_pattern, decoder, timeout, concurrent_calls, input_headers"
	g.w.Close("corpus of past failures; exhaustive small scope (GraphQL variable values over {,},a up to length 3 (thorough 4); endpoint path x backend pattern x disable_rest over the path pool (quick: a seed-dependent half); host pool x sanitiser switch x position; output encodings x 0..3 backends; durations x durations x counts; versions -1..5; async agents: host pool x sanitiser switch x position, consumer timeout x service timeout x workers x health interval; GraphQL options query_path {empty, readable file, missing file, directory, missing directory} x type x method x variables); scanners re-validated against the package's compiled regular expressions / textproto / x/text on the pools and on random strings; path params x input_query_strings x input_headers x backend placeholders over a b q z; two endpoints in every order; structured random configurations (40% from mostly-valid pools, 20% with backend placeholders drawn from the endpoint's path params / query strings / headers / other endpoints' params / fresh names, 30% any strings, 10% with ill-typed extra_config values); malformed JSON; 8 placeholder-rich configurations parsed, initialised and built concurrently (150 rounds, thorough 1000; the most frequent and a deviating observation of each are compared with the model). A third of the random configurations carry 1..2 async agents (pipes built through the real AgentStarter.Start with the default factory); plugin / tls / client_tls / modifier-plugin sections are sprinkled over the random stream. nontrivial = rejected, or has a placeholder, or has an extra_config section", true)
}
