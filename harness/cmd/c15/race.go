package main

import (
	"bytes"
	"encoding/json"
	"fmt"
	"os"
	"os/exec"
	"path/filepath"
	"regexp"
	"runtime"
	"strconv"
	"strings"
	"sync"
	"sync/atomic"
	"time"

	"verif/harness/internal/emit"
	"verif/harness/internal/out"
	"verif/harness/internal/rng"
)

// one concurrent scenario: a subscriber, `Readers` goroutines calling Hosts() (and scribbling
// over what they get) while the refresh goroutine is fed the answers Sets[1..] one by one
type scenario struct {
	Scheme  string  `json:"scheme"`
	Readers int     `json:"readers"`
	Sets    [][]rec `json:"answers"`
	Fail    []bool  `json:"failing_refresh_before"` // a failing lookup is interposed before answer i
}

type childOut struct {
	Scenario scenario     `json:"scenario"`
	Seqs     [][][]string `json:"reader_sequences"`
	Reads    []int64      `json:"reads_per_reader"`
	Dead     bool         `json:"refresh_goroutine_dead"`
	Blocked  bool         `json:"readers_blocked"`
}

func makeScenario(seed uint64, k int, thorough bool) scenario {
	r := rng.New(seed*1000003 + uint64(k)*7919 + 17)
	g := &gen{r: r}
	sc := scenario{Scheme: []string{"http", "", "https"}[k%3], Readers: 2 + r.Intn(5)}
	n := 3 + r.Intn(5)
	if thorough {
		n += 4
	}
	for i := 0; i < n; i++ {
		var rs []rec
		switch {
		case k%4 == 3 && i%2 == 1:
			// more than 100 hosts: goes through NewRandomFixedSubscriber
			rs = make([]rec, 101+r.Intn(60))
			for j := range rs {
				rs[j] = rec{fmt.Sprintf("s%d-n%d.example.", i, j), 80, 0, 1}
			}
		default:
			rs = g.records(1 + r.Intn(5))
			// every answer yields a list different from all others and never an empty one
			rs = append(rs, rec{fmt.Sprintf("round%d.example.", i), 9000, 0, 65535})
			for j := range rs {
				rs[j].Prio = 0
			}
		}
		sc.Sets = append(sc.Sets, rs)
		sc.Fail = append(sc.Fail, i > 0 && r.Chance(1, 3))
	}
	return sc
}

func sameList(a, b []string) bool {
	if len(a) != len(b) {
		return false
	}
	for i := range a {
		if a[i] != b[i] {
			return false
		}
	}
	return true
}

// raceChild runs scenario k in this (race-built) process and prints what the readers saw.
func raceChild(cfg out.Config) {
	k, _ := strconv.Atoi(strings.TrimPrefix(cfg.Extra, "child:"))
	sc := makeScenario(cfg.Seed, k, cfg.Thorough())
	s := newScripted(sc.Scheme, lookupRes{toSRV(sc.Sets[0]), nil}, 2*len(sc.Sets)+2)
	counts := make([]int64, sc.Readers)
	seqs := make([][][]string, sc.Readers)
	stop := make(chan struct{})
	var wg sync.WaitGroup
	for i := 0; i < sc.Readers; i++ {
		wg.Add(1)
		go func(i int) {
			defer wg.Done()
			var last []string
			have := false
			for {
				select {
				case <-stop:
					return
				default:
				}
				h, err := s.sub.Hosts()
				if err != nil {
					h = []string{"<error: " + err.Error() + ">"}
				}
				if !have || !sameList(last, h) {
					last = append([]string{}, h...)
					have = true
					if len(seqs[i]) < 4*len(sc.Sets)+8 {
						seqs[i] = append(seqs[i], last)
					}
				}
				for j := range h { // the caller owns what it was given
					h[j] = "SCRIBBLED-BY-READER-" + strconv.Itoa(i)
				}
				atomic.AddInt64(&counts[i], 1)
			}
		}(i)
	}
	// wait (on the readers' counters, not on time) until every reader made `more` further reads.
	// The 15 s limit is only a watchdog for readers that cannot make progress at all (Hosts()
	// blocked while the scripted lookup is in flight): it ends the scenario as a failing
	// observation instead of a child that never exits.
	blocked := false
	advance := func(more int64) {
		if blocked {
			return
		}
		base := make([]int64, sc.Readers)
		for i := range base {
			base[i] = atomic.LoadInt64(&counts[i])
		}
		deadline := time.Now().Add(15 * time.Second)
		for i := range base {
			for n := 0; atomic.LoadInt64(&counts[i]) < base[i]+more; n++ {
				runtime.Gosched()
				if n%1024 == 0 && time.Now().After(deadline) {
					blocked = true
					return
				}
			}
		}
	}
	advance(3)
	for i := 1; i < len(sc.Sets) && !blocked && !s.dead; i++ {
		if sc.Fail[i] {
			s.refresh(lookupRes{toSRV(sc.Sets[(i+1)%len(sc.Sets)]), errLookup})
			advance(2)
		}
		s.refresh(lookupRes{toSRV(sc.Sets[i]), nil})
		advance(3)
	}
	if blocked {
		// the readers are stuck inside Hosts(): do not wait for them, do not touch what they own
		res := childOut{Scenario: sc, Seqs: [][][]string{{{blockedMarker}}}, Blocked: true}
		b, _ := json.Marshal(res)
		os.Stdout.Write(b)
		os.Stdout.Write([]byte("\n"))
		os.Exit(0)
	}
	close(stop)
	wg.Wait()
	res := childOut{Scenario: sc, Seqs: seqs, Dead: s.dead}
	for i := range counts {
		res.Reads = append(res.Reads, atomic.LoadInt64(&counts[i]))
	}
	b, _ := json.Marshal(res)
	os.Stdout.Write(b)
	os.Stdout.Write([]byte("\n"))
}

var luraFrame = regexp.MustCompile(`github\.com/luraproject/lura/v2/`)

// race reports with a lura frame in the log files path.* -> (count, first report)
func raceReports(prefix string) (int, string) {
	files, _ := filepath.Glob(prefix + ".*")
	n, first := 0, ""
	for _, f := range files {
		b, err := os.ReadFile(f)
		if err != nil {
			continue
		}
		for _, block := range strings.Split(string(b), "==================") {
			if strings.Contains(block, "WARNING: DATA RACE") && luraFrame.MatchString(block) {
				n++
				if first == "" {
					first = block
					if len(first) > 3000 {
						first = first[:3000]
					}
				}
			}
		}
	}
	return n, first
}

func raceParent(g *gen) {
	cfg := g.cfg
	n := 8
	if cfg.Thorough() {
		n = 40
	}
	self, err := os.Executable()
	if err != nil {
		panic(err)
	}
	stuck := 0
	for k := 0; k < n; k++ {
		logp := filepath.Join(cfg.Dir, fmt.Sprintf("race-s%02d", k))
		gorace := "halt_on_error=0"
		for _, f := range strings.Fields(os.Getenv("GORACE")) {
			if !strings.HasPrefix(f, "log_path=") && !strings.HasPrefix(f, "halt_on_error=") {
				gorace += " " + f
			}
		}
		gorace += " log_path=" + logp
		cmd := exec.Command(self, "--tier", cfg.Tier, "--seed", strconv.FormatUint(cfg.Seed, 10), "--out", cfg.Dir, "--extra", fmt.Sprintf("child:%d", k))
		cmd.Env = append(os.Environ(), "GORACE="+gorace)
		if k%3 == 1 {
			cmd.Env = append(cmd.Env, "GOMAXPROCS=4")
		}
		var stdout, stderr bytes.Buffer
		cmd.Stdout, cmd.Stderr = &stdout, &stderr
		// exit status 66 = the race detector reported something; a child that does not finish
		// within 3 minutes is killed (it bounds its own waits, this is the last resort)
		done := make(chan error, 1)
		if err := cmd.Start(); err != nil {
			done <- err
		} else {
			go func() { done <- cmd.Wait() }()
		}
		var runErr error
		select {
		case runErr = <-done:
		case <-time.After(3 * time.Minute):
			cmd.Process.Kill()
			runErr = fmt.Errorf("killed after 3 minutes: %v", <-done)
		}
		var co childOut
		crashed := ""
		if jerr := json.Unmarshal(bytes.TrimSpace(stdout.Bytes()), &co); jerr != nil {
			crashed = fmt.Sprintf("child produced no result (%v): %s", runErr, tail(stderr.String(), 1500))
			co.Scenario = makeScenario(cfg.Seed, k, cfg.Thorough())
			co.Seqs = [][][]string{{{"<child crashed>"}}}
		}
		nrace, first := raceReports(logp)
		sc := co.Scenario
		sets := make([]string, len(sc.Sets))
		key := fmt.Sprintf("X|%s|%d", sc.Scheme, sc.Readers)
		for i, rs := range sc.Sets {
			sets[i] = recsCoq(rs)
			key += "|" + recsKey(rs)
		}
		seqs := make([]string, len(co.Seqs))
		for i, sq := range co.Seqs {
			ls := make([]string, len(sq))
			for j, l := range sq {
				ls[j] = hostsCoq(l)
			}
			seqs[i] = emit.List(ls)
		}
		term := emit.App("CRace", emit.Str(sc.Scheme), emit.List(sets), emit.List(seqs), emit.Bool(nrace > 0))
		js := map[string]interface{}{"level": "race", "scenario": sc, "observed": map[string]interface{}{
			"reader_sequences": co.Seqs, "reads_per_reader": co.Reads, "race_reports_with_lura_frame": nrace, "observed_race": nrace > 0,
			"first_report": first, "child_crashed": crashed, "refresh_goroutine_dead": co.Dead, "readers_blocked": co.Blocked}}
		g.w.Count("level:race")
		g.w.Count(fmt.Sprintf("race:readers:%d", sc.Readers))
		var total int64
		for _, c := range co.Reads {
			total += c
		}
		g.w.Count("race:reads-total:" + sizeBucket(total))
		g.w.Add(term, js, "", key, true)
		if co.Blocked || crashed != "" {
			stuck++
			if stuck >= 2 {
				break // every further scenario would sit out the same watchdog
			}
		}
	}
	g.w.Close("race-detector build: per scenario a child process with 2..6 readers calling Hosts() (and overwriting the returned slices) while the refresh goroutine is fed 3..7 (thorough 7..11) successive answers, some preceded by a failing lookup, every fourth scenario with lists of more than 100 hosts; one case per scenario: observed_race (reports with a lura frame) and, per reader, the sequence of distinct lists it saw", false)
}

func sizeBucket(n int64) string {
	switch {
	case n < 100:
		return "<100"
	case n < 10000:
		return "100-10k"
	}
	return ">10k"
}

func tail(s string, n int) string {
	if len(s) > n {
		return s[len(s)-n:]
	}
	return s
}
