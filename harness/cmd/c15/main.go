// C15 generator: drives the real sd/dnssrv code (compact/normalize/gcd/resolve through the
// verif export file, and whole subscribers built by NewDetailedWithScheme with a scripted
// lookup function) and records what it did.
//
//	(default)        unit-level differentials and lookup/read histories
//	--extra race     (race-detector build) re-executes itself once per concurrent scenario
//	                 (--extra child:<k>), collects the race logs the children left and emits
//	                 one CRace case per scenario
package main

import (
	"errors"
	"fmt"
	"math/rand"
	"net"
	"strings"
	"time"

	"github.com/luraproject/lura/v2/sd"
	"github.com/luraproject/lura/v2/sd/dnssrv"

	"verif/harness/internal/emit"
	"verif/harness/internal/out"
	"verif/harness/internal/rng"
)

type rec struct {
	Target string `json:"target"`
	Port   uint16 `json:"port"`
	Prio   uint16 `json:"prio"`
	Weight uint16 `json:"weight"`
}

func (r rec) coq() string {
	return emit.App("Srv", emit.Str(r.Target), emit.Z(int64(r.Port)), emit.Z(int64(r.Prio)), emit.Z(int64(r.Weight)))
}

func recsCoq(rs []rec) string {
	xs := make([]string, len(rs))
	for i, r := range rs {
		xs[i] = r.coq()
	}
	return emit.List(xs)
}

// hostsCoq emits a host list in run-length form: (unrle [(host, n); ...]), order preserved
//
// A list longer than 2000 entries is cut there and a marker entry is appended: every input of
// the generator has at most 1000 records, so such a list violates the size bound (and the
// multiset comparison) with or without its tail; the cut only keeps the Coq side small when
// a changed implementation returns hundreds of thousands of hosts.
func hostsCoq(hs []string) string {
	if len(hs) > 2000 {
		hs = append(append([]string{}, hs[:2000]...), fmt.Sprintf("<cut: %d entries in all>", len(hs)))
	}
	var xs []string
	for i := 0; i < len(hs); {
		j := i
		for j < len(hs) && hs[j] == hs[i] {
			j++
		}
		xs = append(xs, emit.Pair(emit.Str(hs[i]), emit.Nat(j-i)))
		i = j
	}
	return emit.App("unrle", emit.List(xs))
}

func recsKey(rs []rec) string {
	var b strings.Builder
	for _, r := range rs {
		fmt.Fprintf(&b, "%q:%d/%d/%d;", r.Target, r.Port, r.Prio, r.Weight)
	}
	return b.String()
}

// fresh net.SRV values every time: resolve sorts the slice it is given in place
func toSRV(rs []rec) []*net.SRV {
	if rs == nil {
		return nil
	}
	res := make([]*net.SRV, len(rs))
	for i, r := range rs {
		res[i] = &net.SRV{Target: r.Target, Port: r.Port, Priority: r.Prio, Weight: r.Weight}
	}
	return res
}

func u16sToZ(ws []uint16) []int64 {
	res := make([]int64, len(ws))
	for i, w := range ws {
		res[i] = int64(w)
	}
	return res
}

func cp16(ws []uint16) []uint16 { return append([]uint16(nil), ws...) }

var errLookup = errors.New("scripted lookup failure")

// ---------------------------------------------------------------------------------------
// events of a history

type event struct {
	Kind string `json:"kind"` // lookup | read | scribble
	OK   bool   `json:"ok"`
	Recs []rec  `json:"records,omitempty"`
	K    int    `json:"k,omitempty"`
	M    string `json:"marker,omitempty"`
}

func (e event) coq() string {
	switch e.Kind {
	case "lookup":
		return emit.App("ELookup", emit.Bool(e.OK), recsCoq(e.Recs))
	case "read":
		return "ERead"
	}
	return emit.App("EScribble", emit.Nat(e.K), emit.Str(e.M))
}

type lookupRes struct {
	rs  []*net.SRV
	err error
}

// a subscriber whose lookup function is the synchronisation point: every call announces itself
// on `entered` and then blocks until the harness hands it a result.  Lookup call n+1 is entered
// only after update n has completed (the refresh goroutine is sequential), so "call n+1
// entered" means "the cache reflects lookup n" - no sleeps anywhere.
type scripted struct {
	sub     sd.Subscriber
	results chan lookupRes
	entered chan int
	seen    int // highest call index known to have been entered
	next    int // index of the call that will receive the next result
	dead    bool
}

var refreshTimeouts int

func newScripted(scheme string, first lookupRes, maxLookups int) *scripted {
	s := &scripted{results: make(chan lookupRes, 1), entered: make(chan int, maxLookups+4), seen: -1}
	calls := 0
	lookup := func(_, _, _ string) (string, []*net.SRV, error) {
		n := calls
		calls++
		s.entered <- n
		r := <-s.results // after the script ends this blocks for ever: the goroutine parks
		return "", r.rs, r.err
	}
	s.results <- first
	s.sub = dnssrv.NewDetailedWithScheme("svc.example.", lookup, time.Nanosecond, scheme)
	s.wait(0)
	s.next = 1
	return s
}

// wait until lookup call n has been entered.  The watchdog only fires when the refresh
// goroutine is gone (a changed implementation); it is not a synchronisation device.
func (s *scripted) wait(n int) {
	for s.seen < n && !s.dead {
		limit := 60 * time.Second
		if refreshTimeouts > 0 {
			limit = 2 * time.Second
		}
		select {
		case k := <-s.entered:
			s.seen = k
		case <-time.After(limit):
			s.dead = true
			refreshTimeouts++
		}
	}
}

// refresh makes the refresh goroutine perform one more update with the given lookup result
// and returns when that update has completed.
func (s *scripted) refresh(r lookupRes) {
	s.wait(s.next)
	if s.dead {
		return
	}
	s.results <- r
	s.next++
	s.wait(s.next)
}

// blockedReads counts Hosts() calls that did not return within the bounded wait
var blockedReads int

const blockedMarker = "<no progress: Hosts() blocked while a lookup is in flight>"

// hostsBounded calls Hosts() and gives up after a bounded wait.  On the unchanged code Hosts()
// never waits for anything but a writer that is copying a slice header, so the limit (10 s, 2 s
// once a read has blocked before) is never a synchronisation device: it only turns a read that
// cannot complete while the scripted lookup is in flight into a failing observation instead of
// a generator that hangs.  A blocked call leaves its goroutine parked.
func hostsBounded(sub sd.Subscriber) (h []string, err error, blocked bool) {
	type res struct {
		h   []string
		err error
	}
	ch := make(chan res, 1)
	go func() {
		h, err := sub.Hosts()
		ch <- res{h, err}
	}()
	limit := 10 * time.Second
	if blockedReads > 0 {
		limit = 2 * time.Second
	}
	select {
	case r := <-ch:
		return r.h, r.err, false
	case <-time.After(limit):
		blockedReads++
		return nil, nil, true
	}
}

func runHistory(scheme string, evs []event) (obs [][]string, dead bool) {
	nl := 0
	for _, e := range evs {
		if e.Kind == "lookup" {
			nl++
		}
	}
	res := func(e event) lookupRes {
		if e.OK {
			return lookupRes{toSRV(e.Recs), nil}
		}
		return lookupRes{toSRV(e.Recs), errLookup}
	}
	s := newScripted(scheme, res(evs[0]), nl)
	var handed [][]string
	for _, e := range evs[1:] {
		switch e.Kind {
		case "lookup":
			s.refresh(res(e))
		case "read":
			h, err, blocked := hostsBounded(s.sub)
			if blocked {
				// nothing after this event can be observed: the subscriber is stuck
				obs = append(obs, []string{blockedMarker})
				return obs, true
			}
			if err != nil {
				h = []string{"<error: " + err.Error() + ">"}
			}
			obs = append(obs, append([]string{}, h...))
			handed = append(handed, h)
		case "scribble":
			if e.K < len(handed) {
				for i := range handed[e.K] {
					handed[e.K][i] = e.M
				}
			}
		}
	}
	if s.dead {
		obs = append(obs, []string{"<refresh goroutine never called the lookup function again>"})
	}
	return obs, s.dead
}

// ---------------------------------------------------------------------------------------

var pool = []uint16{0, 1, 2, 3, 50, 100, 101, 65535}
var targets = []string{"a.example.", "b.example.", "c.example.", "a.example.", "h1", "h2", "10.0.0.7", "srv-3.dc1.consul."}
var ports = []uint16{80, 8080, 443, 0, 65535, 8081}

type gen struct {
	cfg out.Config
	w   *out.Writer
	r   *rng.R
}

func (g *gen) compactCase(ws []uint16, stream string) {
	var norm, comp []uint16
	var gd uint16
	panicked := false
	func() {
		defer func() {
			if recover() != nil {
				panicked = true
			}
		}()
		norm = dnssrv.VerifC15Normalize(cp16(ws))
		gd = dnssrv.VerifC15Gcd(cp16(ws))
		comp = dnssrv.VerifC15Compact(cp16(ws))
	}()
	nz, cz := u16sToZ(norm), u16sToZ(comp)
	if panicked {
		nz, cz = []int64{-1}, []int64{-1}
	}
	term := emit.App("CCompact", emit.ZList(u16sToZ(ws)), emit.ZList(nz), emit.Z(int64(gd)), emit.ZList(cz))
	js := map[string]interface{}{"level": "compact", "weights": ws, "observed": map[string]interface{}{"normalize": norm, "gcd": gd, "compact": comp, "panic": panicked}}
	sum, scale := 0, 100
	for _, w := range ws {
		sum += int(w)
	}
	if len(ws) > scale {
		scale = len(ws)
	}
	changed := len(comp) != len(ws)
	for i := range comp {
		if i < len(ws) && comp[i] != ws[i] {
			changed = true
		}
	}
	g.w.Count("level:compact:" + stream)
	if sum > scale {
		g.w.Count("compact:normalised")
	}
	if changed && sum <= scale {
		g.w.Count("compact:gcd-only")
	}
	g.w.Add(term, js, "", fmt.Sprintf("K|%v", ws), changed)
}

func prioKinds(rs []rec) (int, bool) {
	ps := map[uint16]bool{}
	ws := map[uint16]bool{}
	for _, r := range rs {
		ps[r.Prio] = true
		ws[r.Weight] = true
	}
	return len(ps), len(ws) > 1
}

func sizeClass(n int) string {
	switch {
	case n == 0:
		return "0"
	case n <= 3:
		return "1-3"
	case n <= 12:
		return "4-12"
	case n <= 100:
		return "13-100"
	}
	return "101-1000"
}

func (g *gen) resolveCase(scheme string, rs []rec, stream string) {
	var hosts []string
	var err error
	panicked := ""
	func() {
		defer func() {
			if p := recover(); p != nil {
				panicked = fmt.Sprint(p)
			}
		}()
		hosts, err = dnssrv.VerifC15Resolve("svc.example.", func(_, _, _ string) (string, []*net.SRV, error) { return "", toSRV(rs), nil }, scheme)
	}()
	if panicked != "" {
		hosts = []string{"<panic: " + panicked + ">"}
	} else if err != nil {
		hosts = []string{"<error: " + err.Error() + ">"}
	}
	if hosts == nil {
		hosts = []string{}
	}
	term := emit.App("CResolve", emit.Str(scheme), recsCoq(rs), hostsCoq(hosts))
	js := map[string]interface{}{"level": "resolve", "scheme": scheme, "records": rs, "observed": hosts}
	np, wv := prioKinds(rs)
	g.w.Count("level:resolve:" + stream)
	g.w.Count("resolve:records:" + sizeClass(len(rs)))
	g.w.Count("resolve:hosts:" + sizeClass(len(hosts)))
	if np > 1 {
		g.w.Count("resolve:several-priorities")
	}
	g.w.Add(term, js, "", "R|"+scheme+"|"+recsKey(rs), np > 1 || wv)
}

func (g *gen) histCase(scheme string, evs []event, stream string) {
	if refreshTimeouts >= 3 || blockedReads >= 3 {
		return // the refresh goroutine is gone / reads block: already reported three times
	}
	obs, dead := runHistory(scheme, evs)
	et := make([]string, len(evs))
	key := "H|" + scheme
	fails, scribbles, oks := 0, 0, 0
	for i, e := range evs {
		et[i] = e.coq()
		key += fmt.Sprintf("|%s:%v:%s:%d:%s", e.Kind, e.OK, recsKey(e.Recs), e.K, e.M)
		switch {
		case e.Kind == "lookup" && !e.OK:
			if oks > 0 {
				fails++
			}
		case e.Kind == "lookup":
			oks++
		case e.Kind == "scribble":
			scribbles++
		}
	}
	ot := make([]string, len(obs))
	for i, o := range obs {
		ot[i] = hostsCoq(o)
	}
	term := emit.App("CHist", emit.Str(scheme), emit.List(et), emit.List(ot))
	js := map[string]interface{}{"level": "history", "scheme": scheme, "events": evs, "observed_reads": obs, "refresh_goroutine_dead": dead}
	g.w.Count("level:history:" + stream)
	g.w.Count(fmt.Sprintf("history:events:%d", len(evs)))
	if fails > 0 {
		g.w.Count("history:failed-refresh-after-success")
	}
	if !evs[0].OK {
		g.w.Count("history:first-lookup-fails")
	}
	if scribbles > 0 {
		g.w.Count("history:with-scribble")
	}
	g.w.Add(term, js, "", key, fails > 0 || scribbles > 0)
}

// shuffleCase: sd.NewRandomFixedSubscriber on hosts with the global math/rand source seeded, and
// the permutation rand.Perm yields after the same seed (the function draws exactly one
// rand.Perm(len(hosts))); nothing else uses the global source meanwhile (parked subscribers of
// earlier cases are blocked inside the scripted lookup).
func (g *gen) shuffleCase(hosts []string, seed int64) {
	var got []string
	panicked := ""
	func() {
		defer func() {
			if p := recover(); p != nil {
				panicked = fmt.Sprint(p)
			}
		}()
		rand.Seed(seed)
		fs := sd.NewRandomFixedSubscriber(append([]string{}, hosts...))
		got, _ = fs.Hosts()
	}()
	if panicked != "" {
		got = []string{"<panic: " + panicked + ">"}
	}
	rand.Seed(seed)
	perm := rand.Perm(len(hosts))
	term := emit.App("CShuffle", hostsCoq(hosts), emit.NatList(perm), hostsCoq(got))
	js := map[string]interface{}{"level": "shuffle", "hosts": hosts, "seed": seed, "rand_perm": perm, "observed": got}
	g.w.Count("level:shuffle")
	g.w.Count("shuffle:hosts:" + sizeClass(len(hosts)))
	g.w.Add(term, js, "", fmt.Sprintf("S|%d|%q", seed, hosts), len(hosts) > 1)
}

// ---- random inputs ----

func (g *gen) weight() uint16 {
	switch g.r.Intn(4) {
	case 0:
		return pool[g.r.Intn(len(pool))]
	case 1:
		return uint16(g.r.Intn(11))
	case 2:
		return uint16(g.r.Intn(300))
	}
	return uint16(g.r.Intn(65536))
}

func (g *gen) weights(n int) []uint16 {
	ws := make([]uint16, n)
	mode := g.r.Intn(5)
	for i := range ws {
		switch mode {
		case 0:
			ws[i] = pool[g.r.Intn(len(pool))]
		case 1:
			ws[i] = uint16(g.r.Intn(4))
		case 2:
			ws[i] = uint16(g.r.Intn(65536))
		default:
			ws[i] = g.weight()
		}
	}
	return ws
}

func (g *gen) size() int {
	switch x := g.r.Intn(100); {
	case x < 55:
		return 1 + g.r.Intn(5)
	case x < 85:
		return 1 + g.r.Intn(12)
	case x < 97:
		return 13 + g.r.Intn(60)
	}
	return 90 + g.r.Intn(40)
}

func (g *gen) records(n int) []rec {
	rs := make([]rec, n)
	pmode := g.r.Intn(4)
	ws := g.weights(n)
	nt := 1 + g.r.Intn(len(targets))
	for i := range rs {
		var p uint16
		switch pmode {
		case 0:
			p = uint16(g.r.Intn(4))
		case 1:
			p = uint16(g.r.Intn(2)) * 10
		case 2:
			p = 7
		default:
			p = []uint16{0, 1, 65535, 300, 65534}[g.r.Intn(5)]
		}
		t := targets[g.r.Intn(nt)]
		if n > 8 && g.r.Chance(2, 3) {
			t = fmt.Sprintf("n%d.example.", g.r.Intn(n))
		}
		rs[i] = rec{t, ports[g.r.Intn(1+g.r.Intn(len(ports)))], p, ws[i]}
	}
	return rs
}

// tiers: 2..3 tiers of adjacent (sometimes spaced) priority values, boundary weights, the
// lowest tier often drained (all weights 0), few targets so that ties are decided both ways
func (g *gen) tiers() []rec {
	base := []uint16{0, 1, 9, 255, 256, 65532}[g.r.Intn(6)]
	nt := 2 + g.r.Intn(2)
	names := []string{"a.svc.", "b.svc.", "m.svc.", "z.svc.", "backup-1.svc.", "primary-1.svc."}
	bw := []uint16{0, 65535, 65534, 1, 65535, 0, 32768, 2}
	drained := g.r.Bool()
	var rs []rec
	p := base
	for t := 0; t < nt; t++ {
		for k := 1 + g.r.Intn(3); k > 0; k-- {
			w := bw[g.r.Intn(len(bw))]
			if g.r.Chance(1, 6) {
				w = uint16(g.r.Intn(65536))
			}
			if t == 0 && drained {
				w = 0
			}
			rs = append(rs, rec{names[g.r.Intn(len(names))], ports[g.r.Intn(3)], p, w})
		}
		if g.r.Chance(1, 5) {
			p += 2
		} else {
			p++
		}
	}
	for i := len(rs) - 1; i > 0; i-- { // any order of the answer
		j := g.r.Intn(i + 1)
		rs[i], rs[j] = rs[j], rs[i]
	}
	return rs
}

func (g *gen) bigRecords(n int) []rec {
	rs := make([]rec, n)
	mode := g.r.Intn(4)
	for i := range rs {
		var w uint16
		switch mode {
		case 0:
			w = 1
		case 1:
			w = uint16(g.r.Intn(3))
		case 2:
			w = uint16(g.r.Intn(65536))
		default:
			w = pool[g.r.Intn(len(pool))]
		}
		p := uint16(0)
		if g.r.Chance(1, 10) {
			p = 1
		}
		rs[i] = rec{fmt.Sprintf("n%d.example.", g.r.Intn(n)), ports[g.r.Intn(2)], p, w}
	}
	return rs
}

func (g *gen) history(maxEv int, big bool) []event {
	n := 1 + g.r.Intn(maxEv)
	set := func() []rec {
		if big {
			return g.bigRecords(101 + g.r.Intn(200))
		}
		return g.records(1 + g.r.Intn(6))
	}
	evs := []event{{Kind: "lookup", OK: !g.r.Chance(1, 4), Recs: set()}}
	reads := 0
	for len(evs) < n+1 {
		switch x := g.r.Intn(10); {
		case x < 2:
			evs = append(evs, event{Kind: "lookup", OK: true, Recs: set()})
		case x < 4:
			var rs []rec
			if g.r.Bool() {
				rs = set() // a failing lookup may still hand records back: they must be ignored
			}
			evs = append(evs, event{Kind: "lookup", OK: false, Recs: rs})
		case x < 8 || reads == 0:
			evs = append(evs, event{Kind: "read"})
			reads++
		default:
			evs = append(evs, event{Kind: "scribble", K: g.r.Intn(reads + 1), M: "SCRIBBLED-BY-CALLER"})
		}
	}
	evs = append(evs, event{Kind: "read"})
	return evs
}

func rep(w uint16, n int) []uint16 {
	ws := make([]uint16, n)
	for i := range ws {
		ws[i] = w
	}
	return ws
}

func main() {
	cfg := out.ParseFlags("C15")
	if strings.HasPrefix(cfg.Extra, "child:") {
		raceChild(cfg)
		return
	}
	w := out.NewWriter(cfg, "Verif.Corr.C15", 300)
	g := &gen{cfg: cfg, w: w, r: rng.New(cfg.Seed)}
	if cfg.Extra == "race" {
		raceParent(g)
		return
	}
	mult := 1
	if cfg.Thorough() {
		mult = 12
	}

	// ---- 1. regression corpus ----
	for _, ws := range [][]uint16{
		{65535, 1, 0, 30000, 30000}, {}, {0}, {0, 0, 0}, {100}, {101}, {99, 1}, {100, 1}, {3, 3, 5}, {10, 20, 30},
		{65535, 65535}, {65535}, {50, 50}, {51, 50}, {1, 1, 1}, {7, 14, 21}, {2, 4, 6, 101}, {0, 5}, {0, 65535},
		rep(1, 100), rep(1, 101), rep(2, 101), rep(1, 102), rep(65535, 100), rep(65535, 1000), rep(3, 999), rep(0, 300),
		append(rep(0, 150), 65535), append(rep(1, 200), 65535, 65535), append(rep(65535, 200), 1, 2, 3),
	} {
		g.compactCase(ws, "corpus")
	}
	mk := func(ws ...uint16) []rec {
		rs := make([]rec, len(ws))
		for i, x := range ws {
			rs[i] = rec{fmt.Sprintf("h%d.example.", i), 8000 + uint16(i), 0, x}
		}
		return rs
	}
	corpusRecs := [][]rec{
		nil, {}, mk(0), mk(0, 0, 0), mk(1), mk(65535, 1, 0, 30000, 30000), mk(100, 1), mk(3, 3, 5), mk(10, 20, 30),
		// the three examples of the package tests
		{{"foo.bar.", 8000, 1, 100}, {"foo.bar.", 8001, 1, 50}, {"foo.baz.", 8000, 2, 100}},
		// priorities: only the lowest value counts, also when it comes last and is light
		{{"a.", 1, 5, 65535}, {"b.", 2, 3, 1}, {"c.", 3, 3, 2}, {"d.", 4, 4, 9}},
		{{"a.", 1, 65535, 10}, {"b.", 2, 65534, 0}},
		{{"a.", 1, 0, 0}, {"b.", 2, 1, 10}}, // the lowest priority has only weight 0: empty list
		// duplicates: same target and port, same target other port, identical records
		{{"a.", 80, 0, 3}, {"a.", 80, 0, 3}, {"a.", 81, 0, 5}, {"b.", 80, 0, 3}},
		{{"a.", 80, 0, 60}, {"a.", 80, 0, 60}, {"b.", 80, 0, 100}},
		{{"a.", 0, 0, 1}, {"a.", 65535, 0, 1}},
		{{"", 80, 0, 1}, {"x", 80, 0, 2}},
		{{"fe80::1", 80, 0, 1}, {"::1", 8080, 0, 1}}, // IPv6 literals are bracketed by net.JoinHostPort
		{{"b\xc3\xa9b\xff\x00.example.", 80, 0, 1}, {"B.example.", 80, 0, 1}, {"b.example.", 80, 0, 1}},
	}
	for _, n := range []int{100, 101, 102, 250, 1000} {
		rs := make([]rec, n)
		for i := range rs {
			rs[i] = rec{fmt.Sprintf("n%d.example.", i), 80, 0, 1}
		}
		corpusRecs = append(corpusRecs, rs)
	}
	for _, rs := range corpusRecs {
		g.resolveCase("http", rs, "corpus")
	}
	g.resolveCase("https", corpusRecs[9], "corpus")
	g.resolveCase("", corpusRecs[9], "corpus") // unit level: no default scheme here
	two := []rec{{"a.example.", 80, 0, 1}, {"b.example.", 81, 0, 2}}
	three := []rec{{"c.example.", 443, 1, 7}, {"d.example.", 443, 1, 7}, {"e.example.", 443, 2, 100}}
	rd := event{Kind: "read"}
	okL := func(rs []rec) event { return event{Kind: "lookup", OK: true, Recs: rs} }
	badL := func(rs []rec) event { return event{Kind: "lookup", OK: false, Recs: rs} }
	for _, sc := range []string{"http", "", "https"} {
		g.histCase(sc, []event{okL(two), rd}, "corpus")
		g.histCase(sc, []event{badL(nil), rd, okL(two), rd, badL(nil), rd, badL(three), rd, okL(three), rd, badL(two), rd}, "corpus")
		g.histCase(sc, []event{okL(two), rd, {Kind: "scribble", K: 0, M: "X"}, rd, rd, {Kind: "scribble", K: 2, M: "Y"}, badL(nil), rd, {Kind: "scribble", K: 7, M: "Z"}, rd}, "corpus")
		g.histCase(sc, []event{okL(two), okL(nil), rd, okL(three), okL([]rec{}), rd, okL(mk(0, 0)), rd}, "corpus")
	}
	g.histCase("http", []event{okL(corpusRecs[len(corpusRecs)-2]), rd, {Kind: "scribble", K: 0, M: "X"}, rd, badL(two), rd, okL(two), rd}, "corpus")

	// ---- 2. exhaustive small scope ----
	maxLen := 3
	if cfg.Thorough() {
		maxLen = 4
	}
	var enum func(prefix []uint16, n int)
	enum = func(prefix []uint16, n int) {
		if len(prefix) == n {
			g.compactCase(prefix, "exhaustive")
			return
		}
		for _, x := range pool {
			enum(append(cp16(prefix), x), n)
		}
	}
	for n := 1; n <= maxLen; n++ {
		enum(nil, n)
	}
	// records: priority in {0,1}, weight in {0,1,2,101,65534,65535} (thorough, 3 records:
	// {0,1,101,65535}), target in {a,b} on one port
	type opt struct {
		p, w uint16
		t    string
	}
	var opts []opt
	exWeights := []uint16{0, 1, 2, 101, 65534, 65535}
	for _, p := range []uint16{0, 1} {
		for _, wt := range exWeights {
			for _, t := range []string{"a.", "b."} {
				opts = append(opts, opt{p, wt, t})
			}
		}
	}
	maxRec := 2
	if cfg.Thorough() {
		maxRec = 3
	}
	var enumR func(prefix []rec, n int)
	enumR = func(prefix []rec, n int) {
		if len(prefix) == n {
			g.resolveCase("http", prefix, "exhaustive")
			return
		}
		for _, o := range opts {
			enumR(append(append([]rec(nil), prefix...), rec{o.t, 80, o.p, o.w}), n)
		}
	}
	for n := 1; n <= maxRec; n++ {
		if n == 3 {
			opts = opts[:0]
			for _, p := range []uint16{0, 1} {
				for _, wt := range []uint16{0, 1, 101, 65535} {
					for _, t := range []string{"a.", "b."} {
						opts = append(opts, opt{p, wt, t})
					}
				}
			}
		}
		enumR(nil, n)
	}

	// ---- 2b. priority tiers at the boundaries (deterministic enumeration) ----
	// a lowest tier whose records all have weight 0 (or all but one) next to a tier of the
	// following priority value (or the one after) with weight 65535 / 65534 / 1 / 0, the
	// higher tier's target sorting before, after, or being the same target on a lower /
	// higher port, records given in both orders: whatever order a sort key induces among
	// (p, 0) and (p+1, 65535), only the tier of the lowest priority value may be returned
	nTiers := 0
	for _, p := range []uint16{0, 7, 65533} {
		for _, gap := range []uint16{1, 2} {
			for _, low := range [][]uint16{{0}, {0, 0}, {0, 1}} {
				for _, hw := range []uint16{65535, 65534, 1, 0} {
					for hk := 0; hk < 4; hk++ {
						var lows []rec
						for i, x := range low {
							lows = append(lows, rec{fmt.Sprintf("m%d.svc.", i), 80, p, x})
						}
						high := rec{"a.svc.", 80, p + gap, hw}
						switch hk {
						case 1:
							high.Target = "z.svc."
						case 2:
							high.Target, high.Port = "m0.svc.", 79
						case 3:
							high.Target, high.Port = "m0.svc.", 81
						}
						g.resolveCase("http", append(append([]rec(nil), lows...), high), "tiers")
						g.resolveCase("http", append([]rec{high}, lows...), "tiers")
						nTiers += 2
					}
				}
			}
		}
	}
	// the same through the real subscriber: a drained primary tier next to a standby at full weight
	drained := []rec{{"primary-1.svc.", 8080, 10, 0}, {"primary-2.svc.", 8080, 10, 0}, {"backup-1.svc.", 9090, 11, 65535}}
	alive := []rec{{"primary-1.svc.", 8080, 10, 1}, {"primary-2.svc.", 8080, 10, 0}, {"backup-1.svc.", 9090, 11, 65535}}
	g.resolveCase("http", drained, "tiers")
	g.resolveCase("http", alive, "tiers")
	g.histCase("http", []event{okL(alive), rd, okL(drained), rd, okL(alive), rd}, "tiers")
	g.histCase("", []event{okL(drained), rd, badL(alive), rd, okL(two), rd, okL(drained), rd}, "tiers")

	// ---- 3. structured random ----
	for i := 0; i < 700*mult; i++ {
		g.compactCase(g.weights(g.size()), "random")
	}
	for i := 0; i < 4*mult; i++ {
		g.compactCase(g.weights(101+g.r.Intn(900)), "random-big")
	}
	schemes := []string{"http", "https", "h2c", "amqp+tls"}
	for i := 0; i < 900*mult; i++ {
		g.resolveCase(schemes[g.r.Intn(1+g.r.Intn(len(schemes)))], g.records(g.size()), "random")
	}
	for i := 0; i < 5*mult; i++ {
		g.resolveCase("http", g.bigRecords(101+g.r.Intn(900)), "random-big")
	}
	hs := []string{"http", "", "https", "ws"}
	for i := 0; i < 500*mult; i++ {
		g.histCase(hs[g.r.Intn(1+g.r.Intn(len(hs)))], g.history(12, false), "random")
	}
	for i := 0; i < 3*mult; i++ {
		g.histCase("http", g.history(6, true), "random-big")
	}

	// ---- 4. malformed stream ----
	for i := 0; i < 40*mult; i++ {
		rs := g.records(1 + g.r.Intn(4))
		for j := range rs {
			b := make([]byte, g.r.Intn(6))
			for k := range b {
				b[k] = byte(g.r.Intn(256))
				if b[k] == ':' {
					b[k] = '.'
				}
			}
			rs[j].Target = string(b)
		}
		g.resolveCase([]string{"http", "", "x y", "\x00"}[g.r.Intn(4)], rs, "malformed")
	}
	for i := 0; i < 30*mult; i++ {
		evs := g.history(8, false)
		for j := range evs {
			if evs[j].Kind == "lookup" && g.r.Chance(1, 3) {
				evs[j].Recs = nil
			}
		}
		g.histCase("", evs, "malformed")
	}

	// ---- 5. random priority tiers (last, so that the streams above keep their inputs) ----
	for i := 0; i < 150*mult; i++ {
		g.resolveCase("http", g.tiers(), "random-tiers")
	}
	for i := 0; i < 20*mult; i++ {
		g.histCase("http", []event{okL(g.tiers()), rd, okL(g.tiers()), rd}, "random-tiers")
	}

	// ---- 6. the shuffle of lists longer than 100 (sd.NewRandomFixedSubscriber), unit level ----
	for i, n := range []int{0, 1, 2, 3, 7, 100, 101, 102, 150, 257, 400} {
		hs := make([]string, n)
		for j := range hs {
			hs[j] = fmt.Sprintf("http://n%d.example.:80", j%(1+n*2/3)) // some hosts repeated
		}
		g.shuffleCase(hs, int64(cfg.Seed)*1000+int64(i))
	}
	for i := 0; i < 6*mult; i++ {
		n := 101 + g.r.Intn(150)
		hs := make([]string, n)
		for j := range hs {
			hs[j] = fmt.Sprintf("http://n%d.example.:80", g.r.Intn(n))
		}
		g.shuffleCase(hs, int64(g.r.Intn(1<<30)))
	}

	// ---- 7. successful refreshes that only redistribute the weights ----
	// the second answer has the same targets and expands to a list of the same length, only
	// the repeat counts differ (weights permuted among the records; for lists over 100 entries:
	// the same host strings carried by different numbers of records): the list must follow
	reb := func(scheme string, a, b []rec, stream string) {
		g.histCase(scheme, []event{okL(a), rd, okL(b), rd, badL(a), rd, okL(a), rd, okL(b), okL(a), okL(b), rd}, stream)
	}
	named := func(ws ...uint16) []rec {
		names := []string{"blue.svc.", "green.svc.", "red.svc.", "grey.svc."}
		rs := make([]rec, len(ws))
		for i, x := range ws {
			rs[i] = rec{names[i], 8080, 3, x}
		}
		return rs
	}
	for i, pr := range [][2][]uint16{
		{{90, 10}, {10, 90}}, {{60, 40}, {40, 60}}, {{1, 2, 3}, {3, 1, 2}}, {{50, 30, 20}, {20, 50, 30}},
		{{65535, 1, 30000}, {30000, 65535, 1}}, {{2, 1}, {1, 2}}, {{7, 7, 1, 1}, {1, 7, 1, 7}}, {{101, 0, 5}, {5, 0, 101}},
	} {
		reb([]string{"http", "", "https"}[i%3], named(pr[0]...), named(pr[1]...), "rebalance")
	}
	bigReb := func(shift int) []rec {
		var rs []rec
		for h := 0; h < 40; h++ {
			for k := 0; k < []int{5, 3, 1}[(h+shift)%3]; k++ {
				rs = append(rs, rec{fmt.Sprintf("n%d.svc.", h), 80, 0, 1})
			}
		}
		return rs
	}
	reb("http", bigReb(0), bigReb(1), "rebalance-big")
	for i := 0; i < 40*mult; i++ {
		a := g.records(2 + g.r.Intn(5))
		for j := range a {
			a[j].Target, a[j].Prio = fmt.Sprintf("t%d.svc.", j), 0
		}
		b := append([]rec(nil), a...)
		for j, k := range g.r.Perm(len(a)) {
			b[j].Weight = a[k].Weight
		}
		reb("http", a, b, "rebalance")
	}
	w.Meta["refresh_watchdog_timeouts"] = refreshTimeouts
	w.Meta["blocked_reads"] = blockedReads
	w.Close(fmt.Sprintf("corpus (30 weight vectors, 26 record sets incl. 100..1000 records, IPv6 and non-UTF-8 targets, 13 histories); exhaustive: compact/normalize/gcd on all vectors over {0,1,2,3,50,100,101,65535} of length 1..%d and resolve on all record lists of length 1..%d over priority {0,1} x weight {0,1,2,101,65534,65535} (3 records: {0,1,101,65535}) x target {a,b}; priority tiers at the boundaries: %d record sets (priority p / p+1 / p+2 for p in {0,7,65533}, lowest tier weights {0},{0,0},{0,1}, next tier weight 65535/65534/1/0 with its target sorting before / after / equal on another port, both input orders) and 2 histories with a drained lowest tier, plus random tiers (adjacent priorities, boundary weights); random: weight vectors (1..130, some 101..1000), record sets (duplicate targets, priorities 0..3 / 65535, ports 0..65535), histories of up to 14 events (successful / failing lookups with and without records, reads, callers scribbling over returned slices) through NewDetailedWithScheme with a scripted lookup; malformed: arbitrary byte targets, odd schemes, nil answers; rebalance: histories whose successive successful answers keep the targets and the list length and only redistribute the weights (blue/green 90/10 -> 10/90, permuted weights, a list over 100 entries with the duplicates moved); shuffle: sd.NewRandomFixedSubscriber on 0..400 hosts with the math/rand source seeded, compared element by element with the model applied to the rand.Perm result of the same seed. nontrivial = compact changes the weights / several priorities or weights / a failed refresh after a success or a scribble", maxLen, maxRec, nTiers), true)
}
