package main

import "net/url"

func mustURL(s string) *url.URL {
	u, err := url.Parse(s)
	if err != nil {
		panic(err)
	}
	return u
}
