// Which formatter NewEntityFormatter hands out: backends whose extra_config carries (or seems
// to carry) a flatmap_filter. Shapes that do not select the flatmap formatter must leave the
// allow/deny/mapping manipulation in place.
package main

import (
	"encoding/json"

	"github.com/luraproject/lura/v2/config"
	"github.com/luraproject/lura/v2/proxy"

	"verif/harness/internal/emit"
	"verif/harness/internal/out"
	"verif/harness/internal/rng"
)

type nsShape struct {
	present bool
	value   interface{} // the value under the proxy namespace
}

func (n nsShape) coq() string {
	if !n.present {
		return "None"
	}
	return emit.Some(emit.Json(n.value))
}

func runFormatX(ns nsShape, c fcfg, doc obj) (o obsv) {
	defer func() {
		if r := recover(); r != nil {
			o = obsv{panicked: true, msg: "panic: " + toString(r)}
		}
	}()
	var in obj
	if doc != nil {
		in = deepCopy(doc).(obj)
	}
	be := c.backend()
	if ns.present {
		be.ExtraConfig = config.ExtraConfig{proxy.Namespace: deepCopy(ns.value)}
	}
	return observed(proxy.NewEntityFormatter(be).Format(proxy.Response{Data: in, IsComplete: true}).Data)
}

func toString(v interface{}) string {
	b, err := json.Marshal(v)
	if err != nil {
		return "?"
	}
	return string(b)
}

func extraStream(w *out.Writer, r *rng.R, n int) {
	op := func(t interface{}, args ...interface{}) interface{} {
		m := obj{"args": append([]interface{}{}, args...)}
		if t != nil {
			m["type"] = t
		}
		return m
	}
	l := func(xs ...interface{}) []interface{} { return append([]interface{}{}, xs...) }
	shapes := []nsShape{
		{false, nil},
		{true, obj{}},
		{true, obj{"other": true}},
		{true, "not an object"},
		{true, l(op("del", "a"))},
		{true, obj{"flatmap_filter": obj{"type": "del"}}},
		{true, obj{"flatmap_filter": "del"}},
		{true, obj{"flatmap_filter": nil}},
		{true, obj{"flatmap_filter": l()}},
		{true, obj{"flatmap_filter": l("del", 1.0, nil, l(op("del", "a")))}},
		{true, obj{"flatmap_filter": l(op(nil, "a"))}},
		{true, obj{"flatmap_filter": l(op(7.0, "a"), op(true, "b"), obj{})}},
		{true, obj{"flatmap_filter": l(obj{"Type": "del", "args": l("a")})}},
		// these DO select the flatmap formatter (not judged)
		{true, obj{"flatmap_filter": l(op("del", "a"))}},
		{true, obj{"flatmap_filter": l("junk", op("move", "a", "b"))}},
		{true, obj{"flatmap_filter": l(obj{"type": "noop"})}},
	}
	num := func(s string) json.Number { return json.Number(s) }
	docs := []obj{
		{"a": num("1"), "b": obj{"c": num("2"), "d": nil}, "e": l(num("3"))},
		{"b": obj{"c": obj{"x": true}}, "secret": "s"},
	}
	cfgs := []fcfg{{Allow: []string{"b.c"}}, {Deny: []string{"a", "b.d"}}, {Target: "b", Mapping: map[string]string{"c": "C"}, Group: "g"}, {}}
	emitX := func(stream string, ns nsShape, c fcfg, doc obj) {
		ots := runs(func() obsv { return runFormatX(ns, c.targetOnly(), doc) })
		ofs := runs(func() obsv { return runFormatX(ns, c.filterOnly(), doc) })
		os := runs(func() obsv { return runFormatX(ns, c, doc) })
		stable := len(ots) == 1 && len(ofs) == 1 && len(os) == 1
		sig := ""
		if c.overlapping() {
			sig = sigOverlap
		}
		term := emit.App("CFmtX", ns.coq(), c.coq(), emit.Obj(doc), ots[0].coq(), ofs[0].coq(), os[0].coq(), emit.Bool(stable))
		js := obj{"level": "format", "stream": stream, "config": c.js(), "document": doc,
			"extra_config_proxy_namespace": obj{"present": ns.present, "value": ns.value},
			"observed":                     obj{"target_only": ots[0].js(), "target_filter": ofs[0].js(), "full": os[0].js()},
			"same_result_in_every_run":     stable}
		cb, _ := json.Marshal(obj{"c": c.js(), "d": doc, "ns": ns.value, "p": ns.present})
		w.Count("level:format")
		w.Count("stream:" + stream)
		w.Add(term, js, sig, "X|"+string(cb), true)
	}
	for _, ns := range shapes {
		for _, c := range cfgs {
			for _, d := range docs {
				emitX("extra-config-corpus", ns, c, d)
			}
		}
	}
	for i := 0; i < n; i++ {
		doc := genObj(r, 1+r.Intn(4), 1+r.Intn(4))
		ns := shapes[r.Intn(13)] // the shapes that leave the entity formatter in place
		if r.Chance(1, 4) {
			// a list of random junk without any usable operation
			var vs []interface{}
			for k := r.Intn(4); k > 0; k-- {
				switch r.Intn(4) {
				case 0:
					vs = append(vs, genVal(r, 0, 0))
				case 1:
					vs = append(vs, obj{"args": l("a", "b")})
				case 2:
					vs = append(vs, obj{"type": genVal(r, 0, 0)})
				default:
					vs = append(vs, l(op("del", "a")))
				}
			}
			for i, v := range vs { // json.Number is not what a configuration parser yields
				if m, ok := v.(obj); ok {
					if s, isStr := m["type"].(string); isStr {
						m["type"] = l(s)
					} else if jn, isN := m["type"].(json.Number); isN {
						f, _ := jn.Float64()
						m["type"] = f
					}
				} else if jn, isN := v.(json.Number); isN {
					f, _ := jn.Float64()
					vs[i] = f
				}
			}
			ns = nsShape{true, obj{"flatmap_filter": append([]interface{}{}, vs...)}}
		}
		emitX("extra-config-random", ns, genCfg(r, doc), doc)
	}
}
